#!/bin/sh
# usage: seed_sweep.sh "<seeds>" <Cnn>... — quick tier of each check at each seed, one line per run
SEEDS=$1; shift
for s in $SEEDS; do for c in "$@"; do
  R=$(VERIF_SWEEP=1 VERIF_SEED=$s ./check $c --tier quick 2>&1 | grep -E "^(VIOLATION|OK|CHECK-ERROR)" | head -2 | cut -c1-160 | tr '\n' ' ')
  echo "seed=$s $c: $R"
done; done
