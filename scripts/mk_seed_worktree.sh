#!/bin/sh
# usage: mk_seed_worktree.sh <name>  — scratch git worktree of /repo under /tmp/seed/<name>, configured and built
set -e
D=/tmp/seed/$1
mkdir -p /tmp/seed
git -C /repo worktree add -q --detach "$D" HEAD
cd "$D"
for f in configure Makefile.in aclocal.m4 build-aux m4; do cp -a /repo/$f . ; done
./configure >/dev/null 2>&1
make -j8 >/dev/null 2>&1
echo "$D ready"
