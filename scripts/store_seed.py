#!/usr/bin/env python3
"""store_seed.py <mutant-dir> <ID> <caught_by,comma|-> <missed_first 0|1> <change> <needs>  — copy a confirmed seeded change into seeded/<ID>/"""
import sys, os, shutil, json
src, sid, caught, missed, change, needs = sys.argv[1:7]
dst = "/verif/seeded/" + sid
os.makedirs(dst, exist_ok=True)
for f in os.listdir(src):
    p = os.path.join(src, f)
    if os.path.isfile(p) and os.path.getsize(p) < 400000 and not f.endswith((".bin", ".out", ".o")):
        shutil.copy(p, dst)
prop = sid.split("-")[0]
meta = {"id": sid, "property": prop, "change": change, "needs_to_manifest": needs,
        "origin": "fresh sub-agent given only the property text and a scratch worktree of /repo (/tmp/seed/%s)" % prop.lower(),
        "confirmed": {"how": "scripts/confirm_seed.sh in the scratch worktree", "builds": True, "yara_tests_passing_with_change": 16,
                      "demo_fails_with_change": True, "demo_passes_without": True},
        "checks_run": {"evaluation": "quick tier of the merged checks on a scratch copy of /repo with the patch applied (scripts/eval_seed.sh); re-run after strengthening",
                       "caught_by": [] if caught == "-" else caught.split(","), "missed_in_first_evaluation": missed == "1",
                       "other_checks_false_alarm": False}}
json.dump(meta, open(dst + "/meta.json", "w"), indent=1)
print("stored", dst, sorted(os.listdir(dst)))
