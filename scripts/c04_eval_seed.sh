#!/bin/sh
# usage: scripts/c04_eval_seed.sh <patch.diff> <name>  — like scripts/eval_seed.sh, but runs THIS worktree's ./check C04
P=$(realpath "$1"); N=$2
W=$(cd "$(dirname "$0")/.." && pwd)
D=/var/tmp/seedrepo-$N
rm -rf "$D"; mkdir -p "$D"
rsync -a --exclude '*.o' --exclude '*.lo' --exclude '.libs' /repo/ "$D/"
git -C "$D" apply "$P" || { echo "$N PATCH-DOES-NOT-APPLY"; rm -rf "$D"; exit 2; }
cd "$W"
VERIF_REPO=$D ./check C04 --tier quick 2>&1 | grep -E "^(VIOLATION|OK|CHECK-ERROR|NOTE)" | head -3 | cut -c1-160 | sed "s/^/$N C04: /"
H=$(echo -n "$D" | sha1sum | cut -c1-8)
rm -rf "$D" "$W"/.build/*-$H-* "$W"/.build/*-$H
python3 -c "from vf import core; core.run_translators(['vmops','precedence','readfn','opcodes','sizedstr','matchops'])" >/dev/null
