#!/bin/sh
# usage: eval_seed.sh <patch.diff> <name> <Cnn>...  — evaluate checks against a seeded change in a scratch COPY of /repo (parallel-safe)
P=$1; N=$2; shift; shift
D=/var/tmp/seedrepo-$N
rm -rf "$D"; mkdir -p "$D"
rsync -a --exclude '*.o' --exclude '*.lo' --exclude '.libs' /repo/ "$D/"
git -C "$D" apply "$P" || { echo "$N PATCH-DOES-NOT-APPLY"; rm -rf "$D"; exit 2; }
cd /work/c12b
for c in "$@"; do
  R=$(VERIF_REPO=$D ./check $c --tier quick 2>&1 | grep -E "^(VIOLATION|OK|CHECK-ERROR)" | head -1 | cut -c1-100)
  echo "$N $c: $R"
done
H=$(echo -n "$D" | sha1sum | cut -c1-8)
rm -rf "$D" /work/c12b/.build/*-$H-* /work/c12b/.build/*-$H
# leave the generated Lean definitions as /repo's (the runs above regenerated them from the scratch tree)
cd /work/c12b && python3 -c "from vf import core; core.run_translators(core.all_translators())"
