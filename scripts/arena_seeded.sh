#!/bin/bash
# Detection-power test of the arena checks (C08, C17, C19): applies one seeded edit at a time to a
# scratch copy of /repo under /var/tmp, runs the three quick checks against it and prints which ones
# raise an alarm.  Usage: scripts/arena_seeded.sh [edit-number ...]   (no argument = all)
# Not registered in MANIFEST; a development aid (guide rule 10).
cd "$(dirname "$0")/.."
S=/var/tmp/arena_seeded
EDITS=(
 "parser.c~      offsetof(YR_STRING, chained_to),~      /* seeded: chained_to not registered */~YR_STRING.chained_to not registered as relocatable"
 "compiler.c~        ext_ref.offset + offsetof(YR_EXTERNAL_VARIABLE, value.s),~        ext_ref.offset + offsetof(YR_EXTERNAL_VARIABLE, identifier),~string external value slot: wrong slot registered"
 "ahocorasick.c~        offsetof(YR_AC_MATCH, forward_code),~        /* seeded */~YR_AC_MATCH.forward_code not registered"
 "arena.c~        if ((uint8_t*) reloc_target >= b->data &&~        if ((uint8_t*) reloc_target > b->data &&~fix-up lower bound > instead of >="
 "arena.c~            (uint8_t*) reloc_target < b->data + b->used)~            (uint8_t*) reloc_target < b->data + b->used - 1)~fix-up upper bound one byte short"
 "arena.c~  if (hdr.num_buffers > YR_MAX_ARENA_BUFFERS)~  if (hdr.num_buffers > YR_MAX_ARENA_BUFFERS + 1)~loader: num_buffers limit off by one"
 "arena.c~  if (read != hdr.num_buffers)~  if (read == 0 && hdr.num_buffers != 0)~loader: short table read accepted"
 "arena.c~        reloc_ref.offset > b->used - sizeof(void*) ||~        reloc_ref.offset > b->used ||~loader: reloc bound without the 8"
 "arena.c~        (uint8_t*) address < arena->buffers[i].data + arena->buffers[i].used)~        (uint8_t*) address <= arena->buffers[i].data + arena->buffers[i].used)~ptr_to_ref upper bound <="
 "arena.c~    offset += buffer.size;~    offset += buffer.size + 1;~saver: table offsets wrong"
 "arena.c~    if (b->data != NULL && b->data != new_data)~    if (b->data != NULL && b->data != new_data && buffer_id != 5)~fix-up skipped for one buffer (sz pool)"
 "parser.c~  FAIL_ON_ERROR(yr_arena_allocate_struct(\n      compiler->arena,\n      YR_RULES_TABLE,~X~placeholder"
 "arena.c~  if (hdr.version != YR_ARENA_FILE_VERSION)~  if (hdr.version < YR_ARENA_FILE_VERSION)~loader: newer file versions accepted"
 "arena.c~    if (yr_stream_read(ptr, buffers[i].size, 1, stream) != 1)~    if (yr_stream_read(ptr, 1, buffers[i].size, stream) == 0)~loader: short body read accepted"
 "rules.c~  if (summary == NULL)~  if (0)~rules.c: missing summary not detected"
 "arena.c~  hdr.num_buffers = arena->num_buffers;~  hdr.num_buffers = arena->num_buffers; hdr.magic[3] = 'a';~saver writes wrong magic"
 "parser.c~        yyget_extra(yyscanner)->arena, YR_CODE_SECTION, ref.offset, EOL);~        yyget_extra(yyscanner)->arena, YR_CODE_SECTION, ref.offset + (ref.offset > 4000 ? 1 : 0), EOL);~code-section pointer operands registered at a wrong offset late in the code"
)
sel=("$@")
[ ${#sel[@]} -eq 0 ] && sel=($(seq 0 $((${#EDITS[@]}-1))))
for i in "${sel[@]}"; do
  IFS='~' read -r file from to what <<< "${EDITS[$i]}"
  [ "$what" = "placeholder" ] && continue
  rm -rf $S; mkdir -p $S; cp -a /repo $S/repo
  f=$S/repo/libyara/$file
  if ! python3 - "$f" "$from" "$to" <<'PY'
import sys
p, a, b = sys.argv[1:4]
s = open(p).read()
if s.count(a) != 1:
    sys.exit(1)
open(p, "w").write(s.replace(a, b))
PY
  then echo "edit $i ($what): PATTERN NOT FOUND OR NOT UNIQUE"; continue; fi
  rm -rf .build/asan-rec .build/plain
  res=""
  for c in C08 C17 C19; do
    out=$(VERIF_REPO=$S/repo ./check $c --tier quick 2>&1)
    rc=$?
    v=$(echo "$out" | grep -c "^VIOLATION")
    first=$(echo "$out" | grep "^VIOLATION" | head -1 | sed 's/.*replay=//')
    kind=""
    [ -n "$first" ] && [ -f "${first%% *}" ] && kind=$(python3 -c "import json,sys; print(json.load(open(sys.argv[1])).get('kind'))" "${first%% *}")
    res="$res $c:rc=$rc,viol=$v${kind:+($kind)}"
  done
  echo "edit $i ($what):$res"
done
rm -rf $S .build/asan-rec .build/plain
