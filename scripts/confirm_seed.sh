#!/bin/sh
# usage: confirm_seed.sh <worktree> <mutant-dir>
# Confirms in the scratch worktree: builds + 16/16 tests pass with the change, demo FAILS with it and PASSES without it.
WT=$1; M=$2
cd "$WT" || exit 2
run_demo() {
  if [ -f "$M/demo.sh" ]; then (cd "$WT" && sh "$M/demo.sh" >"$M/demo.out" 2>&1); return $?; fi
  gcc -I "$WT/libyara/include" "$M/demo.c" "$WT/.libs/libyara.a" -lcrypto -lm -lpthread -o "$M/demo.bin" 2>"$M/demo.out" || return 3
  (cd "$WT" && "$M/demo.bin" >>"$M/demo.out" 2>&1); return $?
}
git checkout -q -- . ; git apply "$M/patch.diff" || { echo "APPLY-FAILED"; exit 2; }
make -j8 >/dev/null 2>&1 || { echo "BUILD-FAILED"; git checkout -q -- .; exit 2; }
T=$(make -j8 check 2>&1 | grep -E "^# PASS:" | awk '{print $3}')
run_demo; D1=$?
git checkout -q -- . ; make -j8 >/dev/null 2>&1
run_demo; D0=$?
echo "tests_pass_with_change=$T demo_rc_with_change=$D1 demo_rc_clean=$D0"
[ "$T" = "16" ] && [ "$D1" != "0" ] && [ "$D0" = "0" ] && echo CONFIRMED || echo NOT-CONFIRMED
