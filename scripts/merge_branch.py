#!/usr/bin/env python3
"""merge_branch.py <branch> [Fold=Fnew ...] — merge a builder branch; known_findings.json is merged by renumbering ids"""
import sys, json, subprocess
br = sys.argv[1]
props = [a[6:].split(",") for a in sys.argv[2:] if a.startswith("props=")]
props = props[0] if props else None
ren = dict(a.split("=") for a in sys.argv[2:] if not a.startswith("props="))
ours = json.load(open("/verif/known_findings.json"))
r = subprocess.run(["git", "show", br + ":known_findings.json"], capture_output=True, text=True, cwd="/verif")
theirs = json.loads(r.stdout) if r.returncode == 0 else {"findings": [], "fixed": []}
m = subprocess.run(["git", "merge", "--no-commit", br], capture_output=True, text=True, cwd="/verif")
print(m.stdout[-1500:], m.stderr[-500:])
if props:
    # the branch owns these properties: its list replaces ours for them (entries it moved to "fixed" disappear)
    ours["findings"] = [g for g in ours["findings"] if g["property"] not in props]
for f in theirs.get("findings", []):
    if props and f["property"] not in props:
        continue
    f["id"] = ren.get(f["id"], f["id"])
    if not any(g["property"] == f["property"] and g["id"] == f["id"] and g.get("signature") == f.get("signature") for g in ours["findings"]):
        ours["findings"].append(f)
for f in theirs.get("fixed", []):
    if isinstance(f, dict):
        f = "fixed: property=%s %s %s" % (f.get("property"), f.get("commit", f.get("id", "")), f.get("text", json.dumps(f.get("signature", ""))))
    if f not in ours["fixed"]:
        ours["fixed"].append(f)
json.dump(ours, open("/verif/known_findings.json", "w"), indent=1)
subprocess.run(["git", "checkout", "--ours", "vf/build.py"], cwd="/verif")
# evidence files are rewritten by every run: never keep conflict markers, keep ours and re-run the checks afterwards
for f in subprocess.run(["git", "diff", "--name-only", "--diff-filter=U"], capture_output=True, text=True, cwd="/verif").stdout.split():
    if f.startswith("evidence/") or f == "harness/h_scan.c" or f == "AGENT_GUIDE.md":
        subprocess.run(["git", "checkout", "--ours", f], cwd="/verif")
subprocess.run(["git", "add", "-A"], cwd="/verif")
print(subprocess.run(["git", "status", "--short"], capture_output=True, text=True, cwd="/verif").stdout[:1500])
