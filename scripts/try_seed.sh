#!/bin/sh
# usage: try_seed.sh <patch.diff> <Cnn> [<Cnn>...] — apply a seeded change to /repo, run the quick checks, undo it straight afterwards
P=$1; shift
cd /verif
git -C /repo apply "$P" || { echo "PATCH DOES NOT APPLY"; exit 2; }
# make's rule: generated parsers are rebuilt when the .y/.l is newer; touching is not needed (mtime changes on apply)
for c in "$@"; do
  echo "== $c with $(basename $(dirname $P))"
  ./check $c --tier quick 2>&1 | grep -E "^(VIOLATION|OK|KNOWN|CHECK-ERROR)" | head -5
done
git -C /repo checkout -- .
git -C /repo status --short | head -3
