#!/usr/bin/env python3
"""seed_table.py — regenerate the table of DESIGN.md §9 from seeded/*/meta.json (between the markers <!-- seed-table --> … <!-- /seed-table -->)"""
import json, glob, os, re
rows = []
def key(p):
    m = re.match(r".*/(C\d+)-m(\d+)", p)
    return (m.group(1), int(m.group(2)))
for d in sorted(glob.glob("/verif/seeded/C*-m*"), key=key):
    m = json.load(open(d + "/meta.json"))
    c = m["checks_run"]
    caught = ", ".join(c.get("caught_by") or []) or "(none yet)"
    if c.get("caught_note"):
        caught += " — " + c["caught_note"]
    first = "missed → strengthened" if c.get("missed_in_first_evaluation") and c.get("caught_by") and not c.get("still_missed") else \
            ("**missed**" if not c.get("caught_by") or c.get("still_missed") else "caught")
    rows.append("| %s | %s | %s | %s | %s |" % (m["id"], m["change"], m.get("needs_to_manifest", ""), caught, first))
tab = "| seeded change | what it changes | needs | caught by | first try |\n|---|---|---|---|---|\n" + "\n".join(rows)
p = "/verif/DESIGN.md"
s = open(p).read()
a, b = "<!-- seed-table -->", "<!-- /seed-table -->"
if a in s:
    s = s[:s.index(a) + len(a)] + "\n" + tab + "\n" + s[s.index(b):]
else:
    i = s.index("| seeded change | what it changes")
    j = s.index("\n\n", i)
    s = s[:i] + a + "\n" + tab + "\n" + b + s[j:]
open(p, "w").write(s)
print(len(rows), "rows")
