#!/usr/bin/env python3
"""seed_caught.py <ID> <Cnn,Cnn> — record that a stored seeded change is now caught by these checks (after strengthening)"""
import sys, json
p = "/verif/seeded/%s/meta.json" % sys.argv[1]
m = json.load(open(p))
c = m["checks_run"]
for x in sys.argv[2].split(","):
    if x not in c["caught_by"]:
        c["caught_by"].append(x)
c.pop("still_missed", None)
json.dump(m, open(p, "w"), indent=1)
print(sys.argv[1], c["caught_by"], "missed-first" if c.get("missed_in_first_evaluation") else "")
