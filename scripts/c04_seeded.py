#!/usr/bin/env python3
"""Detection test for C04 (guide rule 10): apply one seeded edit at a time to a scratch copy of /repo under
/var/tmp, run `VERIF_REPO=<copy> ./check C04 --tier quick`, report whether the check alarms, clean up.
usage: scripts/c04_seeded.py [name ...]"""
import os, sys, shutil, subprocess, re

VERIF = os.path.dirname(os.path.dirname(os.path.abspath(__file__)))
COPY = "/var/tmp/c04_repo_copy"

# name -> (file, old, new, occurrence index or None for unique)
EDITS = {
    "found_in_upper_exclusive": ("libyara/exec.c", "match->base + match->offset <= r2.i)\n        {\n          r4.i = true;", "match->base + match->offset < r2.i)\n        {\n          r4.i = true;", None),
    "offset_index_off_by_one": ("libyara/exec.c", "      i = 1;\n      r3.i = YR_UNDEFINED;\n\n      while (match != NULL && r3.i == YR_UNDEFINED)\n      {\n        if (r1.i == i)\n          r3.i = match->base + match->offset;",
                                "      i = 0;\n      r3.i = YR_UNDEFINED;\n\n      while (match != NULL && r3.i == YR_UNDEFINED)\n      {\n        if (r1.i == i)\n          r3.i = match->base + match->offset;", None),
    "none_of_as_not_all": ("libyara/exec.c", "        else if (r2.i == 0)\n        {\n          r1.i = found == 0 ? 1 : 0;\n        }\n        // In all other cases the number of strings matching should be at\n",
                           "        else if (r2.i == 0)\n        {\n          r1.i = found < count ? 1 : 0;\n        }\n        // In all other cases the number of strings matching should be at\n", None),
    "prec_or_and_swapped": ("libyara/grammar.y", "%left '|'\n%left '^'\n%left '&'\n", "%left '&'\n%left '^'\n%left '|'\n", None),
    "count_in_upper_exclusive": ("libyara/exec.c", "match->base + match->offset <= r2.i)\n        {\n          r4.i++;", "match->base + match->offset < r2.i)\n        {\n          r4.i++;", None),
    "empty_loop_all_true": ("libyara/exec.c", "      if (r4.i == 0)\n      {\n        r1.i = 0;\n      }", "      if (r4.i == 0)\n      {\n        r1.i = is_undef(r2) ? 1 : 0;\n      }", None),
    "percent_strict": ("libyara/exec.c", "r1.i = (((int64_t) found * 100) / count) >= r2.i ? 1 : 0;", "r1.i = (((int64_t) found * 100) / count) > r2.i ? 1 : 0;", None),
    "percent_double_again": ("libyara/exec.c", "r1.i = (((int64_t) found * 100) / count) >= r2.i ? 1 : 0;", "r1.i = (((double) found / count) * 100) >= r2.i ? 1 : 0;", None),
    "percent_ceil": ("libyara/exec.c", "r1.i = (((int64_t) found * 100) / count) >= r2.i ? 1 : 0;", "r1.i = (((int64_t) found * 100 + count - 1) / count) >= r2.i ? 1 : 0;", None),
    "found_at_ge": ("libyara/exec.c", "        if (r1.i == match->base + match->offset)\n        {\n          r3.i = true;", "        if (r1.i <= match->base + match->offset)\n        {\n          r3.i = true;", None),
    "and_undef_true": ("libyara/exec.c", "      if (is_undef(r2))\n        r2.i = 0;\n\n      r1.i = r1.i && r2.i;", "      if (is_undef(r2))\n        r2.i = 1;\n\n      r1.i = r1.i && r2.i;", None),
    "int_le_as_lt": ("libyara/exec.c", "r1.i = r1.i <= r2.i;", "r1.i = r1.i < r2.i;", None),
    "reader_bound": ("libyara/exec.c", "offset <= block->base + block->size - sizeof(type))", "offset < block->base + block->size - sizeof(type))", None),
    "shr_64": ("libyara/exec.c", "      else if (r2.i < 64)\n        r1.i = r1.i >> r2.i;", "      else if (r2.i <= 64)\n        r1.i = r1.i >> r2.i;", None),
    "of_found_at_ge": ("libyara/exec.c", "          if (match->base + match->offset == r2.i)\n          {\n            found++;", "          if (match->base + match->offset >= r2.i)\n          {\n            found++;", None),
    "length_returns_offset": ("libyara/exec.c", "          r3.i = match->match_length;", "          r3.i = match->base + match->offset;", None),
    "range_last_exclusive": ("libyara/exec.c", "      self->int_range_it.next <= self->int_range_it.last)", "      self->int_range_it.next < self->int_range_it.last)", None),
    "iter_condition_none": ("libyara/exec.c", "        r1.i = r4.i != 1 ? 1 : 0;", "        r1.i = r4.i != 0 ? 1 : 0;", None),
    "iter_end_atleast_strict": ("libyara/exec.c", "        r1.i = r3.i >= r2.i ? 1 : 0;\n      }\n\n      push(r1);\n      break;\n\n    case OP_PUSH:", "        r1.i = r3.i > r2.i ? 1 : 0;\n      }\n\n      push(r1);\n      break;\n\n    case OP_PUSH:", None),
    "icontains_off_by_one": ("libyara/sizedstr.c", "for (uint32_t i = 0; i < s1->length - s2->length + 1; i++)", "for (uint32_t i = 0; i < s1->length - s2->length; i++)", None),
    "endswith_offset": ("libyara/sizedstr.c", "    if (s1->c_string[s1->length - s2->length + i] != s2->c_string[i])", "    if (s1->c_string[s1->length - s2->length + i - (i > 0)] != s2->c_string[i])", None),
    "not_of_undef_false": ("libyara/exec.c", "      if (is_undef(r1))\n        r1.i = YR_UNDEFINED;\n      else\n        r1.i = !r1.i;", "      if (is_undef(r1))\n        r1.i = 1;\n      else\n        r1.i = !r1.i;", None),
    "any_pushes_2": ("libyara/grammar.y", "    | _ANY_\n      {\n        yr_parser_emit_push_const(yyscanner, 1);", "    | _ANY_\n      {\n        yr_parser_emit_push_const(yyscanner, 2);", None),
    "or_fixup_skips_too_far": ("libyara/grammar.y", "        fail_if_error(yr_parser_emit(yyscanner, OP_OR, NULL));\n\n        fixup = compiler->fixup_stack_head;\n\n        int32_t jmp_offset = \\\n            yr_arena_get_current_offset(compiler->arena, YR_CODE_SECTION) -\n            fixup->ref.offset + 1;",
                               "        fixup = compiler->fixup_stack_head;\n\n        int32_t jmp_offset = \\\n            yr_arena_get_current_offset(compiler->arena, YR_CODE_SECTION) -\n            fixup->ref.offset + 1;\n\n        fail_if_error(yr_parser_emit(yyscanner, OP_OR, NULL));", None),
    "loop_var_frame": ("libyara/parser.c", "        return var_offset + j;", "        return var_offset + j - (i > 1 ? 1 : 0);", None),
    "mod_divisor_guard": ("libyara/exec.c", "      if (r2.i == 0 || (r1.i == INT64_MIN && r2.i == -1))\n        r1.i = YR_UNDEFINED;\n      else\n        r1.i = r1.i % r2.i;", "      if (r2.i == 0 || (r1.i == INT64_MIN && r2.i == -1))\n        r1.i = 0;\n      else\n        r1.i = r1.i % r2.i;", None),
    "uint16be_as_le": ("libyara/exec.c", "#define big_endian_uint16_t(x) yr_be16toh(x)", "#define big_endian_uint16_t(x) yr_le16toh(x)", None),
    "int8_unsigned": ("libyara/exec.c", "function_read(int8_t, little_endian);", "int64_t read_int8_t_little_endian(YR_MEMORY_BLOCK_ITERATOR* it, size_t off) { return read_uint8_t_little_endian(it, off); }", None),
    "str_lt_as_le": ("libyara/exec.c", "r1.i = (ss_compare(r1.ss, r2.ss) < 0);", "r1.i = (ss_compare(r1.ss, r2.ss) <= 0);", None),
    "of_in_lower_exclusive": ("libyara/exec.c", "          if (match->base + match->offset >= r1.i &&\n              match->base + match->offset <= r2.i)\n          {\n            found++;", "          if (match->base + match->offset > r1.i &&\n              match->base + match->offset <= r2.i)\n          {\n            found++;", None),
    "dbl_eq_exact": ("libyara/exec.c", "r1.i = fabs(r1.d - r2.d) < DBL_EPSILON;", "r1.i = fabs(r1.d - r2.d) < 1.0;", None),
    "push_rule_negated": ("libyara/exec.c", "        if (yr_bitmask_is_set(context->rule_matches_flags, r1.i))\n          r2.i = 1;\n        else\n          r2.i = 0;", "        if (yr_bitmask_is_set(context->rule_matches_flags, r1.i))\n          r2.i = 1;\n        else\n          r2.i = (r1.i == 2);", None),
    # ---- second batch: the classes of the independently seeded misses C04-m1 / C04-m2, and the object / module opcodes
    "length_data_length": ("libyara/exec.c", "          r3.i = match->match_length;", "          r3.i = match->data_length;", None),
    "startswith_strncmp": ("libyara/sizedstr.c", "  for (uint32_t i = 0; i < s2->length; i++)\n  {\n    if (s1->c_string[i] != s2->c_string[i])\n      return false;\n  }\n\n  return true;",
                           "  return strncmp(s1->c_string, s2->c_string, s2->length) == 0;", None),
    "contains_strstr": ("libyara/sizedstr.c", "  return memmem(s1->c_string, s1->length, s2->c_string, s2->length) != NULL;", "  return strstr(s1->c_string, s2->c_string) != NULL;", None),
    "compare_memcmp_minlen": ("libyara/sizedstr.c", "  if (i == s1->length && i == s2->length)\n    return 0;\n  else if (i == s1->length)\n    return -1;\n  else if (i == s2->length)\n    return 1;\n  else if ((uint8_t) s1->c_string[i] < (uint8_t) s2->c_string[i])\n    return -1;\n  else\n    return 1;\n}\n\n////////////////////////////////////////////////////////////////////////////////\n// ss_icompare",
                              "  if (i == s1->length || i == s2->length)\n    return 0;\n  else if ((uint8_t) s1->c_string[i] < (uint8_t) s2->c_string[i])\n    return -1;\n  else\n    return 1;\n}\n\n////////////////////////////////////////////////////////////////////////////////\n// ss_icompare", None),
    "compare_signed_again": ("libyara/sizedstr.c", "  else if ((uint8_t) s1->c_string[i] < (uint8_t) s2->c_string[i])", "  else if (s1->c_string[i] < s2->c_string[i])", None),
    "icompare_strcasecmp": ("libyara/sizedstr.c", "  while (s1->length > i && s2->length > i &&\n         yr_lowercase[(uint8_t) s1->c_string[i]] ==\n             yr_lowercase[(uint8_t) s2->c_string[i]])\n  {\n    i++;\n  }\n",
                            "  if (strcasecmp(s1->c_string, s2->c_string) == 0) return 0;\n  while (s1->length > i && s2->length > i &&\n         yr_lowercase[(uint8_t) s1->c_string[i]] ==\n             yr_lowercase[(uint8_t) s2->c_string[i]])\n  {\n    i++;\n  }\n", None),
    "iendswith_signed_index": ("libyara/sizedstr.c", "    if (yr_lowercase[(uint8_t) s1->c_string[s1->length - s2->length + i]] !=\n        yr_lowercase[(uint8_t) s2->c_string[i]])",
                               "    if (yr_lowercase[(uint8_t) s1->c_string[s1->length - s2->length + i]] !=\n        yr_lowercase[(uint8_t) s2->c_string[i] & 0x7f])", None),
    "istartswith_len_guard": ("libyara/sizedstr.c", "bool ss_istartswith(SIZED_STRING* s1, SIZED_STRING* s2)\n{\n  if (s1->length < s2->length)\n    return false;", "bool ss_istartswith(SIZED_STRING* s1, SIZED_STRING* s2)\n{\n  if (s1->length <= s2->length)\n    return false;", None),
    "offset_int_index": ("libyara/exec.c", "        if (r1.i == i)\n          r3.i = match->base + match->offset;", "        if ((int) r1.i == i)\n          r3.i = match->base + match->offset;", None),
    "count_in_break_ge": ("libyara/exec.c", "          r4.i++;\n        }\n\n        if (match->base + match->offset > r2.i)\n          break;", "          r4.i++;\n        }\n\n        if (match->base + match->offset >= r2.i)\n          break;", None),
    "found_at_no_base": ("libyara/exec.c", "        if (r1.i == match->base + match->offset)\n        {\n          r3.i = true;", "        if (r1.i == match->offset)\n        {\n          r3.i = true;", None),
    "index_array_off_by_one": ("libyara/exec.c", "      r1.o = yr_object_array_get_item(r2.o, 0, (int) r1.i);", "      r1.o = yr_object_array_get_item(r2.o, 0, (int) r1.i + (r1.i > 1));", None),
    "lookup_dict_undef_key": ("libyara/exec.c", "      pop(r1);  // key\n      pop(r2);  // dictionary\n\n      ensure_defined(r1);", "      pop(r1);  // key\n      pop(r2);  // dictionary\n\n      if (is_undef(r1)) r1.ss = NULL;", None),
    "str_to_bool_nonempty": ("libyara/exec.c", "      r1.i = r1.ss->length > 0;", "      r1.i = r1.ss->length >= 0;", None),
    "of_percent_undef_q": ("libyara/exec.c", "r1.i = (((int64_t) found * 100) / count) >= r2.i ? 1 : 0;", "r1.i = (((int64_t) found * 100) / count) >= (r2.i & 0xff) ? 1 : 0;", None),
    "matches_nocase_lost": ("libyara/exec.c", "          r2.re->flags | RE_FLAGS_SCAN,", "          RE_FLAGS_SCAN,", None),
    "iter_array_skips_last": ("libyara/exec.c", "  if (self->array_it.index >= yr_object_array_length(self->array_it.array))", "  if (self->array_it.index + 1 >= yr_object_array_length(self->array_it.array))", None),
    "entrypoint_zero": ("libyara/exec.c", "      r1.i = context->entry_point;", "      r1.i = context->entry_point == YR_UNDEFINED ? 0 : context->entry_point;", None),
    "length_first_match_only": ("libyara/exec.c", "      i = 1;\n      r3.i = YR_UNDEFINED;\n\n      while (match != NULL && r3.i == YR_UNDEFINED)\n      {\n        if (r1.i == i)\n          r3.i = match->match_length;",
                                "      i = 1;\n      r3.i = YR_UNDEFINED;\n\n      while (match != NULL && r3.i == YR_UNDEFINED)\n      {\n        if (r1.i >= i)\n          r3.i = match->match_length;", None),
    # ---- third batch: disabled rules (F68) and changes of the code generator that keep the verdicts (the tie must notice them)
    "f68_reverted_parser": ("libyara/parser.c", "        FAIL_ON_ERROR(yr_parser_emit_push_const(yyscanner, 0));\n        FAIL_ON_ERROR(yr_parser_emit(yyscanner, OP_OR, NULL));\n", "", None),
    "f68_reverted_grammar": ("libyara/grammar.y", "          if (result == ERROR_SUCCESS)\n            result = yr_parser_emit_push_const(yyscanner, 0);\n\n          if (result == ERROR_SUCCESS)\n            result = yr_parser_emit(yyscanner, OP_OR, NULL);\n", "", None),
    "codegen_double_or": ("libyara/parser.c", "        FAIL_ON_ERROR(yr_parser_emit(yyscanner, OP_OR, NULL));\n        matching++;", "        FAIL_ON_ERROR(yr_parser_emit(yyscanner, OP_OR, NULL));\n        FAIL_ON_ERROR(yr_parser_emit_push_const(yyscanner, 0));\n        FAIL_ON_ERROR(yr_parser_emit(yyscanner, OP_OR, NULL));\n        matching++;", None),
    "push_rule_disabled_false": ("libyara/exec.c", "      if (RULE_IS_DISABLED(rule))\n      {\n        r2.i = YR_UNDEFINED;", "      if (RULE_IS_DISABLED(rule))\n      {\n        r2.i = 0;", None),
    "disabled_rule_evaluated": ("libyara/exec.c", "      bool skip_rule = RULE_IS_DISABLED(current_rule);", "      bool skip_rule = false;", None),
    # ---- fourth batch: doubles (promotion placement, opcode family, double primitives)
    "int_to_dbl_swapped": ("libyara/parser.c", "          (left_operand.type == EXPRESSION_TYPE_INTEGER) ? 2 : 1,", "          (left_operand.type == EXPRESSION_TYPE_INTEGER) ? 1 : 2,", None),
    "int_to_dbl_undef_lost": ("libyara/exec.c", "      if (is_undef(r2))\n        stack.items[stack.sp - r1.i].i = YR_UNDEFINED;\n      else\n        stack.items[stack.sp - r1.i].d = (double) r2.i;", "      stack.items[stack.sp - r1.i].d = (double) r2.i;", None),
    "dbl_sub_swapped": ("libyara/exec.c", "      r1.d = r1.d - r2.d;", "      r1.d = r2.d - r1.d;", None),
}


def clean_build():
    """object directories of the scratch copy (vf/build.py keys them by the hash of the repository path)"""
    import hashlib, glob
    h = hashlib.sha1(os.path.realpath(COPY).encode()).hexdigest()[:8]
    for d in glob.glob(os.path.join(VERIF, ".build", "*-%s*" % h)):
        shutil.rmtree(d, ignore_errors=True)


def main():
    names = sys.argv[1:] or list(EDITS)
    results = {}
    for name in names:
        f, old, new, _ = EDITS[name]
        if os.path.exists(COPY):
            shutil.rmtree(COPY)
        subprocess.run(["cp", "-a", "/repo", COPY], check=True)
        p = os.path.join(COPY, f)
        s = open(p).read()
        if s.count(old) != 1:
            results[name] = "EDIT-NOT-APPLICABLE (%d occurrences)" % s.count(old)
            print(name, results[name]); continue
        open(p, "w").write(s.replace(old, new))
        os.utime(p, None)
        clean_build()
        env = dict(os.environ, VERIF_REPO=COPY)
        r = subprocess.run(["./check", "C04", "--tier", "quick"], cwd=VERIF, env=env, stdout=subprocess.PIPE, stderr=subprocess.STDOUT, text=True)
        lines = [l for l in r.stdout.splitlines() if l.startswith(("VIOLATION", "OK", "CHECK-ERROR"))]
        results[name] = "CAUGHT rc=%d (%s)" % (r.returncode, lines[0][:100] if lines else "?") if r.returncode == 1 else "MISSED rc=%d %s" % (r.returncode, lines[:1])
        print(name, results[name], flush=True)
    shutil.rmtree(COPY, ignore_errors=True)
    clean_build()
    # restore generated Lean files from the real repo
    subprocess.run(["python3", "-c", "from vf import core; core.run_translators(['vmops','precedence','readfn','opcodes','sizedstr','matchops'])"], cwd=VERIF)
    print("summary:", sum(1 for v in results.values() if v.startswith("CAUGHT")), "caught of", len(results))


if __name__ == "__main__":
    main()
