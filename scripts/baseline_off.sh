#!/bin/sh
# Runs the repository's own test suite with the YARA_VERIF guard OFF, in a scratch copy outside /repo and /verif.
set -e
D=$(mktemp -d /var/tmp/yara-baseline.XXXXXX)
trap 'rm -rf "$D"' EXIT
rsync -a --exclude .git /repo/ "$D/"
cd "$D"
# object files of the copy are rebuilt from the copied sources (guard off: no -DYARA_VERIF anywhere in the repo's own build)
find . -name '*.o' -o -name '*.lo' -o -name '*.la' -o -name '*.a' | xargs rm -f
if [ ! -f Makefile ]; then ./bootstrap.sh >/dev/null 2>&1 || true; ./configure >/dev/null; fi
make -j16 >/dev/null 2>&1 || make
make -j8 check 2>&1 | grep -E '^(PASS|FAIL|ERROR|XFAIL|XPASS|SKIP|# )' 
