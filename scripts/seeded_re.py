#!/usr/bin/env python3
"""Seeded-bug campaign for C02/C03 (guide rule 10).  Usage: scripts/seeded_re.py <scratch repo copy> <worktree copy> [names...]
Each mutant is one textual edit of the scratch copy of /repo (never /repo itself); both checks are run against it."""
import sys, os, subprocess, json, time

MUTANTS = [
    # name, file, old, new, property expected to alarm
    ("emit_range_max_off_by_one", "libyara/re.c", "      if (emit_split)\n      {\n        repeat_args.max--;\n      }", "      if (emit_split)\n      {\n      }", "C03"),
    ("nibble_mask_low", "libyara/hex_lexer.l", "yylval->integer = xtoi(yytext) | 0x0F00 ;", "yylval->integer = xtoi(yytext) | 0x0E00 ;", "C02"),
    ("masked_not_ignores_mask_fast", "libyara/re.c", "        if ((*current->input & mask) != value)\n        {\n          match = true;", "        if ((*current->input) != value)\n        {\n          match = true;", "C02"),
    ("masked_not_ignores_mask_vm", "libyara/re.c", "        match = ((*input & mask) != value);", "        match = ((*input) != value);", "C02"),
    ("jump_upper_exclusive_fast", "libyara/re.c", "for (int j = repeat_any_args->min + 1; j <= repeat_any_args->max; j++)", "for (int j = repeat_any_args->min + 1; j < repeat_any_args->max; j++)", "C02"),
    ("jump_upper_exclusive_vm", "libyara/re.c", "      else if (fiber->rc < repeat_any_args->max)", "      else if (fiber->rc < repeat_any_args->max - 1)", "C02"),
    ("chain_gap_max_wrong_piece", "libyara/parser.c", "new_string->chain_gap_max = prev_max_gap;", "new_string->chain_gap_max = max_gap;", "C02"),
    ("chain_gap_min_exclusive", "libyara/scan.c", "          ending_offset + matching_string->chain_gap_min <= match_offset)\n      {\n        // If the distance", "          ending_offset + matching_string->chain_gap_min < match_offset)\n      {\n        // If the distance", "C02"),
    ("non_word_boundary_at_end", "libyara/re.c", "        if (input + character_size <= input_data + input_forwards_size &&\n            input >= input_data - input_backwards_size)", "        if (input + character_size < input_data + input_forwards_size &&\n            input >= input_data - input_backwards_size)", "C03"),
    ("nocase_class", "libyara/re.c", "  if (case_insensitive)\n    result |= CHAR_IN_CLASS(re_class->bitmap, yr_altercase[chr]);", "  if (case_insensitive && chr > 'Z')\n    result |= CHAR_IN_CLASS(re_class->bitmap, yr_altercase[chr]);", "C03"),
    ("lazy_as_greedy_backward", "libyara/re.c", "        re_node->greedy ? RE_OPCODE_SPLIT_A : RE_OPCODE_SPLIT_B,\n        0,\n        &instruction_ref,\n        &split_offset_ref));\n\n    FAIL_ON_ERROR(\n        _yr_re_emit(emit_context, re_node->children_head, flags, NULL));\n\n    bookmark_1",
     "        (re_node->greedy || (flags & EMIT_BACKWARDS)) ? RE_OPCODE_SPLIT_A : RE_OPCODE_SPLIT_B,\n        0,\n        &instruction_ref,\n        &split_offset_ref));\n\n    FAIL_ON_ERROR(\n        _yr_re_emit(emit_context, re_node->children_head, flags, NULL));\n\n    bookmark_1", "-"),
    ("fast_lookahead_wrong", "libyara/re.c", "          if (*(next_opcode) == RE_OPCODE_LITERAL &&\n              *(next_opcode + 1) != *next_input)", "          if (*(next_opcode + 1) != *next_input)", "C02"),
    ("dedup_ignores_stack", "libyara/re.c", "        if (fiber->stack[i] != target_fiber->stack[i])", "        if (0 && fiber->stack[i] != target_fiber->stack[i])", "C03"),
    ("atoms_trim_shift", "libyara/atoms.c", "  if (trim_left == 0)\n    return 0;\n\n  // Shift bytes", "  if (trim_left <= 1)\n    return 0;\n\n  // Shift bytes", "C02"),
    ("wide_high_byte_unchecked", "libyara/re.c", "        (character_size == 2 && *(input + 1) != 0)) \\", "        (character_size == 3 && *(input + 1) != 0)) \\", "C03"),
    ("scan_mode_last_start", "libyara/re.c", "    if (flags & RE_FLAGS_SCAN && bytes_matched <= max_bytes_matched)", "    if (flags & RE_FLAGS_SCAN && bytes_matched + 1 < max_bytes_matched)", "C03"),
    ("class_D_bitmap", "libyara/re_lexer.l", "      LEX_ENV->re_class.bitmap[i] |= 0xFC;", "      LEX_ENV->re_class.bitmap[i] |= 0xFE;", "C03"),
    ("hex_jump_end_minus_one", "libyara/hex_grammar.y", "        $$->start = (int) $2;\n        $$->end = (int) $4;", "        $$->start = (int) $2;\n        $$->end = (int) $4 - ($4 > 3 ? 1 : 0);", "C02"),
    ("split_a_b_swapped_plus", "libyara/re.c", "        re_node->greedy ? RE_OPCODE_SPLIT_B : RE_OPCODE_SPLIT_A,\n        jmp_offset,", "        re_node->greedy ? RE_OPCODE_SPLIT_A : RE_OPCODE_SPLIT_B,\n        jmp_offset,", "-"),
    ("repeat_end_min_off", "libyara/re.c", "      if (fiber->stack[fiber->sp] < repeat_args->min)\n      {\n        fiber->ip += repeat_args->offset;", "      if (fiber->stack[fiber->sp] <= repeat_args->min)\n      {\n        fiber->ip += repeat_args->offset;", "C03"),
    ("chain_tail_length", "libyara/scan.c", "          match->match_length = (int32_t) (match_offset - match->offset +\n                                           match_length);", "          match->match_length = (int32_t) (match_offset - match->offset);", "C02"),
    ("fullword_after_wide", "libyara/scan.c", "      if (match_offset + match_length + 1 < callback_args->data_size &&\n          *(match_data + match_length + 1) == 0 &&", "      if (match_offset + match_length + 2 < callback_args->data_size &&\n          *(match_data + match_length + 1) == 0 &&", "C03"),
    ("literal_nocase_table", "libyara/re.c", "          match = yr_lowercase[*input] == yr_lowercase[*(ip + 1)];", "          match = yr_lowercase[*input] == *(ip + 1);", "C03"),
    ("atoms_choose_ignores_shift", "libyara/atoms.c", "      item->forward_code_ref = node->re_nodes[shift]->forward_code_ref;", "      item->forward_code_ref = node->re_nodes[0]->forward_code_ref;", "C02"),
    ("hex_not_byte_lexer", "libyara/hex_lexer.l", "\\~\\?{hexdigit}  {\n\n  yytext[1] = '0'; // replace ? by 0\n  yylval->integer = xtoi(&(yytext[1])) | 0x0F00 ;", "\\~\\?{hexdigit}  {\n\n  yytext[1] = '0'; // replace ? by 0\n  yylval->integer = xtoi(&(yytext[1])) | 0xF000 ;", "C02"),
    ("chain_prune_too_eager", "libyara/scan.c", "      if (ending_offset + matching_string->chain_gap_max + YR_RE_SCAN_LIMIT +\n              YR_MAX_ATOM_LENGTH <\n          lowest_offset)", "      if (ending_offset + matching_string->chain_gap_max + YR_MAX_ATOM_LENGTH <\n          lowest_offset)", "C02"),
    ("update_chain_len_gap", "libyara/scan.c", "    if (ending_offset + string->chain_gap_max >= match_to_update->offset &&\n        ending_offset + string->chain_gap_min <= match_to_update->offset)", "    if (ending_offset + string->chain_gap_max > match_to_update->offset &&\n        ending_offset + string->chain_gap_min <= match_to_update->offset)", "C02"),
    ("re_range_any_min", "libyara/re.c", "      if (fiber->rc < repeat_any_args->min)\n      {", "      if (fiber->rc + 1 < repeat_any_args->min)\n      {", "C02"),
    ("fast_backward_start", "libyara/re.c", "  if (flags & RE_FLAGS_BACKWARDS)\n    first->input--;", "  if (flags & RE_FLAGS_BACKWARDS)\n    first->input -= (input_backwards_size > 3 ? 1 : 0) + (input_backwards_size == 7);", "C02"),
    ("word_char_underscore", "libyara/re.c", "  int result = ((yr_isalnum(input) || (*input) == '_'));", "  int result = ((yr_isalnum(input) || (*input) == '-'));", "C03"),
    ("space_class_vt", "libyara/re.c", "        case '\\v':\n        case '\\f':\n          match = true;", "        case '\\f':\n          match = true;", "C03"),
    ("re_lexer_range_hi", "libyara/re_lexer.l", "  yylval->range = (hi_bound << 16) | lo_bound;", "  yylval->range = ((hi_bound > 4 ? hi_bound - 1 : hi_bound) << 16) | lo_bound;", "C03"),
    ("alt_jump_offset", "libyara/re.c", "    jmp_offset = (int16_t) (bookmark_1 - jmp_instruction_ref.offset);\n\n    // Update offset for jmp instruction.", "    jmp_offset = (int16_t) (bookmark_1 - jmp_instruction_ref.offset);\n    if (flags & EMIT_BACKWARDS) jmp_offset += 0; else if (jmp_offset > 12) jmp_offset -= 2;\n\n    // Update offset for jmp instruction.", "C03"),
    ("verify_forward_size", "libyara/scan.c", "        data + offset,\n        data_size - offset,\n        offset,\n        flags,\n        NULL,\n        NULL,\n        &callback_args.forward_matches));\n\n    if (callback_args.forward_matches != -1 && ac_match->backward_code != NULL)\n    {\n      FAIL_ON_ERROR(exec(\n          context,\n          ac_match->backward_code,\n          data + offset,\n          data_size - offset,\n          offset,\n          flags | RE_FLAGS_BACKWARDS | RE_FLAGS_EXHAUSTIVE,",
     "        data + offset,\n        data_size - offset - (data_size - offset > 9 ? 1 : 0),\n        offset,\n        flags,\n        NULL,\n        NULL,\n        &callback_args.forward_matches));\n\n    if (callback_args.forward_matches != -1 && ac_match->backward_code != NULL)\n    {\n      FAIL_ON_ERROR(exec(\n          context,\n          ac_match->backward_code,\n          data + offset,\n          data_size - offset,\n          offset,\n          flags | RE_FLAGS_BACKWARDS | RE_FLAGS_EXHAUSTIVE,", "C02"),
    # revert-the-fix mutants: the five fixes of the findings of these checks, each reverted alone (file = REVERT, old = commit)
    ("revert_chain_prune_window", "REVERT", "81c4ffe", "", "C02"),
    ("revert_wide_fullword_flag", "REVERT", "4ff4235", "", "C03"),
    ("revert_scan_mode_le", "REVERT", "eeb23a8", "", "C03"),
    ("revert_continue_reread", "REVERT", "b5b43d7", "", "C03"),
    ("revert_plus_backjump", "REVERT", "52e6c09", "", "C03"),
    ("anchor_start_backward", "libyara/re.c", "          kill = input_backwards_size > (size_t) bytes_matched;", "          kill = input_backwards_size >= (size_t) bytes_matched;", "C03"),
]


def main():
    repo, wt = sys.argv[1], sys.argv[2]
    only = sys.argv[3:]
    res = []
    for name, f, old, new, prop in MUTANTS:
        if only and name not in only:
            continue
        p = os.path.join(repo, f)
        subprocess.run(["git", "checkout", "-q", "--", "."], cwd=repo)
        if f == "REVERT":
            d = subprocess.run(["git", "show", "--format=", old], cwd=repo, stdout=subprocess.PIPE).stdout
            a = subprocess.run(["git", "apply", "-R", "-"], cwd=repo, input=d)
            if a.returncode != 0:
                res.append((name, "EDIT-NOT-APPLICABLE (revert of %s does not apply)" % old)); print(res[-1], flush=True); continue
        else:
            s = open(p).read()
            if s.count(old) != 1:
                res.append((name, "EDIT-NOT-APPLICABLE (%d occurrences)" % s.count(old))); print(res[-1], flush=True); continue
            open(p, "w").write(s.replace(old, new))
        out = {}
        for pid in ("C02", "C03"):
            t = time.time()
            r = subprocess.run(["./check", pid, "--tier", "quick"], cwd=wt, env=dict(os.environ, VERIF_REPO=repo, VERIF_SEED=os.environ.get("VERIF_SEED", "1")),
                               stdout=subprocess.PIPE, stderr=subprocess.STDOUT, text=True)
            lines = [l for l in r.stdout.splitlines() if l.startswith(("VIOLATION", "OK", "CHECK-ERROR"))]
            kinds = set()
            concrete = sum(1 for l in lines if l.startswith("VIOLATION") and "no-failing-input-found" not in l)
            for l in lines:
                if l.startswith("VIOLATION") and "replay=" in l:
                    try:
                        kinds.add(json.load(open(l.split("replay=")[1].split()[0]))["kind"][:60])
                    except Exception:
                        pass
            out[pid] = ("ALARM" if r.returncode == 1 else "ok" if r.returncode == 0 else "ERROR rc=%d" % r.returncode, sorted(kinds), "concrete=%d" % concrete, round(time.time() - t))
        res.append((name, prop, out)); print(res[-1], flush=True)
    subprocess.run(["git", "checkout", "-q", "--", "."], cwd=repo)
    json.dump(res, open(os.path.join(wt, "out", "seeded_re.json"), "w"), indent=1)


main()
