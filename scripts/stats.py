#!/usr/bin/env python3
"""stats.py — numbers quoted in DESIGN.md §0.1 (Lean sizes, theorems, fixes, findings, seeded changes)"""
import glob, json, os, re, subprocess
L = "/verif/lean/YaraModel"
def loc(pat):
    return sum(len(open(f).read().splitlines()) for f in glob.glob(pat, recursive=True))
print("lean lines: Model %d, Spec %d, Gen %d, Lemmas %d, Thm %d, Base %d, Driver %d" % tuple(
    loc(p) for p in (L + "/Model/*.lean", L + "/Spec/*.lean", L + "/Gen/*.lean", L + "/Lemmas/*.lean", L + "/Thm/*.lean", L + "/Base/*.lean", "/verif/lean/Driver/*.lean")))
thm = {os.path.basename(f)[:-5]: len(re.findall(r"^theorem ", open(f).read(), re.M)) for f in sorted(glob.glob(L + "/Thm/*.lean"))}
print("property theorems:", sum(thm.values()), thm)
print("lemmas:", sum(len(re.findall(r"^(?:theorem|lemma) ", open(f).read(), re.M)) for f in glob.glob(L + "/Lemmas/*.lean")))
log = subprocess.run(["git", "-C", "/repo", "log", "--oneline", "638dd93..HEAD"], capture_output=True, text=True).stdout.splitlines()
print("repo commits: %d fix, %d hooks" % (sum(" fix:" in l for l in log), sum("verif hook" in l for l in log)))
k = json.load(open("/verif/known_findings.json"))
print("known findings: %d entries (%d distinct ids), fixed lines: %d" % (len(k["findings"]), len({(f["property"], f["id"].split(".")[0]) for f in k["findings"]}), len(k["fixed"])))
metas = [json.load(open(m)) for m in glob.glob("/verif/seeded/*/meta.json")]
caught = [m for m in metas if m["checks_run"].get("caught_by")]
own = [m for m in metas if m["property"] in (m["checks_run"].get("caught_by") or [])]
first = [m for m in metas if not m["checks_run"].get("missed_in_first_evaluation")]
print("seeded changes: %d stored, %d caught by some check, %d by their own property's check, %d on first evaluation" % (len(metas), len(caught), len(own), len(first)))
print("harness C lines:", loc("/verif/harness/*.[ch]"), " python lines:", loc("/verif/vf/**/*.py") + loc("/verif/translators/*.py"))
