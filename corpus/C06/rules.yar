// C06 harness rules: call every function of every module and index every kind of
// container through the condition VM (fields themselves are all read by the harness' walker
// on CALLBACK_MSG_MODULE_IMPORTED).  Conditions are written so that every operand is evaluated
// (no short-circuit on a constant).
import "pe"
import "elf"
import "dotnet"
import "macho"
import "dex"
import "math"
import "hash"
import "string"
import "time"
import "console"

rule pe_funcs {
  condition:
    (pe.imphash() == "x") or pe.is_dll() or pe.is_32bit() or pe.is_64bit() or
    (pe.calculate_checksum() == pe.checksum) or
    pe.section_index(".text") >= 0 or pe.section_index(pe.entry_point) >= 0 or
    pe.section_index(0x1000) >= 0 or
    pe.exports("DllMain") or pe.exports(/Dll.*/) or pe.exports(1) or
    pe.exports_index("DllMain") >= 0 or pe.exports_index(/Get.*/) >= 0 or pe.exports_index(2) >= 0 or
    pe.imports("kernel32.dll") > 0 or pe.imports("kernel32.dll", "ExitProcess") or pe.imports("ws2_32.dll", 3) or
    pe.imports(/kernel32/i, /Exit/) > 0 or
    pe.imports(pe.IMPORT_DELAYED, "kernel32.dll") > 0 or pe.imports(pe.IMPORT_ANY, "kernel32.dll", "ExitProcess") or
    pe.imports(pe.IMPORT_STANDARD, "ws2_32.dll", 3) or pe.imports(pe.IMPORT_ANY, /.*/, /.*/) > 0 or
    pe.import_rva("kernel32.dll", "ExitProcess") > 0 or pe.import_rva("ws2_32.dll", 3) > 0 or
    pe.delayed_import_rva("kernel32.dll", "ExitProcess") > 0 or pe.delayed_import_rva("ws2_32.dll", 3) > 0 or
    pe.locale(0x0409) or pe.language(0x09) or
    pe.rva_to_offset(0) >= 0 or pe.rva_to_offset(0x1000) >= 0 or pe.rva_to_offset(pe.entry_point_raw) >= 0 or
    pe.rva_to_offset(0xFFFFFFFF) >= 0 or pe.rva_to_offset(filesize) >= 0 or
    pe.rich_signature.version(1) > 0 or pe.rich_signature.version(1, 2) > 0 or
    pe.rich_signature.toolid(1) > 0 or pe.rich_signature.toolid(1, 2) > 0
}

rule pe_containers {
  condition:
    (for any s in pe.sections : (s.name == ".text" or s.raw_data_offset > filesize or s.full_name contains "x")) or
    (for any i in (0 .. pe.number_of_sections) : (pe.sections[i].virtual_address > 0)) or
    (for any k, v in pe.version_info : (k == "CompanyName" or v contains "Microsoft")) or
    pe.version_info["OriginalFilename"] contains "x" or
    (for any v in pe.version_info_list : (v.key == "x" or v.value == "y")) or
    (for any r in pe.resources : (r.type == pe.RESOURCE_TYPE_ICON or r.length > filesize or r.type_string == "x" or r.name_string == "y" or r.language_string == "z")) or
    (for any d in pe.data_directories : (d.virtual_address > 0 and d.size > 0)) or
    (for any e in pe.export_details : (e.name == "x" or e.forward_name == "y" or e.ordinal == 1 or e.offset > 0 or e.rva > 0)) or
    (for any d in pe.import_details : (d.library_name == "x" or for any f in d.functions : (f.name == "y" or f.ordinal == 1 or f.rva > 0))) or
    (for any d in pe.delayed_import_details : (d.library_name == "x" or for any f in d.functions : (f.name == "y"))) or
    (for any sig in pe.signatures : (sig.issuer contains "x" or sig.subject contains "y" or sig.thumbprint == "z" or sig.valid_on(1500000000) or
        sig.number_of_certificates > 0 or sig.signer_info.digest == "x" or sig.number_of_countersignatures > 0 or
        for any c in sig.certificates : (c.serial == "x" or c.not_before > 0) or
        for any ch in sig.signer_info.chain : (ch.subject == "x") or
        for any cs in sig.countersignatures : (cs.verified or cs.sign_time > 0 or for any cc in cs.chain : (cc.issuer == "x")))) or
    pe.is_signed or pe.overlay.offset > 0 or pe.overlay.size > 0 or pe.pdb_path contains "pdb" or pe.dll_name == "x" or
    pe.rich_signature.clear_data contains "x" or pe.rich_signature.raw_data contains "y" or pe.rich_signature.version_data contains "z" or
    pe.rich_signature.length > 0 or pe.rich_signature.key > 0 or pe.rich_signature.offset > 0 or
    pe.number_of_exports > 0 or pe.number_of_imports > 0 or pe.number_of_delayed_imports > 0 or pe.number_of_imported_functions > 0 or
    pe.export_timestamp > 0 or pe.number_of_resources > 0 or pe.resource_timestamp > 0 or pe.number_of_version_infos > 0
}

rule elf_all {
  condition:
    elf.telfhash() == "x" or elf.import_md5() == "y" or
    (for any s in elf.sections : (s.name == ".text" or s.offset > filesize or s.size > filesize or s.address > 0 or s.type == elf.SHT_STRTAB)) or
    (for any p in elf.segments : (p.offset > filesize or p.file_size > filesize or p.virtual_address > 0 or p.type == elf.PT_LOAD)) or
    (for any d in elf.dynamic : (d.type == elf.DT_NEEDED or d.val > 0)) or
    (for any sym in elf.symtab : (sym.name == "main" or sym.value > 0 or sym.shndx > 0 or sym.type == elf.STT_FUNC)) or
    (for any sym in elf.dynsym : (sym.name contains "libc" or sym.size > 0 or sym.bind == elf.STB_GLOBAL)) or
    elf.entry_point > 0 or elf.number_of_sections > 0 or elf.number_of_segments > 0 or elf.dynamic_section_entries > 0 or
    elf.symtab_entries > 0 or elf.dynsym_entries > 0 or elf.sh_offset > 0 or elf.ph_offset > 0 or elf.type == elf.ET_EXEC or elf.machine == elf.EM_X86_64
}

rule dotnet_all {
  condition:
    dotnet.is_dotnet or dotnet.version contains "v" or dotnet.module_name == "x" or dotnet.typelib == "y" or
    (for any s in dotnet.streams : (s.name == "#~" or s.offset > filesize or s.size > filesize)) or
    (for any g in dotnet.guids : (g == "x")) or
    (for any r in dotnet.resources : (r.name == "x" or r.offset > filesize or r.length > filesize)) or
    (for any a in dotnet.assembly_refs : (a.name == "mscorlib" or a.public_key_or_token == "x" or a.version.major > 0)) or
    (for any m in dotnet.modulerefs : (m == "x")) or
    (for any u in dotnet.user_strings : (u == "x")) or
    (for any c in dotnet.constants : (c == "x")) or
    (for any f in dotnet.field_offsets : (f > filesize)) or
    (for any c in dotnet.classes : (c.fullname == "x" or c.name == "y" or c.namespace == "z" or c.visibility == "public" or c.type == "class" or
        c.abstract or c.sealed or c.number_of_base_types > 0 or c.number_of_generic_parameters > 0 or c.number_of_methods > 0 or
        for any b in c.base_types : (b == "x") or for any g in c.generic_parameters : (g == "T") or
        for any m in c.methods : (m.name == ".ctor" or m.return_type == "void" or m.visibility == "public" or m.static or m.virtual or m.final or m.abstract or
            m.number_of_parameters > 0 or m.number_of_generic_parameters > 0 or
            for any p in m.parameters : (p.name == "x" or p.type == "int") or for any g in m.generic_parameters : (g == "T")))) or
    dotnet.assembly.name == "x" or dotnet.assembly.culture == "y" or dotnet.assembly.version.major > 0 or
    dotnet.number_of_streams > 0 or dotnet.number_of_guids > 0 or dotnet.number_of_resources > 0 or dotnet.number_of_classes > 0 or
    dotnet.number_of_assembly_refs > 0 or dotnet.number_of_modulerefs > 0 or dotnet.number_of_user_strings > 0 or
    dotnet.number_of_constants > 0 or dotnet.number_of_field_offsets > 0
}

rule macho_all {
  condition:
    macho.file_index_for_arch(macho.CPU_TYPE_X86) >= 0 or macho.file_index_for_arch(macho.CPU_TYPE_X86, macho.CPU_SUBTYPE_I386_ALL) >= 0 or
    macho.entry_point_for_arch(macho.CPU_TYPE_X86_64) >= 0 or macho.entry_point_for_arch(macho.CPU_TYPE_X86_64, macho.CPU_SUBTYPE_X86_64_ALL) >= 0 or
    macho.file_index_for_arch(macho.CPU_TYPE_ARM64) >= 0 or macho.entry_point_for_arch(macho.CPU_TYPE_I386) >= 0 or
    (for any seg in macho.segments : (seg.segname == "__TEXT" or seg.fileoff > filesize or seg.nsects > 0 or
        for any sec in seg.sections : (sec.sectname == "__text" or sec.offset > filesize or sec.size > filesize or sec.addr > 0))) or
    (for any a in macho.fat_arch : (a.offset > filesize or a.size > filesize or a.cputype == macho.CPU_TYPE_X86)) or
    (for any f in macho.file : (f.magic == macho.MH_MAGIC or f.ncmds > 0 or f.entry_point > 0 or f.stack_size > 0 or f.number_of_segments > 0 or
        for any seg in f.segments : (seg.segname == "__TEXT" or for any sec in seg.sections : (sec.sectname == "__text")))) or
    macho.magic == macho.MH_MAGIC_64 or macho.ncmds > 0 or macho.sizeofcmds > 0 or macho.entry_point > 0 or macho.stack_size > 0 or
    macho.number_of_segments > 0 or macho.nfat_arch > 0 or macho.fat_magic == macho.FAT_MAGIC
}

rule dex_all {
  condition:
    dex.has_method("<init>") or dex.has_method("Lcom/a/B;", "<init>") or dex.has_method(/init/) or dex.has_method(/com/, /init/) or
    dex.has_class("Lcom/a/B;") or dex.has_class(/com/) or
    dex.header.magic == dex.DEX_FILE_MAGIC_035 or dex.header.file_size > filesize or dex.header.string_ids_size > 0 or dex.header.map_offset > 0 or
    (for any s in dex.string_ids : (s.value == "x" or s.offset > filesize or s.size > 0)) or
    (for any t in dex.type_ids : (t.descriptor_idx > 0)) or
    (for any p in dex.proto_ids : (p.shorty_idx > 0 or p.return_type_idx > 0 or p.parameters_offset > filesize)) or
    (for any f in dex.field_ids : (f.class_idx > 0 or f.type_idx > 0 or f.name_idx > 0)) or
    (for any m in dex.method_ids : (m.class_idx > 0 or m.proto_idx > 0 or m.name_idx > 0)) or
    (for any c in dex.class_defs : (c.class_idx > 0 or c.access_flags > 0 or c.super_class_idx > 0 or c.class_data_offset > filesize)) or
    (for any c in dex.class_data_item : (c.static_fields_size > 0 or c.direct_methods_size > 0)) or
    (for any f in dex.field : (f.class_name == "x" or f.name == "y" or f.proto == "z" or f.static or f.instance or f.access_flags > 0)) or
    (for any m in dex.method : (m.class_name == "x" or m.name == "y" or m.proto == "z" or m.direct or m.virtual or
        m.code_item.registers_size > 0 or m.code_item.insns_size > 0 or m.code_item.insns contains "x" or m.code_item.tries_size > 0)) or
    (for any i in dex.map_list.map_item : (i.type == dex.TYPE_CODE_ITEM or i.size > 0 or i.offset > filesize)) or
    dex.number_of_fields > 0 or dex.number_of_methods > 0 or dex.map_list.size > 0
}

rule math_hash_all {
  condition:
    math.entropy(0, filesize) > 7.9 or math.entropy("abc") > 1.0 or math.mean(0, filesize) > 200.0 or math.mean("abc") > 1.0 or
    math.deviation(0, filesize, math.MEAN_BYTES) > 100.0 or math.deviation("abc", 97.0) > 1.0 or
    math.serial_correlation(0, filesize) > 0.9 or math.serial_correlation("abcabc") > 0.9 or
    math.monte_carlo_pi(0, filesize) > 3.0 or math.monte_carlo_pi("abcdefabcdef") > 3.0 or
    math.in_range(math.entropy(filesize \ 2, filesize), 7.5, 8.0) or math.max(filesize, 10) == 9 or math.min(filesize, 10) == 11 or
    math.to_number(filesize > 5) == 2 or math.abs(filesize - 100) == 7 or math.count(0x41) > 100000000 or math.count(0x41, 0, filesize) > 100000000 or
    math.count(0x00, filesize - 10, 20) > 100 or
    math.percentage(0x00) > 2.0 or math.percentage(0xff, filesize \ 2, filesize) > 2.0 or math.mode() == 0x101 or math.mode(1, filesize) == 0x101 or
    math.to_string(filesize) == "x" or math.to_string(filesize, 16) == "x" or math.to_string(filesize, 8) == "x" or
    math.entropy(filesize - 1, 2) > 7.0 or math.mean(filesize, 1) > 1.0 or math.entropy(0xFFFFFFFFFFFF, 16) > 1.0 or math.entropy(0, 0x7FFFFFFFFFFFFFFF) > 7.99 or
    hash.md5(0, filesize) == "x" or hash.md5("abc") == "x" or hash.sha1(0, filesize) == "x" or hash.sha1("abc") == "x" or
    hash.sha256(0, filesize) == "x" or hash.sha256("abc") == "x" or hash.checksum32(0, filesize) == 1 or hash.checksum32("abc") == 1 or
    hash.crc32(0, filesize) == 1 or hash.crc32("abc") == 1 or
    hash.md5(filesize - 1, 10) == "x" or hash.sha256(1, filesize) == "x" or hash.crc32(filesize, 1) == 1 or hash.md5(0, 0x7FFFFFFFFFFFFFFF) == "x" or
    hash.sha1(pe.entry_point, 16) == "x" or hash.md5(pe.overlay.offset, pe.overlay.size) == "x" or
    hash.md5(0, filesize) == "x" or hash.md5(2, 3) == "y"
}

rule string_time_console {
  condition:
    string.to_int("1234") == 1 or string.to_int("-0x10") == 1 or string.to_int("ff", 16) == 1 or string.to_int("zz", 36) == 1 or
    string.to_int("99999999999999999999999") == 1 or string.to_int("1", 99) == 1 or string.length("abc") == 4 or
    string.to_int(pe.dll_name) == 1 or string.length(pe.pdb_path) > 1000 or string.length(dotnet.module_name) > 1000 or
    time.now() < 0 or
    (console.log("msg") and console.log("pdb: ", pe.pdb_path) and console.log(filesize) and console.log("size: ", filesize) and
     console.log(1.5) and console.log("entropy: ", math.entropy(0, 16)) and console.hex(filesize) and console.hex("h: ", pe.entry_point) and
     console.log(pe.imphash()) and console.log(elf.telfhash()) and console.log(dotnet.version) and filesize < 0)
}

rule raw_reads {
  strings:
    $mz = "MZ"
    $pe = { 50 45 00 00 }
    $re = /[A-Za-z]{6,}\.dll/ nocase
  condition:
    uint16(0) == 0x5A4D or uint32(uint32(0x3C)) == 0x00004550 or uint8(filesize - 1) == 0 or uint32(filesize - 3) == 1 or
    uint16be(filesize - 2) == 1 or int32(filesize - 4) == 1 or int8(filesize) == 1 or uint32be(0xFFFFFFFFFFFFFFF) == 1 or int16be(filesize - 1) == 1 or
    $mz at 0 or $pe in (0 .. 1024) or #re > 3 or @re[1] > 100 or !re[1] > 8 or $mz at pe.entry_point or $pe in (elf.entry_point .. filesize) or
    entrypoint == 1
}

// Every string-returning module function called several times in ONE scan with arguments that make its result
// defined, then undefined, then defined again (the function's return object is shared by all calls of a scan).
// All comparisons are false or undefined, so `or` never short-circuits and every call is executed in order.
rule string_results_defined_undefined_defined {
  condition:
    math.to_string(255, 16) == "zz" or math.to_string(255, 7) == "zz" or math.to_string(10, 10) == "zz" or math.to_string(1, 3) == "zz" or math.to_string(filesize) == "zz" or
    hash.md5(0, 3) == "zz" or hash.md5(filesize, 1) == "zz" or hash.md5(0, 2) == "zz" or hash.md5(filesize + 5, 5) == "zz" or hash.md5(1, 1) == "zz" or
    hash.sha1(0, 3) == "zz" or hash.sha1(filesize, 1) == "zz" or hash.sha1(0, 2) == "zz" or
    hash.sha256(0, 3) == "zz" or hash.sha256(filesize, 1) == "zz" or hash.sha256(0, 2) == "zz" or
    hash.md5("a") == "zz" or hash.md5(filesize, 1) == "zz" or hash.md5("b") == "zz" or hash.sha1("a") == "zz" or hash.sha256("a") == "zz" or
    pe.imphash() == "zz" or pe.imphash() == "yy" or elf.telfhash() == "zz" or elf.telfhash() == "yy" or elf.import_md5() == "zz" or elf.import_md5() == "yy" or
    math.to_string(255, 16) == math.to_string(255, 9) or hash.md5(0, 3) == hash.md5(filesize, 3) or hash.md5(filesize, 3) == hash.md5(0, 3) or
    (for any i in (0..4) : ( hash.md5(i * (filesize \ 2), 2) == "zz" or math.to_string(i, 8 + i * 4) == "zz" or hash.sha256(filesize - i, 2) == "zz" ))
}
