"""T4b (C04 part) — regenerate lean/YaraModel/Gen/MatchOps.lean from the match-list opcodes of libyara/exec.c
(OP_FOUND, OP_COUNT, OP_FOUND_AT, OP_FOUND_IN, OP_COUNT_IN, OP_OFFSET, OP_LENGTH): which field of YR_MATCH they read,
how they count, compare and stop.  The case bodies are written in the fragment

    pop(rN); ... ensure_defined(rN); ...
    match = context->matches[rS.s->idx].head;  rN.i = <e>;  i = <e>;
    while (match != NULL [&& <cond>]) { if (<c>) { rN.i = <e>; [break;] }  if (<c>) break;  rN.i++;  i++;  match = match->next; }
    push(rN); break;

and are translated statement by statement into a fold over the string's match list (`whileList` of Model/MatchCore.lean)
with the registers r1..r4 and `i` as state.  `match->base`, `match->offset`, `match->match_length`, `match->data_length`
become the fields of `MatchRec`.  A body outside the fragment makes the opcode `unparsed` (stub + failing theorem).
"""
import os, re, hashlib
from translators import cexpr, vmops
from translators.cexpr import ParseError, Opaque
from translators.sizedstr import parse_block, flat, incr_of, Unparsed

OPS = ["OP_FOUND", "OP_COUNT", "OP_FOUND_AT", "OP_FOUND_IN", "OP_COUNT_IN", "OP_OFFSET", "OP_LENGTH"]
FIELDS = {"match->base": "m.base", "match->offset": "m.offset", "match->match_length": "m.matchLength", "match->data_length": "m.dataLength"}
REGS = ["r1", "r2", "r3", "r4"]


def env_of(state):
    e = {r + ".i": "%s.%s" % (state, r) for r in REGS}
    e["i"] = "%s.i" % state
    e.update(FIELDS)
    return e


def rint(toks, state):
    return cexpr.Render(env_of(state)).int(cexpr.P(list(toks)).expr())


def rbool(toks, state):
    return cexpr.Render(env_of(state)).bool(cexpr.P(list(toks)).expr())


def target(tok):
    if tok == "i":
        return "i"
    m = re.match(r"^(r[1-4])\.i$", tok)
    if m:
        return m.group(1)
    raise Unparsed("assignment to %s" % tok)


def body_term(stmts, ind):
    """loop body -> Lean term of type MS × Bool (state after the iteration, `break` taken?) over `m` and `s`"""
    pad = "  " * ind
    if not stmts:
        return pad + "(s, false)"
    st, rest = stmts[0], stmts[1:]
    k = st[0]
    if k == "block":
        return body_term(flat(st) + rest, ind)
    if k == "break":
        return pad + "(s, true)"
    if k == "if":
        c = rbool(st[1], "s")
        return pad + "if %s then\n%s\n%selse\n%s" % (c, body_term(flat(st[2]) + rest, ind + 1), pad, body_term(flat(st[3]) + rest, ind + 1))
    if k == "expr":
        t = st[1]
        if t == ["match", "=", "match->next"]:
            if rest:
                raise Unparsed("statements after match = match->next")
            return pad + "(s, false)"
        x = incr_of(t)
        if x is not None:
            f = target(x)
            return pad + "let s : MS := { s with %s := s.%s + 1 }\n" % (f, f) + body_term(rest, ind)
        if len(t) >= 3 and t[1] == "=":
            f = target(t[0])
            return pad + "let s : MS := { s with %s := %s }\n" % (f, rint(t[2:], "s")) + body_term(rest, ind)
        raise Unparsed("loop statement %s" % " ".join(t[:8]))
    raise Unparsed("loop statement kind %s" % k)


def translate_case(body):
    body = re.sub(r"context->matches\s*\[\s*(r[1-4])\.s->idx\s*\]\s*\.\s*(head|tail|count)", r"MATCHES_\2(\1)", body)
    body = body.replace("++", " + + ")
    stmts = []
    for s in parse_block(cexpr.tokenize(body)):
        stmts.extend(flat(s))
    pops, i = [], 0
    while i < len(stmts) and stmts[i][0] == "expr" and stmts[i][1][:2] == ["pop", "("]:
        pops.append(stmts[i][1][2])
        i += 1
    if not pops:
        raise Unparsed("no pop")
    sreg = None          # the register holding the YR_STRING*
    guards, pre, loop, result = [], [], None, None
    for st in stmts[i:]:
        if st[0] == "break":
            continue
        if st[0] == "while":
            if loop is not None or result is not None:
                raise Unparsed("second loop / loop after push")
            loop = st
            continue
        if st[0] != "expr":
            raise Unparsed("statement kind %s outside the loop" % st[0])
        t = st[1]
        if t[:2] == ["ensure_defined", "("]:
            if pre or loop:
                raise Unparsed("ensure_defined after the first assignment")
            guards.append(t[2])
        elif t[:2] == ["ensure_within_rules_arena", "("]:
            continue
        elif t[:2] == ["push", "("]:
            result = t[2]
        elif t[:3] == ["match", "=", "MATCHES_head"]:
            sreg = t[4]
        elif len(t) >= 3 and t[1] == "=":
            if loop is not None:
                raise Unparsed("assignment after the loop")
            # r2.i = MATCHES_tail(r1) != NULL ? 1 : 0   /   r2.i = MATCHES_count(r1)
            txt = " ".join(t[2:])
            m = re.match(r"^MATCHES_tail \( (r[1-4]) \) != NULL \? 1 : 0$", txt)
            if m:
                sreg = m.group(1)
                pre.append((target(t[0]), "(if ms.isEmpty then 0 else 1)"))
                continue
            m = re.match(r"^MATCHES_count \( (r[1-4]) \)$", txt)
            if m:
                sreg = m.group(1)
                pre.append((target(t[0]), "(ms.length : Int)"))
                continue
            pre.append((target(t[0]), rint(t[2:], "s")))
        else:
            raise Unparsed("statement %s" % " ".join(t[:8]))
    if result is None or sreg is None:
        raise Unparsed("no push / no match list")
    if sreg != pops[0]:
        raise Unparsed("the string is not the operand on top of the stack")
    args = [r for r in reversed(pops) if r != sreg]           # in push order
    if sorted(guards) != sorted(args):
        raise Unparsed("ensure_defined on %s, integer operands %s" % (guards, args))
    L = []
    for g in args:
        L.append("  if C.isUndef %s then C.UNDEF else" % g)
    L.append("  let s : MS := { %s }" % ", ".join("%s := %s" % (r, r if r in args else "0") for r in REGS + ["i"]))
    for f, v in pre:
        L.append("  let s : MS := { s with %s := %s }" % (f, v))
    if loop is not None:
        ctoks = loop[1]
        if ctoks[:3] != ["match", "!=", "NULL"]:
            raise Unparsed("loop condition does not start with match != NULL")
        if len(ctoks) == 3:
            cond = "true"
        elif ctoks[3] == "&&":
            cond = rbool(ctoks[4:], "s")
        else:
            raise Unparsed("loop condition %s" % " ".join(ctoks))
        L.append("  let s : MS := whileList (fun s => %s) (fun m s =>\n%s) ms s" % (cond, body_term(flat(loop[2]), 3)))
    L.append("  s.%s" % target(result + ".i"))
    return args, "\n".join(L)


def translate(repo):
    text = vmops.preprocess(open(os.path.join(repo, "libyara/exec.c")).read())
    out, errs = {}, {}
    groups = {l: body for labels, body in vmops.case_groups(text) for l in labels}
    for op in OPS:
        try:
            if op not in groups:
                raise Unparsed("no case")
            out[op] = translate_case(groups[op])
        except (Unparsed, ParseError, Opaque, IndexError, KeyError, ValueError) as e:
            errs[op] = "%s: %s" % (type(e).__name__, e)
    return out, errs


ARITY = {"OP_FOUND": 0, "OP_COUNT": 0, "OP_FOUND_AT": 1, "OP_FOUND_IN": 2, "OP_COUNT_IN": 2, "OP_OFFSET": 1, "OP_LENGTH": 1}


def render(out, errs):
    L = ["/- GENERATED by translators/matchops.py from libyara/exec.c — do not edit. -/",
         "import YaraModel.Model.MatchCore", "namespace YaraModel.Gen.MatchOps", "open YaraModel YaraModel.MatchCore", "",
         "/-- match-list opcodes of exec.c outside the translated fragment (their definitions below are stubs) -/",
         "def unparsed : List String := [%s]\n" % ", ".join('"%s — %s"' % (n, errs[n].replace('"', "'").replace("\\", "/")) for n in OPS if n in errs)]
    for op in OPS:
        names = ["r1", "r2"][:ARITY[op]]
        if op in out and len(out[op][0]) == ARITY[op]:
            args, body = out[op]
            L.append("def %s (ms : List MatchRec)%s : Int :=\n%s\n" % (op, "".join(" (%s : Int)" % a for a in args), body))
        else:
            L.append("def %s (_ms : List MatchRec)%s : Int := 0\n" % (op, "".join(" (_%s : Int)" % a for a in names)))
    L.append("end YaraModel.Gen.MatchOps")
    return "\n".join(L) + "\n"


def run(repo, gen_dir):
    out, errs = translate(repo)
    for op in OPS:
        if op in out and len(out[op][0]) != ARITY[op]:
            errs[op] = "Unparsed: %d integer operands, expected %d" % (len(out[op][0]), ARITY[op])
    text = render(out, errs)
    os.makedirs(gen_dir, exist_ok=True)
    p = os.path.join(gen_dir, "MatchOps.lean")
    if not os.path.exists(p) or open(p).read() != text:
        open(p, "w").write(text)
    return hashlib.sha256(text.encode()).hexdigest()


if __name__ == "__main__":
    import sys
    o, e = translate(sys.argv[1] if len(sys.argv) > 1 else "/repo")
    print(render(o, e))
