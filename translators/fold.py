"""T3 — regenerate lean/YaraModel/Gen/Fold.lean from the constant-folding actions of the
`primary_expression` rule of libyara/grammar.y (integer-typed operands).

Each operator production's action is symbolically executed: the value assigned to `$$.value.integer`
(as a Lean term over YaraModel.C) or the error the action fails with.
"""
import os, re, hashlib
from translators import cexpr
from translators.cexpr import ParseError, Opaque

BIN = {"'+'": "ADD", "'-'": "SUB", "'*'": "MUL", "'\\\\'": "DIV", "'%'": "MOD", "'^'": "XOR", "'&'": "AND", "'|'": "OR",
       "_SHIFT_LEFT_": "SHL", "_SHIFT_RIGHT_": "SHR"}
UN = {"'-'": "NEG", "'~'": "NOT"}


class Unsupported(Exception):
    pass


def rule_alternatives(text, rule):
    m = re.search(r"^%s\s*\n\s*:" % rule, text, flags=re.M)
    if not m:
        raise Unsupported("rule %s not found" % rule)
    i = m.end()
    alts, depth, cur = [], 0, []
    in_str = None
    while i < len(text):
        c = text[i]
        if in_str:
            cur.append(c)
            if c == "\\":
                cur.append(text[i + 1]); i += 1
            elif c == in_str:
                in_str = None
        elif c in "\"'":
            in_str = c
            cur.append(c)
        elif text.startswith("//", i):
            i = text.index("\n", i)
            continue
        elif text.startswith("/*", i):
            i = text.index("*/", i) + 2
            continue
        elif c == "{":
            depth += 1; cur.append(c)
        elif c == "}":
            depth -= 1; cur.append(c)
        elif c == "|" and depth == 0:
            alts.append("".join(cur)); cur = []
        elif c == ";" and depth == 0:
            alts.append("".join(cur))
            break
        else:
            cur.append(c)
        i += 1
    out = []
    for a in alts:
        j = a.find("{")
        if j < 0:
            out.append((a.split(), ""))
        else:
            out.append((a[:j].split(), a[j + 1:a.rindex("}")]))
    return out


def sym_exec(action, operand_ids):
    text = cexpr.strip_comments(action)
    toks = cexpr.tokenize(text)
    # operand types are integer in this model
    t2 = []
    i = 0
    while i < len(toks):
        if i + 2 < len(toks) and re.match(r"^\$\d\.type$", toks[i]) and toks[i + 1] == "==" and toks[i + 2].startswith("EXPRESSION_TYPE_"):
            t2.append("1" if toks[i + 2] == "EXPRESSION_TYPE_INTEGER" else "0")
            i += 3
        else:
            t2.append(toks[i]); i += 1
    stmts = cexpr.flatten(cexpr.split_statements(t2))
    env0 = dict(operand_ids)

    def finish(st):
        if st["result"]:
            return '(.err "%s")' % st["result"]
        if st["val"] is None:
            return ".noval"
        return "(.val %s)" % st["val"]

    def run(stmts, st, env):
        if not stmts:
            return finish(st)
        s, rest = stmts[0], stmts[1:]
        if s[0] == "if":
            try:
                c = cexpr.Render(env).bool(cexpr.P(s[1]).expr())
            except Opaque as o:
                raise Unsupported("opaque condition: %s" % o)
            return "(if %s then %s else %s)" % (c, run(cexpr.flatten(s[2]) + rest, dict(st), dict(env)),
                                                run(cexpr.flatten(s[3]) + rest, dict(st), dict(env)))
        if s[0] != "expr":
            raise Unsupported("statement kind %s" % s[0])
        t = s[1]
        if not t:
            return run(rest, st, env)
        if t[0] == "int" and t[1] == "result":
            return run(rest, st, env)                       # emits code; assumed to succeed
        if t[0] == "int64_t" and t[2] == "=":
            env = dict(env)
            env[t[1]] = cexpr.Render(env).int(cexpr.P(t[3:]).expr())
            return run(rest, st, env)
        if t[0] == "result" and t[1] == "=":
            if len(t) == 3 and t[2].startswith("ERROR_") and t[2] != "ERROR_SUCCESS":
                st = dict(st); st["result"] = t[2][6:]
            elif t[2].startswith("yr_parser_"):
                pass
            else:
                raise Unsupported("result = %s" % " ".join(t[2:6]))
            return run(rest, st, env)
        if t[0] in ("check_type", "yr_compiler_set_error_extra_info_fmt", "yr_compiler_set_error_extra_info"):
            return run(rest, st, env)
        if t[0] == "fail_if_error":
            inner = t[2:-1]
            if inner == ["result"]:
                if st["result"]:
                    return finish(st)
                return run(rest, st, env)
            if len(inner) == 1 and inner[0].startswith("ERROR_"):
                st = dict(st); st["result"] = inner[0][6:]
                return finish(st)
            if inner and inner[0].startswith("yr_parser_"):
                return run(rest, st, env)
            raise Unsupported("fail_if_error(%s)" % " ".join(inner[:5]))
        if t[0] == "$$.type":
            return run(rest, st, env)
        if t[0] == "$$.value.integer" and t[1] == "=":
            st = dict(st)
            st["val"] = cexpr.Render(env).int(cexpr.P(t[2:]).expr())
            return run(rest, st, env)
        raise Unsupported("statement %s" % " ".join(t[:6]))

    return run(stmts, {"result": None, "val": None}, env0)


def translate(repo):
    text = open(os.path.join(repo, "libyara/grammar.y")).read()
    alts = rule_alternatives(text, "primary_expression")
    bins, uns, problems = {}, {}, {}
    for pat, action in alts:
        p = [x for x in pat if not x.startswith("%prec") and x != "UNARY_MINUS"]
        try:
            if len(p) == 3 and p[0] == "primary_expression" and p[2] == "primary_expression" and p[1] in BIN:
                bins[BIN[p[1]]] = sym_exec(action, {"$1.value.integer": "a", "$3.value.integer": "b"})
            elif len(p) == 2 and p[1] == "primary_expression" and p[0] in UN:
                uns[UN[p[0]]] = sym_exec(action, {"$2.value.integer": "a"})
        except (Unsupported, ParseError, Opaque, IndexError) as e:
            problems[" ".join(p)] = "%s: %s" % (type(e).__name__, e)
    return bins, uns, problems


ALL_BIN = ["ADD", "SUB", "MUL", "DIV", "MOD", "XOR", "AND", "OR", "SHL", "SHR"]
ALL_UN = ["NEG", "NOT"]


def render(bins, uns, problems):
    L = ["/- GENERATED by translators/fold.py from libyara/grammar.y (primary_expression actions) — do not edit. -/",
         "import YaraModel.Base.CInt", "namespace YaraModel.Gen.Fold", "open YaraModel", "",
         "inductive FoldRes\n  | val (v : Int)\n  | err (e : String)\n  | noval\n  | unparsed\nderiving DecidableEq, Repr\n",
         "inductive FBin\n" + "".join("  | %s\n" % o for o in ALL_BIN) + "deriving DecidableEq, Repr\n",
         "inductive FUn\n" + "".join("  | %s\n" % o for o in ALL_UN) + "deriving DecidableEq, Repr\n",
         "/-- compile-time value (or error) the grammar action computes for `a <op> b`, both operands integer-typed;",
         "    an operand whose value is unknown at compile time is `C.UNDEF` -/",
         "def foldBin : FBin → Int → Int → FoldRes"]
    for o in ALL_BIN:
        L.append("  | .%s, a, b => %s" % (o, bins.get(o, ".unparsed")))
    L.append("\ndef foldUn : FUn → Int → FoldRes")
    for o in ALL_UN:
        L.append("  | .%s, a => %s" % (o, uns.get(o, ".unparsed")))
    L.append("\ndef problems : List String := [%s]" % ", ".join('"%s"' % (k + " — " + v).replace('"', "'").replace("\\", "\\\\") for k, v in problems.items()))
    L.append("\nend YaraModel.Gen.Fold")
    return "\n".join(L) + "\n"


def run(repo, gen_dir):
    text = render(*translate(repo))
    os.makedirs(gen_dir, exist_ok=True)
    p = os.path.join(gen_dir, "Fold.lean")
    if not os.path.exists(p) or open(p).read() != text:
        open(p, "w").write(text)
    return hashlib.sha256(text.encode()).hexdigest()


if __name__ == "__main__":
    import sys
    print(render(*translate(sys.argv[1] if len(sys.argv) > 1 else "/repo")))
