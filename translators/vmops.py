"""T4 — regenerate lean/YaraModel/Gen/VmOps.lean from the `case OP_*:` blocks of libyara/exec.c.

Every case group whose body is written in the mini-language
    pop(rN); push(rN); ensure_defined(rN); rN.i = <expr>; rN.d = <expr>; if/else; switch (opcode) {...}; break;
is symbolically executed into a Lean term giving the pushed value as a function of the popped values.
Sub-expressions outside the 64-bit integer fragment (doubles, sized strings, calls) become applications of the
uninterpreted `prim "<C text>" [operands]`, so the definedness structure is kept and nothing is guessed.
"""
import os, re, hashlib
from translators import cexpr
from translators.cexpr import ParseError, Opaque


class Unsupported(Exception):
    pass


def preprocess(text):
    text = cexpr.strip_comments(text)
    # preprocessor: keep the bodies of `#if YR_PARANOID_EXEC` (enabled by default in limits.h) and drop the directive lines
    text = re.sub(r"^[ \t]*#[^\n]*$", "", text, flags=re.M)
    # remove YR_DEBUG_FPRINTF(...) calls (balanced)
    out, i = [], 0
    while True:
        j = text.find("YR_DEBUG_FPRINTF", i)
        if j < 0:
            out.append(text[i:])
            break
        out.append(text[i:j])
        k = text.index("(", j)
        depth = 0
        while True:
            if text[k] == "(":
                depth += 1
            elif text[k] == ")":
                depth -= 1
                if depth == 0:
                    break
            k += 1
        k += 1
        while k < len(text) and text[k] in " \t\n;":
            k += 1
        i = k
    return "".join(out)


def case_groups(text):
    """[(labels, body_text)] of the top-level switch(opcode) in yr_execute_code"""
    start = text.index("yr_execute_code(YR_SCAN_CONTEXT* context)\n{")
    m = re.compile(r"switch\s*\(\s*opcode\s*\)\s*\{").search(text, start)
    i = m.end()
    depth, groups, labels, cur = 1, [], [], []
    pos = i
    seg_start = i
    label_re = re.compile(r"\s*(?:case\s+(OP_[A-Z0-9_]+)|(default))\s*:")
    while depth > 0:
        if depth == 1:
            lm = label_re.match(text, pos)
            if lm:
                body = text[seg_start:pos]
                if labels and body.strip():
                    groups.append((labels, body))
                    labels = []
                labels = labels + [lm.group(1) or "default"]
                pos = lm.end()
                seg_start = pos
                continue
        c = text[pos]
        if c == "{":
            depth += 1
        elif c == "}":
            depth -= 1
        pos += 1
    body = text[seg_start:pos - 1]
    if labels and body.strip():
        groups.append((labels, body))
    return groups


ARGS = {1: ["a"], 2: ["a", "b"]}


def sym_exec(stmts, opname):
    """returns (arity, lean_term)"""
    stmts = cexpr.flatten(stmts)
    pops = []
    i = 0
    while i < len(stmts) and stmts[i][0] == "expr" and stmts[i][1][:2] == ["pop", "("]:
        pops.append(stmts[i][1][2])
        i += 1
    if len(pops) not in (1, 2):
        raise Unsupported("arity %d" % len(pops))
    # first pop is the top of the stack = last operand
    names = ARGS[len(pops)]
    env = {}
    for reg, nm in zip(reversed(pops), names):
        env[reg + ".i"] = nm
    regs_in_order = list(reversed(pops))

    def prim(e, env):
        used = [r for r in regs_in_order if any(x == r or x.startswith(r + ".") for x in cexpr.idents(e))]
        return '(prim "%s" [%s])' % (cexpr.c_text(e).replace('"', "'"), ", ".join(env[r + ".i"] for r in used))

    def run(stmts, env):
        if not stmts:
            raise Unsupported("no push")
        s, rest = stmts[0], stmts[1:]
        if s[0] == "break":
            raise Unsupported("break before push")
        if s[0] == "if":
            try:
                c = cexpr.Render(env).bool(cexpr.P(s[1]).expr())
            except Opaque as o:
                raise Unsupported("opaque condition %s" % o)
            return "(if %s then %s else %s)" % (c, run(cexpr.flatten(s[2]) + rest, dict(env)), run(cexpr.flatten(s[3]) + rest, dict(env)))
        if s[0] == "switch":
            if s[1] != ["opcode"]:
                raise Unsupported("switch on %s" % s[1])
            for labels, arm in s[2]:
                if opname in labels:
                    arm = [x for x in cexpr.flatten(arm)]
                    while arm and arm[-1][0] == "break":
                        arm = arm[:-1]
                    return run(arm + rest, env)
            raise Unsupported("no arm")
        toks = s[1]
        if not toks:
            return run(rest, env)
        if toks[0] == "push" and toks[1] == "(":
            reg = toks[2] + ".i"
            if reg not in env:
                raise Unsupported("push of unknown reg")
            if any(r[0] != "break" for r in rest):
                raise Unsupported("statements after push")
            return env[reg]
        if toks[0] == "ensure_defined":
            reg = toks[2] + ".i"
            return "(if C.isUndef %s then C.UNDEF else %s)" % (env[reg], run(rest, env))
        if len(toks) > 2 and toks[1] == "=" and re.match(r"^r\d\.(i|d)$", toks[0]):
            reg = toks[0].split(".")[0]
            if reg + ".i" not in env:
                raise Unsupported("assignment to unpopped register")
            e = cexpr.P(toks[2:]).expr()
            if toks[0].endswith(".d"):
                val = prim(e, env)
            else:
                try:
                    val = cexpr.Render(env).int(e)
                except Opaque:
                    val = prim(e, env)
            env = dict(env)
            env[reg + ".i"] = val
            return run(rest, env)
        raise Unsupported("statement %s" % " ".join(toks[:6]))

    return len(pops), run(stmts[i:], env)


def translate(repo):
    text = preprocess(open(os.path.join(repo, "libyara/exec.c")).read())
    un, bi, skipped = {}, {}, {}
    for labels, body in case_groups(text):
        try:
            stmts = cexpr.split_statements(cexpr.tokenize(body))
        except ParseError as e:
            for l in labels:
                skipped[l] = "tokenise: %s" % e
            continue
        for l in labels:
            if l == "default":
                continue
            try:
                ar, term = sym_exec(stmts, l)
                (un if ar == 1 else bi)[l] = term
            except (Unsupported, ParseError, Opaque, KeyError, IndexError) as e:
                skipped[l] = "%s: %s" % (type(e).__name__, e)
    return un, bi, skipped


def render(un, bi, skipped):
    L = ["/- GENERATED by translators/vmops.py from libyara/exec.c — do not edit. -/",
         "import YaraModel.Base.CInt", "namespace YaraModel.Gen.VmOps", "open YaraModel", ""]
    L.append("inductive UnOp\n" + "".join("  | %s\n" % o for o in sorted(un)) + "deriving DecidableEq, Repr\n")
    L.append("inductive BinOp\n" + "".join("  | %s\n" % o for o in sorted(bi)) + "deriving DecidableEq, Repr\n")
    L.append("def UnOp.all : List UnOp := [%s]\n" % ", ".join("." + o for o in sorted(un)))
    L.append("def BinOp.all : List BinOp := [%s]\n" % ", ".join("." + o for o in sorted(bi)))
    L.append("def UnOp.name : UnOp → String\n" + "".join('  | .%s => "%s"\n' % (o, o) for o in sorted(un)))
    L.append("def BinOp.name : BinOp → String\n" + "".join('  | .%s => "%s"\n' % (o, o) for o in sorted(bi)))
    L.append("/-- value pushed by a one-operand opcode (operand `a` popped) -/")
    L.append("def vmUn (prim : String → List Int → Int) : UnOp → Int → Int\n" +
             "".join("  | .%s, a => %s\n" % (o, un[o]) for o in sorted(un)))
    L.append("/-- value pushed by a two-operand opcode (`b` was on top of the stack, `a` below it) -/")
    L.append("def vmBin (prim : String → List Int → Int) : BinOp → Int → Int → Int\n" +
             "".join("  | .%s, a, b => %s\n" % (o, bi[o]) for o in sorted(bi)))
    L.append("/-- opcodes of exec.c that are not in the translated fragment (hand-modelled or out of scope) -/")
    L.append("def skipped : List String := [%s]\n" % ", ".join('"%s"' % s for s in sorted(skipped)))
    L.append("end YaraModel.Gen.VmOps")
    return "\n".join(L) + "\n"


def run(repo, gen_dir):
    un, bi, skipped = translate(repo)
    text = render(un, bi, skipped)
    os.makedirs(gen_dir, exist_ok=True)
    p = os.path.join(gen_dir, "VmOps.lean")
    if not os.path.exists(p) or open(p).read() != text:
        open(p, "w").write(text)
    return hashlib.sha256(text.encode()).hexdigest()


if __name__ == "__main__":
    import sys
    un, bi, sk = translate(sys.argv[1] if len(sys.argv) > 1 else "/repo")
    print(len(un), "unary", len(bi), "binary", len(sk), "skipped")
    for k, v in sorted(sk.items()):
        print("  skip", k, v)
    print(render(un, bi, sk))
