"""T1 — regenerate lean/YaraModel/Gen/Limits.lean from the limit constants and guard
expressions of /repo (limits.h, libyara.h defaults, compiler.h, re.h, re.c, exec.c,
scanner.c, lexer.l, scan.c, grammar.y, compiler.c, parser.c).

Two kinds of output:
  * numeric constants (`def maxStringMatches : Nat := 1000000`), evaluated from the macro text;
  * the *comparison operator* of each guard as a small enum (`Cmp.eq`, `Cmp.ge`, `Cmp.gt`, `Cmp.lt`)
    so that the model's guard functions are literally built from the source's operator: an edited
    operator is a changed definition and breaks the theorem that uses it.
A construct that cannot be found is emitted as `unparsed` (value 0 / Cmp.unparsed) and listed in
`unparsedItems`; Thm/C15 has a theorem `gen_all_parsed` that fails then.
"""
import os, re, hashlib


def _read(repo, rel):
    with open(os.path.join(repo, rel), errors="replace") as f:
        return f.read()


def _strip_comments(t):
    t = re.sub(r"/\*.*?\*/", "", t, flags=re.S)
    return re.sub(r"//[^\n]*", "", t)


def _macro(text, name):
    m = re.search(r"^[ \t]*#[ \t]*define[ \t]+%s[ \t]+((?:[^\n\\]|\\\n|\\.)*)$" % re.escape(name), text, flags=re.M)
    if not m:
        return None
    return m.group(1).replace("\\\n", " ").strip()


_SAFE = re.compile(r"^[0-9xXa-fA-F\s+\-*/()<>]*$")


def _eval(expr, env, depth=0):
    """Evaluate an integer macro expression made of literals, other macros, + - * / ( ) << >>."""
    if expr is None or depth > 8:
        return None
    e = expr
    for _ in range(8):
        names = set(re.findall(r"[A-Za-z_][A-Za-z0-9_]*", e)) - {"x", "X"}
        names = {n for n in names if not re.fullmatch(r"[0-9a-fA-FxX]+[uUlL]*", n) or n in env}
        if not names:
            break
        for n in sorted(names, key=len, reverse=True):
            if n in env and env[n] is not None:
                e = re.sub(r"\b%s\b" % n, "(%d)" % env[n], e)
            elif n in ("ULL", "UL", "LL", "U", "L"):
                e = re.sub(r"\b%s\b" % n, "", e)
            else:
                return None
    e = re.sub(r"(\d)[uUlL]+\b", r"\1", e)
    if not _SAFE.match(e):
        return None
    try:
        return int(eval(e.replace("/", "//"), {"__builtins__": {}}, {}))
    except Exception:
        return None



# ---------------------------------------------------------------- C expression -> Lean `CExpr` (timeout conversion)
class _CParse:
    """Recursive descent over the C expression subset  ?:  < <= > >= == !=  + -  * /  casts  literals  `timeout`.
    Emits a Lean `CExpr` term; anything else raises ValueError (-> `.unparsed`)."""
    CASTS = {"uint64_t": "u64", "int64_t": "i64", "uint32_t": "u32", "int32_t": "i32", "int": "i32", "unsigned": "u32", "unsigned int": "u32",
             "long": "i64", "long long": "i64", "unsigned long": "u64", "unsigned long long": "u64", "size_t": "u64"}

    def __init__(self, text, var):
        self.toks = re.findall(r"[A-Za-z_][A-Za-z0-9_]*|0[xX][0-9a-fA-F]+[uUlL]*|\d+[uUlL]*|==|!=|<=|>=|[-+*/()?:<>]", text)
        if "".join(self.toks) != re.sub(r"\s+", "", text):
            raise ValueError("untokenisable: " + text)
        self.i, self.var = 0, var

    def peek(self):
        return self.toks[self.i] if self.i < len(self.toks) else None

    def eat(self, t=None):
        x = self.peek()
        if x is None or (t is not None and x != t):
            raise ValueError("expected %s got %s" % (t, x))
        self.i += 1
        return x

    def parse(self):
        e = self.ternary()
        if self.peek() is not None:
            raise ValueError("trailing tokens")
        return e

    def ternary(self):
        c = self.rel()
        if self.peek() == "?":
            self.eat("?"); a = self.ternary(); self.eat(":"); b = self.ternary()
            return "(.cond %s %s %s)" % (c, a, b)
        return c

    def rel(self):
        a = self.add()
        ops = {">": "gt", ">=": "ge", "<": "lt", "<=": "le", "==": "eq", "!=": "ne"}
        while self.peek() in ops:
            o = ops[self.eat()]; b = self.add()
            a = "(.%s %s %s)" % (o, a, b)
        return a

    def add(self):
        a = self.mul()
        while self.peek() in ("+", "-"):
            o = "add" if self.eat() == "+" else "sub"; b = self.mul()
            a = "(.%s %s %s)" % (o, a, b)
        return a

    def mul(self):
        a = self.unary()
        while self.peek() in ("*",):
            self.eat(); b = self.unary()
            a = "(.mul %s %s)" % (a, b)
        return a

    def unary(self):
        if self.peek() == "(":
            # cast?
            j = self.i + 1; words = []
            while j < len(self.toks) and re.fullmatch(r"[A-Za-z_]\w*", self.toks[j]):
                words.append(self.toks[j]); j += 1
            if words and j < len(self.toks) and self.toks[j] == ")" and " ".join(words) in self.CASTS:
                self.i = j + 1
                return "(.cast .%s %s)" % (self.CASTS[" ".join(words)], self.unary())
            self.eat("("); e = self.ternary(); self.eat(")")
            return e
        t = self.eat()
        if t == self.var:
            return ".var"
        m = re.fullmatch(r"(0[xX][0-9a-fA-F]+|\d+)([uUlL]*)", t)
        if not m:
            raise ValueError("unknown token " + t)
        v = int(m.group(1), 0); suf = m.group(2).lower()
        if "u" in suf and "l" in suf:
            ty = "u64"
        elif "l" in suf:
            ty = "i64"
        elif "u" in suf:
            ty = "u32" if v < 2 ** 32 else "u64"
        else:
            ty = "i32" if v < 2 ** 31 else "i64"
        return "(.lit %d .%s)" % (v, ty)


def _timeout_expr(scannerc):
    m = re.search(r"void\s+yr_scanner_set_timeout\s*\(\s*YR_SCANNER\s*\*\s*scanner\s*,\s*int\s+(\w+)\s*\)\s*\{(.*?)\n\}", scannerc, flags=re.S)
    if not m:
        return None
    var, body = m.group(1), m.group(2).strip()
    m2 = re.fullmatch(r"scanner->timeout\s*=\s*(.*?);", body, flags=re.S)      # exactly one statement
    if not m2:
        return None
    try:
        return _CParse(m2.group(1), var).parse()
    except ValueError:
        return None


# ---------------------------------------------------------------- iterator "next" functions of exec.c
def _split_stmts(text):
    """Top-level statements of a C block body: returns list of (kind, data)."""
    out, i, n = [], 0, len(text)

    def skip_ws(j):
        while j < n and text[j].isspace():
            j += 1
        return j

    def matching(j, op, cl):
        d = 0
        while j < n:
            if text[j] == op: d += 1
            elif text[j] == cl:
                d -= 1
                if d == 0: return j
            j += 1
        raise ValueError("unbalanced")

    def stmt(j):
        j = skip_ws(j)
        if j >= n: return None, j
        if text.startswith("if", j) and re.match(r"if\s*\(", text[j:]):
            k = text.index("(", j); e = matching(k, "(", ")")
            then, j2 = stmt(e + 1)
            j3 = skip_ws(j2)
            els = None
            if re.match(r"else\b", text[j3:]):
                els, j2 = stmt(j3 + 4)
            return ("if", text[k + 1:e], then, els), j2
        if text[j] == "{":
            e = matching(j, "{", "}")
            return ("block", _split_stmts(text[j + 1:e])), e + 1
        m = re.match(r"(\w+)\s*:(?!:)", text[j:])
        if m and m.group(1) not in ("default",):
            return ("label", m.group(1)), j + m.end()
        e = text.index(";", j)
        st = text[j:e].strip()
        if st.startswith("goto "): return ("goto", st[5:].strip()), e + 1
        if st.startswith("return"): return ("return", st), e + 1
        return ("plain", st), e + 1

    while True:
        s_, i = stmt(i)
        if s_ is None: break
        out.append(s_)
    return out


def _max_pushes(stmts):
    """Maximum number of `stack->sp++` executed on any path from the first statement to a return."""
    labels = {s[1]: k for k, s in enumerate(stmts) if s[0] == "label"}
    best = [0]

    def run(seq, idx, cnt, cont):
        # cont: continuation (list of (seq, idx)) to resume after this sequence ends
        while True:
            if idx >= len(seq):
                if not cont:
                    best[0] = max(best[0], cnt); return
                (seq, idx), cont = cont[-1], cont[:-1]
                continue
            st = seq[idx]
            k = st[0]
            if k == "plain":
                cnt += len(re.findall(r"stack->sp\+\+", st[1])); idx += 1
            elif k == "label":
                idx += 1
            elif k == "return":
                best[0] = max(best[0], cnt); return
            elif k == "goto":
                if st[1] not in labels: raise ValueError("goto to unknown label")
                seq, idx, cont = stmts, labels[st[1]], []
            elif k == "block":
                cont = cont + [(seq, idx + 1)]; seq, idx = st[1], 0
            elif k == "if":
                for br in (st[2], st[3]):
                    if br is None:
                        run(seq, idx + 1, cnt, cont)
                    else:
                        run([br], 0, cnt, cont + [(seq, idx + 1)])
                return
            else:
                raise ValueError(k)

    run(stmts, 0, 0, [])
    return best[0]


def _iter_table(execc):
    """[(name, guardK, cmp, maxPushes)] for every function in iter_next_func_table, or None."""
    m = re.search(r"iter_next_func_table\[\]\s*=\s*\{(.*?)\}", execc, flags=re.S)
    if not m:
        return None
    names = [x.strip() for x in m.group(1).split(",") if x.strip()]
    rows = []
    for nm in names:
        f = re.search(r"static\s+int\s+%s\s*\(\s*YR_ITERATOR\s*\*\s*self\s*,\s*YR_VALUE_STACK\s*\*\s*stack\s*\)\s*\{(.*?)\n\}" % re.escape(nm), execc, flags=re.S)
        if not f:
            rows.append((nm, 0, "unparsed", 0)); continue
        body = f.group(1)
        try:
            stmts = _split_stmts(body)
            g = stmts[0]
            gm = re.fullmatch(r"stack->sp\s*\+\s*(\d+)\s*(==|>=|>|<=|<|!=)\s*stack->capacity", g[1].strip()) if g[0] == "if" else None
            if not gm or g[2] != ("return", "return ERROR_EXEC_STACK_OVERFLOW") or g[3] is not None:
                rows.append((nm, 0, "unparsed", 0)); continue
            # nothing may touch the stack before the guard and nothing else may move sp
            rest = body[body.index("ERROR_EXEC_STACK_OVERFLOW"):]
            if re.search(r"stack->sp\s*(\+=|-=|--|=[^=])|--\s*stack->sp|\+\+\s*stack->sp", rest):
                rows.append((nm, 0, "unparsed", 0)); continue
            rows.append((nm, int(gm.group(1)), CMP[gm.group(2)], _max_pushes(stmts[1:])))
        except (ValueError, IndexError):
            rows.append((nm, 0, "unparsed", 0))
    return rows

CMP = {"==": "eq", ">=": "ge", ">": "gt", "<": "lt", "<=": "le", "!=": "ne"}


def _guard(text, pattern):
    """pattern has one group capturing the comparison operator."""
    m = re.search(pattern, text, flags=re.S)
    if not m:
        return None
    return CMP.get(m.group(1))


def run(repo, outdir):
    lim = _strip_comments(_read(repo, "libyara/include/yara/limits.h"))
    liby = _strip_comments(_read(repo, "libyara/include/yara/libyara.h"))
    comph = _strip_comments(_read(repo, "libyara/include/yara/compiler.h"))
    reh = _strip_comments(_read(repo, "libyara/include/yara/re.h"))
    rec = _strip_comments(_read(repo, "libyara/re.c"))
    execc = _strip_comments(_read(repo, "libyara/exec.c"))
    scanc = _strip_comments(_read(repo, "libyara/scan.c"))
    scannerc = _strip_comments(_read(repo, "libyara/scanner.c"))
    lexer = _strip_comments(_read(repo, "libyara/lexer.l"))
    grammar = _strip_comments(_read(repo, "libyara/grammar.y"))
    compc = _strip_comments(_read(repo, "libyara/compiler.c"))
    parserc = _strip_comments(_read(repo, "libyara/parser.c"))
    libc = _strip_comments(_read(repo, "libyara/libyara.c"))
    docs = _read(repo, "docs/writingrules.rst")

    env = {"INT16_MAX": 32767, "INT16_MIN": -32768, "INT32_MAX": 2147483647, "UINT32_MAX": 4294967295}
    consts = []   # (lean name, C name, value or None)
    unparsed = []

    def const(lean, cname, text, expr=None):
        v = _eval(expr if expr is not None else _macro(text, cname), env)
        env[cname] = v
        if v is None or v < 0:
            unparsed.append(cname)
            v = 0
        consts.append((lean, cname, v))
        return v

    const("maxAtomLength", "YR_MAX_ATOM_LENGTH", lim)
    const("maxLoopNesting", "YR_MAX_LOOP_NESTING", lim)
    const("maxLoopVars", "YR_MAX_LOOP_VARS", lim)
    const("internalLoopVars", "YR_INTERNAL_LOOP_VARS", comph)
    const("maxIncludeDepth", "YR_MAX_INCLUDE_DEPTH", lim)
    const("maxStringMatches", "YR_MAX_STRING_MATCHES", lim)
    const("slowStringMatches", "YR_SLOW_STRING_MATCHES", lim)
    const("fileSizeThreshold", "YR_FILE_SIZE_THRESHOLD", lim)
    const("maxFunctionArgs", "YR_MAX_FUNCTION_ARGS", lim)
    const("stringChainingThreshold", "YR_STRING_CHAINING_THRESHOLD", lim)
    const("lexBufSize", "YR_LEX_BUF_SIZE", lim)
    const("reMaxSplitId", "RE_MAX_SPLIT_ID", lim)
    const("reMaxStack", "RE_MAX_STACK", lim)
    const("reScanLimit", "YR_RE_SCAN_LIMIT", lim)
    const("reMaxFibers", "RE_MAX_FIBERS", lim)
    const("maxThreads", "YR_MAX_THREADS", lim)
    const("maxArenaBuffers", "YR_MAX_ARENA_BUFFERS", lim)
    const("reMaxRange", "RE_MAX_RANGE", reh)
    const("defaultStackSize", "DEFAULT_STACK_SIZE", liby)
    const("defaultMaxStringsPerRule", "DEFAULT_MAX_STRINGS_PER_RULE", liby)
    const("defaultMaxMatchData", "DEFAULT_MAX_MATCH_DATA", liby)
    const("vmMemSize", "MEM_SIZE", execc)

    # width of RE_SPLIT_ID_TYPE (re.c typedef)
    m = re.search(r"typedef\s+(u?int(\d+)_t)\s+RE_SPLIT_ID_TYPE\s*;", rec)
    if m and m.group(1).startswith("u"):
        consts.append(("reSplitIdTypeMax", "max of RE_SPLIT_ID_TYPE", 2 ** int(m.group(2)) - 1))
    else:
        unparsed.append("RE_SPLIT_ID_TYPE"); consts.append(("reSplitIdTypeMax", "max of RE_SPLIT_ID_TYPE", 0))

    # identifier length: lexer.l  `if (strlen(yytext) > 128) syntax_error("identifier too long")`
    m = re.search(r"strlen\s*\(\s*yytext\s*\)\s*(==|>=|>|<=|<)\s*(\d+)\s*\)\s*syntax_error\s*\(\s*\"identifier too long\"", lexer)
    ident_cmp = CMP.get(m.group(1)) if m else None
    if m:
        consts.append(("identLimit", "lexer.l identifier length bound", int(m.group(2))))
    else:
        unparsed.append("identifier length"); consts.append(("identLimit", "lexer.l identifier length bound", 0))
    # documented identifier length (docs/writingrules.rst: "cannot exceed 128 characters")
    m = re.search(r"identifiers\s+are\s+case\s+sensitive\s+and\s+cannot\s+exceed\s+(\d+)\s+characters", docs)
    if m:
        consts.append(("docIdentMax", "docs/writingrules.rst: identifiers cannot exceed N characters", int(m.group(1))))
    else:
        unparsed.append("documented identifier length"); consts.append(("docIdentMax", "docs/writingrules.rst", 0))

    # timeout cadence: exec.c `++cycle == 100`, scanner.c `i % 4096 == 0`
    m = re.search(r"context->timeout\s*>\s*0ULL\s*&&\s*\+\+cycle\s*(==|>=|>)\s*(\d+)", execc)
    cyc_cmp = CMP.get(m.group(1)) if m else None
    reset = re.search(r"result\s*=\s*ERROR_SCAN_TIMEOUT;\s*stop\s*=\s*true;\s*\}\s*cycle\s*=\s*0\s*;", execc) is not None
    if m and reset:
        consts.append(("vmTimeoutCycle", "exec.c instructions between two clock reads", int(m.group(2))))
    else:
        unparsed.append("exec.c timeout cadence"); consts.append(("vmTimeoutCycle", "exec.c", 0))
    # every OTHER write of `cycle` inside yr_execute_code (the declaration `int cycle = 0;`, the guard's `++cycle` and the
    # `cycle = 0;` after a clock read are the three expected ones): the opcode whose `case` body contains it
    cycle_writers = []
    mfn = re.search(r"\bint\s+yr_execute_code\s*\(.*?\n\}", execc, flags=re.S)
    if mfn:
        body = mfn.group(0)
        expected = []
        for pat in (r"\bint\s+cycle\s*=\s*0\s*;", r"context->timeout\s*>\s*0ULL\s*&&\s*\+\+cycle\b",
                    r"result\s*=\s*ERROR_SCAN_TIMEOUT;\s*stop\s*=\s*true;\s*\}\s*cycle\s*=\s*0\s*;"):
            k = re.search(pat, body)
            if k:
                expected.append((k.start(), k.end()))
        for w in re.finditer(r"(\+\+|--)\s*cycle\b|\bcycle\s*(\+\+|--|[-+*/%&|^]?=(?!=)|<<=|>>=)|&\s*cycle\b", body):
            if any(a <= w.start() and w.end() <= b for a, b in expected):
                continue
            labels = re.findall(r"\bcase\s+(OP_\w+)\s*:", body[:w.start()])
            cycle_writers.append(labels[-1] if labels else "?")
    else:
        unparsed.append("exec.c yr_execute_code body")
    m = re.search(r"if\s*\(\s*i\s*%\s*(\d+)\s*==\s*0\s*&&\s*scanner->timeout\s*>\s*0\s*\)", scannerc)
    if m:
        consts.append(("blockTimeoutStride", "scanner.c bytes between two clock reads", int(m.group(1))))
    else:
        unparsed.append("scanner.c timeout cadence"); consts.append(("blockTimeoutStride", "scanner.c", 0))

    # integer literal suffixes: lexer.l  `if (yylval->integer > LLONG_MAX / 1024) error else yylval->integer *= 1024`
    sufcmp = {}
    for suf, lean in (("KB", "kb"), ("MB", "mb")):
        m = re.search(r"strstr\s*\(\s*yytext\s*,\s*\"%s\"\s*\)\s*!=\s*NULL\s*\)\s*\{\s*if\s*\(\s*yylval->integer\s*(==|>=|>|<=|<)\s*LLONG_MAX\s*/\s*(\d+)\s*\)"
                      r"\s*\{[^{}]*error\s*\(\s*ERROR_INTEGER_OVERFLOW\s*\)\s*;?\s*\}\s*else\s*\{\s*yylval->integer\s*\*=\s*(\d+)\s*;" % suf, lexer)
        if m:
            consts.append((lean + "Div", "lexer.l %s guard divisor" % suf, int(m.group(2))))
            consts.append((lean + "Mul", "lexer.l %s multiplier" % suf, int(m.group(3))))
            sufcmp[lean] = CMP.get(m.group(1))
        else:
            unparsed.append("lexer.l %s literal" % suf)
            consts.append((lean + "Div", "lexer.l %s guard divisor" % suf, 0))
            consts.append((lean + "Mul", "lexer.l %s multiplier" % suf, 0))
            sufcmp[lean] = None
    # strtoll saturation test: `yylval->integer == LLONG_MAX && errno == ERANGE` (three literal forms)
    nsat = len(re.findall(r"yylval->integer\s*==\s*LLONG_MAX\s*&&\s*errno\s*==\s*ERANGE\s*\)\s*\{[^{}]*error\s*\(\s*ERROR_INTEGER_OVERFLOW\s*\)", lexer))
    if nsat < 3:
        unparsed.append("lexer.l strtoll saturation tests (%d of 3)" % nsat)

    # the three integer-literal rules: radix and whether `errno = 0;` directly precedes the strtoll whose ERANGE is tested
    lit_rules = []
    for m in re.finditer(r"(errno\s*=\s*0\s*;\s*)?yylval->integer\s*=\s*strtoll\s*\(\s*yytext(?:\s*\+\s*\d+)?\s*,\s*&endptr\s*,\s*(\d+)\s*\)\s*;", lexer):
        lit_rules.append((int(m.group(2)), m.group(1) is not None))
    if sorted(r_[0] for r_ in lit_rules) != [8, 10, 16]:
        unparsed.append("lexer.l integer literal rules (radices %s)" % sorted(r_[0] for r_ in lit_rules))

    # parser.c phase 2: between the head of the loop over the rule's strings and `strings_in_rule++` nothing leaves the iteration
    # (`continue` / `break` / `goto`); the only exit before the count is the ERROR_UNREFERENCED_STRING return
    mloop = re.search(r"yr_rule_strings_foreach\s*\(\s*rule\s*,\s*string\s*\)\s*\{(.*?)strings_in_rule\s*\+\+\s*;", parserc, flags=re.S)
    spr_counts_all = False
    if mloop:
        pre = mloop.group(1)
        rets = re.findall(r"\breturn\s+(\w+)", pre)
        spr_counts_all = re.search(r"\b(continue|break|goto)\b", pre) is None and rets in ([], ["ERROR_UNREFERENCED_STRING"])
    else:
        unparsed.append("parser.c phase 2 string loop")

    # scanner.c yr_scanner_scan_mem_blocks: the stopwatch is started once, in the branch that begins a NEW scan (next to
    # iterator->first), not on the path a resumed scan (last_error == ERROR_BLOCK_NOT_READY) takes
    mfn = re.search(r"\byr_scanner_scan_mem_blocks\s*\([^)]*\)\s*\{(.*?)\n\}", scannerc, flags=re.S)
    restarts_on_resume = True
    if mfn:
        n_start = len(re.findall(r"\byr_stopwatch_start\s*\(", mfn.group(1)))
        in_new = re.search(r"else\s*\{(?:(?!\n  \}).)*?yr_stopwatch_start\s*\(\s*&scanner->stopwatch\s*\)\s*;\s*block\s*=\s*iterator->first\s*\(\s*iterator\s*\)\s*;\s*\}",
                           mfn.group(1), flags=re.S)
        restarts_on_resume = not (n_start == 1 and in_new is not None)
    else:
        unparsed.append("scanner.c yr_scanner_scan_mem_blocks")

    # compiler.c yr_compiler_add_file: the file name is pushed under `file_name != NULL`; is it popped under the same condition?
    mfn = re.search(r"\byr_compiler_add_file\s*\([^)]*\)\s*\{(.*?)\n\}", compc, flags=re.S)
    add_file_pops = False
    if mfn:
        pushg = re.search(r"if\s*\(([^{};]*?)\)\s*compiler->last_error\s*=\s*_yr_compiler_push_file_name\s*\(\s*compiler\s*,\s*file_name\s*\)", mfn.group(1))
        popg = re.search(r"if\s*\(\s*(\w+)\s*!=\s*NULL\s*\)\s*_yr_compiler_pop_file_name\s*\(\s*compiler\s*\)\s*;", mfn.group(1))
        if pushg and popg:
            add_file_pops = popg.group(1) == "file_name" and re.search(r"\bfile_name\s*!=\s*NULL", pushg.group(1)) is not None
        else:
            unparsed.append("compiler.c yr_compiler_add_file push/pop of the file name")
    else:
        unparsed.append("compiler.c yr_compiler_add_file")

    guards = []

    def guard(lean, what, text, pattern, cmp_override=None):
        g = cmp_override if cmp_override is not None else _guard(text, pattern)
        if g is None:
            unparsed.append(what)
            g = "unparsed"
        guards.append((lean, what, g))

    guard("matchCapCmp", "scan.c: matches_list->count <op> YR_MAX_STRING_MATCHES", scanc,
          r"matches_list->count\s*(==|>=|>|<=|<|!=)\s*YR_MAX_STRING_MATCHES\s*\)\s*\{\s*result\s*=\s*ERROR_TOO_MANY_MATCHES")
    guard("pushCmp", "exec.c push: stack.sp <op> stack.capacity", execc,
          r"#define\s+push\(x\)\s*\\\s*if\s*\(\s*stack\.sp\s*(==|>=|>|<=|<|!=)\s*stack\.capacity\s*\)")
    guard("loopNestCmp", "grammar.y: loop_index + 1 <op> YR_MAX_LOOP_NESTING", grammar,
          r"compiler->loop_index\s*\+\s*1\s*(==|>=|>|<=|<|!=)\s*YR_MAX_LOOP_NESTING\s*\)\s*result\s*=\s*ERROR_LOOP_NESTING_LIMIT_EXCEEDED")
    guard("includeDepthCmp", "compiler.c: file_name_stack_ptr <op> YR_MAX_INCLUDE_DEPTH", compc,
          r"compiler->file_name_stack_ptr\s*(==|>=|>|<=|<|!=)\s*YR_MAX_INCLUDE_DEPTH\s*\)\s*return\s+ERROR_INCLUDE_DEPTH_EXCEEDED")
    guard("stringsPerRuleCmp", "parser.c: strings_in_rule <op> max_strings_per_rule", parserc,
          r"strings_in_rule\s*(==|>=|>|<=|<|!=)\s*max_strings_per_rule\s*\)")
    guard("splitIdCmp", "re.c: next_split_id <op> RE_MAX_SPLIT_ID", rec,
          r"emit_context->next_split_id\s*(==|>=|>|<=|<|!=)\s*RE_MAX_SPLIT_ID\s*\)\s*return\s+ERROR_REGULAR_EXPRESSION_TOO_COMPLEX")
    guard("fiberCmp", "re.c: fiber_count <op> RE_MAX_FIBERS", rec,
          r"fiber_pool->fiber_count\s*(==|>=|>|<=|<|!=)\s*RE_MAX_FIBERS\s*\)\s*return\s+ERROR_TOO_MANY_RE_FIBERS")
    guard("identCmp", "lexer.l: strlen(yytext) <op> N -> identifier too long", lexer, None, cmp_override=ident_cmp)
    guard("vmCycleCmp", "exec.c: ++cycle <op> N", execc, None, cmp_override=cyc_cmp)
    guard("kbCmp", "lexer.l: integer <op> LLONG_MAX / 1024 (KB)", lexer, None, cmp_override=sufcmp["kb"])
    guard("mbCmp", "lexer.l: integer <op> LLONG_MAX / 1048576 (MB)", lexer, None, cmp_override=sufcmp["mb"])
    guard("vmTimeoutCmp", "exec.c: elapsed_time <op> context->timeout", execc,
          r"elapsed_time\s*(==|>=|>|<=|<|!=)\s*context->timeout\s*\)")
    guard("blockTimeoutCmp", "scanner.c: elapsed <op> scanner->timeout", scannerc,
          r"yr_stopwatch_elapsed_ns\s*\(\s*&scanner->stopwatch\s*\)\s*(==|>=|>|<=|<|!=)\s*scanner->timeout\s*\)\s*\{\s*result\s*=\s*ERROR_SCAN_TIMEOUT")

    # callback negotiation on TOO_MANY_MATCHES: `case CALLBACK_CONTINUE: yr_bitmask_set(strings_temp_disabled …); result = ERROR_SUCCESS`
    nego = re.search(r"case\s+CALLBACK_CONTINUE\s*:\s*yr_bitmask_set\s*\(\s*context->strings_temp_disabled\s*,\s*string->idx\s*\)\s*;\s*"
                     r"result\s*=\s*ERROR_SUCCESS\s*;\s*break\s*;\s*default\s*:\s*result\s*=\s*ERROR_TOO_MANY_MATCHES", scanc) is not None
    if not nego:
        unparsed.append("scan.c TOO_MANY_MATCHES negotiation")
    # the disabled test precedes verification
    dis = re.search(r"if\s*\(\s*yr_bitmask_is_set\s*\(\s*context->strings_temp_disabled\s*,\s*string->idx\s*\)\s*\)\s*return\s+ERROR_SUCCESS", scanc) is not None
    if not dis:
        unparsed.append("scan.c disabled-string test")
    # default configuration is installed by yr_initialize
    for nm in ("YR_CONFIG_STACK_SIZE, &def_stack_size", "YR_CONFIG_MAX_STRINGS_PER_RULE, &def_max_strings_per_rule",
               "YR_CONFIG_MAX_MATCH_DATA, &def_max_match_data"):
        if not re.search(r"yr_set_configuration\s*\(\s*" + re.escape(nm).replace(r"\ ", r"\s*"), libc):
            unparsed.append("libyara.c default " + nm.split(",")[0])

    out = ["/- GENERATED by translators/limits.py from /repo (limits.h, libyara.h, compiler.h, re.h, re.c, exec.c,",
           "   scan.c, scanner.c, lexer.l, grammar.y, compiler.c, parser.c, docs/writingrules.rst) — do not edit. -/",
           "namespace YaraModel.Gen.Limits", "",
           "/-- comparison operator found in a guard of the C source -/",
           "inductive Cmp where", "  | eq | ne | ge | gt | le | lt | unparsed", "  deriving DecidableEq, Repr", "",
           "def Cmp.eval : Cmp → Nat → Nat → Bool",
           "  | .eq, a, b => a == b", "  | .ne, a, b => a != b", "  | .ge, a, b => decide (a ≥ b)", "  | .gt, a, b => decide (a > b)",
           "  | .le, a, b => decide (a ≤ b)", "  | .lt, a, b => decide (a < b)", "  | .unparsed, _, _ => false", "",
           "/-- C integer types that occur in the translated expressions (LP64) -/",
           "inductive CTy where", "  | i32 | u32 | i64 | u64", "  deriving DecidableEq, Repr", "",
           "/-- C expression subset used by `yr_scanner_set_timeout` -/",
           "inductive CExpr where",
           "  | var | lit (v : Nat) (ty : CTy)",
           "  | mul (a b : CExpr) | add (a b : CExpr) | sub (a b : CExpr)",
           "  | gt (a b : CExpr) | ge (a b : CExpr) | lt (a b : CExpr) | le (a b : CExpr) | eq (a b : CExpr) | ne (a b : CExpr)",
           "  | cond (c a b : CExpr) | cast (ty : CTy) (a : CExpr) | unparsed",
           "  deriving Repr", ""]
    for lean, cname, v in consts:
        out.append("/-- %s -/" % cname)
        out.append("def %s : Nat := %d" % (lean, v))
    out.append("")
    for lean, what, g in guards:
        out.append("/-- %s -/" % what)
        out.append("def %s : Cmp := .%s" % (lean, g))
    out.append("")
    out.append("/-- `CALLBACK_CONTINUE` mutes the string and clears the error; anything else propagates TOO_MANY_MATCHES (scan.c) -/")
    out.append("def negotiationParsed : Bool := %s" % ("true" if nego else "false"))
    out.append("/-- muted strings are skipped before verification (scan.c) -/")
    out.append("def disabledTestParsed : Bool := %s" % ("true" if dis else "false"))
    out.append("")
    # --- timeout conversion (scanner.c yr_scanner_set_timeout) as a typed C expression
    texpr = _timeout_expr(scannerc)
    if texpr is None:
        unparsed.append("scanner.c yr_scanner_set_timeout")
        texpr = ".unparsed"
    out.append("/-- scanner.c `yr_scanner_set_timeout`: right-hand side of `scanner->timeout = …` (`.var` = the `int timeout` argument) -/")
    out.append("def timeoutExpr : CExpr := %s" % texpr)
    out.append("")
    # --- iterator next functions (exec.c): guard `stack->sp + K <op> stack->capacity` and the maximum number of slots written
    rows = _iter_table(execc)
    if rows is None:
        unparsed.append("exec.c iter_next_func_table"); rows = []
    for r_ in rows:
        if r_[2] == "unparsed":
            unparsed.append("exec.c " + r_[0])
    stray = len(re.findall(r"stack->items\[stack->sp\+\+\]", re.sub(r"static\s+int\s+iter_\w+_next\s*\(.*?\n\}", "", execc, flags=re.S)))
    if stray:
        unparsed.append("exec.c: %d direct stack writes outside the iterator functions" % stray)
    out.append("structure IterFn where")
    out.append("  name : String")
    out.append("  guardK : Nat")
    out.append("  guardCmp : Cmp")
    out.append("  maxPushes : Nat")
    out.append("  deriving DecidableEq, Repr")
    out.append("")
    out.append("/-- exec.c `iter_*_next`: `if (stack->sp + guardK <guardCmp> stack->capacity) return ERROR_EXEC_STACK_OVERFLOW;` then at most `maxPushes` writes `stack->items[stack->sp++]` on any path -/")
    out.append("def iterTable : List IterFn := [%s]" % ", ".join('⟨"%s", %d, .%s, %d⟩' % r_ for r_ in rows))
    out.append("")
    # --- jump-offset size guards of re.c _yr_re_emit: "return TOO_LARGE when <distance> <op> <bound>", distance >= 0
    BOUNDS = {"INT16_MAX": 32767, "-(INT16_MIN)": 32768, "-INT16_MIN": 32768}
    emitm = re.search(r"static\s+int\s+_yr_re_emit\s*\(.*?\n\}", rec, flags=re.S)
    emit_body = emitm.group(0) if emitm else ""

    def case_body(nm):
        m_ = re.search(r"case\s+%s\s*:(.*?)(?=\n  case\s+RE_NODE_|\n  \}\n)" % nm, emit_body, flags=re.S)
        return m_.group(1) if m_ else ""

    def size_guards(body):
        res = []
        for m_ in re.finditer(r"if\s*\(\s*([\w.>\-]+?)\s*-\s*([\w.>\-]+?)\s*(==|>=|>|<=|<|!=)\s*(-\(INT16_MIN\)|-INT16_MIN|INT16_MAX|INT16_MIN)\s*\)\s*return\s+ERROR_REGULAR_EXPRESSION_TOO_LARGE", body):
            a, b, op, k = m_.groups()
            if k == "INT16_MIN":
                # a - b < INT16_MIN with a <= b: the distance b - a exceeds 32768; normalised to "distance > 32768", stored offset negative
                if op not in ("<", "<="):
                    res.append(("neg", "unparsed", 0)); continue
                res.append(("neg", "gt" if op == "<" else "ge", 32768))
            else:
                res.append(("pos", CMP[op], BOUNDS[k]))
        return res

    sg = []   # (site, backward?, cmp, bound)
    expect = [("RE_NODE_PLUS", ["plusBack"], [True]), ("RE_NODE_STAR", ["starBack", "starFwd"], [True, False]),
              ("RE_NODE_ALT", ["altSplit", "altJmp"], [False, False]), ("RE_NODE_RANGE", ["rangeSplit"], [False])]
    for nm, sites, backs in expect:
        g = size_guards(case_body(nm))
        if len(g) != len(sites):
            unparsed.append("re.c _yr_re_emit %s size guards (%d found, %d expected)" % (nm, len(g), len(sites)))
            g = [("pos", "unparsed", 0)] * len(sites)
        for site, back, (sign, cmp_, bound) in zip(sites, backs, g):
            if cmp_ == "unparsed":
                unparsed.append("re.c _yr_re_emit guard " + site)
            sg.append((site, back, cmp_, bound))
    out.append("structure SizeGuard where")
    out.append("  site : String")
    out.append("  backward : Bool      -- the stored int16 offset is minus the distance")
    out.append("  cmp : Cmp")
    out.append("  bound : Nat")
    out.append("  deriving DecidableEq, Repr")
    out.append("")
    out.append("/-- re.c `_yr_re_emit`: ERROR_REGULAR_EXPRESSION_TOO_LARGE is returned when `distance <cmp> bound` (distance in bytes between the jump/split instruction and its target) -/")
    out.append("def reSizeGuards : List SizeGuard := [%s]" % ", ".join('⟨"%s", %s, .%s, %d⟩' % (a_, "true" if b_ else "false", c_, d_) for a_, b_, c_, d_ in sg))
    out.append("")
    # --- scanner.c _yr_scanner_clean_matches: which count sizes the memset of strings_temp_disabled
    cm = re.search(r"memset\s*\(\s*scanner->strings_temp_disabled\s*,\s*0\s*,\s*sizeof\(YR_BITMASK\)\s*\*\s*YR_BITMASK_SIZE\(scanner->rules->(\w+)\)\s*\)", scannerc)
    field = cm.group(1) if cm else "unparsed"
    if not cm:
        unparsed.append("scanner.c _yr_scanner_clean_matches strings_temp_disabled")
    out.append("/-- scanner.c `_yr_scanner_clean_matches`: `memset(strings_temp_disabled, 0, sizeof(YR_BITMASK) * YR_BITMASK_SIZE(rules-><field>))` -/")
    out.append('def cleanDisabledSizedBy : String := "%s"' % field)
    out.append("")
    # --- configuration keys (libyara.c): which union member / pointer type yr_set_configuration and yr_get_configuration use per key,
    #     and which keys the typed wrappers accept
    def fn_body(name, text=libc):
        m_ = re.search(r"YR_API\s+int\s+%s\s*\([^)]*\)\s*\{(.*?)\n\}" % name, text, flags=re.S)
        return m_.group(1) if m_ else ""

    def switch_groups(body, stmt_re):
        """{key: captured groups of the first statement after its case labels}"""
        res = {}
        for m_ in re.finditer(r"((?:case\s+YR_CONFIG_\w+\s*:\s*)+)(.*?)(?=case\s+YR_CONFIG_|default\s*:)", body, flags=re.S):
            keys = re.findall(r"case\s+(YR_CONFIG_\w+)", m_.group(1))
            st = re.search(stmt_re, m_.group(2))
            for k_ in keys:
                res[k_] = st.groups() if st else None
        return res

    W = {"uint32_t": 32, "uint64_t": 64, "ui32": 32, "ui64": 64}
    sets = switch_groups(fn_body("yr_set_configuration"), r"yr_cfgs\[name\]\.(\w+)\s*=\s*\*\s*\(\s*(\w+)\s*\*\s*\)\s*src\s*;")
    gets = switch_groups(fn_body("yr_get_configuration"), r"\*\s*\(\s*(\w+)\s*\*\s*\)\s*dest\s*=\s*yr_cfgs\[name\]\.(\w+)\s*;")
    typed = {}
    for fn, bits in (("yr_set_configuration_uint32", 32), ("yr_set_configuration_uint64", 64), ("yr_get_configuration_uint32", 32), ("yr_get_configuration_uint64", 64)):
        g_ = switch_groups(fn_body(fn), r"return\s+yr_[sg]et_configuration\s*\(\s*name\s*,")
        for k_, v_ in g_.items():
            if v_ is not None:
                typed.setdefault(k_, {})[fn[3:6]] = bits
    enum = re.search(r"typedef\s+enum\s+_YR_CONFIG_NAME\s*\{(.*?)\}", liby, flags=re.S)
    keys = [k_ for k_ in re.findall(r"(YR_CONFIG_\w+)", enum.group(1)) if k_ != "YR_CONFIG_LAST"] if enum else []
    if not keys:
        unparsed.append("libyara.h YR_CONFIG_NAME")
    rows = []
    for idx, k_ in enumerate(keys):
        s_, g_ = sets.get(k_), gets.get(k_)
        ok = s_ and g_ and s_[0] in W and s_[1] in W and g_[0] in W and g_[1] in W
        if not ok:
            unparsed.append("libyara.c configuration key " + k_)
            rows.append((k_, idx, 0, 0, 0, 0, 0, 0)); continue
        rows.append((k_, idx, W[s_[0]], W[s_[1]], W[g_[1]], W[g_[0]], typed.get(k_, {}).get("set", 0), typed.get(k_, {}).get("get", 0)))
    out.append("structure CfgKey where")
    out.append("  name : String")
    out.append("  idx : Nat")
    out.append("  setMember : Nat      -- bits of the union member written by yr_set_configuration")
    out.append("  setCast : Nat        -- bits read from *src")
    out.append("  getMember : Nat      -- bits of the union member read by yr_get_configuration")
    out.append("  getCast : Nat        -- bits written to *dest")
    out.append("  typedSet : Nat       -- width of the yr_set_configuration_uintNN wrapper that accepts the key (0: none)")
    out.append("  typedGet : Nat")
    out.append("  deriving DecidableEq, Repr")
    out.append("")
    out.append("def cfgKeys : List CfgKey := [%s]" % ", ".join('⟨"%s", %d, %d, %d, %d, %d, %d, %d⟩' % r_ for r_ in rows))
    out.append("")
    out.append("/-- parser.c `yr_parser_reduce_rule_declaration_phase_2`: every string of the rule that passes the unreferenced-string test reaches")
    out.append("    `strings_in_rule++` (no `continue`/`break`/`goto` before it in the loop body) -/")
    out.append("def sprCountsEveryString : Bool := %s" % ("true" if spr_counts_all else "false"))
    out.append("")
    out.append("/-- scanner.c `yr_scanner_scan_mem_blocks`: is `yr_stopwatch_start` (also) on the path of a scan RESUMED after ERROR_BLOCK_NOT_READY? -/")
    out.append("def stopwatchRestartsOnResume : Bool := %s" % ("true" if restarts_on_resume else "false"))
    out.append("")
    out.append("/-- compiler.c `yr_compiler_add_file`: the name pushed under `file_name != NULL` is popped under the same condition -/")
    out.append("def addFilePopsOwnName : Bool := %s" % ("true" if add_file_pops else "false"))
    out.append("")
    out.append("/-- lexer.l integer literal rules: (radix, `errno = 0;` directly before the `strtoll` whose `errno == ERANGE` is tested) -/")
    out.append("def litRules : List (Nat × Bool) := [%s]" % ", ".join("(%d, %s)" % (a_, "true" if b_ else "false") for a_, b_ in lit_rules))
    out.append("")
    out.append("/-- exec.c `yr_execute_code`: opcodes whose `case` body writes the timeout counter `cycle` (besides its declaration, the")
    out.append("    guard's `++cycle` and the `cycle = 0` after a clock read) -/")
    out.append("def vmCycleWriters : List String := [%s]" % ", ".join('"%s"' % w for w in cycle_writers))
    out.append("")
    out.append("def unparsedItems : List String := [%s]" % ", ".join('"%s"' % u.replace('"', "'") for u in unparsed))
    out.append("")
    out.append("end YaraModel.Gen.Limits")
    text = "\n".join(out) + "\n"
    os.makedirs(outdir, exist_ok=True)
    p = os.path.join(outdir, "Limits.lean")
    if not os.path.exists(p) or open(p).read() != text:
        open(p, "w").write(text)
    return hashlib.sha256(text.encode()).hexdigest()


def values(repo):
    """Parsed constants as a dict (used by the check to cross-check the harness build)."""
    import tempfile
    bd = os.path.join(os.path.dirname(os.path.dirname(os.path.abspath(__file__))), ".build")
    os.makedirs(bd, exist_ok=True)
    d = tempfile.mkdtemp(dir=bd)
    try:
        run(repo, d)
        t = open(os.path.join(d, "Limits.lean")).read()
    finally:
        import shutil
        shutil.rmtree(d, ignore_errors=True)
    vals = {m.group(1): int(m.group(2)) for m in re.finditer(r"^def (\w+) : Nat := (\d+)$", t, flags=re.M)}
    cmps = {m.group(1): m.group(2) for m in re.finditer(r"^def (\w+) : Cmp := \.(\w+)$", t, flags=re.M)}
    unp = re.search(r"^def unparsedItems : List String := \[(.*)\]$", t, flags=re.M).group(1)
    return vals, cmps, unp
