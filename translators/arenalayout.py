"""T8 — arena file layout: regenerates lean/YaraModel/Gen/ArenaLayout.lean from
libyara/arena.c (packed header structs, magic, loader's initial buffer size, 4 GB limit, the
relocation bounds test), libyara/include/yara/arena.h (file version, YR_ARENA_REF layout, null
reference) and libyara/include/yara/limits.h (YR_MAX_ARENA_BUFFERS).

Anything that cannot be parsed is emitted as 0 together with `unparsed := true`; the dependent
theorems then no longer hold (they mention the concrete values) and the check falls back to the
correspondence tie."""
import os, re, hashlib

CTYPES = {"uint8_t": 1, "uint16_t": 2, "uint32_t": 4, "uint64_t": 8, "yr_arena_off_t": 4, "int32_t": 4, "int64_t": 8}


def _struct(text, name):
    m = re.search(r"struct\s+%s\s*\{(.*?)\};" % name, text, re.S)
    if not m:
        return None
    fields, off = [], 0
    for ty, fname, arr in re.findall(r"^\s*(\w+)\s+(\w+)\s*(?:\[(\d+)\])?\s*;", m.group(1), re.M):
        if ty not in CTYPES:
            return None
        size = CTYPES[ty] * (int(arr) if arr else 1)
        fields.append((fname, off, size))
        off += size
    return fields, off


def run(repo, gendir):
    arena_c = open(os.path.join(repo, "libyara/arena.c")).read()
    arena_h = open(os.path.join(repo, "libyara/include/yara/arena.h")).read()
    limits_h = open(os.path.join(repo, "libyara/include/yara/limits.h")).read()
    bad = []
    vals = {}

    def need(name, m, conv=lambda x: int(x, 0)):
        if m is None:
            bad.append(name)
            vals[name] = 0
        else:
            vals[name] = conv(m.group(1))

    need("fileVersion", re.search(r"#define\s+YR_ARENA_FILE_VERSION\s+(\d+)", arena_h))
    need("maxBuffers", re.search(r"#define\s+YR_MAX_ARENA_BUFFERS\s+(\d+)", limits_h))
    need("loadInitialSize", re.search(r"yr_arena_create\(\s*hdr\.num_buffers\s*,\s*(\d+)\s*,", arena_c))
    need("maxBufferSizeLog2", re.search(r"new_size\s*>\s*1ULL\s*<<\s*(\d+)", arena_c))
    # magic: hdr.magic[i] = 'X' in the saver, compared with != 'X' in the loader; both must agree
    save_magic = re.findall(r"hdr\.magic\[(\d)\]\s*=\s*'(.)'", arena_c)
    load_magic = re.findall(r"hdr\.magic\[(\d)\]\s*!=\s*'(.)'", arena_c)
    if len(save_magic) == 4 and sorted(save_magic) == sorted(load_magic):
        magic = [ord(c) for _, c in sorted(save_magic)]
    else:
        bad.append("magic"); magic = [0, 0, 0, 0]
    hdr = _struct(arena_c, "YR_ARENA_FILE_HEADER")
    tbl = _struct(arena_c, "YR_ARENA_FILE_BUFFER")
    ref = _struct(arena_h, "YR_ARENA_REF")
    packed = re.search(r"#pragma pack\(1\)\s*struct YR_ARENA_FILE_HEADER", arena_c) is not None
    lay = {}

    def field(prefix, st, fname):
        if st:
            for n, off, size in st[0]:
                if n == fname:
                    lay[prefix + "Off"] = off; lay[prefix + "Size"] = size
                    return
        bad.append(prefix); lay[prefix + "Off"] = 0; lay[prefix + "Size"] = 0

    if not packed:
        bad.append("pack(1)")
    field("hdrMagic", hdr, "magic"); field("hdrVersion", hdr, "version"); field("hdrNumBuffers", hdr, "num_buffers")
    field("tblOffset", tbl, "offset"); field("tblSize", tbl, "size")
    field("refBuf", ref, "buffer_id"); field("refOff", ref, "offset")
    sizes = {"headerSize": hdr[1] if hdr else 0, "tableEntrySize": tbl[1] if tbl else 0, "relocEntrySize": ref[1] if ref else 0}
    # null reference = { UINT32_MAX, UINT32_MAX }
    nullref = re.search(r"#define\s+YR_ARENA_NULL_REF\s*\\\s*\(YR_ARENA_REF\)\s*\\\s*\{\s*\\\s*UINT32_MAX\s*,\s*UINT32_MAX", arena_h) is not None
    if not nullref:
        bad.append("nullRef")
    # the relocation bounds test of the loader, as text; the model implements exactly this shape
    m = re.search(r"if\s*\(\s*reloc_ref\.buffer_id\s*>=\s*new_arena->num_buffers\s*\|\|\s*reloc_ref\.offset\s*>\s*b->used\s*-\s*sizeof\(void\*\)\s*\|\|\s*b->data\s*==\s*NULL\s*\)", arena_c)
    reloc_test_plain = m is not None
    # a guarded variant (after a fix): "b->used < sizeof(void*) ||" present
    reloc_test_guarded = re.search(r"b->used\s*<\s*sizeof\(\s*void\s*\*\s*\)\s*\|\|", arena_c) is not None
    # optional validations of a hardened loader (notes/C17-loader-validation.diff)
    checks_offsets = re.search(r"buffers\[i\]\.offset\s*!=\s*expected_offset", arena_c) is not None
    mref = re.search(r"ref\.offset\s*(>=|>)\s*new_arena->buffers\[ref\.buffer_id\]\.used", arena_c)
    validates_refs = mref is not None and re.search(r"ref\.buffer_id\s*>=\s*new_arena->num_buffers", arena_c) is not None
    ref_strict = bool(mref and mref.group(1) == ">=")
    byte_reads = re.search(r"yr_stream_read\(\s*&reloc_ref\s*,\s*1\s*,\s*sizeof\(reloc_ref\)\s*,\s*stream\s*\)", arena_c) is not None
    item_reads = re.search(r"yr_stream_read\(\s*&reloc_ref\s*,\s*sizeof\(reloc_ref\)\s*,\s*1\s*,\s*stream\s*\)", arena_c) is not None
    rejects_partial = byte_reads and re.search(r"reloc_bytes\s*!=\s*0", arena_c) is not None
    if not (byte_reads or item_reads):
        bad.append("relocReadCall")
    # fix-up range test of the growth path
    fix = re.search(r"(?:\(uint8_t\*\)\s*)?reloc_target\s*(>=|>)\s*b->data\s*&&\s*(?:\(uint8_t\*\)\s*)?reloc_target\s*(<=|<)\s*b->data\s*\+\s*b->used", arena_c)
    if fix is None:
        bad.append("fixupTest")
    p2r = re.search(r"\(uint8_t\*\)\s*address\s*(>=|>)\s*arena->buffers\[i\]\.data\s*&&\s*\(uint8_t\*\)\s*address\s*(<=|<)\s*arena->buffers\[i\]\.data\s*\+\s*arena->buffers\[i\]\.used", arena_c)
    if p2r is None:
        bad.append("ptrToRefTest")
    if not (reloc_test_plain or reloc_test_guarded):
        bad.append("relocBoundsTest")
    out = ["/- GENERATED by translators/arenalayout.py from libyara/arena.c, arena.h, limits.h — do not edit. -/",
           "namespace YaraModel.Gen.ArenaLayout", ""]
    for k in ("fileVersion", "maxBuffers", "loadInitialSize", "maxBufferSizeLog2"):
        out.append("def %s : Nat := %d" % (k, vals[k]))
    out.append("def magic : List UInt8 := [%s]" % ", ".join(str(x) for x in magic))
    for k, v in sizes.items():
        out.append("def %s : Nat := %d" % (k, v))
    for k in sorted(lay):
        out.append("def %s : Nat := %d" % (k, lay[k]))
    out.append("/-- the loader's relocation test is `offset > used - sizeof(void*)` without a guard for `used < 8` -/")
    out.append("def relocTestGuarded : Bool := %s" % ("true" if reloc_test_guarded else "false"))
    out.append("def loaderChecksOffsets : Bool := %s" % ("true" if checks_offsets else "false"))
    out.append("def loaderValidatesRefs : Bool := %s" % ("true" if validates_refs else "false"))
    out.append("def loaderRefStrict : Bool := %s" % ("true" if ref_strict else "false"))
    out.append("def loaderRejectsPartial : Bool := %s" % ("true" if rejects_partial else "false"))
    out.append("/-- relocation entries are requested as 8 items of 1 byte (true) or 1 item of 8 bytes (false) -/")
    out.append("def loaderReadsRelocBytes : Bool := %s" % ("true" if byte_reads else "false"))
    out.append("/-- `>=` (true) or `>` (false) on the lower end, `<` (true) or `<=` (false) on the upper end of the range tests -/")
    out.append("def fixupLowerInclusive : Bool := %s" % ("true" if fix and fix.group(1) == ">=" else "false"))
    out.append("def fixupUpperExclusive : Bool := %s" % ("true" if fix and fix.group(2) == "<" else "false"))
    out.append("def ptrToRefLowerInclusive : Bool := %s" % ("true" if p2r and p2r.group(1) == ">=" else "false"))
    out.append("def ptrToRefUpperExclusive : Bool := %s" % ("true" if p2r and p2r.group(2) == "<" else "false"))
    out.append("def unparsed : Bool := %s" % ("true" if bad else "false"))
    out.append("-- unparsed items: %s" % (", ".join(bad) if bad else "none"))
    out += ["", "end YaraModel.Gen.ArenaLayout", ""]
    text = "\n".join(out)
    os.makedirs(gendir, exist_ok=True)
    path = os.path.join(gendir, "ArenaLayout.lean")
    if not os.path.exists(path) or open(path).read() != text:
        open(path, "w").write(text)
    return hashlib.sha256(text.encode()).hexdigest()[:16]


if __name__ == "__main__":
    import sys
    print(run(sys.argv[1] if len(sys.argv) > 1 else "/repo", os.path.join(os.path.dirname(os.path.dirname(os.path.abspath(__file__))), "lean", "YaraModel", "Gen")))
