"""T5 — regenerate lean/YaraModel/Gen/Bounds.lean from the C text of the bounds predicates.

Every predicate is located by a regular expression in its source file, its atoms (struct
members, parameters, sizeof's) are renamed through a per-predicate table, and the remaining
C expression (subset: || && ! < <= > >= == != + - * casts sizeof parentheses) is parsed by a
small recursive-descent parser and printed as a Lean `Bool` over `BitVec 64`.

C semantics made explicit:
  * every operand is 64 bit on this target (size_t, pointers, uint64_t; narrower unsigned
    operands are zero-extended by the usual arithmetic conversions before +,-,<,...), so
    `+`/`-` are `BitVec 64` add/sub = wrap-around, comparisons are unsigned;
  * for every predicate a twin `<name>_ub` is generated that is true exactly when the C
    evaluation (with short-circuit) performs *pointer* arithmetic that leaves [0,2^64) —
    undefined behaviour in C, where the compiled code need not agree with the wrap-around
    reading. The function-level correspondence compares strictly only where `_ub` is false.
If a predicate cannot be located/parsed it is emitted as `unparsed`: a `def <name>_unparsed` marker plus a
STUB that never accepts, so the library and driver still build; vf/checks/c06.py then does not count the
dependent theorems as discharged, skips the function-level comparison for it and relies on the runtime
correspondence (DESIGN R4).
"""
import os, re, hashlib, json

# ------------------------------------------------------------------ C expression subset

TYPE_RE = re.compile(r"^(const\s+)?(unsigned\s+)?(size_t|u?int\d+_t|char|void|int|long|DWORD|ULONG)\s*\**$")
TOK_RE = re.compile(r"\s*(0x[0-9a-fA-F]+|\d+|[A-Za-z_][A-Za-z0-9_]*|->|\|\||&&|<=|>=|==|!=|[-+*/%<>!().,&~])")


class ParseError(Exception):
    pass


def tokenize(s):
    out, i = [], 0
    s = s.strip()
    while i < len(s):
        m = TOK_RE.match(s, i)
        if not m:
            raise ParseError("bad token at %r" % s[i:i + 20])
        out.append(m.group(1))
        i = m.end()
    return out


class P:
    """AST: ('num',n) ('var',name,kind) ('bin',op,a,b) ('not',a)"""

    def __init__(self, toks, atoms):
        self.t, self.i, self.atoms = toks, 0, atoms

    def peek(self, k=0):
        return self.t[self.i + k] if self.i + k < len(self.t) else None

    def eat(self, x=None):
        tok = self.peek()
        if tok is None or (x is not None and tok != x):
            raise ParseError("expected %r got %r" % (x, tok))
        self.i += 1
        return tok

    def parse(self):
        e = self.p_or()
        if self.peek() is not None:
            raise ParseError("trailing %r" % self.peek())
        return e

    def p_or(self):
        e = self.p_and()
        while self.peek() == "||":
            self.eat(); e = ("bin", "||", e, self.p_and())
        return e

    def p_and(self):
        e = self.p_cmp()
        while self.peek() == "&&":
            self.eat(); e = ("bin", "&&", e, self.p_cmp())
        return e

    def p_cmp(self):
        e = self.p_add()
        if self.peek() in ("<", "<=", ">", ">=", "==", "!="):
            op = self.eat(); e = ("bin", op, e, self.p_add())
        return e

    def p_add(self):
        e = self.p_mul()
        while self.peek() in ("+", "-"):
            op = self.eat(); e = ("bin", op, e, self.p_mul())
        return e

    def p_mul(self):
        e = self.p_un()
        while self.peek() == "*":
            self.eat(); e = ("bin", "*", e, self.p_un())
        return e

    def is_cast(self):
        if self.peek() != "(":
            return 0
        j = self.i + 1
        words = []
        while j < len(self.t) and self.t[j] != ")":
            if self.t[j] == "(":
                return 0
            words.append(self.t[j]); j += 1
        txt = " ".join(words).replace(" *", "*")
        return (j - self.i + 1) if TYPE_RE.match(txt) else 0

    def p_un(self):
        if self.peek() == "!":
            self.eat(); return ("not", self.p_un())
        n = self.is_cast()
        if n:
            ty = " ".join(self.t[self.i + 1:self.i + n - 1]).replace(" *", "*")
            self.i += n
            inner = self.p_un()
            if re.match(r"^(const )?(uint32_t|DWORD|unsigned int|int32_t|int)$", ty):
                return ("cast32", inner)     # truncation to 32 bits
            return ("cast64", inner)         # 64-bit integer / pointer types: identity on the bits (zero-extension of narrower unsigned values)
        return self.p_prim()

    def p_prim(self):
        tok = self.peek()
        if tok == "(":
            self.eat(); e = self.p_or(); self.eat(")"); return e
        if tok is None:
            raise ParseError("unexpected end")
        if re.match(r"^(0x[0-9a-fA-F]+|\d+)$", tok):
            self.eat(); return ("num", int(tok, 0), "lit")
        if tok == "sizeof":
            self.eat(); self.eat("(")
            words = []
            depth = 1
            while True:
                x = self.eat()
                if x == "(": depth += 1
                if x == ")":
                    depth -= 1
                    if depth == 0: break
                words.append(x)
            return self.atom("sizeof(" + "".join(words) + ")")
        if re.match(r"^[A-Za-z_]", tok):
            name = self.eat()
            while self.peek() in ("->", "."):
                name += self.eat() + self.eat()
            return self.atom(name)
        raise ParseError("unexpected %r" % tok)

    def atom(self, name):
        if name not in self.atoms:
            raise ParseError("unknown atom %r" % name)
        a = self.atoms[name]
        if isinstance(a, int):
            return ("num", a, "int")         # sizeof / named constants of type size_t
        return ("var", a[0], a[1])


def kind(e):
    """ptr | int (64-bit unsigned) | u32 (32-bit unsigned: arithmetic wraps at 2^32, C's usual arithmetic conversions) | lit (int literal) | bool"""
    if e[0] == "num": return e[2]
    if e[0] == "var": return e[2]
    if e[0] == "not": return "bool"
    if e[0] == "cast32": return "u32"
    if e[0] == "cast64":
        k = kind(e[1])
        return "ptr" if k == "ptr" else "int"
    op, a, b = e[1], e[2], e[3]
    if op in ("||", "&&", "<", "<=", ">", ">=", "==", "!="): return "bool"
    ka, kb = kind(a), kind(b)
    if op == "+" and "ptr" in (ka, kb): return "ptr"
    if op == "-" and ka == "ptr": return "int" if kb == "ptr" else "ptr"
    if ka == "lit" and kb == "lit": return "lit"
    if ka in ("u32", "lit") and kb in ("u32", "lit"): return "u32"
    return "int"


def lean_val(e):
    """value of an integer/pointer expression as BitVec 64 (narrower values zero-extended)"""
    if e[0] == "num": return "(BitVec.allOnes 64)" if e[1] == 2**64 - 1 else "(%d#64)" % e[1]
    if e[0] == "var": return e[1]
    if e[0] == "cast64": return lean_val(e[1])
    if e[0] == "cast32": return "(w32 %s)" % lean_val(e[1])
    if e[0] == "bin" and e[1] in "+-*":
        v = "(%s %s %s)" % (lean_val(e[2]), e[1], lean_val(e[3]))
        return "(w32 %s)" % v if kind(e) == "u32" else v
    raise ParseError("boolean used as value")


def lean_bool(e):
    if e[0] == "not": return "(!%s)" % lean_bool(e[1])
    if e[0] == "bin":
        op, a, b = e[1], e[2], e[3]
        if op == "||": return "(%s || %s)" % (lean_bool(a), lean_bool(b))
        if op == "&&": return "(%s && %s)" % (lean_bool(a), lean_bool(b))
        if op in ("<", "<=", ">", ">=", "==", "!="):
            la, lb = lean_val(a), lean_val(b)
            return {"<": "decide (%s < %s)", "<=": "decide (%s ≤ %s)", ">": "decide (%s < %s)" , ">=": "decide (%s ≤ %s)",
                    "==": "(%s == %s)", "!=": "(%s != %s)"}[op] % ((lb, la) if op in (">", ">=") else (la, lb))
    raise ParseError("value used as boolean")


def lean_ub(e):
    """Bool term: pointer arithmetic leaves [0,2^64) during the (short-circuit) evaluation."""
    if e[0] in ("num", "var"): return "false"
    if e[0] in ("not", "cast32", "cast64"): return lean_ub(e[1])
    op, a, b = e[1], e[2], e[3]
    ua, ub = lean_ub(a), lean_ub(b)
    if op == "&&": return _or(ua, "(%s && %s)" % (lean_bool(a), ub) if ub != "false" else "false")
    if op == "||": return _or(ua, "((!%s) && %s)" % (lean_bool(a), ub) if ub != "false" else "false")
    own = "false"
    if op == "+" and kind(e) == "ptr":
        own = "decide (%s.toNat + %s.toNat ≥ 2^64)" % (lean_val(a), lean_val(b))
    if op == "-" and kind(e) == "ptr":
        own = "decide (%s.toNat < %s.toNat)" % (lean_val(a), lean_val(b))
    return _or(_or(ua, ub), own)


def _or(a, b):
    if a == "false": return b
    if b == "false": return a
    return "(%s || %s)" % (a, b)


# ------------------------------------------------------------------ predicate table

def _strip_cont(text):
    """join continuation lines and drop C comments (a comment between `{` and `return` must not hide a predicate)"""
    text = re.sub(r"\\\n", "\n", text)
    text = re.sub(r"/\*.*?\*/", " ", text, flags=re.S)
    return re.sub(r"//[^\n]*", "", text)


PE_ATOMS = {"pe->data": ("data", "ptr"), "pe->data_size": ("data_size", "int"), "pointer": ("pointer", "ptr"), "size": ("size", "int")}
DEX_ATOMS = {"dex->data": ("data", "ptr"), "dex->data_size": ("data_size", "int"), "pointer": ("pointer", "ptr"), "size": ("size", "int")}

SPECS = [
    dict(name="fits_in_pe", file="libyara/include/yara/pe_utils.h",
         rx=r"#define fits_in_pe\(pe, pointer, size\)(.*?)\n\s*\n", args=["data", "data_size", "pointer", "size"], atoms=PE_ATOMS),
    dict(name="fits_in_dex", file="libyara/include/yara/dex.h",
         rx=r"#define fits_in_dex\(dex, pointer, size\)(.*?)\n\s*\n", args=["data", "data_size", "pointer", "size"], atoms=DEX_ATOMS),
    dict(name="is_valid_ptr", file="libyara/modules/elf/elf.c",
         rx=r"static bool is_valid_ptr\(\s*const void\* base,\s*size_t size,\s*const void\* ptr,\s*uint64_t ptr_size\)[^{]*\{\s*return(.*?);\s*\}",
         args=["base", "size", "ptr", "ptr_size"],
         atoms={"base": ("base", "ptr"), "size": ("size", "int"), "ptr": ("ptr", "ptr"), "ptr_size": ("ptr_size", "int")}),
    dict(name="function_read_in_range", file="libyara/exec.c",
         rx=r"if \((offset >= block->base &&.*?sizeof\(type\))\)\s*\{", args=["base", "size", "offset", "tsize"],
         atoms={"offset": ("offset", "int"), "block->base": ("base", "int"), "block->size": ("size", "int"), "sizeof(type)": ("tsize", "int")}),
    # every `if (COND) { yr_arena_release(new_arena); return ERROR_CORRUPT_FILE; }` between reading a relocation entry and the first use
    # of its offset (memcpy(&ref, b->data + reloc_ref.offset ...)); sequential ifs = short-circuit `||` of their conditions
    dict(name="arena_reloc_reject", file="libyara/arena.c", reject=True,
         span_rx=r"yr_stream_read\(\s*&reloc_ref,[^;{]*\{(.*?)memcpy\(&ref, b->data \+ reloc_ref\.offset",
         cond_rx=r"if \(((?:[^(){}]|\([^()]*\))*)\)\s*\{\s*yr_arena_release\(new_arena\);\s*return ERROR_CORRUPT_FILE;\s*\}",
         args=["buffer_id", "num_buffers", "offset", "used", "bdata"],
         atoms={"reloc_ref.buffer_id": ("buffer_id", "int"), "new_arena->num_buffers": ("num_buffers", "int"),
                "reloc_ref.offset": ("offset", "int"), "b->used": ("used", "int"), "sizeof(void*)": 8, "b->data": ("bdata", "int"), "NULL": 0}),
    dict(name="macho_cmd_hdr_outside", reject=True, file="libyara/modules/macho/macho.c", all_equal=2,
         rx=r"if \((data \+ size < command \+ sizeof\(yr_load_command_t\))\)\s*break;", args=["data", "size", "command"],
         atoms={"data": ("data", "ptr"), "size": ("size", "int"), "command": ("command", "ptr"), "sizeof(yr_load_command_t)": 8}),
    dict(name="macho_cmd_too_big", reject=True, file="libyara/modules/macho/macho.c", all_equal=2,
         rx=r"if \((size - parsed_size < command_struct\.cmdsize)\)\s*break;", args=["size", "parsed_size", "cmdsize"],
         atoms={"size": ("size", "int"), "parsed_size": ("parsed_size", "int"), "command_struct.cmdsize": ("cmdsize", "int")}),
    dict(name="macho_cmd_too_small", reject=True, file="libyara/modules/macho/macho.c", all_equal=2,
         rx=r"if \((command_struct\.cmdsize < sizeof\(yr_load_command_t\))\)\s*break;", args=["cmdsize"],
         atoms={"command_struct.cmdsize": ("cmdsize", "int"), "sizeof(yr_load_command_t)": 8}),
    dict(name="macho_fat_wraps", reject=True, file="libyara/modules/macho/macho.c",
         rx=r"if \((arch\.offset \+ arch\.size < arch\.offset)\)\s*continue;", args=["offset", "asize"],
         atoms={"arch.offset": ("offset", "int"), "arch.size": ("asize", "int")}),
    dict(name="macho_fat_outside", reject=True, file="libyara/modules/macho/macho.c",
         rx=r"if \((size < arch\.offset \+ arch\.size)\)\s*continue;", args=["size", "offset", "asize"],
         atoms={"size": ("size", "int"), "arch.offset": ("offset", "int"), "arch.size": ("asize", "int")}),
    dict(name="macho_fat_table_outside", reject=True, file="libyara/modules/macho/macho.c",
         rx=r"if \((size < sizeof\(yr_fat_header_t\) \+ count \* fat_arch_sz)\)\s*return;", args=["size", "count", "fat_arch_sz"],
         atoms={"size": ("size", "int"), "count": ("count", "int"), "fat_arch_sz": ("fat_arch_sz", "int"), "sizeof(yr_fat_header_t)": 8}),
    dict(name="elf_table_wraps", reject=True, file="libyara/modules/elf/elf.c", all_equal=2,
         subst=[(r"yr_##bo##bits##toh\(elf_header->[ps]h_offset\)", "tab_offset"), (r"ELF_SIZE_OF_(PROGRAM|SECTION)_TABLE\(bits, bo, elf_header\)", "tab_size")],
         rx=r"if \((ULONG_MAX - tab_offset <\s*tab_size)\)\s*\{\s*return YR_UNDEFINED;", args=["tab_offset", "tab_size"],
         atoms={"ULONG_MAX": 0xFFFFFFFFFFFFFFFF, "tab_offset": ("tab_offset", "int"), "tab_size": ("tab_size", "int")}),
    dict(name="elf_table_outside", reject=True, file="libyara/modules/elf/elf.c", all_equal=2,
         subst=[(r"yr_##bo##bits##toh\(elf_header->[ps]h_offset\)", "tab_offset"), (r"ELF_SIZE_OF_(PROGRAM|SECTION)_TABLE\(bits, bo, elf_header\)", "tab_size"),
                (r"yr_##bo##16toh\(elf_header->[ps]h_entry_count\)", "entry_count")],
         rx=r"if \((tab_offset == 0 \|\|.*?entry_count == 0)\)\s*\{\s*return YR_UNDEFINED;", args=["elf_size", "tab_offset", "tab_size", "entry_count"],
         atoms={"tab_offset": ("tab_offset", "int"), "tab_size": ("tab_size", "int"), "elf_size": ("elf_size", "int"), "entry_count": ("entry_count", "int")}),
    dict(name="dotnet_string_start_ok", file="libyara/modules/dotnet/dotnet.c",
         subst=[(r"heap_offset \+ string_index", "start")],
         rx=r"if \(!\((start >= pe->data &&.*?string_index < heap_size)\)\)\s*return NULL;", args=["data", "data_size", "start", "string_index", "heap_size"],
         atoms={"start": ("start", "ptr"), "pe->data": ("data", "ptr"), "pe->data_size": ("data_size", "int"),
                "string_index": ("string_index", "int"), "heap_size": ("heap_size", "int")}),
    # ---- pe.c inline tests
    dict(name="pe_available_before", reject=True, file="libyara/modules/pe/pe.c",
         rx=r"static size_t available_space\(PE\* pe, void\* pointer\)\s*\{\s*if \((\(uint8_t\*\) pointer < pe->data)\)\s*return 0;",
         args=["data", "data_size", "pointer"], atoms=PE_ATOMS),
    dict(name="pe_available_after", reject=True, file="libyara/modules/pe/pe.c",
         rx=r"static size_t available_space\(PE\* pe, void\* pointer\)\s*\{.*?return 0;\s*if \((\(uint8_t\*\) pointer >= pe->data \+ pe->data_size)\)\s*return 0;",
         args=["data", "data_size", "pointer"], atoms=PE_ATOMS),
    dict(name="pe_available_value", value=True, file="libyara/modules/pe/pe.c",
         rx=r"static size_t available_space\(PE\* pe, void\* pointer\)\s*\{.*?return 0;.*?return 0;\s*return (pe->data \+ pe->data_size - \(uint8_t\*\) pointer);",
         args=["data", "data_size", "pointer"], atoms=PE_ATOMS),
    dict(name="pe_rich_nthdr_reject", reject=True, file="libyara/modules/pe/pe.c",
         rx=r"if \((nthdr_offset > pe->data_size[^;{}]*?\|\| nthdr_offset < 4)\)\s*return;", args=["data_size", "nthdr_offset"],
         atoms={"nthdr_offset": ("nthdr_offset", "u32"), "pe->data_size": ("data_size", "int"), "sizeof(uint32_t)": 4}),
    dict(name="pe_exports_table_outside", reject=True, file="libyara/modules/pe/pe.c",
         rx=r"if \((number_of_exports \* sizeof\(DWORD\) > pe->data_size - offset)\)\s*return;", args=["data_size", "offset", "number_of_exports"],
         atoms={"number_of_exports": ("number_of_exports", "u32"), "pe->data_size": ("data_size", "int"), "offset": ("offset", "int"), "sizeof(DWORD)": 4}),
    dict(name="pe_export_names_outside", reject=True, file="libyara/modules/pe/pe.c",
         subst=[(r"yr_le32toh\(exports->NumberOfNames\)", "number_of_names")],
         rx=r"if \((number_of_names \* sizeof\(DWORD\) >\s*pe->data_size - offset)\)\s*return;", args=["data_size", "offset", "number_of_names"],
         atoms={"number_of_names": ("number_of_names", "u32"), "pe->data_size": ("data_size", "int"), "offset": ("offset", "int"), "sizeof(DWORD)": 4}),
    dict(name="pe_security_dir_reject", reject=True, file="libyara/modules/pe/pe.c",
         subst=[(r"yr_le32toh\(directory->VirtualAddress\)", "sec_va"), (r"yr_le32toh\(directory->Size\)", "sec_size")],
         rx=r"if \((sec_va == 0 \|\|\s*sec_va > pe->data_size \|\|.*?pe->data_size)\)\s*\{\s*return;", args=["data_size", "sec_va", "sec_size"],
         atoms={"sec_va": ("sec_va", "u32"), "sec_size": ("sec_size", "u32"), "pe->data_size": ("data_size", "int")}),
    # pe.c pe_get_section_full_name: `for (len = 0; fits_in_pe(pe, string, <size>); len++) { ... string[len] ... }` — the guarded size as a function of the index read
    dict(name="pe_fullname_guard_size", value=True, file="libyara/modules/pe/pe.c",
         rx=r"for \(uint64_t len = 0; fits_in_pe\(pe, string, ([^;]*?)\); len\+\+\)\s*\{[^{}]*?string\[len\]", args=["len"],
         atoms={"len": ("len", "int")}),
    # ---- dotnet.c inline tests
    dict(name="dotnet_blob4_ok", file="libyara/modules/dotnet/dotnet.c",
         rx=r"else if \((offset \+ 4 < pe->data \+ pe->data_size) && \(\*offset & 0xE0\) == 0xC0\)", args=["data", "data_size", "offset"],
         atoms={"offset": ("offset", "ptr"), "pe->data": ("data", "ptr"), "pe->data_size": ("data_size", "int")}),
    dict(name="dotnet_blob_entry_outside", reject=True, file="libyara/modules/dotnet/dotnet.c",
         rx=r"if \((blob_offset \+ blob_length >= pe->data \+ pe->data_size)\)", args=["data", "data_size", "blob_offset", "blob_length"],
         atoms={"blob_offset": ("blob_offset", "ptr"), "blob_length": ("blob_length", "u32"), "pe->data": ("data", "ptr"), "pe->data_size": ("data_size", "int")}),
    dict(name="dotnet_blob_index_reject", reject=True, file="libyara/modules/dotnet/dotnet.c",
         rx=r"if \((blob_index == 0x00 \|\| blob_offset >= pe->data \+ pe->data_size)\)", args=["data", "data_size", "blob_offset", "blob_index"],
         atoms={"blob_offset": ("blob_offset", "ptr"), "blob_index": ("blob_index", "u32"), "pe->data": ("data", "ptr"), "pe->data_size": ("data_size", "int")}),
    dict(name="dotnet_attr_blob_reject", reject=True, file="libyara/modules/dotnet/dotnet.c",
         rx=r"if \((blob_length < 3 \|\|\s*blob_offset \+ blob_length >= pe->data \+ pe->data_size)\)", args=["data", "data_size", "blob_offset", "blob_length"],
         atoms={"blob_offset": ("blob_offset", "ptr"), "blob_length": ("blob_length", "u32"), "pe->data": ("data", "ptr"), "pe->data_size": ("data_size", "int")}),
    dict(name="dotnet_attr_str_outside", reject=True, file="libyara/modules/dotnet/dotnet.c",
         rx=r"if \((blob_offset \+ str_len > pe->data \+ pe->data_size)\)", args=["data", "data_size", "blob_offset", "str_len"],
         atoms={"blob_offset": ("blob_offset", "ptr"), "str_len": ("str_len", "u32"), "pe->data": ("data", "ptr"), "pe->data_size": ("data_size", "int")}),
    # ---- elf.c string table entry
    dict(name="elf_str_table_empty", reject=True, file="libyara/modules/elf/elf.c",
         rx=r"if \((str_table_base >= str_table_limit)\)\s*return NULL;", args=["str_table_base", "str_table_limit"],
         atoms={"str_table_base": ("str_table_base", "ptr"), "str_table_limit": ("str_table_limit", "ptr")}),
    dict(name="elf_str_entry_outside", reject=True, file="libyara/modules/elf/elf.c",
         rx=r"if \((str_entry >= str_table_limit)\)\s*return NULL;", args=["str_entry", "str_table_limit"],
         atoms={"str_entry": ("str_entry", "ptr"), "str_table_limit": ("str_table_limit", "ptr")}),
]

ALIASES = [  # (name, file, regex that must match, target)
    ("struct_fits_in_pe", "libyara/include/yara/pe_utils.h",
     r"#define struct_fits_in_pe\(pe, pointer, struct_type\)\s*fits_in_pe\(pe, pointer, sizeof\(struct_type\)\)", "fits_in_pe"),
    ("struct_fits_in_dex", "libyara/include/yara/dex.h",
     r"#define struct_fits_in_dex\(dex, pointer, struct_type\)\s*fits_in_dex\(dex, pointer, sizeof\(struct_type\)\)", "fits_in_dex"),
]

CONSTS = [  # (lean name, file, regex with one numeric group)
    ("MAX_PE_SECTIONS", "libyara/include/yara/pe_utils.h", r"#define MAX_PE_SECTIONS\s+(\w+)"),
    ("MAX_PE_IMPORTS", "libyara/modules/pe/pe.c", r"#define MAX_PE_IMPORTS\s+(\w+)"),
    ("MAX_PE_EXPORTS", "libyara/modules/pe/pe.c", r"#define MAX_PE_EXPORTS\s+(\w+)"),
    ("MAX_RESOURCES", "libyara/modules/pe/pe.c", r"#define MAX_RESOURCES\s+(\w+)"),
    ("MAX_PE_CERTS", "libyara/include/yara/pe.h", r"#define MAX_PE_CERTS\s+(\w+)"),
    ("PE_PAGE_SIZE", "libyara/include/yara/pe.h", r"#define PE_PAGE_SIZE\s+(\w+)"),
    ("PE_SECTOR_SIZE", "libyara/include/yara/pe.h", r"#define PE_SECTOR_SIZE\s+(\w+)"),
    ("MAX_METHOD_COUNT", "libyara/include/yara/dotnet.h", r"#define MAX_METHOD_COUNT\s+(\w+)"),
    ("MAX_PARAM_COUNT", "libyara/include/yara/dotnet.h", r"#define MAX_PARAM_COUNT\s+(\w+)"),
    ("MAX_TYPE_DEPTH", "libyara/include/yara/dotnet.h", r"#define MAX_TYPE_DEPTH\s+(\w+)"),
    ("ELF_SHN_LORESERVE", "libyara/include/yara/elf.h", r"#define ELF_SHN_LORESERVE\s+(\w+)"),
]

CALLSITE_FILES = ["libyara/modules/pe/pe.c", "libyara/modules/pe/pe_utils.c", "libyara/modules/dotnet/dotnet.c",
                  "libyara/modules/elf/elf.c", "libyara/modules/dex/dex.c", "libyara/modules/macho/macho.c"]
CALLSITE_RX = r"\b(struct_fits_in_pe|fits_in_pe|struct_fits_in_dex|fits_in_dex|is_valid_ptr|IS_VALID_PTR)\s*\("


def translate_one(repo, spec):
    text = _strip_cont(open(os.path.join(repo, spec["file"])).read())
    for a, b in spec.get("subst", []):
        text = re.sub(a, b, text)
    if "span_rx" in spec:
        m = re.search(spec["span_rx"], text, flags=re.S)
        if not m:
            raise ParseError("span not found in %s" % spec["file"])
        conds = re.findall(spec["cond_rx"], m.group(1), flags=re.S)
        if not conds or len(conds) != m.group(1).count("return ERROR_CORRUPT_FILE"):
            raise ParseError("span of %s: %d conditions for %d returns" % (spec["file"], len(conds), m.group(1).count("return ERROR_CORRUPT_FILE")))
        found = [" || ".join("(%s)" % " ".join(c.split()) for c in conds)]
    else:
        found = re.findall(spec["rx"], text, flags=re.S)
    if not found:
        raise ParseError("pattern not found in %s" % spec["file"])
    want = spec.get("all_equal", 1)
    norm = {" ".join(f.split()) for f in found}
    if len(found) != want or len(norm) != 1:
        raise ParseError("expected %d identical occurrence(s), found %d (%d distinct)" % (want, len(found), len(norm)))
    ctext = norm.pop()
    ast = P(tokenize(ctext), spec["atoms"]).parse()
    if spec.get("value"):
        if kind(ast) == "bool":
            raise ParseError("not a value expression")
        return ctext, lean_val(ast), lean_ub(ast)
    if kind(ast) != "bool":
        raise ParseError("not a boolean expression")
    return ctext, lean_bool(ast), lean_ub(ast)


def run(repo, gendir):
    os.makedirs(gendir, exist_ok=True)
    out = ["/- GENERATED by translators/bounds.py from the C text of /repo — do not edit.",
           "   Each `def` is the C expression quoted above it with 64-bit wrap-around arithmetic (BitVec 64);",
           "   `<name>_ub` is true when the C evaluation performs out-of-range *pointer* arithmetic (UB in C). -/",
           "set_option linter.unusedVariables false", "namespace YaraModel.Gen.Bounds", "",
           "/-- result of 32-bit unsigned arithmetic (both operands `uint32_t`/`DWORD`/int literal): wraps at 2^32, then zero-extended -/",
           "def w32 (x : BitVec 64) : BitVec 64 := BitVec.setWidth 64 (BitVec.setWidth 32 x)", ""]
    status = {}
    for spec in SPECS:
        n = spec["name"]
        try:
            ctext, lb, lu = translate_one(repo, spec)
            args = " ".join(spec["args"])
            out += ["/-- `%s`: `%s` -/" % (spec["file"], ctext.replace("/-", "/ -")),
                    "def %s (%s : BitVec 64) : %s :=\n  %s" % (n, args, "BitVec 64" if spec.get("value") else "Bool", lb),
                    "def %s_ub (%s : BitVec 64) : Bool :=\n  %s" % (n, args, lu), ""]
            status[n] = "ok"
        except (ParseError, OSError) as e:
            args = " ".join(spec["args"])
            stub = "true" if spec.get("reject") else "false"
            if spec.get("value"):
                stub = "0#64"
            out += ["/-- UNPARSED `%s` (%s): %s." % (n, spec["file"], str(e).replace("-/", "- /")),
                    "    STUB that never accepts, so that the library and the driver still build; vf/checks/c06.py does not count the dependent theorems",
                    "    as discharged and does not compare this predicate with the compiled code (fallback: runtime correspondence, DESIGN R4). -/",
                    "def %s (%s : BitVec 64) : %s := %s" % (n, args, "BitVec 64" if spec.get("value") else "Bool", stub),
                    "def %s_ub (%s : BitVec 64) : Bool := false" % (n, args),
                    "def %s_unparsed : Unit := ()" % n, ""]
            status[n] = "unparsed: %s" % e
    for n, f, rx, target in ALIASES:
        try:
            ok = re.search(rx, _strip_cont(open(os.path.join(repo, f)).read())) is not None
        except OSError:
            ok = False
        if ok and status.get(target) == "ok":
            out += ["/-- `%s` is `%s` with `size := sizeof(struct_type)` -/" % (n, target),
                    "def %s (data data_size pointer size : BitVec 64) : Bool := %s data data_size pointer size" % (n, target), ""]
            status[n] = "ok"
        else:
            out += ["def %s (data data_size pointer size : BitVec 64) : Bool := false   -- STUB (unparsed)" % n, "def %s_unparsed : Unit := ()" % n, ""]
            status[n] = "unparsed"
    for n, f, rx in CONSTS:
        try:
            m = re.search(rx, open(os.path.join(repo, f)).read())
            v = int(m.group(1), 0)
            out.append("def %s : Nat := %d" % (n, v))
            status[n] = v
        except Exception as e:
            out.append("def %s : Nat := 0   -- STUB (unparsed)" % n)
            out.append("def %s_unparsed : Unit := ()" % n)
            status[n] = "unparsed"
    sites = {}
    for f in CALLSITE_FILES:
        try:
            t = open(os.path.join(repo, f)).read()
        except OSError:
            continue
        for m in re.finditer(CALLSITE_RX, t):
            sites.setdefault(os.path.basename(f), {}).setdefault(m.group(1), 0)
            sites[os.path.basename(f)][m.group(1)] += 1
    names_ok = [s["name"] for s in SPECS if status[s["name"]] == "ok"]
    out += ["", "/-- names of the predicates that were translated in this run -/",
            "def translated : List String := [%s]" % ", ".join('"%s"' % n for n in names_ok), "",
            "end YaraModel.Gen.Bounds", ""]
    text = "\n".join(out)
    path = os.path.join(gendir, "Bounds.lean")
    if not os.path.exists(path) or open(path).read() != text:
        open(path, "w").write(text)
    json.dump({"status": status, "call_sites": sites}, open(os.path.join(gendir, "Bounds.status.json"), "w"), indent=1)
    return hashlib.sha256(text.encode()).hexdigest()[:16]


if __name__ == "__main__":
    import sys
    here = os.path.dirname(os.path.dirname(os.path.abspath(__file__)))
    print(run(sys.argv[1] if len(sys.argv) > 1 else "/repo", os.path.join(here, "lean", "YaraModel", "Gen")))
