"""T5b — guard/read pairs: regenerate lean/YaraModel/Gen/Guards.lean from the C text.

Shape (b) `struct_fits_in_pe(pe, VAR, TYPE)` followed (in the same function) by reads of `VAR->FIELD`, `VAR[k].FIELD`, `(VAR + k)->FIELD`:
  guard size  = sizeof(TYPE)                      (layout parsed from the packed struct definitions in pe.h / dotnet.h)
  read extent = max over the reads of  k*sizeof(DECLARED TYPE of VAR) + offsetof(FIELD) + sizeof(FIELD)
Shape (c) `IS_VALID_PTR(elf, elf_size, VAR)` (guard size sizeof(*VAR)) followed by reads of `VAR->FIELD`, for the 32- and 64-bit layouts of elf.h.
Shape (d) string walks `remaining = <expr>; strnlen((char*)(pe->data + offset), remaining)`: the bound expression as a BitVec 64 value.
Every site becomes a row of `structGuards` (name, file, guard type, guard size, pointer type, read extent, fields); Thm/C06 proves for ALL rows
`extent <= guard size` and hence, with fits_in_pe_sound / is_valid_ptr_sound, that every such read lies inside the file. A site whose pieces cannot be
parsed is listed in `unparsedGuards` (not counted). The layouts used are checked against the compiler by vf/checks/c06.py (offsetof/sizeof program)."""
import os, re, json, hashlib

PRIM = {"BYTE": 1, "CHAR": 1, "char": 1, "uint8_t": 1, "int8_t": 1, "UCHAR": 1, "WORD": 2, "USHORT": 2, "SHORT": 2, "uint16_t": 2, "int16_t": 2, "WCHAR": 2,
        "DWORD": 4, "LONG": 4, "ULONG": 4, "uint32_t": 4, "int32_t": 4, "ULONGLONG": 8, "LONGLONG": 8, "uint64_t": 8, "int64_t": 8, "ULONG_PTR": 8, "DWORD_PTR": 8}


def strip_comments(t):
    t = re.sub(r"/\*.*?\*/", " ", t, flags=re.S)
    return re.sub(r"//[^\n]*", "", t)


class Layouts:
    def __init__(self, texts):
        self.text = "\n".join(strip_comments(t) for t in texts)
        self.defs = dict(re.findall(r"#define\s+(\w+)\s+(\d+|0x[0-9a-fA-F]+)\s*$", self.text, flags=re.M))
        self.prim = dict(PRIM)
        for _ in range(3):
            for t, n in re.findall(r"typedef\s+((?:unsigned\s+)?\w+)\s+(\w+)\s*;", self.text):
                if t in self.prim: self.prim[n] = self.prim[t]
        self.structs = {}      # name -> (size, {field: (off, size)})
        self.alias = {}
        for m in re.finditer(r"typedef\s+struct\s+\w*\s*\{", self.text):
            body, end = self._balanced(m.end() - 1)
            tail = re.match(r"\s*([^;]*);", self.text[end:])
            if not tail:
                continue
            names = [n.strip() for n in tail.group(1).split(",") if n.strip()]
            try:
                size, fields = self._layout(body)
            except Exception:
                continue
            for n in names:
                if n.startswith("*"):
                    self.alias[n[1:].strip()] = names[0]
                else:
                    self.structs[n] = (size, fields)

    def _balanced(self, i):
        depth, j = 0, i
        while True:
            if self.text[j] == "{": depth += 1
            elif self.text[j] == "}":
                depth -= 1
                if depth == 0: return self.text[i + 1:j], j + 1
            j += 1

    def _num(self, s):
        s = s.strip()
        if s in self.defs: s = self.defs[s]
        return int(s, 0)

    def _tsize(self, t):
        t = t.strip()
        if t.endswith("*"): return 8
        if t in self.prim: return self.prim[t]
        if t in self.structs: return self.structs[t][0]
        raise KeyError(t)

    def _layout(self, body, union=False):
        off, fields, size = 0, {}, 0
        i = 0
        while i < len(body):
            m = re.compile(r"\s*(union|struct)\s*\w*\s*\{").match(body, i)
            if m:
                depth, j = 0, m.end() - 1
                while True:
                    if body[j] == "{": depth += 1
                    elif body[j] == "}":
                        depth -= 1
                        if depth == 0: break
                    j += 1
                inner = body[m.end():j]
                t2 = re.compile(r"\s*(\w*)\s*;").match(body, j + 1)
                isz, ifl = self._layout(inner, union=(m.group(1) == "union"))
                name = t2.group(1) if t2 else ""
                if name: fields[name] = (0 if union else off, isz)
                else:
                    for k, (o, s) in ifl.items(): fields[k] = ((0 if union else off) + o, s)
                if union: size = max(size, isz)
                else: off += isz
                i = t2.end() if t2 else j + 1
                continue
            m = re.compile(r"\s*([A-Za-z_][\w ]*?[\s\*]+)(\w+)\s*(\[\s*(\w*)\s*\])?\s*;").match(body, i)
            if not m:
                if body[i:].strip() == "": break
                raise ValueError("cannot parse %r" % body[i:i + 40])
            ty = " ".join(m.group(1).replace("const", "").split()).replace(" *", "*")
            n = self._num(m.group(4)) if m.group(3) and m.group(4) != "" else (0 if m.group(3) else 1)
            sz = self._tsize(ty) * n
            fields[m.group(2)] = (0 if union else off, sz)
            if union: size = max(size, sz)
            else: off += sz
            i = m.end()
        return (size if union else off), fields

    def resolve(self, t):
        t = t.strip().rstrip("*").strip()
        if t in self.structs: return t
        if t in self.alias: return self.alias[t]
        if t.startswith("P") and t[1:] in self.structs: return t[1:]
        return None


def functions(text):
    """-> [(start, end)] of top-level function bodies (a line that is exactly `{` … the next line that is exactly `}`)"""
    out, pos = [], 0
    for m in re.finditer(r"^\{\s*$", text, flags=re.M):
        e = re.compile(r"^\}", re.M).search(text, m.end())
        if e: out.append((m.start(), e.end()))
    return out


def fname(text, start):
    head = text[max(0, start - 400):start]
    m = re.findall(r"(\w+)\s*\([^;{}]*\)\s*$", head, flags=re.S)
    return m[-1] if m else "?"


def struct_sites(repo, rel, L):
    text = strip_comments(open(os.path.join(repo, rel)).read())
    sites, bad = [], []
    for (fs, fe) in functions(text):
        body = text[fs:fe]
        fn = fname(text, fs)
        head = text[max(0, fs - 600):fs]
        for g in re.finditer(r"struct_fits_in_pe\(\s*pe\s*,\s*(\w+)\s*,\s*(\w+)\s*\)", body):
            var, gty = g.group(1), g.group(2)
            decl = re.findall(r"\b(P?[A-Z][A-Z0-9_]+\s*\*?)\s*%s\b\s*[=;,)]" % re.escape(var), head + body)
            dty = L.resolve(decl[0]) if decl else None
            if gty not in L.structs or not dty:
                bad.append("%s:%s guard %s(%s) declared %s" % (os.path.basename(rel), fn, var, gty, decl[:1])); continue
            dsz, dfl = L.structs[dty]
            reads, extent, ok = [], 0, True
            after = body[g.end():]
            for pat, kidx in ((r"\b%s->(\w+)" % re.escape(var), None), (r"\b%s\[(\d+)\]\.(\w+)" % re.escape(var), 0), (r"\(\s*%s\s*\+\s*(\d+)\s*\)->(\w+)" % re.escape(var), 0)):
                for r_ in re.finditer(pat, after):
                    k = int(r_.group(1)) if kidx is not None else 0
                    fld = r_.group(2) if kidx is not None else r_.group(1)
                    if fld not in dfl:
                        ok = False; bad.append("%s:%s field %s.%s unknown" % (os.path.basename(rel), fn, dty, fld)); continue
                    o, s = dfl[fld]
                    extent = max(extent, k * dsz + o + s)
                    reads.append(("%s[%d].%s" % (var, k, fld)) if k else fld)
            if ok and reads:
                sites.append(dict(name="%s.%s.%s" % (os.path.basename(rel).replace(".c", ""), fn, var), file=rel, guard_type=gty, guard_size=L.structs[gty][0], ptr_type=dty,
                                  read_extent=extent, fields=sorted(set(reads))))
    return sites, bad


def elf_sites(repo, L):
    rel = "libyara/modules/elf/elf.c"
    text = strip_comments(open(os.path.join(repo, rel)).read()).replace("\\\n", "\n")
    sites, bad = [], []
    for g in re.finditer(r"IS_VALID_PTR\(\s*elf\s*,\s*elf_size\s*,\s*(\w+)\s*\)", text):
        var = g.group(1)
        decl = re.findall(r"elf##bits##_(\w+)\*\s*%s\b" % re.escape(var), text)
        if not decl:
            bad.append("elf.c guard IS_VALID_PTR(%s): declaration not found" % var); continue
        region = text[g.end():g.end() + 1500]
        flds = sorted(set(re.findall(r"\b%s->(\w+)" % re.escape(var), region)))
        kreads = [(int(k), f) for k, f in re.findall(r"\b%s\[(\d+)\]\.(\w+)" % re.escape(var), region)] + \
                 [(int(k), f) for k, f in re.findall(r"\(\s*%s\s*\+\s*(\d+)\s*\)->(\w+)" % re.escape(var), region)]
        for bits in (32, 64):
            ty = "elf%d_%s" % (bits, decl[0])
            if ty not in L.structs:
                bad.append("elf.c %s: layout of %s unknown" % (var, ty)); continue
            sz, fl = L.structs[ty]
            if any(f not in fl for f in flds) or not flds:
                bad.append("elf.c %s: field of %s unknown (%s)" % (var, ty, flds)); continue
            ext = max([fl[f][0] + fl[f][1] for f in flds] + [k * sz + fl[f][0] + fl[f][1] for k, f in kreads if f in fl])
            sites.append(dict(name="elf.parse_elf_header_%d.%s" % (bits, var), file=rel, guard_type="sizeof(*%s)=%s" % (var, ty), guard_size=sz, ptr_type=ty, read_extent=ext, fields=flds))
    return sites, bad


def numeric_sites(repo, rel, L):
    """shape (a): `fits_in_pe(pe, VAR, <number>)` followed — until the next guard of the same pointer — by `*VAR`, `*(VAR + k)`, `VAR[k]`, `*(T*) VAR`, `*(T*) (VAR + k)`"""
    text = strip_comments(open(os.path.join(repo, rel)).read())
    sites = []
    for (fs, fe) in functions(text):
        body = text[fs:fe]
        fn = fname(text, fs)
        guards = list(re.finditer(r"(?<![_\w])fits_in_pe\(\s*pe\s*,\s*(\w+)\s*,\s*(\d+)\s*\)", body))
        for gi, g in enumerate(guards):
            var, n = g.group(1), int(g.group(2))
            nxt = re.compile(r"fits_in_pe\(\s*pe\s*,\s*%s\s*," % re.escape(var)).search(body, g.end())
            region = body[g.end():nxt.start() if nxt else len(body)]
            ext, reads = 0, []
            v = re.escape(var)
            for m in re.finditer(r"\*\s*\(\s*(\w+)\s*\*\s*\)\s*\(\s*%s\s*\+\s*(\d+)\s*\)" % v, region):
                w = L.prim.get(m.group(1), 1); ext = max(ext, int(m.group(2)) + w); reads.append("*(%s*)(%s+%s)" % (m.group(1), var, m.group(2)))
            for m in re.finditer(r"\*\s*\(\s*(\w+)\s*\*\s*\)\s*%s\b(?!\s*\+)" % v, region):
                w = L.prim.get(m.group(1), 1); ext = max(ext, w); reads.append("*(%s*)%s" % (m.group(1), var))
            for m in re.finditer(r"\*\s*\(\s*%s\s*\+\s*(\d+)\s*\)" % v, region):
                ext = max(ext, int(m.group(1)) + 1); reads.append("*(%s+%s)" % (var, m.group(1)))
            for m in re.finditer(r"(?<![\w\)])\*\s*%s\b" % v, region):
                ext = max(ext, 1); reads.append("*%s" % var)
            for m in re.finditer(r"\b%s\[(\d+)\]" % v, region):
                ext = max(ext, int(m.group(1)) + 1); reads.append("%s[%s]" % (var, m.group(1)))
            if reads:
                sites.append(dict(name="%s.%s.%s#%d" % (os.path.basename(rel).replace(".c", ""), fn, var, n), file=rel, guard_type="%d bytes" % n, guard_size=n, ptr_type="uint8_t",
                                  read_extent=ext, fields=sorted(set(reads))))
    return sites


def wide_key_sites(repo, L):
    """pe.c version info: `fits_in_pe(pe, X->Key, sizeof("LIT") * 2)` guarding `strcmp_w(X->Key, "LIT2")`, which reads at most (strlen(LIT2) + 1) UTF-16 units"""
    rel = "libyara/modules/pe/pe.c"
    text = strip_comments(open(os.path.join(repo, rel)).read())
    sites = []
    for m in re.finditer(r'fits_in_pe\(\s*pe\s*,\s*(\w+)->Key\s*,\s*sizeof\("([^"]*)"\)\s*\*\s*2\s*\)\s*\)?\s*(?:return;|&&)?\s*(?:if\s*\()?\s*strcmp_w\(\s*\1->Key\s*,\s*"([^"]*)"\s*\)', text):
        g, r_ = (len(m.group(2)) + 1) * 2, (len(m.group(3)) + 1) * 2
        sites.append(dict(name="pe.pe_parse_version_info.%s->Key#%s" % (m.group(1), m.group(3)), file=rel, guard_type='sizeof(\\"%s\\")*2' % m.group(2), guard_size=g, ptr_type="UTF-16 string",
                          read_extent=r_, fields=['strcmp_w(Key, \\"%s\\")' % m.group(3)]))
    return sites


def run(repo, gendir):
    os.makedirs(gendir, exist_ok=True)
    inc = os.path.join(repo, "libyara/include/yara")
    L = Layouts([open(os.path.join(inc, f)).read() for f in ("pe.h", "dotnet.h", "elf.h")])
    sites, bad = [], []
    for rel in ("libyara/modules/pe/pe.c", "libyara/modules/pe/pe_utils.c", "libyara/modules/dotnet/dotnet.c"):
        s, b = struct_sites(repo, rel, L); sites += s; bad += b
    s, b = elf_sites(repo, L); sites += s; bad += b
    for rel in ("libyara/modules/pe/pe.c", "libyara/modules/dotnet/dotnet.c"):
        sites += numeric_sites(repo, rel, L)
    sites += wide_key_sites(repo, L)
    # (d) strnlen bounds in pe.c
    text = strip_comments(open(os.path.join(repo, "libyara/modules/pe/pe.c")).read())
    bounds = re.findall(r"remaining\s*=\s*([^;]+);\s*name_len\s*=\s*strnlen\(\s*\(char\*\)\s*\(pe->data \+ offset\)\s*,\s*remaining\s*\)", text)
    norm = sorted({" ".join(b.split()) for b in bounds})
    forms, strn_bad = [], []
    for e in norm:
        m = re.fullmatch(r"pe->data_size - \(size_t\) offset(?: ([+-]) (\d+))?", e)
        if m: forms.append("(data_size - offset)" if not m.group(1) else "((data_size - offset) %s (%s#64))" % (m.group(1), m.group(2)))
        else: strn_bad.append(e)
    strn = (forms, norm, len(bounds)) if forms and not strn_bad else None
    out = ["/- GENERATED by translators/guards.py from pe.c / pe_utils.c / dotnet.c / elf.c and the packed layouts of pe.h / dotnet.h / elf.h — do not edit. -/",
           "set_option linter.unusedVariables false", "namespace YaraModel.Gen.Guards", "",
           "structure Site where", "  name : String", "  guardType : String", "  guardSize : Nat", "  ptrType : String", "  readExtent : Nat", "  fields : List String",
           "  deriving Repr, DecidableEq", "",
           "/-- guard/read pairs `struct_fits_in_pe(pe, p, T)` / `IS_VALID_PTR(elf, elf_size, p)` + reads of `p->field`, `p[k].field`, `(p + k)->field` in the same function -/",
           "def structGuards : List Site := ["]
    out.append(",\n".join('  ⟨"%s", "%s", %d, "%s", %d, [%s]⟩' % (s["name"], s["guard_type"], s["guard_size"], s["ptr_type"], s["read_extent"],
                                                                  ", ".join('"%s"' % f for f in s["fields"])) for s in sites))
    out += ["]", ""]
    if strn:
        out += ["/-- pe.c (%d sites) `remaining = <e>; strnlen((char*)(pe->data + offset), remaining)`: the distinct bound expressions %s -/" % (strn[2], strn[1]),
                "def pe_strnlen_bounds (data_size offset : BitVec 64) : List (BitVec 64) := [%s]" % ", ".join(strn[0]), ""]
    else:
        bad.append("pe.c strnlen bound expression(s) not recognised: %s" % (strn_bad or norm))
        out += ["def pe_strnlen_bounds (data_size offset : BitVec 64) : List (BitVec 64) := []", "def pe_strnlen_bounds_unparsed : Unit := ()", ""]
    out += ["def unparsedGuards : List String := [%s]" % ", ".join('"%s"' % b.replace('"', "'") for b in bad), "", "end YaraModel.Gen.Guards", ""]
    text_out = "\n".join(out)
    path = os.path.join(gendir, "Guards.lean")
    if not os.path.exists(path) or open(path).read() != text_out:
        open(path, "w").write(text_out)
    used = {}
    for s in sites:
        for ty in {s["ptr_type"], s["guard_type"]}:
            if ty in L.structs:
                used[ty] = {"size": L.structs[ty][0], "fields": {f: list(L.structs[ty][1][f]) for f in L.structs[ty][1]}}
    json.dump({"sites": sites, "unparsed": bad, "strnlen": strn, "layouts": used}, open(os.path.join(gendir, "Guards.status.json"), "w"), indent=1)
    return hashlib.sha256(text_out.encode()).hexdigest()[:16]


if __name__ == "__main__":
    import sys
    here = os.path.dirname(os.path.dirname(os.path.abspath(__file__)))
    print(run(sys.argv[1] if len(sys.argv) > 1 else "/repo", os.path.join(here, "lean", "YaraModel", "Gen")))
