"""T2 (C04 part) — regenerate lean/YaraModel/Gen/SizedStr.lean from libyara/sizedstr.c: the comparison functions behind the
string operators of the condition language (ss_compare, ss_icompare, ss_contains, ss_icontains, ss_startswith,
ss_istartswith, ss_endswith, ss_iendswith) as Lean functions over byte lists.

The function bodies are written in a small imperative fragment which is translated statement by statement:
    T x = E;                                        ->  let x := E
    while (C) { x++; }                              ->  let x := scan (fun x => C) fuel x          (first x where C fails)
    for ([T] x = E0; x < E1; x++) if (C) break;     ->  let x := scan (fun x => x < E1 && !C) fuel E0
    for ([T] x = E0; x < E1; x++) { ... return ...} ->  (forRet E1 (fun x => ...) fuel E0).getD rest
    if (C) return V; [else ...]                     ->  if C then V else ...
    return E;
Expressions: `s->length` and the loop counters are naturals; `s->c_string[i]` is a C `char` (SIGNED on the reference
platform: `sc`), `(uint8_t) s->c_string[i]` its unsigned value (`uc`), `yr_lowercase[x]` the table filled by
yr_initialize (`lowerTab`), `memmem(..) != NULL` the libc primitive (`memmemFound`).  Every loop gets the fuel
`s1.length + s2.length + 1` (all loops of the fragment advance an index bounded by a length).
Anything else makes the function `unparsed` (its Lean definition becomes a stub and the dependent theorems fail).
"""
import os, re, hashlib
from translators import cexpr
from translators.cexpr import ParseError

FUNCS = [("ss_compare", "int"), ("ss_icompare", "int"), ("ss_contains", "bool"), ("ss_icontains", "bool"), ("ss_startswith", "bool"),
         ("ss_istartswith", "bool"), ("ss_endswith", "bool"), ("ss_iendswith", "bool")]
TYPES = {"size_t", "uint32_t", "int", "uint8_t", "unsigned", "uint64_t", "int32_t", "uint16_t", "char"}
FUEL = "(s1.length + s2.length + 1)"


class Unparsed(Exception):
    pass


# ------------------------------------------------------------------ expressions (casts and indexing kept)

class P2(cexpr.P):
    def unary(self):
        tok = self.peek()
        if tok == "(" and self.i + 2 < len(self.t) and self.t[self.i + 1] in TYPES and self.t[self.i + 2] == ")":
            ty = self.t[self.i + 1]
            self.i += 3
            return ("cast", ty, self.unary())
        e = super().unary()
        while self.peek() == "[":
            self.eat("[")
            idx = self.expr()
            self.eat("]")
            e = ("index", e, idx)
        return e


def parse_expr(toks):
    p = P2(list(toks))
    e = p.expr()
    if p.peek() is not None:
        raise ParseError("trailing tokens %r" % p.t[p.i:])
    return e


class R:
    """typed rendering: -> (lean text, 'nat' | 'int' | 'bool')"""

    def __init__(self, locals_):
        self.locals = set(locals_)

    def nat_or_int(self, e):
        t, ty = self.go(e)
        if ty == "bool":
            raise Unparsed("boolean used as a number: %s" % cexpr.c_text(e))
        return t, ty

    def as_int(self, e):
        t, ty = self.nat_or_int(e)
        return t if ty == "int" else "(%s : Int)" % t

    def as_nat(self, e):
        t, ty = self.nat_or_int(e)
        if ty != "nat":
            raise Unparsed("index / length expression is not a natural: %s" % cexpr.c_text(e))
        return t

    def as_bool(self, e):
        t, ty = self.go(e)
        if ty == "bool":
            return t
        return "(decide (%s ≠ 0))" % t

    def sname(self, ident, field):
        m = re.match(r"^(s[12])->%s$" % field, ident)
        return m.group(1) if m else None

    def go(self, e):
        k = e[0]
        if k == "num":
            return "%d" % e[1], "nat"
        if k == "id":
            n = e[1]
            if n in ("true", "false"):
                return n, "bool"
            s = self.sname(n, "length")
            if s:
                return "%s.length" % s, "nat"
            if n in self.locals:
                return n, "nat"
            raise Unparsed("identifier %s" % n)
        if k == "cast":
            if e[1] == "uint8_t" and e[2][0] == "index" and e[2][1][0] == "id" and self.sname(e[2][1][1], "c_string"):
                return "(uc %s %s)" % (self.sname(e[2][1][1], "c_string"), self.as_nat(e[2][2])), "int"
            raise Unparsed("cast (%s) %s" % (e[1], cexpr.c_text(e[2])))
        if k == "index":
            base = e[1]
            if base[0] == "id" and self.sname(base[1], "c_string"):
                return "(sc %s %s)" % (self.sname(base[1], "c_string"), self.as_nat(e[2])), "int"
            if base == ("id", "yr_lowercase"):
                return "(lowerTab %s)" % self.as_int(e[2]), "int"
            raise Unparsed("indexing of %s" % cexpr.c_text(base))
        if k == "un":
            if e[1] == "!":
                return "(!%s)" % self.as_bool(e[2]), "bool"
            if e[1] == "-":
                return "(-%s)" % self.as_int(e[2]), "int"
            raise Unparsed("unary %s" % e[1])
        if k == "bin":
            op = e[1]
            if op in ("&&", "||"):
                return "(%s %s %s)" % (self.as_bool(e[2]), op, self.as_bool(e[3])), "bool"
            if op in ("==", "!=", "<", "<=", ">", ">="):
                if op == "!=" and e[3] == ("id", "NULL") and e[2][0] == "call" and e[2][1] == "memmem":
                    a = e[2][2]
                    want = [("id", "s1->c_string"), ("id", "s1->length"), ("id", "s2->c_string"), ("id", "s2->length")]
                    if a != want:
                        raise Unparsed("memmem arguments %s" % cexpr.c_text(e[2]))
                    return "(memmemFound s1 s2)", "bool"
                (a, ta), (b, tb) = self.nat_or_int(e[2]), self.nat_or_int(e[3])
                if ta != tb:
                    a, b = (a if ta == "int" else "(%s : Int)" % a), (b if tb == "int" else "(%s : Int)" % b)
                lop = {"==": "=", "!=": "≠", "<": "<", "<=": "≤", ">": ">", ">=": "≥"}[op]
                return "(decide (%s %s %s))" % (a, lop, b), "bool"
            if op in ("+", "-"):
                (a, ta), (b, tb) = self.nat_or_int(e[2]), self.nat_or_int(e[3])
                if ta == tb:
                    return "(%s %s %s)" % (a, op, b), ta           # naturals: `-` truncates (the C code guards it with a length test)
                a, b = (a if ta == "int" else "(%s : Int)" % a), (b if tb == "int" else "(%s : Int)" % b)
                return "(%s %s %s)" % (a, op, b), "int"
            raise Unparsed("operator %s" % op)
        raise Unparsed("expression %s" % cexpr.c_text(e))


# ------------------------------------------------------------------ statements

def matching(toks, i, open_, close):
    depth = 0
    while i < len(toks):
        if toks[i] == open_:
            depth += 1
        elif toks[i] == close:
            depth -= 1
            if depth == 0:
                return i
        i += 1
    raise ParseError("unbalanced %s" % open_)


def upto_semicolon(toks, i):
    depth, j = 0, i
    while j < len(toks):
        if toks[j] in "([{":
            depth += 1
        elif toks[j] in ")]}":
            depth -= 1
        elif toks[j] == ";" and depth == 0:
            return j
        j += 1
    raise ParseError("missing ;")


def parse_stmt(toks, i):
    """-> (stmt, next index); stmt: ('block', [..]) ('if', cond, then, else|None) ('while', cond, body) ('for', init, cond, step, body)
       ('return', expr_toks) ('break',) ('decl', name, expr_toks) ('expr', toks)"""
    t = toks[i]
    if t == "{":
        j = matching(toks, i, "{", "}")
        return ("block", parse_block(toks[i + 1:j])), j + 1
    if t == "if":
        j = matching(toks, i + 1, "(", ")")
        then, k = parse_stmt(toks, j + 1)
        els = None
        if k < len(toks) and toks[k] == "else":
            els, k = parse_stmt(toks, k + 1)
        return ("if", toks[i + 2:j], then, els), k
    if t == "while":
        j = matching(toks, i + 1, "(", ")")
        body, k = parse_stmt(toks, j + 1)
        return ("while", toks[i + 2:j], body), k
    if t == "for":
        j = matching(toks, i + 1, "(", ")")
        inner = toks[i + 2:j]
        a = upto_semicolon(inner, 0)
        b = upto_semicolon(inner, a + 1)
        body, k = parse_stmt(toks, j + 1)
        return ("for", inner[:a], inner[a + 1:b], inner[b + 1:], body), k
    if t == "return":
        j = upto_semicolon(toks, i)
        return ("return", toks[i + 1:j]), j + 1
    if t == "break":
        return ("break",), i + 2
    j = upto_semicolon(toks, i)
    s = toks[i:j]
    if len(s) >= 4 and s[0] in TYPES and s[2] == "=":
        return ("decl", s[1], s[3:]), j + 1
    return ("expr", s), j + 1


def parse_block(toks):
    out, i = [], 0
    while i < len(toks):
        s, i = parse_stmt(toks, i)
        out.append(s)
    return out


def flat(s):
    """a statement as a list of statements (blocks opened)"""
    if s is None:
        return []
    if s[0] == "block":
        out = []
        for x in s[1]:
            out.extend(flat(x))
        return out
    return [s]


def has(stmts, kind):
    for s in stmts:
        if s[0] == kind:
            return True
        if s[0] == "if" and (has(flat(s[2]), kind) or has(flat(s[3]), kind)):
            return True
        if s[0] in ("while", "for") and kind == "return" and has(flat(s[-1]), kind):
            return True
    return False


def incr_of(toks):
    """`x++` / `++x` -> x"""
    if len(toks) == 2 and toks[1] == "+" + "+":
        return toks[0]
    # the shared tokenizer splits ++ into two '+' tokens
    if len(toks) == 3 and toks[1] == "+" and toks[2] == "+":
        return toks[0]
    return None


class Fn:
    def __init__(self, ret):
        self.ret = ret
        self.locals = []

    def value(self, toks):
        r = R(self.locals)
        e = parse_expr(toks)
        if self.ret == "bool":
            return r.as_bool(e)
        return r.as_int(e)

    def cond(self, toks):
        return R(self.locals).as_bool(parse_expr(toks))

    def nat(self, toks):
        return R(self.locals).as_nat(parse_expr(toks))

    def for_head(self, s):
        """-> (var, init nat text, bound nat text)"""
        init, cond, step = s[1], s[2], s[3]
        if init and init[0] in TYPES:
            init = init[1:]
        if len(init) < 3 or init[1] != "=":
            raise Unparsed("for-init %s" % " ".join(init))
        x = init[0]
        if incr_of(step) != x:
            raise Unparsed("for-step %s" % " ".join(step))
        if len(cond) < 3 or cond[0] != x or cond[1] != "<":
            raise Unparsed("for-condition %s" % " ".join(cond))
        if x not in self.locals:
            self.locals.append(x)
        e0 = self.nat(init[2:])
        e1 = self.nat(cond[2:])
        return x, e0, e1

    def seq(self, stmts, inloop, ind):
        """Lean term of the function's result type (inloop: Option of it; falling off the end = none)"""
        pad = "  " * ind
        if not stmts:
            if inloop:
                return pad + "none"
            raise Unparsed("control reaches the end of the function")
        s, rest = stmts[0], stmts[1:]
        k = s[0]
        if k == "block":
            return self.seq(flat(s) + rest, inloop, ind)
        if k == "decl":
            v = self.nat(s[2])
            if s[1] not in self.locals:
                self.locals.append(s[1])
            return pad + "let %s := %s\n" % (s[1], v) + self.seq(rest, inloop, ind)
        if k == "return":
            v = self.value(s[1])
            return pad + ("some %s" % v if inloop else v)
        if k == "if":
            c = self.cond(s[1])
            then, els = flat(s[2]), flat(s[3])
            if has(then, "break") or has(els, "break"):
                raise Unparsed("break outside the search-loop idiom")
            then_returns = bool(then) and then[-1][0] == "return"
            if not then_returns:
                raise Unparsed("if-branch that does not return")
            if els:
                return pad + "if %s then\n%s\n%selse\n%s" % (c, self.seq(then, inloop, ind + 1), pad, self.seq(els + rest, inloop, ind + 1))
            return pad + "if %s then\n%s\n%selse\n%s" % (c, self.seq(then, inloop, ind + 1), pad, self.seq(rest, inloop, ind + 1))
        if k == "while":
            body = flat(s[2])
            if len(body) != 1 or body[0][0] != "expr" or incr_of(body[0][1]) is None:
                raise Unparsed("while body is not a single increment")
            x = incr_of(body[0][1])
            if x not in self.locals:
                raise Unparsed("while over undeclared %s" % x)
            c = self.cond(s[1])
            return pad + "let %s := scan (fun %s => %s) %s %s\n" % (x, x, c, FUEL, x) + self.seq(rest, inloop, ind)
        if k == "for":
            body = flat(s[4])
            x, e0, e1 = self.for_head(s)
            if len(body) == 1 and body[0][0] == "if" and flat(body[0][2]) == [("break",)] and not body[0][3]:
                c = self.cond(body[0][1])
                return pad + "let %s := scan (fun %s => (decide (%s < %s)) && !%s) %s %s\n" % (x, x, x, e1, c, FUEL, e0) + self.seq(rest, inloop, ind)
            if has(body, "break"):
                raise Unparsed("break outside the search-loop idiom")
            inner = self.seq(body, True, ind + 2)
            rest_t = self.seq(rest, inloop, ind + 1)
            return (pad + "%s (forRet %s (fun %s =>\n%s) %s %s) (%s\n%s)" %
                    ("Option.orElse" if inloop else "Option.getD", e1, x, inner, FUEL, e0, "fun _ =>" if inloop else "", rest_t))
        if k == "expr":
            raise Unparsed("statement %s" % " ".join(s[1][:8]))
        raise Unparsed("statement kind %s" % k)


def function_body(text, name, ret):
    m = re.search(r"^%s\s+%s\s*\(\s*SIZED_STRING\s*\*\s*s1\s*,\s*SIZED_STRING\s*\*\s*s2\s*\)\s*\{" % (ret, name), text, flags=re.M)
    if not m:
        raise Unparsed("no definition `%s %s(SIZED_STRING* s1, SIZED_STRING* s2)`" % (ret, name))
    i = m.end() - 1
    depth, j = 0, i
    while True:
        if text[j] == "{":
            depth += 1
        elif text[j] == "}":
            depth -= 1
            if depth == 0:
                break
        j += 1
    return text[i + 1:j]


def translate(repo):
    text = cexpr.strip_comments(open(os.path.join(repo, "libyara/sizedstr.c")).read())
    text = text.replace("++", " + + ")
    out, errs = {}, {}
    for name, ret in FUNCS:
        try:
            body = function_body(text, name, ret)
            stmts = parse_block(cexpr.tokenize(body))
            out[name] = Fn(ret).seq(stmts, False, 1)
        except (Unparsed, ParseError, IndexError, KeyError) as e:
            errs[name] = "%s: %s" % (type(e).__name__, e)
    return out, errs


def render(out, errs):
    L = ["/- GENERATED by translators/sizedstr.py from libyara/sizedstr.c — do not edit. -/",
         "import YaraModel.Model.SizedStrCore", "namespace YaraModel.Gen.SizedStr", "open YaraModel.SizedStr", "",
         "/-- functions of sizedstr.c outside the translated fragment (their definitions below are stubs) -/",
         "def unparsed : List String := [%s]\n" % ", ".join('"%s"' % ("%s — %s" % (n, errs[n])).replace('"', "'").replace("\\", "/") for n, _ in FUNCS if n in errs)]
    for name, ret in FUNCS:
        lty = "Int" if ret == "int" else "Bool"
        if name in out:
            L.append("def %s (s1 s2 : Bytes) : %s :=\n%s\n" % (name, lty, out[name]))
        else:
            L.append("def %s (_s1 _s2 : Bytes) : %s := %s\n" % (name, lty, "0" if ret == "int" else "false"))
    L.append("end YaraModel.Gen.SizedStr")
    return "\n".join(L) + "\n"


def run(repo, gen_dir):
    out, errs = translate(repo)
    text = render(out, errs)
    os.makedirs(gen_dir, exist_ok=True)
    p = os.path.join(gen_dir, "SizedStr.lean")
    if not os.path.exists(p) or open(p).read() != text:
        open(p, "w").write(text)
    return hashlib.sha256(text.encode()).hexdigest()


if __name__ == "__main__":
    import sys
    o, e = translate(sys.argv[1] if len(sys.argv) > 1 else "/repo")
    print(render(o, e))
