"""T11 — regenerate lean/YaraModel/Gen/OomSites.lean: structural facts about error-propagation / cleanup code that the
C16 ports (Model/AllocM.lean) depend on, read from the C source on every run.

  * scanner.c `_yr_scanner_scan_mem_block`: every `yr_scan_verify_match(...)` call (main Aho-Corasick loop and the
    end-of-block loop over the final state's match list) is wrapped in GOTO_EXIT_ON_ERROR / FAIL_ON_ERROR, i.e. the
    FIRST failing verification ends the scan (`verifyStopsAtFirstError`).
  * re.c `yr_re_fast_exec`, RE_OPCODE_REPEAT_ANY_UNGREEDY: the tail pointer `last` of the position list is updated
    inside the insertion loop, before the next `_yr_re_fast_exec_position_create` can fail and hand `first..last`
    to `_yr_re_fast_exec_destroy_position_list` (`fastExecTailInLoop`).
A construct that is not found is reported in `unparsedItems` and the flag is emitted as false.
"""
import os, re, hashlib


def _strip(t):
    t = re.sub(r"/\*.*?\*/", "", t, flags=re.S)
    return re.sub(r"//[^\n]*", "", t)


ALLOC_CALL = re.compile(r"\b(yr_malloc|yr_calloc|yr_realloc|yr_strdup|yr_strndup)\s*\(")


def _blank_comments(t):
    """comments and string literals replaced by blanks, line structure kept"""
    def blank(m):
        return re.sub(r"[^\n]", " ", m.group(0))
    t = re.sub(r"/\*.*?\*/", blank, t, flags=re.S)
    t = re.sub(r"//[^\n]*", blank, t)
    return re.sub(r'"(?:\\.|[^"\\\n])*"', blank, t)


def alloc_sites(repo, sources=None, with_guards=False):
    """Every call of libyara's allocator in the library sources that are built: [(file, function, line, callee)].
    mem.c (the allocator itself) is excluded; the enclosing function is the last definition header before the call
    (yara style: return type / name / parameters, then `{` in column 0)."""
    if sources is None:
        from vf import build as vb
        sources = list(vb.LIB_SOURCES)
    out = []
    # generated parsers/lexers: the debug information (and so the observed call site) names the .y/.l line
    gen = {"libyara/grammar.c": "libyara/grammar.y", "libyara/hex_grammar.c": "libyara/hex_grammar.y", "libyara/re_grammar.c": "libyara/re_grammar.y",
           "libyara/lexer.c": "libyara/lexer.l", "libyara/hex_lexer.c": "libyara/hex_lexer.l", "libyara/re_lexer.c": "libyara/re_lexer.l"}
    for rel in sorted(gen.get(x, x) for x in sources):
        if rel.endswith("/mem.c"):
            continue
        pth = os.path.join(repo, rel)
        if not os.path.exists(pth):
            continue
        lines = _blank_comments(open(pth, errors="replace").read()).split("\n")
        fn, header = "?", []
        pp = []       # stack of preprocessor conditions enclosing the current line: "NAME" / "!NAME" for #ifdef/#ifndef/#if defined(NAME), else the text
        for i, l in enumerate(lines):
            d = re.match(r"\s*#\s*(ifdef|ifndef|if|elif|else|endif)\b\s*(.*)", l)
            if d:
                kw, arg = d.group(1), d.group(2).strip()
                if kw == "ifdef":
                    pp.append(arg.split()[0] if arg else "?")
                elif kw == "ifndef":
                    pp.append("!" + (arg.split()[0] if arg else "?"))
                elif kw == "if":
                    m1 = re.fullmatch(r"defined\s*\(?\s*(\w+)\s*\)?", arg)
                    m2 = re.fullmatch(r"!\s*defined\s*\(?\s*(\w+)\s*\)?", arg)
                    pp.append(m1.group(1) if m1 else ("!" + m2.group(1) if m2 else "(" + arg + ")"))
                elif kw in ("else", "elif") and pp:
                    t = pp.pop()
                    pp.append(t[1:] if t.startswith("!") else ("!" + t if re.fullmatch(r"\w+", t) else "(not " + t + ")"))
                elif kw == "endif" and pp:
                    pp.pop()
                continue
            if l.startswith("{"):
                h = " ".join(header)
                m = re.findall(r"(\w+)\s*\(", h)
                m = [x for x in m if x not in ("__attribute__", "defined", "if", "while", "for", "switch", "sizeof")]
                if m:
                    fn = m[0]
                header = []
            elif l.startswith("}") or l.strip() == "" or l.startswith("#") or l.rstrip().endswith(";"):
                if not l.startswith((" ", "\t")) or l.strip() == "":
                    header = []
            elif not l.startswith((" ", "\t")) or header:
                header.append(l)
            if l.startswith("#define") or (i > 0 and lines[i - 1].rstrip().endswith("\\")):
                continue          # macro bodies: the call site is where the macro is used
            for m in ALLOC_CALL.finditer(l):
                row = (rel.replace("libyara/", "", 1), fn, i + 1, m.group(1))
                out.append(row + (tuple(pp),) if with_guards else row)
    return out


def run(repo, outdir):
    scanner = _strip(open(os.path.join(repo, "libyara/scanner.c"), errors="replace").read())
    rec = _strip(open(os.path.join(repo, "libyara/re.c"), errors="replace").read())
    unparsed = []

    # --- verification loops
    m = re.search(r"static\s+int\s+_yr_scanner_scan_mem_block\s*\(.*?\n\}", scanner, flags=re.S)
    calls = wrapped = 0
    if m:
        body = m.group(0)
        calls = len(re.findall(r"\byr_scan_verify_match\s*\(", body))
        wrapped = len(re.findall(r"\b(?:GOTO_EXIT_ON_ERROR|FAIL_ON_ERROR)\s*\(\s*yr_scan_verify_match\s*\(", body))
    else:
        unparsed.append("scanner.c _yr_scanner_scan_mem_block")
    stops = calls >= 2 and calls == wrapped
    # GOTO_EXIT_ON_ERROR must still jump on any non-success result
    if not re.search(r"#define\s+GOTO_EXIT_ON_ERROR\(x\)\s*\\\s*\{\s*\\\s*result\s*=\s*\(x\);\s*\\\s*if\s*\(result\s*!=\s*ERROR_SUCCESS\)\s*\\\s*goto\s+_exit;", open(os.path.join(repo, "libyara/include/yara/error.h")).read()):
        unparsed.append("error.h GOTO_EXIT_ON_ERROR")
        stops = False

    # --- fast-exec tail pointer
    tail = False
    m = re.search(r"FAIL_ON_ERROR_WITH_CLEANUP\s*\(\s*_yr_re_fast_exec_position_create\s*\(\s*&context->re_fast_exec_position_pool\s*,\s*&new_input\s*\)\s*,"
                  r"\s*_yr_re_fast_exec_destroy_position_list\s*\(\s*&context->re_fast_exec_position_pool\s*,\s*first\s*,\s*last\s*\)\s*\)\s*;(.*?)"
                  r"current->input\s*\+=\s*input_incr\s*\*\s*repeat_any_args->min\s*;", rec, flags=re.S)
    if m:
        seg = m.group(1)
        k = re.search(r"if\s*\(\s*insertion_point\s*==\s*last\s*\)\s*last\s*=\s*new_input\s*;", seg)
        if k:
            before = seg[:k.start()]
            # still inside the body of the insertion `for`: no unmatched closing brace before the update
            depth, ok = 0, True
            for ch in before:
                if ch == "{": depth += 1
                elif ch == "}":
                    depth -= 1
                    if depth < 0: ok = False
            tail = ok
    else:
        unparsed.append("re.c yr_re_fast_exec REPEAT_ANY_UNGREEDY insertion loop")

    out = ["/- GENERATED by translators/oomsites.py from /repo (scanner.c, re.c, error.h) — do not edit. -/",
           "namespace YaraModel.Gen.OomSites", "",
           "/-- scanner.c: number of `yr_scan_verify_match` calls in `_yr_scanner_scan_mem_block` and how many are wrapped in GOTO_EXIT_ON_ERROR/FAIL_ON_ERROR -/",
           "def verifyCalls : Nat := %d" % calls,
           "def verifyCallsWrapped : Nat := %d" % wrapped,
           "/-- the first failing verification ends the block scan (main loop and end-of-block loop) -/",
           "def verifyStopsAtFirstError : Bool := %s" % ("true" if stops else "false"),
           "/-- re.c yr_re_fast_exec: `if (insertion_point == last) last = new_input;` inside the insertion loop -/",
           "def fastExecTailInLoop : Bool := %s" % ("true" if tail else "false"),
           "/-- every call of libyara's allocator (yr_malloc/yr_calloc/yr_realloc/yr_strdup/yr_strndup) in the built library sources:",
           "    (file, enclosing function, line, callee) — the fault positions the C16 scenarios are expected to reach -/",
           "def allocSites : List (String × String × Nat × String) := [\n  %s]" % ",\n  ".join('("%s", "%s", %d, "%s")' % x for x in alloc_sites(repo)),
           "def unparsedItems : List String := [%s]" % ", ".join('"%s"' % u for u in unparsed),
           "", "end YaraModel.Gen.OomSites"]
    text = "\n".join(out) + "\n"
    os.makedirs(outdir, exist_ok=True)
    p = os.path.join(outdir, "OomSites.lean")
    if not os.path.exists(p) or open(p).read() != text:
        open(p, "w").write(text)
    return hashlib.sha256(text.encode()).hexdigest()
