"""Tiny C-expression / statement front end shared by the translators.

tokenise -> recursive-descent parser for the expression subset
  ?:  ||  &&  |  ^  &  == !=  < <= > >=  << >>  + -  * / %  unary - ~ !  calls, member access, casts (ignored)
-> typed rendering to Lean over `YaraModel.C` (64-bit two's-complement values carried as `Int`).
"""
import re

TOKEN = re.compile(r"\s*(?:(\d+[uUlL]*|0[xX][0-9a-fA-F]+[uUlL]*)|([A-Za-z_$][A-Za-z_0-9$.]*(?:->[A-Za-z_][A-Za-z_0-9.]*)*)|(<<|>>|<=|>=|==|!=|&&|\|\||->|[-+*/%&|^~!<>=?:(),;{}\[\]]))")


class ParseError(Exception):
    pass


def strip_comments(text, strings_to="__STR__"):
    """single pass: removes /* */ and // comments, replaces string literals by `strings_to` and char literals by 0"""
    out, i, n = [], 0, len(text)
    while i < n:
        c = text[i]
        if text.startswith("/*", i):
            j = text.find("*/", i + 2)
            i = n if j < 0 else j + 2
            out.append(" ")
        elif text.startswith("//", i):
            j = text.find("\n", i)
            i = n if j < 0 else j
        elif c == '"' or c == "'":
            j = i + 1
            while j < n and text[j] != c:
                j += 2 if text[j] == "\\" else 1
            out.append(strings_to if c == '"' else "0")
            i = j + 1
        else:
            out.append(c)
            i += 1
    return "".join(out)


def tokenize(s):
    out, pos = [], 0
    s = s.strip()
    while pos < len(s):
        m = TOKEN.match(s, pos)
        if not m or m.end() == pos:
            if s[pos:].strip() == "":
                break
            raise ParseError("cannot tokenise at: %r" % s[pos:pos + 30])
        out.append(m.group(1) or m.group(2) or m.group(3))
        pos = m.end()
    return out


class P:
    """expression parser over a token list"""

    def __init__(self, toks, i=0):
        self.t, self.i = toks, i

    def peek(self):
        return self.t[self.i] if self.i < len(self.t) else None

    def eat(self, x=None):
        tok = self.peek()
        if x is not None and tok != x:
            raise ParseError("expected %r got %r" % (x, tok))
        self.i += 1
        return tok

    def expr(self):
        return self.ternary()

    def ternary(self):
        c = self.binary(0)
        if self.peek() == "?":
            self.eat()
            a = self.expr()
            self.eat(":")
            b = self.ternary()
            return ("?:", c, a, b)
        return c

    LEVELS = [["||"], ["&&"], ["|"], ["^"], ["&"], ["==", "!="], ["<", "<=", ">", ">="], ["<<", ">>"], ["+", "-"], ["*", "/", "%"]]

    def binary(self, lvl):
        if lvl == len(self.LEVELS):
            return self.unary()
        a = self.binary(lvl + 1)
        while self.peek() in self.LEVELS[lvl]:
            op = self.eat()
            b = self.binary(lvl + 1)
            a = ("bin", op, a, b)
        return a

    def unary(self):
        tok = self.peek()
        if tok in ("-", "~", "!"):
            self.eat()
            return ("un", tok, self.unary())
        if tok == "(":
            # cast or parenthesised expression
            if self.i + 2 < len(self.t) and re.match(r"^(u?int\d+_t|int|size_t|double|uint8_t\*?)$", self.t[self.i + 1]) and self.t[self.i + 2] == ")":
                self.i += 3
                return self.unary()
            self.eat("(")
            e = self.expr()
            self.eat(")")
            return e
        if tok is None:
            raise ParseError("unexpected end")
        self.eat()
        if re.match(r"^\d|^0[xX]", tok):
            return ("num", int(re.sub(r"[uUlL]+$", "", tok), 0))
        if self.peek() == "(":
            self.eat("(")
            args = []
            if self.peek() != ")":
                # first argument of OPERATION/COMPARISON is an operator token
                if tok in ("OPERATION", "COMPARISON"):
                    args.append(("optok", self.eat()))
                else:
                    args.append(self.expr())
                while self.peek() == ",":
                    self.eat()
                    args.append(self.expr())
            self.eat(")")
            return ("call", tok, args)
        return ("id", tok)


def parse_expr(text):
    p = P(tokenize(text))
    e = p.expr()
    if p.peek() is not None:
        raise ParseError("trailing tokens: %r" % p.t[p.i:])
    return e


# ----------------------------------------------------------------- rendering to Lean

CONSTS = {"INT64_MAX": "C.INT64_MAX", "INT64_MIN": "C.INT64_MIN", "YR_UNDEFINED": "C.UNDEF", "false": "0", "true": "1"}
INT_BIN = {"+": "C.add", "-": "C.sub", "*": "C.mul", "/": "C.div", "%": "C.mod", "<<": "C.shl", ">>": "C.shr",
           "&": "C.band", "|": "C.bor", "^": "C.bxor"}
CMP = {"==": "==", "!=": "!=", "<": "<", "<=": "≤", ">": ">", ">=": "≥"}


class Opaque(Exception):
    """the expression uses something outside the integer fragment"""


class Render:
    def __init__(self, env):
        self.env = env  # identifier -> Lean term (Int)

    def int(self, e):
        k = e[0]
        if k == "num":
            return "(%d : Int)" % e[1]
        if k == "id":
            if e[1] in self.env:
                return self.env[e[1]]
            if e[1] + ".i" in self.env:
                return self.env[e[1] + ".i"]
            if e[1] in CONSTS:
                return CONSTS[e[1]]
            raise Opaque(e[1])
        if k == "un":
            if e[1] == "-":
                return "(C.neg %s)" % self.int(e[2])
            if e[1] == "~":
                return "(C.bnot %s)" % self.int(e[2])
            return "(C.b2i %s)" % self.bool(e)
        if k == "bin":
            if e[1] in INT_BIN:
                return "(%s %s %s)" % (INT_BIN[e[1]], self.int(e[2]), self.int(e[3]))
            return "(C.b2i %s)" % self.bool(e)
        if k == "?:":
            return "(if %s then %s else %s)" % (self.bool(e[1]), self.int(e[2]), self.int(e[3]))
        if k == "call":
            f, a = e[1], e[2]
            if f == "OPERATION":
                x, y = self.int(a[1]), self.int(a[2])
                op = a[0][1]
                return "(if C.isUndef %s || C.isUndef %s then C.UNDEF else %s %s %s)" % (x, y, INT_BIN[op], x, y)
            if f == "llabs":
                return "(C.llabs %s)" % self.int(a[0])
            if f in ("IS_UNDEFINED", "is_undef"):
                return "(C.b2i %s)" % self.bool(e)
            raise Opaque(f)
        raise Opaque(str(e))

    def bool(self, e):
        k = e[0]
        if k == "un" and e[1] == "!":
            return "(!%s)" % self.bool(e[2])
        if k == "bin" and e[1] == "&&":
            return "(%s && %s)" % (self.bool(e[2]), self.bool(e[3]))
        if k == "bin" and e[1] == "||":
            return "(%s || %s)" % (self.bool(e[2]), self.bool(e[3]))
        if k == "bin" and e[1] in CMP:
            return "(decide (%s %s %s))" % (self.int(e[2]), CMP[e[1]], self.int(e[3]))
        if k == "call" and e[1] in ("IS_UNDEFINED", "is_undef"):
            return "(C.isUndef %s)" % self.int(e[2][0])
        return "(decide (%s ≠ 0))" % self.int(e)


def c_text(e):
    """normalised C text of an expression (used as the name of an uninterpreted primitive)"""
    k = e[0]
    if k == "num":
        return str(e[1])
    if k in ("id", "optok"):
        return e[1]
    if k == "un":
        return e[1] + c_text(e[2])
    if k == "bin":
        return "(" + c_text(e[2]) + e[1] + c_text(e[3]) + ")"
    if k == "?:":
        return "(" + c_text(e[1]) + "?" + c_text(e[2]) + ":" + c_text(e[3]) + ")"
    if k == "call":
        return e[1] + "(" + ",".join(c_text(a) for a in e[2]) + ")"
    return "?"


def idents(e, acc=None):
    acc = acc if acc is not None else []
    if e[0] == "id":
        acc.append(e[1])
    elif e[0] in ("un",):
        idents(e[2], acc)
    elif e[0] == "bin":
        idents(e[2], acc); idents(e[3], acc)
    elif e[0] == "?:":
        idents(e[1], acc); idents(e[2], acc); idents(e[3], acc)
    elif e[0] == "call":
        for a in e[2]:
            if a[0] != "optok":
                idents(a, acc)
    return acc


# ----------------------------------------------------------------- statements

def split_statements(toks):
    """token list of a block body -> list of statements:
       ('expr', toks) | ('if', cond_toks, then_stmts, else_stmts) | ('block', stmts) | ('switch', head_toks, [(labels, stmts)]) | ('break',)"""
    out, i = [], 0

    def matching(i, open_, close):
        depth = 0
        while i < len(toks):
            if toks[i] == open_:
                depth += 1
            elif toks[i] == close:
                depth -= 1
                if depth == 0:
                    return i
            i += 1
        raise ParseError("unbalanced %s" % open_)

    def one(i):
        tok = toks[i]
        if tok == "{":
            j = matching(i, "{", "}")
            return ("block", split_statements(toks[i + 1:j])), j + 1
        if tok == "if":
            j = matching(i + 1, "(", ")")
            cond = toks[i + 2:j]
            then, k = one(j + 1)
            els = None
            if k < len(toks) and toks[k] == "else":
                els, k = one(k + 1)
            return ("if", cond, [then], [els] if els else []), k
        if tok == "switch":
            j = matching(i + 1, "(", ")")
            head = toks[i + 2:j]
            k = matching(j + 1, "{", "}")
            body = toks[j + 2:k]
            arms, labels, cur, p = [], [], [], 0
            while p < len(body):
                if body[p] == "case":
                    if cur:
                        arms.append((labels, split_statements(cur)))
                        labels, cur = [], []
                    labels.append(body[p + 1])
                    p += 3
                elif body[p] == "default":
                    if cur:
                        arms.append((labels, split_statements(cur)))
                        labels, cur = [], []
                    labels.append("default")
                    p += 2
                else:
                    cur.append(body[p])
                    p += 1
            if cur:
                arms.append((labels, split_statements(cur)))
            return ("switch", head, arms), k + 1
        if tok == "break":
            return ("break",), i + 2
        # expression / declaration statement up to ';' at depth 0 — or a macro call without ';'
        depth, j = 0, i
        while j < len(toks):
            if toks[j] in "([{":
                depth += 1
            elif toks[j] in ")]}":
                depth -= 1
            elif toks[j] == ";" and depth == 0:
                return ("expr", toks[i:j]), j + 1
            j += 1
        return ("expr", toks[i:]), len(toks)

    while i < len(toks):
        s, i = one(i)
        out.append(s)
    return out


def flatten(stmts):
    out = []
    for s in stmts:
        if s[0] == "block":
            out.extend(flatten(s[1]))
        else:
            out.append(s)
    return out
