// C17 harness: load mutated compiled-rule images and, when a load succeeds, use the rules.
//   line   <id> img=<hex image> b=<hexbuf>... muts=<m>,<m>,...
//   m      p<n>            the first n bytes of the image (a writer that crashed after n bytes)
//          p<a>-<b>        every prefix length a <= n < b
//          w<off>:<hex>    the full image with the bytes at <off> overwritten (one corrupted field)
//   output <id> REF=<load rc>:<obs hash> <m>=<result> ...      (prefix ranges with equal results are merged)
//   result <errname>                       load failed with that code (and *rules stayed NULL)
//          <errname>:RULES-RETURNED        load failed but handed back a rule set
//          OK:same | OK:diff               load succeeded; scanning gives the same / different results as the intact image
//          OK:CRASH:<summary>              load succeeded, then using the rules crashed
//          CRASH:<summary>                 the loader itself crashed
// Mutations run in a forked child (in batches; a crash costs one fork), so crashes are observations.
#include "arena_rules.h"

typedef struct { char kind; size_t a, b; size_t off; uint8_t* bytes; size_t nbytes; } MUT;

static uint8_t* g_img; static size_t g_len;
static CASE g_case;
static char* g_ref_obs;
static MUT* g_muts; static size_t g_nmuts;
// flattened list of single mutations
typedef struct { int mut; size_t n; } ONE;
static ONE* g_ones; static size_t g_nones;
static size_t g_start;

static uint8_t* mutated(ONE* o, size_t* len)
{
  MUT* m = &g_muts[o->mut];
  uint8_t* d;
  if (m->kind == 'p') { *len = o->n; d = (uint8_t*) malloc(o->n + 1); memcpy(d, g_img, o->n); return d; }
  *len = g_len;
  d = (uint8_t*) malloc(g_len + 1);
  memcpy(d, g_img, g_len);
  if (m->off + m->nbytes <= g_len) memcpy(d + m->off, m->bytes, m->nbytes);
  return d;
}

// child: results for g_ones[g_start..] one per line "<index> <result>\n", flushed as they are produced
static void child(void* arg)
{
  (void) arg;
  for (size_t i = g_start; i < g_nones; i++)
  {
    size_t len; uint8_t* d = mutated(&g_ones[i], &len);
    printf("%zu ", i); fflush(stdout);
    MS rd = {0}; rd.p = d; rd.len = len;
    YR_RULES* rules = NULL;
    int rc = load_mem(&rd, &rules);
    printf("%s", errname(rc)); fflush(stdout);
    if (rc != ERROR_SUCCESS && rules != NULL) printf(":RULES-RETURNED");
    if (rc == ERROR_SUCCESS)
    {
      printf(":"); fflush(stdout);
      if (rules == NULL) printf("NULL-RULES");
      else
      {
        SB o = {0}, e = {0};
        dump_externals(rules, &e);
        sb_add(&o, "%s#", sb_str(&e));
        observe(rules, &g_case, &o, NULL, NULL);
        // a second pass over the rules the way a client would (statistics walk the AC tables)
        YR_RULES_STATS st; yr_rules_get_stats(rules, &st);
        printf("%s", strcmp(sb_str(&o), g_ref_obs) ? "diff" : "same");
        yr_rules_destroy(rules);
        sb_free(&o); sb_free(&e);
      }
    }
    printf(";\n"); fflush(stdout);
    free(d);
  }
}

static char** g_results;
static SB g_ub;

static void run_all(void)
{
  g_results = (char**) calloc(g_nones + 1, sizeof(char*));
  g_start = 0;
  while (g_start < g_nones)
  {
    SB out = {0};
    // run_isolated flattens newlines into spaces: tokens "<idx> <result>;" ...
    g_ub_sink = &g_ub;
    int crashed = run_isolated(child, NULL, &out, NULL);
    g_ub_sink = NULL;
    char* p = out.p ? out.p : (char*) "";
    size_t last = g_start; int have_last = 0; char* crash = NULL;
    char* cs = strstr(p, "CRASH:");
    if (crashed && cs) { crash = strdup(cs); cs[0] = 0; }
    char* save = NULL;
    for (char* t = strtok_r(p, " ", &save); t; )
    {
      size_t idx = strtoull(t, 0, 10);
      char* res = strtok_r(NULL, " ", &save);
      last = idx; have_last = 1;
      if (res && res[strlen(res) - 1] == ';')
      {
        res[strlen(res) - 1] = 0;
        g_results[idx] = strdup(res);
        t = strtok_r(NULL, " ", &save);
      }
      else
      {
        // incomplete entry: the child died while working on idx
        char buf[1024];
        snprintf(buf, sizeof buf, "%s%s", res ? res : "", crash ? crash : "CRASH:unknown");
        g_results[idx] = strdup(buf);
        break;
      }
    }
    if (!crashed) break;
    if (!have_last) { g_results[g_start] = strdup(crash ? crash : "CRASH:unknown"); last = g_start; }
    if (g_results[last] == NULL) g_results[last] = strdup(crash ? crash : "CRASH:unknown");
    else if (!strstr(g_results[last], "CRASH")) { last++; if (last < g_nones) g_results[last] = strdup(crash ? crash : "CRASH:unknown"); }
    g_start = last + 1;
    free(crash);
    sb_free(&out);
  }
}

static void parse_muts(const char* spec)
{
  char* s = strdup(spec);
  size_t cap = 16; g_muts = (MUT*) malloc(cap * sizeof(MUT)); g_nmuts = 0;
  char* save = NULL;
  for (char* t = strtok_r(s, ",", &save); t; t = strtok_r(NULL, ",", &save))
  {
    if (g_nmuts == cap) { cap *= 2; g_muts = (MUT*) realloc(g_muts, cap * sizeof(MUT)); }
    MUT* m = &g_muts[g_nmuts++];
    memset(m, 0, sizeof *m);
    m->kind = t[0];
    if (t[0] == 'p')
    {
      char* dash = strchr(t, '-');
      m->a = strtoull(t + 1, 0, 10);
      m->b = dash ? strtoull(dash + 1, 0, 10) : m->a + 1;
    }
    else if (t[0] == 'w')
    {
      char* col = strchr(t, ':');
      if (!col) DIE("bad mutation %s", t);
      m->off = strtoull(t + 1, 0, 10);
      m->bytes = unhex(col + 1, &m->nbytes);
    }
    else DIE("bad mutation %s", t);
  }
  size_t n = 0;
  for (size_t i = 0; i < g_nmuts; i++) n += g_muts[i].kind == 'p' ? g_muts[i].b - g_muts[i].a : 1;
  g_ones = (ONE*) malloc((n + 1) * sizeof(ONE)); g_nones = 0;
  for (size_t i = 0; i < g_nmuts; i++)
  {
    if (g_muts[i].kind == 'p')
      for (size_t k = g_muts[i].a; k < g_muts[i].b; k++) { g_ones[g_nones].mut = (int) i; g_ones[g_nones++].n = k; }
    else { g_ones[g_nones].mut = (int) i; g_ones[g_nones++].n = 0; }
  }
  free(s);
}

static void ref_child(void* arg)
{
  (void) arg;
  MS rd = {0}; rd.p = g_img; rd.len = g_len; rd.tracing = 1;
  YR_RULES* rules = NULL;
  int rc = load_mem(&rd, &rules);
  printf("%s ", errname(rc));
  if (rc == ERROR_SUCCESS)
  {
    SB o = {0}, e = {0};
    dump_externals(rules, &e);
    sb_add(&o, "%s#", sb_str(&e));
    observe(rules, &g_case, &o, NULL, NULL);
    printf("%s", sb_str(&o));
    yr_rules_destroy(rules);
  }
}

int main()
{
  char* line = NULL; size_t cap = 0;
  yr_initialize();
  while (getline(&line, &cap, stdin) > 0)
  {
    case_parse(line, &g_case);
    if (g_case.n < 1) continue;
    const char* img = case_get(&g_case, "img", 0);
    const char* muts = case_get(&g_case, "muts", 0);
    if (!img || !muts) { printf("%s BADCASE\n", g_case.id); continue; }
    g_img = unhex(img, &g_len);
    // reference: the intact image
    SB ref = {0};
    int crashed = run_isolated(ref_child, NULL, &ref, NULL);
    char* sp = ref.p ? strchr(ref.p, ' ') : NULL;
    if (crashed || !sp) { printf("%s REF=%s\n", g_case.id, sb_str(&ref)); fflush(stdout); free(g_img); continue; }
    *sp = 0;
    g_ref_obs = sp + 1;
    size_t rl = strlen(g_ref_obs); while (rl && g_ref_obs[rl - 1] == ' ') g_ref_obs[--rl] = 0;
    printf("%s REF=%s:%016" PRIx64, g_case.id, ref.p, fnv64((const uint8_t*) g_ref_obs, strlen(g_ref_obs)));
    parse_muts(muts);
    run_all();
    // print, merging prefix runs with equal results
    size_t k = 0;
    for (size_t i = 0; i < g_nmuts; i++)
    {
      MUT* m = &g_muts[i];
      if (m->kind == 'p')
      {
        size_t n = m->a;
        while (n < m->b)
        {
          size_t e = n + 1;
          const char* r0 = g_results[k] ? g_results[k] : "MISSING";
          while (e < m->b && !strcmp(g_results[k + (e - n)] ? g_results[k + (e - n)] : "MISSING", r0)) e++;
          if (e == n + 1) printf(" p%zu=%s", n, r0); else printf(" p%zu-%zu=%s", n, e, r0);
          k += e - n; n = e;
        }
      }
      else
      {
        SB h = {0}; sb_hex(&h, m->bytes, m->nbytes);
        printf(" w%zu:%s=%s", m->off, sb_str(&h), g_results[k] ? g_results[k] : "MISSING");
        sb_free(&h); k++;
      }
    }
    {
      // distinct recoverable UBSan reports seen in the children of this line
      char* save = NULL; SB seen = {0};
      for (char* t = g_ub.p ? strtok_r(g_ub.p, " ", &save) : NULL; t; t = strtok_r(NULL, " ", &save))
      {
        char key[700]; snprintf(key, sizeof key, "|%s|", t);
        if (!strstr(sb_str(&seen), key)) { sb_put(&seen, key); printf(" %s", t); }
      }
      sb_free(&seen); sb_free(&g_ub);
    }
    printf("\n"); fflush(stdout);
    for (size_t i = 0; i < g_nones; i++) free(g_results[i]);
    free(g_results); free(g_ones);
    for (size_t i = 0; i < g_nmuts; i++) free(g_muts[i].bytes);
    free(g_muts); free(g_img); sb_free(&ref);
  }
  return 0;
}
