// C18 / D11 harness: drives the REAL file_queue_put / file_queue_get / file_queue_finish of cli/yara.c
// (the file is compiled into this translation unit with main renamed) from one producer and n consumer
// threads and records every atomic action of the protocol in one global order:
//     semaphore wait success, mutex acquired (+ queue_head/queue_tail), mutex about to be released
//     (+ head/tail), semaphore post, argument of put, result of get, begin/end of finish.
// The recorded history is then replayed against the Lean model (Driver/Queue.lean): it must be a run of
// the model (refinement), end in a final state and deliver every path exactly once.
//
// Case line:  <id> n=<consumers> items=<count> seed=<n> yield=<permille>
// Output   :  <id> n=<n> items=<k> <status> | ev ev ev ...          status: DONE | HANG
//   ev = <tid>.<K>[.<a>[.<b>]]   tid 0 = producer, i>=1 = consumer i-1
//   K: A put argument id | W wait ok (u=used_slots n=unused_slots) | T wait timed out | L locked h t
//      | U unlocking h t | P post (u/n) | G get result id (-1 = NULL, -2 = not one of ours) | F finish begins | E finish returned
//
// The sequence number of an event is taken with a relaxed atomic fetch-add (no happens-before edge is
// added, so ThreadSanitizer still sees the queue's own synchronisation only):
//   after a wait returned, after the lock was acquired, BEFORE an unlock, BEFORE a post.
// Hence a post is always numbered before the wait it releases and critical sections are numbered in
// their real order: replaying the events in sequence order is a faithful linearisation.
#include "common.h"
#include <pthread.h>
#include <sched.h>
#include <time.h>
#include <errno.h>

#include "cli/threading.h"
#include "cli/threading.c"
#include "cli/args.c"
#include "cli/common.c"

extern SEMAPHORE used_slots;
extern SEMAPHORE unused_slots;
extern MUTEX queue_mutex;
extern int queue_head;
extern int queue_tail;

typedef struct { unsigned long seq; int tid; char kind; long a, b; } EV;

#define MAX_THREADS_H 80
#define EV_PER_THREAD 20000
static EV* vf_log[MAX_THREADS_H];
static int vf_nlog[MAX_THREADS_H];
static unsigned long vf_seq;
static __thread int vf_tid;
static __thread unsigned vf_rng;
static int vf_yield_permille;

static inline void vf_perturb(void)
{
  vf_rng = vf_rng * 1103515245u + 12345u;
  unsigned r = (vf_rng >> 16) % 1000;
  if ((int) r < vf_yield_permille)
  {
    if ((vf_rng >> 8) & 1) sched_yield();
    else { struct timespec ts = {0, 1000 * (long) ((vf_rng >> 20) % 50)}; nanosleep(&ts, NULL); }
  }
}

static inline void vf_ev(char kind, long a, long b)
{
  int t = vf_tid;
  if (vf_nlog[t] >= EV_PER_THREAD) return;
  EV* e = &vf_log[t][vf_nlog[t]++];
  e->seq = __atomic_fetch_add(&vf_seq, 1, __ATOMIC_RELAXED);
  e->tid = t; e->kind = kind; e->a = a; e->b = b;
}

static int vf_sem_wait(SEMAPHORE* s, time_t deadline)
{
  vf_perturb();
  int r = cli_semaphore_wait(s, deadline);
  vf_ev(r == ERROR_SUCCESS ? 'W' : 'T', s == &used_slots ? 'u' : (s == &unused_slots ? 'n' : '?'), 0);
  return r;
}

static void vf_sem_post(SEMAPHORE* s)
{
  vf_perturb();
  vf_ev('P', s == &used_slots ? 'u' : (s == &unused_slots ? 'n' : '?'), 0);
  cli_semaphore_release(s);
}

static void vf_lock(MUTEX* m)
{
  vf_perturb();
  cli_mutex_lock(m);
  if (m == &queue_mutex) vf_ev('L', queue_head, queue_tail);
}

static void vf_unlock(MUTEX* m)
{
  if (m == &queue_mutex) vf_ev('U', queue_head, queue_tail);
  cli_mutex_unlock(m);
  vf_perturb();
}

#define cli_semaphore_wait(s, d) vf_sem_wait(s, d)
#define cli_semaphore_release(s) vf_sem_post(s)
#define cli_mutex_lock(m)        vf_lock(m)
#define cli_mutex_unlock(m)      vf_unlock(m)
#define main yara_main
#include "cli/yara.c"
#undef main
#undef cli_semaphore_wait
#undef cli_semaphore_release
#undef cli_mutex_lock
#undef cli_mutex_unlock

typedef struct { int tid; unsigned seed; time_t deadline; int items; } TARG;

static long path_id(const char* p)
{
  if (p == NULL) return -1;
  if (p[0] != 'p') return -2;
  char* end; long v = strtol(p + 1, &end, 10);
  return (*end == 0 && end != p + 1) ? v : -2;
}

// mirrors the loop of scanning_thread(): get, (scan), free, get again; NULL ends the loop
static void* consumer(void* param)
{
  TARG* a = (TARG*) param;
  vf_tid = a->tid; vf_rng = a->seed;
  char* p = file_queue_get(a->deadline);
  vf_ev('G', path_id(p), 0);
  while (p != NULL)
  {
    vf_perturb();
    free(p);
    p = file_queue_get(a->deadline);
    vf_ev('G', path_id(p), 0);
  }
  return NULL;
}

// mirrors main(): put every path (scan_dir), then file_queue_finish()
static void* producer(void* param)
{
  TARG* a = (TARG*) param;
  vf_tid = 0; vf_rng = a->seed;
  char buf[32];
  for (int i = 0; i < a->items; i++)
  {
    snprintf(buf, sizeof buf, "p%d", i);
    vf_ev('A', i, 0);
    if (file_queue_put(buf, a->deadline) != ERROR_SUCCESS) break;
  }
  vf_ev('F', 0, 0);
  file_queue_finish();
  vf_ev('E', 0, 0);
  return NULL;
}

static int cmp_ev(const void* x, const void* y)
{
  unsigned long a = ((const EV*) x)->seq, b = ((const EV*) y)->seq;
  return a < b ? -1 : (a > b ? 1 : 0);
}

__attribute__((no_sanitize("thread"))) static void dump(const char* id, int n, int items, const char* status)
{
  int total = 0;
  for (int t = 0; t <= n; t++) total += vf_nlog[t];
  EV* all = (EV*) malloc(sizeof(EV) * (total + 1));
  int k = 0;
  for (int t = 0; t <= n; t++) { memcpy(all + k, vf_log[t], sizeof(EV) * vf_nlog[t]); k += vf_nlog[t]; }
  qsort(all, total, sizeof(EV), cmp_ev);
  printf("%s n=%d items=%d %s |", id, n, items, status);
  for (int i = 0; i < total; i++)
  {
    EV* e = &all[i];
    switch (e->kind)
    {
    case 'W': case 'P': case 'T': printf(" %d.%c.%c", e->tid, e->kind, (char) e->a); break;
    case 'L': case 'U': printf(" %d.%c.%ld.%ld", e->tid, e->kind, e->a, e->b); break;
    case 'A': case 'G': printf(" %d.%c.%ld", e->tid, e->kind, e->a); break;
    default: printf(" %d.%c", e->tid, e->kind);
    }
  }
  printf("\n");
  fflush(stdout);
  free(all);
}

static long kv(char** toks, int nt, const char* key, long dflt)
{
  size_t kl = strlen(key);
  for (int i = 1; i < nt; i++)
    if (strncmp(toks[i], key, kl) == 0 && toks[i][kl] == '=') return strtol(toks[i] + kl + 1, NULL, 10);
  return dflt;
}

int main(int argc, char** argv)
{
  char* line = NULL; size_t cap = 0;
  long hang_s = argc > 1 ? strtol(argv[1], NULL, 10) : 20;
  for (int t = 0; t < MAX_THREADS_H; t++) vf_log[t] = (EV*) malloc(sizeof(EV) * EV_PER_THREAD);
  while (getline(&line, &cap, stdin) > 0)
  {
    char* toks[16];
    int nt = split(line, toks, 16);
    if (nt < 1) continue;
    int n = (int) kv(toks, nt, "n", 2), items = (int) kv(toks, nt, "items", 10);
    unsigned seed = (unsigned) kv(toks, nt, "seed", 1);
    vf_yield_permille = (int) kv(toks, nt, "yield", 100);
    if (n < 0 || n > MAX_THREADS_H - 1 || items < 0 || items * 8 + 200 > EV_PER_THREAD) { printf("%s BADCASE\n", toks[0]); continue; }
    for (int t = 0; t <= n; t++) vf_nlog[t] = 0;
    __atomic_store_n(&vf_seq, 0, __ATOMIC_RELAXED);
    if (file_queue_init() != 0) DIE("file_queue_init failed");
    pthread_t th[MAX_THREADS_H]; TARG ta[MAX_THREADS_H];
    time_t deadline = time(NULL) + 1000000;
    for (int t = 1; t <= n; t++)
    {
      ta[t].tid = t; ta[t].seed = seed * 7919u + t; ta[t].deadline = deadline; ta[t].items = items;
      if (pthread_create(&th[t], NULL, consumer, &ta[t])) DIE("pthread_create");
    }
    ta[0].tid = 0; ta[0].seed = seed; ta[0].deadline = deadline; ta[0].items = items;
    if (pthread_create(&th[0], NULL, producer, &ta[0])) DIE("pthread_create");
    struct timespec until; clock_gettime(CLOCK_REALTIME, &until); until.tv_sec += hang_s;
    int hung = 0;
    for (int t = 0; t <= n && !hung; t++)
      if (pthread_timedjoin_np(th[t], NULL, &until) != 0) hung = 1;
    if (hung)
    {
      // some thread is blocked for good (or the machine is absurdly slow): report and stop, the
      // remaining threads cannot be joined
      dump(toks[0], n, items, "HANG");
      fflush(stdout);
      _exit(0);
    }
    dump(toks[0], n, items, "DONE");
    file_queue_destroy();
  }
  free(line);
  for (int t = 0; t < MAX_THREADS_H; t++) free(vf_log[t]);
  return 0;
}
