// C20 harness: drives the real external-variable API with an op sequence per line.
// line:  <id> <op> <op> ...      output: <id> <result-token per op>
#include "common.h"

#define MAXV 8
#define MAXS 4
typedef struct { char name[16]; char ty; } VAR;

static VAR vars[MAXV];
static int nvars;

static const char* PROBES_I[] = {"%s == 0", "%s == 1", "%s + 1 == 3", "%s < 0", "(%s & 4) == 4", "%s", "%s * 2 > 5"};
static const char* PROBES_B[] = {"%s", "not %s", "%s == 1"};
static const char* PROBES_F[] = {"%s < 0.0", "%s == 0.5", "%s >= 1.5", "%s + 0.5 == 2.5", "%s * 2.0 == 3.0"};
static const char* PROBES_S[] = {"%s == \"a\"", "%s contains \"b\"", "%s startswith \"ab\"", "%s matches /^a?b?c?$/",
                                 "%s icontains \"B\"", "%s endswith \"c\"", "%s != \"\""};

static int nprobes(char ty) { return ty == 'i' ? 7 : ty == 'b' ? 3 : ty == 'f' ? 5 : 7; }
static const char* probe(char ty, int j)
{
  return ty == 'i' ? PROBES_I[j] : ty == 'b' ? PROBES_B[j] : ty == 'f' ? PROBES_F[j] : PROBES_S[j];
}

typedef struct { uint8_t hit[MAXV][8]; } OBS;

static int scan_cb(YR_SCAN_CONTEXT* ctx, int msg, void* data, void* ud)
{
  if (msg == CALLBACK_MSG_RULE_MATCHING)
  {
    OBS* o = (OBS*) ud;
    const char* id = ((YR_RULE*) data)->identifier;  // p_<v>_<j>
    int v, j;
    if (sscanf(id, "p_%d_%d", &v, &j) == 2) o->hit[v][j] = 1;
  }
  return CALLBACK_CONTINUE;
}

static void print_obs(int rc, OBS* o)
{
  if (rc != ERROR_SUCCESS) { printf(" E:%s", errname(rc)); return; }
  printf(" ");
  if (nvars == 0) printf("none");
  for (int v = 0; v < nvars; v++)
  {
    printf("%s%s=", v ? "," : "", vars[v].name);
    for (int j = 0; j < nprobes(vars[v].ty); j++) putchar(o->hit[v][j] ? '1' : '0');
  }
}

int main()
{
  char* line = NULL; size_t cap = 0;
  static char* toks[4096];
  yr_initialize();
  while (getline(&line, &cap, stdin) > 0)
  {
    int n = split(line, toks, 4096);
    if (n < 1) continue;
    printf("%s", toks[0]);
    YR_COMPILER* comp = NULL; YR_RULES* rules = NULL; YR_SCANNER* sc[MAXS] = {0};
    nvars = 0;
    yr_compiler_create(&comp);
    for (int t = 1; t < n; t++)
    {
      char* p[6]; int np = splitc(toks[t], ':', p, 6);
      if (!strcmp(p[0], "cdef") && np == 4)
      {
        int rc; char ty = p[1][0];
        if (ty == 'i') rc = yr_compiler_define_integer_variable(comp, p[2], strtoll(p[3], 0, 10));
        else if (ty == 'b') rc = yr_compiler_define_boolean_variable(comp, p[2], atoi(p[3]));
        else if (ty == 'f') rc = yr_compiler_define_float_variable(comp, p[2], strtoll(p[3], 0, 10) / 2.0);
        else { size_t l; uint8_t* s = unhex(p[3], &l); rc = yr_compiler_define_string_variable(comp, p[2], (char*) s); free(s); }
        if (rc == ERROR_SUCCESS && nvars < MAXV) { snprintf(vars[nvars].name, 16, "%s", p[2]); vars[nvars].ty = ty; nvars++; }
        printf(" %s", errname(rc));
      }
      else if (!strcmp(p[0], "compile"))
      {
        char* src = (char*) malloc(65536); size_t off = 0; src[0] = 0;
        for (int v = 0; v < nvars; v++)
          for (int j = 0; j < nprobes(vars[v].ty); j++)
          {
            char cond[128];
            snprintf(cond, sizeof cond, probe(vars[v].ty, j), vars[v].name);
            off += snprintf(src + off, 65536 - off, "rule p_%d_%d { condition: %s }\n", v, j, cond);
          }
        if (nvars == 0) off += snprintf(src + off, 65536 - off, "rule dummy { condition: false }\n");
        VF_ERRS e = {{0}, 0, 0};
        yr_compiler_set_callback(comp, vf_compiler_cb, &e);
        int errs = yr_compiler_add_string(comp, src, NULL);
        int rc = errs ? -1 : yr_compiler_get_rules(comp, &rules);
        if (errs) printf(" CERR:%s", e.msg); else printf(" %s", errname(rc));
        free(src);
      }
      else if (!strcmp(p[0], "rdef") && np == 4)
      {
        int rc; char ty = p[1][0];
        if (!rules) { printf(" NORULES"); continue; }
        if (ty == 'i') rc = yr_rules_define_integer_variable(rules, p[2], strtoll(p[3], 0, 10));
        else if (ty == 'b') rc = yr_rules_define_boolean_variable(rules, p[2], atoi(p[3]));
        else if (ty == 'f') rc = yr_rules_define_float_variable(rules, p[2], strtoll(p[3], 0, 10) / 2.0);
        else { size_t l; uint8_t* s = unhex(p[3], &l); rc = yr_rules_define_string_variable(rules, p[2], (char*) s); free(s); }
        printf(" %s", errname(rc));
      }
      else if (!strcmp(p[0], "screate") && np == 2)
      {
        int k = atoi(p[1]);
        if (!rules) { printf(" NORULES"); continue; }
        if (sc[k]) { yr_scanner_destroy(sc[k]); sc[k] = NULL; }
        int rc = yr_scanner_create(rules, &sc[k]);
        printf(" %s", errname(rc));
      }
      else if (!strcmp(p[0], "sdestroy") && np == 2)
      {
        int k = atoi(p[1]);
        if (sc[k]) { yr_scanner_destroy(sc[k]); sc[k] = NULL; printf(" OK"); } else printf(" NOSCANNER");
      }
      else if (!strcmp(p[0], "sdef") && np == 5)
      {
        int k = atoi(p[1]); int rc; char ty = p[2][0];
        if (!sc[k]) { printf(" NOSCANNER"); continue; }
        if (ty == 'i') rc = yr_scanner_define_integer_variable(sc[k], p[3], strtoll(p[4], 0, 10));
        else if (ty == 'b') rc = yr_scanner_define_boolean_variable(sc[k], p[3], atoi(p[4]));
        else if (ty == 'f') rc = yr_scanner_define_float_variable(sc[k], p[3], strtoll(p[4], 0, 10) / 2.0);
        else { size_t l; uint8_t* s = unhex(p[4], &l); rc = yr_scanner_define_string_variable(sc[k], p[3], (char*) s); free(s); }
        printf(" %s", errname(rc));
      }
      else if (!strcmp(p[0], "scan") && np == 2)
      {
        int k = atoi(p[1]);
        if (!sc[k]) { printf(" NOSCANNER"); continue; }
        OBS o; memset(&o, 0, sizeof o);
        yr_scanner_set_callback(sc[k], scan_cb, &o);
        int rc = yr_scanner_scan_mem(sc[k], (const uint8_t*) "xyz", 3);
        print_obs(rc, &o);
      }
      else if (!strcmp(p[0], "rscan"))
      {
        if (!rules) { printf(" NORULES"); continue; }
        OBS o; memset(&o, 0, sizeof o);
        int rc = yr_rules_scan_mem(rules, (const uint8_t*) "xyz", 3, 0, scan_cb, &o, 0);
        print_obs(rc, &o);
      }
      else printf(" BADOP");
    }
    for (int k = 0; k < MAXS; k++) if (sc[k]) yr_scanner_destroy(sc[k]);
    if (rules) yr_rules_destroy(rules);
    if (comp) yr_compiler_destroy(comp);
    printf("\n");
  }
  yr_finalize();
  free(line);
  return 0;
}
