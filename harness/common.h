// Shared helpers for the /verif correspondence harnesses (line protocol side "implementation").
#ifndef VERIF_COMMON_H
#define VERIF_COMMON_H
#include <stdio.h>
#include <stdlib.h>
#include <string.h>
#include <stdint.h>
#include <inttypes.h>
#include <yara.h>

#define E(n) case n: return #n + 6;
static const char* errname(int e)
{
  switch (e)
  {
  case ERROR_SUCCESS: return "OK";
  E(ERROR_INSUFFICIENT_MEMORY) E(ERROR_COULD_NOT_OPEN_FILE) E(ERROR_COULD_NOT_MAP_FILE)
  E(ERROR_INVALID_FILE) E(ERROR_CORRUPT_FILE) E(ERROR_UNSUPPORTED_FILE_VERSION)
  E(ERROR_INVALID_REGULAR_EXPRESSION) E(ERROR_INVALID_HEX_STRING) E(ERROR_SYNTAX_ERROR)
  E(ERROR_LOOP_NESTING_LIMIT_EXCEEDED) E(ERROR_DUPLICATED_LOOP_IDENTIFIER)
  E(ERROR_DUPLICATED_IDENTIFIER) E(ERROR_DUPLICATED_TAG_IDENTIFIER)
  E(ERROR_DUPLICATED_META_IDENTIFIER) E(ERROR_DUPLICATED_STRING_IDENTIFIER)
  E(ERROR_UNREFERENCED_STRING) E(ERROR_UNDEFINED_STRING) E(ERROR_UNDEFINED_IDENTIFIER)
  E(ERROR_MISPLACED_ANONYMOUS_STRING) E(ERROR_INCLUDES_CIRCULAR_REFERENCE)
  E(ERROR_INCLUDE_DEPTH_EXCEEDED) E(ERROR_WRONG_TYPE) E(ERROR_EXEC_STACK_OVERFLOW)
  E(ERROR_SCAN_TIMEOUT) E(ERROR_TOO_MANY_SCAN_THREADS) E(ERROR_CALLBACK_ERROR)
  E(ERROR_INVALID_ARGUMENT) E(ERROR_TOO_MANY_MATCHES) E(ERROR_INTERNAL_FATAL_ERROR)
  E(ERROR_NESTED_FOR_OF_LOOP) E(ERROR_INVALID_FIELD_NAME) E(ERROR_UNKNOWN_MODULE)
  E(ERROR_NOT_A_STRUCTURE) E(ERROR_NOT_INDEXABLE) E(ERROR_NOT_A_FUNCTION)
  E(ERROR_INVALID_FORMAT) E(ERROR_TOO_MANY_ARGUMENTS) E(ERROR_WRONG_ARGUMENTS)
  E(ERROR_WRONG_RETURN_TYPE) E(ERROR_DUPLICATED_STRUCTURE_MEMBER) E(ERROR_EMPTY_STRING)
  E(ERROR_DIVISION_BY_ZERO) E(ERROR_REGULAR_EXPRESSION_TOO_LARGE) E(ERROR_TOO_MANY_RE_FIBERS)
  E(ERROR_COULD_NOT_READ_PROCESS_MEMORY) E(ERROR_INVALID_EXTERNAL_VARIABLE_TYPE)
  E(ERROR_REGULAR_EXPRESSION_TOO_COMPLEX) E(ERROR_INVALID_MODULE_NAME) E(ERROR_TOO_MANY_STRINGS)
  E(ERROR_INTEGER_OVERFLOW) E(ERROR_CALLBACK_REQUIRED) E(ERROR_INVALID_OPERAND)
  E(ERROR_COULD_NOT_READ_FILE) E(ERROR_DUPLICATED_EXTERNAL_VARIABLE) E(ERROR_INVALID_MODULE_DATA)
  E(ERROR_WRITING_FILE) E(ERROR_INVALID_MODIFIER) E(ERROR_DUPLICATED_MODIFIER)
  E(ERROR_BLOCK_NOT_READY) E(ERROR_INVALID_PERCENTAGE) E(ERROR_IDENTIFIER_MATCHES_WILDCARD)
  E(ERROR_INVALID_VALUE) E(ERROR_TOO_SLOW_SCANNING) E(ERROR_UNKNOWN_ESCAPE_SEQUENCE)
  default: return "ERR_OTHER";
  }
}
#undef E

static int hexval(int c)
{
  if (c >= '0' && c <= '9') return c - '0';
  if (c >= 'a' && c <= 'f') return c - 'a' + 10;
  if (c >= 'A' && c <= 'F') return c - 'A' + 10;
  return -1;
}

// decode hex string ("-" = empty) into malloc'd buffer (always at least 1 byte allocated)
static uint8_t* unhex(const char* s, size_t* len)
{
  size_t n = (strcmp(s, "-") == 0) ? 0 : strlen(s) / 2;
  uint8_t* b = (uint8_t*) malloc(n + 1);
  for (size_t i = 0; i < n; i++) b[i] = (uint8_t) (hexval(s[2 * i]) * 16 + hexval(s[2 * i + 1]));
  b[n] = 0;
  *len = n;
  return b;
}

// split a line in place on single spaces; returns token count
static int split(char* line, char** toks, int max)
{
  int n = 0;
  char* p = line;
  while (*p && n < max)
  {
    while (*p == ' ') p++;
    if (!*p || *p == '\n') break;
    toks[n++] = p;
    while (*p && *p != ' ' && *p != '\n') p++;
    if (*p) *p++ = 0;
  }
  return n;
}

// split a token in place on a separator char
static int splitc(char* tok, char sep, char** parts, int max)
{
  int n = 0;
  parts[n++] = tok;
  for (char* p = tok; *p && n < max; p++)
    if (*p == sep) { *p = 0; parts[n++] = p + 1; }
  return n;
}

typedef struct { char msg[512]; int count; int line; } VF_ERRS;

static void vf_compiler_cb(int level, const char* file, int line, const YR_RULE* rule, const char* msg, void* ud)
{
  VF_ERRS* e = (VF_ERRS*) ud;
  if (level == YARA_ERROR_LEVEL_ERROR && e)
  {
    if (e->count == 0) { snprintf(e->msg, sizeof e->msg, "%s", msg); e->line = line; }
    e->count++;
  }
}

#define DIE(...) do { fprintf(stderr, __VA_ARGS__); fprintf(stderr, "\n"); exit(3); } while (0)

#endif
