// C15 harness: engine limits. One case per line: "<id> <cmd> key=value ...".
// Keys the harness does not know (the abstract description used by the Lean model) are ignored.
// Output: "<id> <canonical outcome tokens>"; tokens starting with "t=" (timings) are informational.
//
// cmds:  consts | ml | fib | re | compile | scan
#include "common.h"
#include <time.h>
#include <unistd.h>
#include <yara/limits.h>
#include <yara/re.h>
#include <yara/arena.h>
// static functions reached by inclusion (the archive members scan.o / re.o are then not linked)
#include "scan.c"
#include "re.c"

#define MAXKV 64
typedef struct { char* k; char* v; } KV;
static KV kv[MAXKV];
static int nkv;

static const char* get(const char* k, const char* dflt)
{
  for (int i = 0; i < nkv; i++) if (!strcmp(kv[i].k, k)) return kv[i].v;
  return dflt;
}
static long long geti(const char* k, long long dflt)
{
  const char* v = get(k, NULL);
  return v ? strtoll(v, 0, 10) : dflt;
}

static double now_s(void)
{
  struct timespec ts; clock_gettime(CLOCK_MONOTONIC, &ts);
  return ts.tv_sec + ts.tv_nsec / 1e9;
}
static double cpu_s(void)
{
  struct timespec ts; clock_gettime(CLOCK_PROCESS_CPUTIME_ID, &ts);
  return ts.tv_sec + ts.tv_nsec / 1e9;
}

// ------------------------------------------------------------------ compile helpers
typedef struct { YR_COMPILER* c; int first_code; char first_msg[160]; int errors; int warnings; } CERR;

static void cerr_cb(int level, const char* file, int line, const YR_RULE* rule, const char* msg, void* ud)
{
  CERR* e = (CERR*) ud;
  if (level == YARA_ERROR_LEVEL_ERROR)
  {
    if (e->errors == 0)
    {
      e->first_code = e->c->last_error;
      snprintf(e->first_msg, sizeof e->first_msg, "%s", msg);
    }
    e->errors++;
  }
  else e->warnings++;
}

// includes are served from the "inc=<name>:<hex>" keys
static const char* inc_cb(const char* name, const char* from_file, const char* ns, void* ud)
{
  for (int i = 0; i < nkv; i++)
    if (!strcmp(kv[i].k, "inc"))
    {
      const char* colon = strchr(kv[i].v, ':');
      if (colon && (size_t) (colon - kv[i].v) == strlen(name) && !strncmp(kv[i].v, name, colon - kv[i].v))
      {
        size_t l; return (const char*) unhex(colon + 1, &l);
      }
    }
  return NULL;
}
static void inc_free(const char* p, void* ud) { free((void*) p); }

static void canon_msg(char* s)
{
  for (; *s; s++) if (*s == ' ' || *s == '\n' || *s == '\t') *s = '_';
}

// compiles text (hex key `key`) with the configuration keys; prints outcome token; returns rules or NULL
static YR_RULES* do_compile(const char* key, int print)
{
  YR_COMPILER* comp = NULL; YR_RULES* rules = NULL;
  CERR e; memset(&e, 0, sizeof e);
  if (yr_compiler_create(&comp) != ERROR_SUCCESS) { if (print) printf(" COMPILER_CREATE_FAILED"); return NULL; }
  e.c = comp;
  yr_compiler_set_callback(comp, cerr_cb, &e);
  yr_compiler_set_include_callback(comp, inc_cb, inc_free, NULL);
  const char* ext = get("ext", NULL);
  if (ext) yr_compiler_define_integer_variable(comp, ext, 1);
  size_t l; char* src = (char*) unhex(get(key, "-"), &l);
  int errs;
  const char* top = get("top", NULL);
  if (top && strcmp(top, "-"))
  {
    FILE* f = fmemopen(src, l ? l : 1, "r");
    errs = yr_compiler_add_file(comp, f, NULL, top);
    fclose(f);
  }
  else errs = yr_compiler_add_string(comp, src, NULL);
  free(src);
  if (errs == 0)
  {
    int rc = yr_compiler_get_rules(comp, &rules);
    if (print) { if (rc == ERROR_SUCCESS) printf(" OK"); else printf(" GETRULES:%s", errname(rc)); }
  }
  else if (print)
  {
    printf(" CERR:%s", errname(e.first_code));
    if (e.first_code == ERROR_SYNTAX_ERROR) { canon_msg(e.first_msg); printf(":%.60s", e.first_msg); }
  }
  yr_compiler_destroy(comp);
  return rules;
}

// ------------------------------------------------------------------ scan helpers
typedef struct
{
  int tmm_mode;            // answer on TOO_MANY_MATCHES: 'c' continue, 'a' abort, 'e' error
  int n_tmm, n_slow;
  char tmm_ids[32][24];    // identifiers of strings reported by TOO_MANY_MATCHES
  char out[8192]; size_t off;   // per-rule results
  const char* prefix;      // only rules whose identifier starts with this are printed ("" = all)
  int mdl_bad;             // match data length violations
  uint32_t mmd;
} SCANOBS;

static int scan_cb(YR_SCAN_CONTEXT* ctx, int msg, void* data, void* ud)
{
  SCANOBS* o = (SCANOBS*) ud;
  if (msg == CALLBACK_MSG_TOO_MANY_MATCHES)
  {
    YR_STRING* s = (YR_STRING*) data;
    if (o->n_tmm < 32) snprintf(o->tmm_ids[o->n_tmm], 24, "%s", s->identifier);
    o->n_tmm++;
    return o->tmm_mode == 'c' ? CALLBACK_CONTINUE : o->tmm_mode == 'a' ? CALLBACK_ABORT : CALLBACK_ERROR;
  }
  if (msg == CALLBACK_MSG_TOO_SLOW_SCANNING) { o->n_slow++; return CALLBACK_CONTINUE; }
  if (msg == CALLBACK_MSG_RULE_MATCHING || msg == CALLBACK_MSG_RULE_NOT_MATCHING)
  {
    YR_RULE* r = (YR_RULE*) data;
    if (strncmp(r->identifier, o->prefix, strlen(o->prefix)) != 0) return CALLBACK_CONTINUE;
    o->off += snprintf(o->out + o->off, sizeof o->out - o->off, "%s%s:%d", o->off ? "," : "", r->identifier,
                       msg == CALLBACK_MSG_RULE_MATCHING);
    YR_STRING* s;
    yr_rule_strings_foreach(r, s)
    {
      YR_MATCH* m; long n = 0; long long first = -1, last = -1, sumlen = 0;
      yr_string_matches_foreach(ctx, s, m)
      {
        if (n == 0) first = m->base + m->offset;
        last = m->base + m->offset; n++; sumlen += m->match_length;
        int32_t want = m->match_length < (int32_t) o->mmd ? m->match_length : (int32_t) o->mmd;
        if (m->data_length != want) o->mdl_bad++;
      }
      if (s->chained_to == NULL || n > 0)
        o->off += snprintf(o->out + o->off, sizeof o->out - o->off, ":%s=%ld@%lld-%lld/%lld", s->identifier, n, first, last, sumlen);
    }
  }
  return CALLBACK_CONTINUE;
}

// buffer spec: seg+seg+...   seg = <hexunit>*<count>
static uint8_t* make_buf(const char* spec, size_t* len)
{
  char* sp = strdup(spec); size_t cap = 1 << 16, n = 0; uint8_t* b = (uint8_t*) malloc(cap);
  char* save = NULL;
  for (char* seg = strtok_r(sp, "+", &save); seg; seg = strtok_r(NULL, "+", &save))
  {
    char* star = strchr(seg, '*'); long cnt = 1;
    if (star) { *star = 0; cnt = strtol(star + 1, 0, 10); }
    size_t ul; uint8_t* u = unhex(seg, &ul);
    while (n + ul * cnt + 1 > cap) { cap *= 2; b = (uint8_t*) realloc(b, cap); }
    for (long i = 0; i < cnt; i++) { memcpy(b + n, u, ul); n += ul; }
    free(u);
  }
  free(sp); *len = n; return b;
}

static void do_scan(YR_RULES* rules, const uint8_t* buf, size_t len, const char* prefix, const char* label, int timeout)
{
  SCANOBS o; memset(&o, 0, sizeof o);
  o.tmm_mode = get("cb", "c")[0]; o.prefix = prefix;
  // the match-data bound the CASE configured (not what the library says it is now: a limit that was silently lost must show)
  if (geti("mmd", -1) >= 0) o.mmd = (uint32_t) geti("mmd", 0); else yr_get_configuration_uint32(YR_CONFIG_MAX_MATCH_DATA, &o.mmd);
  YR_SCANNER* sc = NULL;
  int rc = yr_scanner_create(rules, &sc);
  if (rc != ERROR_SUCCESS) { printf(" %s=SCANNER:%s", label, errname(rc)); return; }
  yr_scanner_set_callback(sc, scan_cb, &o);
  if (timeout > 0) yr_scanner_set_timeout(sc, timeout);
  int reps = (int) geti("reps", 1);
  for (int r = 0; r < reps; r++)
  {
    o.off = 0; o.out[0] = 0; o.n_tmm = 0; o.n_slow = 0;
    double t0 = now_s(), c0 = cpu_s();
    rc = yr_scanner_scan_mem(sc, buf, len);
    double dt = now_s() - t0, dc = cpu_s() - c0;
    printf(" %s=%s", label, errname(rc));
    if (o.n_tmm)
    {
      int k = o.n_tmm < 32 ? o.n_tmm : 32;   // sorted: the order of callbacks for one offset is not part of the property
      qsort(o.tmm_ids, k, 24, (int (*)(const void*, const void*)) strcmp);
      printf(" %s.tmm=", label);
      for (int i = 0; i < k; i++) printf("%s%s", i ? "," : "", o.tmm_ids[i]);
    }
    if (o.off) printf(" %s.res=%s", label, o.out);
    if (o.mdl_bad) printf(" %s.BAD_DATA_LENGTH=%d", label, o.mdl_bad);
    printf(" t=%s:%.3f t=%scpu:%.3f t=slowcb:%d", label, dt, label, dc, o.n_slow);
  }
  yr_scanner_destroy(sc);
}

// scanseq: ONE scanner scans a sequence of buffers (seq=1,2,1,…: buf / buf2); every scan of a buffer must give what
// a fresh scanner gives for that buffer, whatever happened in the scans before (e.g. a scan that hit the fiber limit)
static void do_scanseq(YR_RULES* rules, const uint8_t* b1, size_t l1, const uint8_t* b2, size_t l2)
{
  char fresh[3][8192]; int frc[3] = {0, 0, 0};
  for (int w = 1; w <= 2; w++)
  {
    SCANOBS o; memset(&o, 0, sizeof o); o.tmm_mode = 'c'; o.prefix = ""; o.mmd = 1 << 30;
    YR_SCANNER* f = NULL;
    if (yr_scanner_create(rules, &f) != ERROR_SUCCESS) { printf(" F%d=SCANNER", w); return; }
    yr_scanner_set_callback(f, scan_cb, &o);
    frc[w] = yr_scanner_scan_mem(f, w == 1 ? b1 : b2, w == 1 ? l1 : l2);
    snprintf(fresh[w], sizeof fresh[w], "%s", o.out);
    yr_scanner_destroy(f);
    printf(" F%d=%s", w, errname(frc[w]));
  }
  SCANOBS o; memset(&o, 0, sizeof o); o.tmm_mode = 'c'; o.prefix = ""; o.mmd = 1 << 30;
  YR_SCANNER* sc = NULL;
  if (yr_scanner_create(rules, &sc) != ERROR_SUCCESS) { printf(" S=SCANNER"); return; }
  yr_scanner_set_callback(sc, scan_cb, &o);
  char* seq = strdup(get("seq", "1")); char* save = NULL; int i = 0;
  for (char* t = strtok_r(seq, ",", &save); t; t = strtok_r(NULL, ",", &save))
  {
    int w = atoi(t) == 2 ? 2 : 1; i++;
    o.off = 0; o.out[0] = 0; o.n_tmm = 0; o.n_slow = 0;
    int rc = yr_scanner_scan_mem(sc, w == 1 ? b1 : b2, w == 1 ? l1 : l2);
    printf(" S%d=%s S%d.same=%d", i, errname(rc), i, rc == frc[w] && !strcmp(o.out, fresh[w]));
  }
  free(seq);
  yr_scanner_destroy(sc);
}

// scanblocks: a scan over `nblocks` blocks of `bsize` bytes whose iterator takes `sleep_ms` to deliver each next block
// (a slow memory reader); with a timeout the scan must notice the deadline at a block boundary however small the blocks are
typedef struct { YR_MEMORY_BLOCK blk; uint8_t* data; int n, i, sleep_ms; size_t bsize; int nb, pending; } BLKIT;
static const uint8_t* blk_fetch(YR_MEMORY_BLOCK* b) { return ((BLKIT*) b->context)->data; }
static YR_MEMORY_BLOCK* blk_get(BLKIT* it)
{
  if (it->i >= it->n) return NULL;
  it->blk.size = it->bsize; it->blk.base = (uint64_t) it->i * it->bsize; it->blk.context = it; it->blk.fetch_data = blk_fetch;
  return &it->blk;
}
static YR_MEMORY_BLOCK* blk_first(YR_MEMORY_BLOCK_ITERATOR* self) { BLKIT* it = (BLKIT*) self->context; it->i = 0; self->last_error = ERROR_SUCCESS; return blk_get(it); }
static YR_MEMORY_BLOCK* blk_next(YR_MEMORY_BLOCK_ITERATOR* self)
{
  BLKIT* it = (BLKIT*) self->context;
  if (it->nb)
  {
    // non-blocking source (nb=1): the next block is not there yet — the scan is suspended with ERROR_BLOCK_NOT_READY and the
    // CALLER waits `sleep_ms` before it resumes the scan; the second request delivers the block
    if (!it->pending) { it->pending = 1; self->last_error = ERROR_BLOCK_NOT_READY; return NULL; }
    it->pending = 0; it->i++; self->last_error = ERROR_SUCCESS;
    return blk_get(it);
  }
  struct timespec ts = {it->sleep_ms / 1000, (long) (it->sleep_ms % 1000) * 1000000L};
  nanosleep(&ts, NULL);
  it->i++; self->last_error = ERROR_SUCCESS;
  return blk_get(it);
}
static void do_scanblocks(YR_RULES* rules)
{
  BLKIT it; memset(&it, 0, sizeof it);
  it.n = (int) geti("nblocks", 4); it.bsize = (size_t) geti("bsize", 64); it.sleep_ms = (int) geti("sleep_ms", 100);
  it.data = (uint8_t*) malloc(it.bsize + 1); memset(it.data, 'a', it.bsize);
  YR_MEMORY_BLOCK_ITERATOR iter; memset(&iter, 0, sizeof iter);
  iter.context = &it; iter.first = blk_first; iter.next = blk_next; iter.file_size = NULL; iter.last_error = ERROR_SUCCESS;
  SCANOBS o; memset(&o, 0, sizeof o); o.tmm_mode = 'c'; o.prefix = "zz"; o.mmd = 1 << 30;
  YR_SCANNER* sc = NULL;
  if (yr_scanner_create(rules, &sc) != ERROR_SUCCESS) { printf(" S=SCANNER"); free(it.data); return; }
  yr_scanner_set_callback(sc, scan_cb, &o);
  yr_scanner_set_timeout(sc, (int) geti("timeout", 1));
  double t0 = now_s();
  it.nb = (int) geti("nb", 0);
  int rc = yr_scanner_scan_mem_blocks(sc, &iter), resumes = 0;
  while (rc == ERROR_BLOCK_NOT_READY && resumes < 10000)
  {
    struct timespec ts = {it.sleep_ms / 1000, (long) (it.sleep_ms % 1000) * 1000000L};
    nanosleep(&ts, NULL);
    resumes++;
    rc = yr_scanner_scan_mem_blocks(sc, &iter);     // resume: one scan, one deadline, counted from its first call
  }
  printf(" S=%s t=S:%.3f t=blocks:%d t=resumes:%d", errname(rc), now_s() - t0, it.i, resumes);
  yr_scanner_destroy(sc); free(it.data);
}

static int count_cb(YR_SCAN_CONTEXT* ctx, int msg, void* data, void* ud)
{
  if (msg == CALLBACK_MSG_RULE_MATCHING) (*(int*) ud)++;
  return CALLBACK_CONTINUE;
}

// fileseq: include "<k>_<i>" of file k with depth fs_depth[k]
#define FS_MAX 256
static int fs_depth[FS_MAX];
static const char* fs_inc_cb(const char* name, const char* from_file, const char* ns, void* ud)
{
  int k = -1, i = -1;
  if (sscanf(name, "%d_%d", &k, &i) != 2 || k < 0 || k >= FS_MAX || i < 1 || i > fs_depth[k]) return NULL;
  char* src = (char*) malloc(160);
  if (i < fs_depth[k]) snprintf(src, 160, "include \"%d_%d\"\nrule r%d_%d { condition: true }\n", k, i + 1, k, i);
  else snprintf(src, 160, "rule r%d_%d { condition: true }\n", k, i);
  return src;
}

static void sanity(void)
{
  // library usable afterwards: default configuration, fresh compiler, fresh scan
  YR_COMPILER* c = NULL; YR_RULES* r = NULL; int ok = 0, hit = 0;
  if (yr_compiler_create(&c) == ERROR_SUCCESS)
  {
    if (yr_compiler_add_string(c, "rule sane { strings: $a = \"sanity\" condition: $a and filesize == 12 }", NULL) == 0 &&
        yr_compiler_get_rules(c, &r) == ERROR_SUCCESS)
    {
      SCANOBS o; memset(&o, 0, sizeof o); o.prefix = ""; o.tmm_mode = 'c'; o.mmd = 1 << 30;
      YR_SCANNER* sc = NULL;
      if (yr_scanner_create(r, &sc) == ERROR_SUCCESS)
      {
        yr_scanner_set_callback(sc, scan_cb, &o);
        if (yr_scanner_scan_mem(sc, (const uint8_t*) "xx sanity yy", 12) == ERROR_SUCCESS) ok = 1;
        hit = strstr(o.out, "sane:1") != NULL;
        yr_scanner_destroy(sc);
      }
      yr_rules_destroy(r);
    }
    yr_compiler_destroy(c);
  }
  printf(" sane=%d", ok && hit);
}

// nest=<k>: after the limits are configured, another component of the process uses the library too: k nested
// yr_initialize() calls, each followed at once by its yr_finalize() (nestopen=0) or finalized only when the case is over
// (nestopen=1).  The configured limits are then read back (printed) and the case goes on to exercise them.
static int g_nest_open;
static void nested_use(void)
{
  int k = (int) geti("nest", 0);
  for (int i = 0; i < k; i++)
  {
    if (yr_initialize() != ERROR_SUCCESS) { printf(" NESTED_INIT_FAILED"); continue; }
    if (geti("nestopen", 0)) g_nest_open++; else yr_finalize();
  }
}
static void set_cfg(void)
{
  long long v;
  if ((v = geti("ss", -1)) >= 0) yr_set_configuration_uint32(YR_CONFIG_STACK_SIZE, (uint32_t) v);
  if ((v = geti("mspr", -1)) >= 0) yr_set_configuration_uint32(YR_CONFIG_MAX_STRINGS_PER_RULE, (uint32_t) v);
  if ((v = geti("mmd", -1)) >= 0) yr_set_configuration_uint32(YR_CONFIG_MAX_MATCH_DATA, (uint32_t) v);
  if (get("chunk", NULL)) yr_set_configuration_uint64(YR_CONFIG_MAX_PROCESS_MEMORY_CHUNK, strtoull(get("chunk", "0"), 0, 10));
  if (get("nest", NULL))
  {
    nested_use();
    uint32_t g = 0; uint64_t g64 = 0;
    if (get("ss", NULL)) { yr_get_configuration_uint32(YR_CONFIG_STACK_SIZE, &g); printf(" cfg.ss=%u", g); }
    if (get("mspr", NULL)) { yr_get_configuration_uint32(YR_CONFIG_MAX_STRINGS_PER_RULE, &g); printf(" cfg.mspr=%u", g); }
    if (get("mmd", NULL)) { yr_get_configuration_uint32(YR_CONFIG_MAX_MATCH_DATA, &g); printf(" cfg.mmd=%u", g); }
    if (get("chunk", NULL)) { yr_get_configuration_uint64(YR_CONFIG_MAX_PROCESS_MEMORY_CHUNK, &g64); printf(" cfg.chunk=%llu", (unsigned long long) g64); }
  }
}
// the configuration installed by yr_initialize (captured in main), so that cases without explicit
// settings run under the library's real defaults
static uint32_t init_ss, init_mspr, init_mmd; static uint64_t init_chunk;
static void reset_cfg(void)
{
  while (g_nest_open > 0) { yr_finalize(); g_nest_open--; }
  yr_set_configuration_uint32(YR_CONFIG_STACK_SIZE, init_ss);
  yr_set_configuration_uint32(YR_CONFIG_MAX_STRINGS_PER_RULE, init_mspr);
  yr_set_configuration_uint32(YR_CONFIG_MAX_MATCH_DATA, init_mmd);
  yr_set_configuration_uint64(YR_CONFIG_MAX_PROCESS_MEMORY_CHUNK, init_chunk);
}

// ------------------------------------------------------------------ function-level commands
// ml: drive _yr_scan_add_match_to_list.  offs=<o>:<len>,...  or  asc=<n> ;  rep=0/1
static void cmd_ml(void)
{
  YR_MATCHES list; memset(&list, 0, sizeof list);
  int rep = (int) geti("rep", 0);
  long asc = (long) geti("asc", -1);
  const char* offs = get("offs", NULL);
  long n = 0; long long* o = NULL; int* ln = NULL;
  if (asc >= 0)
  {
    n = asc; o = (long long*) malloc(sizeof(long long) * (n + 1)); ln = (int*) malloc(sizeof(int) * (n + 1));
    for (long i = 0; i < n; i++) { o[i] = i; ln[i] = 1; }
  }
  else if (offs && strcmp(offs, "-"))
  {
    char* cp = strdup(offs); long cap = 1; for (char* p = cp; *p; p++) if (*p == ',') cap++;
    o = (long long*) malloc(sizeof(long long) * cap); ln = (int*) malloc(sizeof(int) * cap);
    char* save = NULL;
    for (char* t = strtok_r(cp, ",", &save); t; t = strtok_r(NULL, ",", &save))
    {
      char* c = strchr(t, ':'); o[n] = strtoll(t, 0, 10); ln[n] = c ? atoi(c + 1) : 1; n++;
    }
    free(cp);
  }
  YR_MATCH* pool = (YR_MATCH*) calloc(n + 1, sizeof(YR_MATCH));
  // run-length encoded result codes
  int last = -1; long run = 0; int first = 1;
  printf(" codes=");
  for (long i = 0; i < n; i++)
  {
    pool[i].base = 0; pool[i].offset = o[i]; pool[i].match_length = ln[i]; pool[i].data_length = ln[i];
    int rc = _yr_scan_add_match_to_list(&pool[i], &list, rep);
    if (rc == last) run++;
    else { if (last >= 0) { printf("%s%s*%ld", first ? "" : ",", errname(last), run); first = 0; } last = rc; run = 1; }
  }
  if (last >= 0) printf("%s%s*%ld", first ? "" : ",", errname(last), run);
  if (n == 0) printf("-");
  printf(" count=%d", list.count);
  // list content head->tail (only when short), always a checksum and the structural invariants
  long walked = 0; unsigned long long h = 14695981039346656037ULL; int sorted = 1, links = 1;
  for (YR_MATCH* m = list.head; m; m = m->next)
  {
    walked++;
    h = (h ^ (unsigned long long) (m->offset * 31 + m->match_length)) * 1099511628211ULL;
    if (m->next && !(m->offset < m->next->offset)) sorted = 0;
    if (m->next && m->next->prev != m) links = 0;
    if (!m->next && list.tail != m) links = 0;
  }
  printf(" walked=%ld sorted=%d links=%d", walked, sorted, links);
  if (walked <= 40)
  {
    printf(" list=");
    if (!list.head) printf("-");
    for (YR_MATCH* m = list.head; m; m = m->next) printf("%s%lld:%d", m == list.head ? "" : ",", (long long) m->offset, m->match_length);
  }
  else printf(" hash=%016llx", h);
  free(pool); free(o); free(ln);
}

// fib: ops=<c|r>...  (c = create a fiber, r = release the most recently created live fiber into the pool)
static void cmd_fib(void)
{
  RE_FIBER_POOL pool; memset(&pool, 0, sizeof pool);
  RE_FIBER_LIST live; memset(&live, 0, sizeof live);
  const char* ops = get("ops", "");
  long nc = geti("n", -1);
  long created = 0, errs = 0, firsterr = -1, step = 0; int errcode = 0; long nlive = 0;
  long total = nc >= 0 ? nc : (long) strlen(ops);
  for (long i = 0; i < total; i++)
  {
    char op = nc >= 0 ? 'c' : ops[i];
    step++;
    if (op == 'c')
    {
      RE_FIBER* f = NULL;
      int rc = _yr_re_fiber_create(&pool, &f);
      if (rc == ERROR_SUCCESS) { _yr_re_fiber_append(&live, f); created++; nlive++; }
      else { if (!errs) { firsterr = step; errcode = rc; } errs++; }
    }
    else if (op == 'r' && live.tail) { _yr_re_fiber_kill(&live, &pool, live.tail); nlive--; }
  }
  printf(" ok=%ld errs=%ld first=%ld code=%s allocated=%d live=%ld", created, errs, firsterr, errs ? errname(errcode) : "-", pool.fiber_count, nlive);
  _yr_re_fiber_kill_all(&live, &pool);
  // free the pool
  RE_FIBER* f = pool.fibers.head;
  while (f) { RE_FIBER* nx = f->next; yr_free(f); f = nx; }
}

// re: parse + emit forward code of a regular expression into a fresh arena
static void cmd_re(void)
{
  size_t l; char* src = (char*) unhex(get("re", "-"), &l);
  RE_AST* ast = NULL; RE_ERROR err;
  int rc = yr_re_parse(src, &ast, &err, 0);
  if (rc != ERROR_SUCCESS) { printf(" PARSE:%s", errname(rc)); free(src); if (ast) yr_re_ast_destroy(ast); return; }
  YR_ARENA* arena = NULL;
  yr_arena_create(YR_RE_CODE_SECTION + 1, 1 << 16, &arena);
  int bw = (int) geti("bw", 0);
  rc = yr_re_ast_emit_code(ast, arena, bw);
  size_t size = yr_arena_get_current_offset(arena, YR_RE_CODE_SECTION);
  if (rc == ERROR_SUCCESS) printf(" OK size=%zu", size); else printf(" %s", errname(rc));
  yr_arena_release(arena);
  yr_re_ast_destroy(ast);
  free(src);
}

int main()
{
  char* line = NULL; size_t cap = 0;
  static char* toks[MAXKV + 2];
  setvbuf(stdout, NULL, _IOLBF, 0);
  yr_initialize();
  yr_get_configuration_uint32(YR_CONFIG_STACK_SIZE, &init_ss);
  yr_get_configuration_uint32(YR_CONFIG_MAX_STRINGS_PER_RULE, &init_mspr);
  yr_get_configuration_uint32(YR_CONFIG_MAX_MATCH_DATA, &init_mmd);
  yr_get_configuration_uint64(YR_CONFIG_MAX_PROCESS_MEMORY_CHUNK, &init_chunk);
  while (getline(&line, &cap, stdin) > 0)
  {
    int n = split(line, toks, MAXKV + 2);
    if (n < 2) continue;
    nkv = 0;
    for (int i = 2; i < n; i++)
    {
      char* eq = strchr(toks[i], '=');
      if (!eq) continue;
      *eq = 0; kv[nkv].k = toks[i]; kv[nkv].v = eq + 1; nkv++;
    }
    printf("%s", toks[0]);
    const char* cmd = toks[1];
    if (!strcmp(cmd, "consts"))
    {
      printf(" YR_MAX_STRING_MATCHES=%d YR_SLOW_STRING_MATCHES=%d YR_MAX_LOOP_NESTING=%d YR_MAX_LOOP_VARS=%d YR_MAX_INCLUDE_DEPTH=%d "
             "YR_LEX_BUF_SIZE=%d RE_MAX_SPLIT_ID=%d RE_MAX_STACK=%d RE_MAX_FIBERS=%d YR_RE_SCAN_LIMIT=%d YR_MAX_ATOM_LENGTH=%d "
             "DEFAULT_STACK_SIZE=%d DEFAULT_MAX_STRINGS_PER_RULE=%d DEFAULT_MAX_MATCH_DATA=%d RE_MAX_RANGE=%d",
             YR_MAX_STRING_MATCHES, YR_SLOW_STRING_MATCHES, YR_MAX_LOOP_NESTING, YR_MAX_LOOP_VARS, YR_MAX_INCLUDE_DEPTH,
             YR_LEX_BUF_SIZE, RE_MAX_SPLIT_ID, RE_MAX_STACK, RE_MAX_FIBERS, YR_RE_SCAN_LIMIT, YR_MAX_ATOM_LENGTH,
             DEFAULT_STACK_SIZE, DEFAULT_MAX_STRINGS_PER_RULE, DEFAULT_MAX_MATCH_DATA, RE_MAX_RANGE);
      uint32_t a = 0, b = 0, c = 0;
      yr_get_configuration_uint32(YR_CONFIG_STACK_SIZE, &a);
      yr_get_configuration_uint32(YR_CONFIG_MAX_STRINGS_PER_RULE, &b);
      yr_get_configuration_uint32(YR_CONFIG_MAX_MATCH_DATA, &c);
      printf(" cfg_stack=%u cfg_mspr=%u cfg_mmd=%u", a, b, c);
    }
    else if (!strcmp(cmd, "settimeout"))
    {
      // reads back the nanosecond deadline stored by yr_scanner_set_timeout (no need to wait real seconds)
      YR_COMPILER* c = NULL; YR_RULES* r = NULL; YR_SCANNER* sc = NULL;
      yr_compiler_create(&c);
      yr_compiler_add_string(c, "rule t { condition: true }", NULL);
      yr_compiler_get_rules(c, &r);
      yr_scanner_create(r, &sc);
      char* vals = strdup(get("s", "0")); char* save = NULL;
      for (char* t = strtok_r(vals, ",", &save); t; t = strtok_r(NULL, ",", &save))
      {
        int v = (int) strtol(t, 0, 10);
        yr_scanner_set_timeout(sc, v);
        printf(" %d:%llu", v, (unsigned long long) sc->timeout);
      }
      free(vals);
      yr_scanner_destroy(sc); yr_rules_destroy(r); yr_compiler_destroy(c);
    }
    else if (!strcmp(cmd, "ml")) cmd_ml();
    else if (!strcmp(cmd, "fib")) cmd_fib();
    else if (!strcmp(cmd, "re")) cmd_re();
    else if (!strcmp(cmd, "compile"))
    {
      set_cfg();
      YR_RULES* r = do_compile("text", 1);
      if (r) yr_rules_destroy(r);
      reset_cfg();
      sanity();
    }
    else if (!strcmp(cmd, "cfg"))
    {
      // set/get round trip of one configuration key: untyped set -> untyped get, typed get; typed set -> untyped get.
      // The slot is pre-filled with all ones so that a write through a narrower member shows.
      int key = (int) geti("key", 0); int bits = (int) geti("bits", 32);
      char* vals = strdup(get("v", "0")); char* save = NULL;
      uint64_t keep64 = 0; uint32_t keep32 = 0;
      if (bits == 64) yr_get_configuration((YR_CONFIG_NAME) key, &keep64); else yr_get_configuration((YR_CONFIG_NAME) key, &keep32);
      for (char* t = strtok_r(vals, ",", &save); t; t = strtok_r(NULL, ",", &save))
      {
        uint64_t v = strtoull(t, 0, 10), g1 = 0, g2 = 0, g3 = 0; int r1, r2, r3, r4, r5;
        if (bits == 64)
        {
          uint64_t ones = ~0ULL, in = v, o1 = 0x5555555555555555ULL, o2 = 0x5555555555555555ULL, o3 = 0x5555555555555555ULL;
          yr_set_configuration((YR_CONFIG_NAME) key, &ones);
          r1 = yr_set_configuration((YR_CONFIG_NAME) key, &in); nested_use();
          r2 = yr_get_configuration((YR_CONFIG_NAME) key, &o1); r3 = yr_get_configuration_uint64((YR_CONFIG_NAME) key, &o2);
          yr_set_configuration((YR_CONFIG_NAME) key, &ones);
          r4 = yr_set_configuration_uint64((YR_CONFIG_NAME) key, v); nested_use(); r5 = yr_get_configuration((YR_CONFIG_NAME) key, &o3);
          g1 = o1; g2 = o2; g3 = o3;
        }
        else
        {
          uint32_t ones = ~0U, in = (uint32_t) v, o1 = 0x55555555U, o2 = 0x55555555U, o3 = 0x55555555U;
          yr_set_configuration((YR_CONFIG_NAME) key, &ones);
          r1 = yr_set_configuration((YR_CONFIG_NAME) key, &in); nested_use();
          r2 = yr_get_configuration((YR_CONFIG_NAME) key, &o1); r3 = yr_get_configuration_uint32((YR_CONFIG_NAME) key, &o2);
          yr_set_configuration((YR_CONFIG_NAME) key, &ones);
          r4 = yr_set_configuration_uint32((YR_CONFIG_NAME) key, (uint32_t) v); nested_use(); r5 = yr_get_configuration((YR_CONFIG_NAME) key, &o3);
          g1 = o1; g2 = o2; g3 = o3;
        }
        printf(" %llu:%llu,%llu,%llu:%d", (unsigned long long) v, (unsigned long long) g1, (unsigned long long) g2, (unsigned long long) g3,
               r1 | r2 | r3 | r4 | r5);
      }
      free(vals);
      while (g_nest_open > 0) { yr_finalize(); g_nest_open--; }
      if (bits == 64) yr_set_configuration((YR_CONFIG_NAME) key, &keep64); else yr_set_configuration((YR_CONFIG_NAME) key, &keep32);
    }
    else if (!strcmp(cmd, "fileseq"))
    {
      // several rule FILES given to ONE compiler the way the command-line tool does: yr_compiler_add_file(c, f, NULL, name).
      // files=<name>:<depth>,...  file k (0-based) holds rule t<k> and includes "<k>_1", which includes "<k>_2" ... down to
      // "<k>_<depth>" (each with one rule; served by fs_inc_cb).  Per file the outcome; the sequence stops at the first error.
      char* files = strdup(get("files", "")); char* save = NULL;
      YR_COMPILER* comp = NULL; CERR e; memset(&e, 0, sizeof e);
      if (yr_compiler_create(&comp) != ERROR_SUCCESS) printf(" COMPILER_CREATE_FAILED");
      else
      {
        e.c = comp; yr_compiler_set_callback(comp, cerr_cb, &e);
        yr_compiler_set_include_callback(comp, fs_inc_cb, inc_free, NULL);
        int k = 0, failed = 0, nrules = 0;
        for (char* t = strtok_r(files, ",", &save); t && !failed; t = strtok_r(NULL, ",", &save), k++)
        {
          char* colon = strrchr(t, ':'); int depth = colon ? atoi(colon + 1) : 0; if (colon) *colon = 0;
          if (k < FS_MAX) fs_depth[k] = depth;
          char src[160];
          if (depth > 0) snprintf(src, sizeof src, "include \"%d_1\"\nrule t%d { condition: true }\n", k, k);
          else snprintf(src, sizeof src, "rule t%d { condition: true }\n", k);
          FILE* f = fmemopen(src, strlen(src), "r");
          int errs = yr_compiler_add_file(comp, f, NULL, t);
          fclose(f);
          if (errs == 0) { printf(" OK"); nrules += 1 + depth; }
          else
          {
            failed = 1;
            int code = e.errors ? e.first_code : comp->last_error;
            printf(" CERR:%s", errname(code));
            if (e.errors && e.first_code == ERROR_SYNTAX_ERROR) { canon_msg(e.first_msg); printf(":%.60s", e.first_msg); }
          }
        }
        if (!failed)
        {
          YR_RULES* rules = NULL; int hits = 0;
          if (yr_compiler_get_rules(comp, &rules) != ERROR_SUCCESS) printf(" RGETRULES");
          else
          {
            int rs = yr_rules_scan_mem(rules, (const uint8_t*) "abc", 3, 0, count_cb, &hits, 0);
            if (rs != ERROR_SUCCESS) printf(" RSCAN:%s", errname(rs)); else printf(" R%d", hits);
            yr_rules_destroy(rules);
          }
        }
        else printf(" RX");
        yr_compiler_destroy(comp);
      }
      free(files);
      sanity();
    }
    else if (!strcmp(cmd, "litseq"))
    {
      // a SEQUENCE of compilations on this thread: seq=<m><hex>,...  m = 'n' (fresh compiler) | 'c' (add to the current compiler
      // when it has no error so far).  Per step the outcome; per compiler, when it is closed: R<number of its rules that match>
      // (every accepted source is one rule with a true condition) or RX after an error.
      char* seq = strdup(get("seq", "")); char* save = NULL;
      YR_COMPILER* comp = NULL; CERR e; memset(&e, 0, sizeof e); int step = 0;
      for (char* t = strtok_r(seq, ",", &save); ; t = strtok_r(NULL, ",", &save), step++)
      {
        int need_new = t == NULL || t[0] == 'n' || comp == NULL || e.errors > 0;
        if (need_new && comp != NULL)
        {
          if (e.errors > 0) printf(" RX");
          else
          {
            YR_RULES* rules = NULL; int hits = 0;
            if (yr_compiler_get_rules(comp, &rules) != ERROR_SUCCESS) printf(" RGETRULES");
            else
            {
              int rs = yr_rules_scan_mem(rules, (const uint8_t*) "abc", 3, 0, count_cb, &hits, 0);
              if (rs != ERROR_SUCCESS) printf(" RSCAN:%s", errname(rs)); else printf(" R%d", hits);
              yr_rules_destroy(rules);
            }
          }
          yr_compiler_destroy(comp); comp = NULL;
        }
        if (t == NULL) break;
        if (comp == NULL)
        {
          memset(&e, 0, sizeof e);
          if (yr_compiler_create(&comp) != ERROR_SUCCESS) { printf(" COMPILER_CREATE_FAILED"); break; }
          e.c = comp; yr_compiler_set_callback(comp, cerr_cb, &e);
        }
        size_t l; char* src = (char*) unhex(t + 1, &l);
        int before = e.errors;
        int errs = yr_compiler_add_string(comp, src, NULL);
        free(src);
        if (errs == 0 && e.errors == before) printf(" OK");
        else { printf(" CERR:%s", errname(e.first_code)); if (e.errors == before) e.errors++; }
      }
      free(seq);
      sanity();
    }
    else if (!strcmp(cmd, "scanblocks"))
    {
      YR_RULES* r = do_compile("text", 1);
      if (r) { do_scanblocks(r); yr_rules_destroy(r); }
      sanity();
    }
    else if (!strcmp(cmd, "scanseq"))
    {
      size_t l1, l2; uint8_t* b1 = make_buf(get("buf", "-"), &l1); uint8_t* b2 = make_buf(get("buf2", "-"), &l2);
      YR_RULES* r = do_compile("text", 1);
      if (r) { do_scanseq(r, b1, l1, b2, l2); yr_rules_destroy(r); }
      free(b1); free(b2);
      sanity();
    }
    else if (!strcmp(cmd, "scan"))
    {
      set_cfg();
      size_t len; uint8_t* buf = make_buf(get("buf", "-"), &len);
      int timeout = (int) geti("timeout", 0);
      YR_RULES* r = do_compile("text", 1);
      if (r)
      {
        do_scan(r, buf, len, get("show", ""), "S", timeout);
        yr_rules_destroy(r);
      }
      if (get("text2", NULL))
      {
        // the B rules alone (frame check)
        YR_RULES* r2 = do_compile("text2", 0);
        if (r2) { do_scan(r2, buf, len, get("show", ""), "B0", timeout); yr_rules_destroy(r2); }
        else printf(" B0=COMPILE_FAILED");
      }
      free(buf);
      reset_cfg();
      sanity();
    }
    else printf(" BADCMD");
    printf("\n");
  }
  yr_finalize();
  free(line);
  return 0;
}
