// C16 harness: allocation-failure injection into libyara's allocator (mem.c is compiled INTO this
// translation unit with malloc/calloc/realloc/strdup/strndup/free redirected to the vf_* wrappers,
// so the archive member mem.o is not linked).
//
// One case per line:  <id> <kind> mode=<1|2> k=<k> key=value ...
//   k = 0: never fail (counting run);  mode 1: fail only the k-th allocation;  mode 2: fail the k-th and all later.
// Output:  "BEGIN <id>" before the case starts (so a crash is attributable), then
//   <id> N=<allocations in the armed region> inj=<failures injected> rc=<outcome of the armed operation>
//        res=<observable result of the operation / of using the object afterwards> leak=<blocks>:<bytes>
//        site=<return addresses (module-relative) of the first injected failure> lsite=<allocation site of a leaked block>
//        sane=<follow-up compile+scan in the same process worked>
#include "common.h"
#include <execinfo.h>
#include <link.h>
#include <unistd.h>
#include <sys/stat.h>
#include <fcntl.h>
#include <signal.h>
#include <sys/wait.h>

// ------------------------------------------------------------------ ledger + fault oracle
#define LEDGER_BITS 17
#define LEDGER_SIZE (1u << LEDGER_BITS)
#define NFRAMES 10
typedef struct { void* ptr; size_t size; unsigned long seq; void* site[NFRAMES]; int nsite; } LENT;
static LENT* ledger;            // open addressing, tombstones = (void*) 1
static unsigned long ledger_live, ledger_bytes, alloc_seq;
static int g_armed; static long g_count, g_fail_k, g_mode, g_injected;
static void* g_site[NFRAMES]; static int g_nsite;
static uintptr_t g_base;

// Frame-pointer walk (everything is built with -fno-omit-frame-pointer): much cheaper than backtrace(),
// which matters because every allocation records its site for the leak report.
static uintptr_t g_stack_hi;
static __attribute__((noinline)) int fp_backtrace(void** out, int max)
{
  void** fp = (void**) __builtin_frame_address(0);
  int n = 0;
  while (fp != NULL && n < max)
  {
    void* ret = fp[1];
    if (ret == NULL) break;
    out[n++] = ret;
    void** next = (void**) fp[0];
    if (next <= fp || (uintptr_t) next >= g_stack_hi || (uintptr_t) next - (uintptr_t) fp > (1u << 22)) break;
    fp = next;
  }
  return n;
}

static int phdr_cb(struct dl_phdr_info* info, size_t size, void* data)
{
  if (g_base == 0 && (info->dlpi_name == NULL || info->dlpi_name[0] == 0)) g_base = info->dlpi_addr;
  return 0;
}

static unsigned hptr(void* p) { uintptr_t x = (uintptr_t) p; x ^= x >> 17; x *= 0x9E3779B97F4A7C15ULL; return (unsigned) (x >> (64 - LEDGER_BITS)); }

static void ledger_add(void* p, size_t size)
{
  unsigned i = hptr(p);
  while (ledger[i].ptr != NULL && ledger[i].ptr != (void*) 1) i = (i + 1) & (LEDGER_SIZE - 1);
  ledger[i].ptr = p; ledger[i].size = size; ledger[i].seq = ++alloc_seq;
  ledger[i].nsite = fp_backtrace(ledger[i].site, NFRAMES);
  ledger_live++; ledger_bytes += size;
}
static int ledger_del(void* p)
{
  unsigned i = hptr(p);
  while (ledger[i].ptr != NULL)
  {
    if (ledger[i].ptr == p) { ledger[i].ptr = (void*) 1; ledger_live--; ledger_bytes -= ledger[i].size; return 1; }
    i = (i + 1) & (LEDGER_SIZE - 1);
  }
  return 0;
}

// sites=1 (counting run): which call paths make the allocations of the armed region.  One record per distinct
// path (return addresses above the allocator wrappers): first / last / a middle index k and the number of allocations.
#define SM_FRAMES 7
#define SM_SKIP 0            // the wrappers' frames are kept (the compiler may inline any of them); the check filters them by name
#define SM_SIZE 8192
typedef struct { void* f[SM_FRAMES]; int n; long first, last, mid, count; } SMENT;
static SMENT* sitemap; static int g_sitemap_on; static unsigned sitemap_used;
static __attribute__((noinline)) void sitemap_note(long k)
{
  void* fr[SM_FRAMES + SM_SKIP + 1]; int n = fp_backtrace(fr, SM_FRAMES + SM_SKIP + 1);
  void** f = fr + SM_SKIP + 1; n -= SM_SKIP + 1; if (n < 0) n = 0;    // +1: sitemap_note itself
  if (n > SM_FRAMES) n = SM_FRAMES;
  uintptr_t h = 1469598103934665603ULL;
  for (int i = 0; i < n; i++) h = (h ^ (uintptr_t) f[i]) * 1099511628211ULL;
  unsigned i = (unsigned) (h >> 40) & (SM_SIZE - 1);
  for (unsigned probes = 0; probes < SM_SIZE; probes++, i = (i + 1) & (SM_SIZE - 1))
  {
    SMENT* e = &sitemap[i];
    if (e->count == 0)
    {
      if (sitemap_used >= SM_SIZE - 1) return;
      memcpy(e->f, f, n * sizeof(void*)); e->n = n; e->first = e->last = e->mid = k; e->count = 1; sitemap_used++; return;
    }
    if (e->n == n && !memcmp(e->f, f, n * sizeof(void*)))
    {
      e->count++; e->last = k;
      if ((e->count & (e->count - 1)) == 0) e->mid = k;     // an occurrence in the later half
      return;
    }
  }
}

static int should_fail(size_t bytes)
{
  // a zero-size request may legitimately return NULL; it is neither counted nor failed
  if (!g_armed || bytes == 0) return 0;
  g_count++;
  if (g_sitemap_on) sitemap_note(g_count);
  if (g_fail_k > 0 && ((g_mode == 1 && g_count == g_fail_k) || (g_mode == 2 && g_count >= g_fail_k)))
  {
    if (g_injected == 0)
    {
      g_nsite = fp_backtrace(g_site, NFRAMES);
      if (getenv("VF_TRACE"))   // the site is otherwise lost when the case ends in a crash
      {
        fprintf(stderr, "INJECT");
        for (int i = 0; i < g_nsite; i++) fprintf(stderr, " %lx", (unsigned long) ((uintptr_t) g_site[i] - g_base));
        fprintf(stderr, "\n");
      }
    }
    g_injected++;
    return 1;
  }
  return 0;
}

static void* vf_malloc(size_t n) { if (should_fail(n)) return NULL; void* p = malloc(n); if (p) ledger_add(p, n); return p; }
static void* vf_calloc(size_t c, size_t n) { if (should_fail(c * n)) return NULL; void* p = calloc(c, n); if (p) ledger_add(p, c * n); return p; }
static void* vf_realloc(void* o, size_t n)
{
  if (should_fail(n)) return NULL;     // the old block stays valid, as with a failing realloc
  void* p = realloc(o, n);
  if (p) { if (o) ledger_del(o); ledger_add(p, n); }
  return p;
}
static char* vf_strdup(const char* s) { if (should_fail(1)) return NULL; char* p = strdup(s); if (p) ledger_add(p, strlen(s) + 1); return p; }
static char* vf_strndup(const char* s, size_t n) { if (should_fail(1)) return NULL; char* p = strndup(s, n); if (p) ledger_add(p, strlen(p) + 1); return p; }
static void vf_free(void* p) { if (p) ledger_del(p); free(p); }

#define malloc vf_malloc
#define calloc vf_calloc
#define realloc vf_realloc
#define strdup vf_strdup
#define strndup vf_strndup
#define free vf_free
#include "mem.c"
#undef malloc
#undef calloc
#undef realloc
#undef strdup
#undef strndup
#undef free

#include "tests/blob.h"

// hook of the -DYARA_VERIF build: every arena allocation takes the growth path (one yr_realloc each),
// so that every arena write of the compiler / VM becomes a fault position
extern int yr_verif_arena_always_move;

// ------------------------------------------------------------------ keys
#define MAXKV 64
typedef struct { char* k; char* v; } KV;
static KV kv[MAXKV];
static int nkv;
static const char* get(const char* k, const char* dflt)
{
  for (int i = 0; i < nkv; i++) if (!strcmp(kv[i].k, k)) return kv[i].v;
  return dflt;
}
static long geti(const char* k, long d) { const char* v = get(k, NULL); return v ? strtol(v, 0, 10) : d; }

// ------------------------------------------------------------------ helpers
typedef struct { YR_COMPILER* c; int first_code; int errors; } CERR;
static void cerr_cb(int level, const char* file, int line, const YR_RULE* rule, const char* msg, void* ud)
{
  CERR* e = (CERR*) ud;
  if (level == YARA_ERROR_LEVEL_ERROR) { if (e->errors == 0) e->first_code = e->c->last_error; e->errors++; }
}
static const char* inc_cb(const char* name, const char* from_file, const char* ns, void* ud)
{
  for (int i = 0; i < nkv; i++)
    if (!strcmp(kv[i].k, "inc"))
    {
      const char* colon = strchr(kv[i].v, ':');
      if (colon && (size_t) (colon - kv[i].v) == strlen(name) && !strncmp(kv[i].v, name, colon - kv[i].v))
      { size_t l; return (const char*) unhex(colon + 1, &l); }
    }
  return NULL;
}
static void inc_free(const char* p, void* ud) { free((void*) p); }

// what a scan reported: the matching rules and, for EVERY rule (matching or not), a digest of its strings' matches
// (count, offsets, lengths) — "scan returned success" must mean exactly the fault-free matches
typedef struct { char names[64][48]; int n; int imported; int errors; unsigned long long digest; long nmatches; } OBS;
static int scan_cb(YR_SCAN_CONTEXT* ctx, int msg, void* data, void* ud)
{
  OBS* o = (OBS*) ud;
  if (msg == CALLBACK_MSG_RULE_MATCHING && o->n < 64) snprintf(o->names[o->n++], 48, "%s", ((YR_RULE*) data)->identifier);
  if (msg == CALLBACK_MSG_RULE_MATCHING || msg == CALLBACK_MSG_RULE_NOT_MATCHING)
  {
    YR_RULE* r = (YR_RULE*) data; YR_STRING* s; unsigned long long h = 1469598103934665603ULL;
    for (const char* p = r->identifier; *p; p++) h = (h ^ (unsigned char) *p) * 1099511628211ULL;
    yr_rule_strings_foreach(r, s)
    {
      YR_MATCH* m;
      for (const char* p = s->identifier; *p; p++) h = (h ^ (unsigned char) *p) * 1099511628211ULL;
      yr_string_matches_foreach(ctx, s, m)
      {
        h = (h ^ (unsigned long long) (m->base + m->offset)) * 1099511628211ULL;
        h = (h ^ (unsigned long long) m->match_length) * 1099511628211ULL;
        o->nmatches++;
      }
    }
    o->digest += h;     // commutative: the order of the rule callbacks does not matter
  }
  if (msg == CALLBACK_MSG_MODULE_IMPORTED) o->imported++;
  return CALLBACK_CONTINUE;
}
static void obs_print(char* out, size_t cap, int rc, OBS* o)
{
  if (rc != ERROR_SUCCESS) { snprintf(out, cap, "E:%s", errname(rc)); return; }
  qsort(o->names, o->n, 48, (int (*)(const void*, const void*)) strcmp);
  size_t off = 0; out[0] = 0;
  if (o->n == 0) off += snprintf(out + off, cap - off, "none");
  for (int i = 0; i < o->n && off < cap; i++) off += snprintf(out + off, cap - off, "%s%s", i ? "," : "", o->names[i]);
  if (off < cap) snprintf(out + off, cap - off, "#%ld.%016llx", o->nmatches, o->digest);
}

static uint8_t* g_data; static size_t g_data_len;
static void load_data(void)
{
  free(g_data); g_data = NULL; g_data_len = 0;
  const char* f = get("file", NULL);
  const char* blob = get("blob", NULL);
  if (blob)
  {
    const uint8_t* p = NULL; size_t l = 0;
    if (!strcmp(blob, "elf32")) { p = ELF32_FILE; l = sizeof ELF32_FILE; }
    else if (!strcmp(blob, "elf64")) { p = ELF64_FILE; l = sizeof ELF64_FILE; }
    else if (!strcmp(blob, "macho")) { p = MACHO_X86_FILE; l = sizeof MACHO_X86_FILE; }
    else if (!strcmp(blob, "dex")) { p = DEX_FILE; l = sizeof DEX_FILE; }
    else if (!strcmp(blob, "pe32")) { p = PE32_FILE; l = sizeof PE32_FILE; }
    if (p) { g_data = (uint8_t*) malloc(l + 1); memcpy(g_data, p, l); g_data_len = l; return; }
  }
  if (f)
  {
    FILE* fh = fopen(f, "rb");
    if (!fh) DIE("cannot open %s", f);
    fseek(fh, 0, SEEK_END); long l = ftell(fh); fseek(fh, 0, SEEK_SET);
    g_data = (uint8_t*) malloc(l + 1); g_data_len = fread(g_data, 1, l, fh); fclose(fh);
    return;
  }
  const char* dr = get("datarep", NULL);    // <hexunit>*<count>
  if (dr)
  {
    char* tmp = strdup(dr);
    char* star = strchr(tmp, '*'); long cnt = 1;
    if (star) { *star = 0; cnt = strtol(star + 1, 0, 10); }
    size_t ul; uint8_t* u = unhex(tmp, &ul);
    free(tmp);
    g_data = (uint8_t*) malloc(ul * cnt + 1); g_data_len = ul * cnt;
    for (long i = 0; i < cnt; i++) memcpy(g_data + i * ul, u, ul);
    free(u);
    return;
  }
  const char* dh = get("data", NULL);
  if (dh) { size_t l; g_data = unhex(dh, &l); g_data_len = l; return; }
  const char* t = "xx abcdefgh yy hello world 0123456789 zz abcdefgh hello";
  g_data_len = strlen(t); g_data = (uint8_t*) malloc(g_data_len + 1); memcpy(g_data, t, g_data_len);
}

// externals:  ext=<t>:<name>:<value>   t in i,b,f,s (string value hex)
static int define_exts_compiler(YR_COMPILER* c)
{
  for (int i = 0; i < nkv; i++)
    if (!strcmp(kv[i].k, "ext"))
    {
      char buf[256]; snprintf(buf, sizeof buf, "%s", kv[i].v);
      char* p[3]; if (splitc(buf, ':', p, 3) != 3) continue;
      int rc;
      if (p[0][0] == 'i') rc = yr_compiler_define_integer_variable(c, p[1], atoll(p[2]));
      else if (p[0][0] == 'b') rc = yr_compiler_define_boolean_variable(c, p[1], atoi(p[2]));
      else if (p[0][0] == 'f') rc = yr_compiler_define_float_variable(c, p[1], atof(p[2]));
      else { size_t l; char* s = (char*) unhex(p[2], &l); rc = yr_compiler_define_string_variable(c, p[1], s); free(s); }
      if (rc != ERROR_SUCCESS) return rc;
    }
  return ERROR_SUCCESS;
}

// compile; returns token in `tok`; rules in *out (NULL on failure)
static void compile_rules(const char* key, YR_RULES** out, char* tok, size_t cap)
{
  YR_COMPILER* comp = NULL; *out = NULL;
  CERR e; memset(&e, 0, sizeof e);
  int rc = yr_compiler_create(&comp);
  if (rc != ERROR_SUCCESS) { snprintf(tok, cap, "CREATE:%s", errname(rc)); return; }
  e.c = comp;
  yr_compiler_set_callback(comp, cerr_cb, &e);
  // definc=1: the library's DEFAULT include callback (reads the included file from disk) instead of the harness's
  if (!geti("definc", 0)) yr_compiler_set_include_callback(comp, inc_cb, inc_free, NULL);
  rc = define_exts_compiler(comp);
  if (rc != ERROR_SUCCESS) { snprintf(tok, cap, "DEFINE:%s", errname(rc)); yr_compiler_destroy(comp); return; }
  // aqt=<path>: an atom quality table is loaded first
  if (get("aqt", NULL) && !strcmp(key, "text"))
  {
    rc = yr_compiler_load_atom_quality_table(comp, get("aqt", ""), 0);
    if (rc != ERROR_SUCCESS) { snprintf(tok, cap, "AQT:%s", errname(rc)); yr_compiler_destroy(comp); return; }
  }
  // src=file|fd path=<rules file>: the source is a file given to yr_compiler_add_file / yr_compiler_add_fd (as the CLI does)
  const char* srcmode = !strcmp(key, "text") ? get("src", "string") : "string";
  int errs;
  if (!strcmp(srcmode, "file"))
  {
    FILE* f = fopen(get("path", "/nonexistent"), "r");
    if (!f) { snprintf(tok, cap, "SETUP_FAILED:fopen"); yr_compiler_destroy(comp); return; }
    errs = yr_compiler_add_file(comp, f, NULL, get("path", ""));
    fclose(f);
  }
  else if (!strcmp(srcmode, "fd"))
  {
    int fd = open(get("path", "/nonexistent"), O_RDONLY);
    if (fd < 0) { snprintf(tok, cap, "SETUP_FAILED:open"); yr_compiler_destroy(comp); return; }
    errs = yr_compiler_add_fd(comp, fd, NULL, get("path", ""));
    close(fd);
  }
  else
  {
    size_t l; char* src = (char*) unhex(get(key, "-"), &l);
    errs = yr_compiler_add_string(comp, src, NULL);
    free(src);
  }
  if (errs)
  {
    if (e.errors == 0) snprintf(tok, cap, "CERR_NO_CALLBACK:%s", errname(comp->last_error));
    else snprintf(tok, cap, "CERR:%s", errname(e.first_code));
  }
  else
  {
    rc = yr_compiler_get_rules(comp, out);
    if (rc != ERROR_SUCCESS) { snprintf(tok, cap, "GETRULES:%s", errname(rc)); *out = NULL; }
    else snprintf(tok, cap, "OK");
  }
  yr_compiler_destroy(comp);
}

static void scan_rules(YR_RULES* r, char* tok, size_t cap)
{
  OBS o; memset(&o, 0, sizeof o);
  int rc = yr_rules_scan_mem(r, g_data, g_data_len, 0, scan_cb, &o, 0);
  obs_print(tok, cap, rc, &o);
}

// memory stream
typedef struct { uint8_t* buf; size_t len, cap, pos; } MS;
static size_t ms_write(const void* p, size_t size, size_t count, void* ud)
{
  MS* m = (MS*) ud; size_t n = size * count;
  if (m->len + n > m->cap) { m->cap = (m->len + n) * 2 + 64; m->buf = (uint8_t*) realloc(m->buf, m->cap); }
  memcpy(m->buf + m->len, p, n); m->len += n; return count;
}
static size_t ms_read(void* p, size_t size, size_t count, void* ud)
{
  MS* m = (MS*) ud; size_t n = size * count;
  if (m->pos + n > m->len) return 0;
  memcpy(p, m->buf + m->pos, n); m->pos += n; return count;
}

static void arm(void) { g_count = 0; g_injected = 0; g_nsite = 0; g_armed = 1; }
static void disarm(void) { g_armed = 0; }

static int sanity(void)
{
  YR_COMPILER* c = NULL; YR_RULES* r = NULL; int ok = 0;
  if (yr_compiler_create(&c) == ERROR_SUCCESS)
  {
    if (yr_compiler_add_string(c, "rule sane { strings: $a = \"sanity\" $b = /s[a-z]{3}ty/ condition: $a and $b and filesize == 12 }", NULL) == 0 &&
        yr_compiler_get_rules(c, &r) == ERROR_SUCCESS)
    {
      OBS o; memset(&o, 0, sizeof o);
      if (yr_rules_scan_mem(r, (const uint8_t*) "xx sanity yy", 12, 0, scan_cb, &o, 0) == ERROR_SUCCESS && o.n == 1) ok = 1;
      yr_rules_destroy(r);
    }
    yr_compiler_destroy(c);
  }
  return ok;
}

static void print_sites(const char* label, void** site, int n)
{
  printf(" %s=", label);
  if (n == 0) printf("-");
  for (int i = 0; i < n; i++) printf("%s%lx", i ? "," : "", (unsigned long) ((uintptr_t) site[i] - g_base));
}

// ------------------------------------------------------------------ the scenarios
// Each fills rc (outcome of the armed operation) and res (observable result).
static void run_case(const char* kind, char* rc, char* res, size_t cap)
{
  YR_RULES* rules = NULL; YR_SCANNER* sc = NULL;
  snprintf(res, cap, "-");
  if (!strcmp(kind, "compile"))
  {
    arm(); compile_rules("text", &rules, rc, cap); disarm();
    if (rules) { scan_rules(rules, res, cap); yr_rules_destroy(rules); }
    return;
  }
  if (!strcmp(kind, "init"))
  {
    // the process is not initialised when this kind is used (see main)
    arm(); int r = yr_initialize(); disarm();
    snprintf(rc, cap, "%s", errname(r));
    if (r == ERROR_SUCCESS)
    {
      char t[64]; compile_rules("text", &rules, t, sizeof t);
      if (rules) { scan_rules(rules, res, cap); yr_rules_destroy(rules); } else snprintf(res, cap, "COMPILE:%s", t);
      yr_finalize();
    }
    else
    {
      // a failed initialisation must leave the library in a state from which it can be initialised
      int r2 = yr_initialize();
      snprintf(res, cap, "reinit:%s", errname(r2));
      if (r2 == ERROR_SUCCESS)
      {
        char t[64]; compile_rules("text", &rules, t, sizeof t);
        if (rules) { char s[256]; scan_rules(rules, s, sizeof s); snprintf(res, cap, "reinit:OK:%s", s); yr_rules_destroy(rules); }
        else snprintf(res, cap, "reinit:OK:COMPILE:%s", t);
        yr_finalize();
      }
      yr_finalize();  // balance the failed call (init_count was incremented)
    }
    return;
  }
  // all remaining kinds start from compiled rules (set-up is never failed)
  char t[96];
  compile_rules("text", &rules, t, sizeof t);
  if (!rules) { snprintf(rc, cap, "SETUP_FAILED:%s", t); return; }
  if (!strcmp(kind, "save") || !strcmp(kind, "load"))
  {
    MS m; memset(&m, 0, sizeof m);
    YR_STREAM st; st.user_data = &m; st.read = ms_read; st.write = ms_write;
    int r;
    if (!strcmp(kind, "save")) { arm(); r = yr_rules_save_stream(rules, &st); disarm(); }
    else r = yr_rules_save_stream(rules, &st);
    if (!strcmp(kind, "save")) snprintf(rc, cap, "%s", errname(r));
    if (r == ERROR_SUCCESS)
    {
      YR_RULES* r2 = NULL; m.pos = 0;
      int rl;
      if (!strcmp(kind, "load")) { arm(); rl = yr_rules_load_stream(&st, &r2); disarm(); snprintf(rc, cap, "%s", errname(rl)); }
      else rl = yr_rules_load_stream(&st, &r2);
      if (rl == ERROR_SUCCESS && r2) { scan_rules(r2, res, cap); yr_rules_destroy(r2); }
      else if (strcmp(kind, "load")) snprintf(res, cap, "LOAD:%s", errname(rl));
    }
    else if (!strcmp(kind, "load")) snprintf(rc, cap, "SETUP_FAILED:save");
    // the saved-from rules must still work
    if (r != ERROR_SUCCESS && !strcmp(kind, "save")) scan_rules(rules, res, cap);
    free(m.buf);
  }
  else if (!strcmp(kind, "stats"))
  {
    YR_RULES_STATS st; memset(&st, 0, sizeof st);
    arm(); int r = yr_rules_get_stats(rules, &st); disarm();
    snprintf(rc, cap, "%s", errname(r));
    if (r == ERROR_SUCCESS) snprintf(res, cap, "rules=%u,strings=%u,acm=%u", st.num_rules, st.num_strings, st.ac_matches);
    else scan_rules(rules, res, cap);
  }
  else if (!strcmp(kind, "profinfo"))
  {
    if (yr_scanner_create(rules, &sc) != ERROR_SUCCESS) { snprintf(rc, cap, "SETUP_FAILED:scanner"); yr_rules_destroy(rules); return; }
    OBS o; memset(&o, 0, sizeof o);
    yr_scanner_set_callback(sc, scan_cb, &o);
    yr_scanner_scan_mem(sc, g_data, g_data_len);
    arm(); YR_RULE_PROFILING_INFO* pi = yr_scanner_get_profiling_info(sc); disarm();
    // the function has no error code: NULL is its way to report that the array could not be allocated
    snprintf(rc, cap, "%s", pi ? "OK" : "INSUFFICIENT_MEMORY(NULL)");
    if (pi) { int n = 0; while (pi[n].rule != NULL) n++; snprintf(res, cap, "entries=%d", n); yr_free(pi); }
    else { memset(&o, 0, sizeof o); int rs = yr_scanner_scan_mem(sc, g_data, g_data_len); obs_print(res, cap, rs, &o); }
    yr_scanner_destroy(sc);
  }
  else if (!strcmp(kind, "pscan"))
  {
    // scan of another process: a child that executes a small non-instrumented program and sleeps
    pid_t pid = fork();
    if (pid == 0) { execl("/bin/sleep", "sleep", "600", (char*) NULL); _exit(127); }
    if (pid < 0) { snprintf(rc, cap, "SETUP_FAILED:fork"); yr_rules_destroy(rules); return; }
    usleep(150000);
    OBS o; memset(&o, 0, sizeof o);
    arm(); int r = yr_rules_scan_proc(rules, (int) pid, 0, scan_cb, &o, 0); disarm();
    kill(pid, SIGKILL); waitpid(pid, NULL, 0);
    snprintf(rc, cap, "%s", errname(r));
    obs_print(res, cap, r, &o);
  }
  else if (!strcmp(kind, "screate"))
  {
    arm(); int r = yr_scanner_create(rules, &sc); disarm();
    snprintf(rc, cap, "%s", errname(r));
    if (r == ERROR_SUCCESS)
    {
      OBS o; memset(&o, 0, sizeof o);
      yr_scanner_set_callback(sc, scan_cb, &o);
      int rs = yr_scanner_scan_mem(sc, g_data, g_data_len);
      obs_print(res, cap, rs, &o);
      yr_scanner_destroy(sc);
    }
    else scan_rules(rules, res, cap);
  }
  else if (!strcmp(kind, "scan") || !strcmp(kind, "rscan") || !strcmp(kind, "fscan"))
  {
    OBS o; memset(&o, 0, sizeof o);
    int r;
    if (!strcmp(kind, "scan"))
    {
      if (yr_scanner_create(rules, &sc) != ERROR_SUCCESS) { snprintf(rc, cap, "SETUP_FAILED:scanner"); yr_rules_destroy(rules); return; }
      yr_scanner_set_callback(sc, scan_cb, &o);
      arm(); r = yr_scanner_scan_mem(sc, g_data, g_data_len); disarm();
    }
    else if (!strcmp(kind, "rscan")) { arm(); r = yr_rules_scan_mem(rules, g_data, g_data_len, 0, scan_cb, &o, 0); disarm(); }
    else { arm(); r = yr_rules_scan_file(rules, get("file", "/dev/null"), 0, scan_cb, &o, 0); disarm(); }
    char first[512]; obs_print(first, sizeof first, r, &o);
    snprintf(rc, cap, "%s", r == ERROR_SUCCESS ? "OK" : errname(r));
    // result of the armed scan itself, then the same object used again without faults
    OBS o2; memset(&o2, 0, sizeof o2); int r2;
    if (sc) { yr_scanner_set_callback(sc, scan_cb, &o2); r2 = yr_scanner_scan_mem(sc, g_data, g_data_len); }
    else r2 = yr_rules_scan_mem(rules, g_data, g_data_len, 0, scan_cb, &o2, 0);
    char second[512]; obs_print(second, sizeof second, r2, &o2);
    snprintf(res, cap, "%s/again:%s", first, second);
    if (sc) yr_scanner_destroy(sc);
  }
  else if (!strcmp(kind, "rdefs") || !strcmp(kind, "sdefs"))
  {
    // redefine the string external `sx` at rule-set / scanner level, then use the objects
    const char* val = get("val", "redefined-value");
    int r;
    if (!strcmp(kind, "rdefs"))
    {
      if (geti("twice", 0)) yr_rules_define_string_variable(rules, "sx", "first-redefinition");
      arm(); r = yr_rules_define_string_variable(rules, "sx", val); disarm();
      snprintf(rc, cap, "%s", errname(r));
      scan_rules(rules, res, cap);   // creates a scanner from the rule set's externals
    }
    else
    {
      if (yr_scanner_create(rules, &sc) != ERROR_SUCCESS) { snprintf(rc, cap, "SETUP_FAILED:scanner"); yr_rules_destroy(rules); return; }
      arm(); r = yr_scanner_define_string_variable(sc, "sx", val); disarm();
      snprintf(rc, cap, "%s", errname(r));
      OBS o; memset(&o, 0, sizeof o);
      yr_scanner_set_callback(sc, scan_cb, &o);
      int rs = yr_scanner_scan_mem(sc, g_data, g_data_len);
      obs_print(res, cap, rs, &o);
      yr_scanner_destroy(sc);
    }
  }
  else snprintf(rc, cap, "BADKIND");
  yr_rules_destroy(rules);
}

int main(int argc, char** argv)
{
  char* line = NULL; size_t cap = 0;
  static char* toks[MAXKV + 2];
  setvbuf(stdout, NULL, _IOLBF, 0);
  ledger = (LENT*) calloc(LEDGER_SIZE, sizeof(LENT));
  dl_iterate_phdr(phdr_cb, NULL);
  g_stack_hi = (uintptr_t) __builtin_frame_address(0) + (1u << 16);
  int initialised = 0;
  while (getline(&line, &cap, stdin) > 0)
  {
    int n = split(line, toks, MAXKV + 2);
    if (n < 2) continue;
    nkv = 0;
    for (int i = 2; i < n; i++)
    {
      char* eq = strchr(toks[i], '=');
      if (!eq) continue;
      *eq = 0; kv[nkv].k = toks[i]; kv[nkv].v = eq + 1; nkv++;
    }
    const char* kind = toks[1];
    printf("BEGIN %s\n", toks[0]);
    int is_init = !strcmp(kind, "init");
    if (is_init && initialised) { yr_finalize(); initialised = 0; }
    if (!is_init && !initialised) { yr_initialize(); initialised = 1; }
    load_data();
    g_fail_k = geti("k", 0); g_mode = geti("mode", 1);
    g_sitemap_on = (int) geti("sites", 0);
    if (g_sitemap_on)
    {
      if (!sitemap) sitemap = (SMENT*) calloc(SM_SIZE, sizeof(SMENT)); else memset(sitemap, 0, SM_SIZE * sizeof(SMENT));
      sitemap_used = 0;
    }
    yr_verif_arena_always_move = (int) geti("mv", 0);
    // mmd=<n>: YR_CONFIG_MAX_MATCH_DATA for this case (size of the matches notebook's pages and of every match's data copy)
    uint32_t mmd_keep = 0; yr_get_configuration_uint32(YR_CONFIG_MAX_MATCH_DATA, &mmd_keep);
    if (!is_init && geti("mmd", -1) >= 0) yr_set_configuration_uint32(YR_CONFIG_MAX_MATCH_DATA, (uint32_t) geti("mmd", 512));
    unsigned long live0 = ledger_live, bytes0 = ledger_bytes, seq0 = alloc_seq;
    char rc[160] = "-", res[1400] = "-";
    run_case(kind, rc, res, sizeof rc);
    yr_verif_arena_always_move = 0;
    if (!is_init && geti("mmd", -1) >= 0) yr_set_configuration_uint32(YR_CONFIG_MAX_MATCH_DATA, mmd_keep);
    long N = g_count, inj = g_injected;
    if (g_sitemap_on)
    {
      g_sitemap_on = 0;
      printf("SITES %s", toks[0]);
      for (unsigned i = 0; i < SM_SIZE; i++)
        if (sitemap[i].count)
        {
          printf(" ");
          for (int j = 0; j < sitemap[i].n; j++) printf("%s%lx", j ? "," : "", (unsigned long) ((uintptr_t) sitemap[i].f[j] - g_base));
          printf(":%ld:%ld:%ld:%ld", sitemap[i].first, sitemap[i].mid, sitemap[i].last, sitemap[i].count);
        }
      printf("\n");
    }
    void* site[NFRAMES]; int nsite = g_nsite; memcpy(site, g_site, sizeof site);
    long leak_blocks = (long) ledger_live - (long) live0, leak_bytes = (long) ledger_bytes - (long) bytes0;
    printf("%s N=%ld inj=%ld rc=%s res=%s leak=%ld:%ld", toks[0], N, inj, rc, res, leak_blocks, leak_bytes);
    print_sites("site", site, nsite);
    if (leak_blocks > 0)
    {
      // allocation site of the oldest block that is still live and was allocated during this case
      LENT* best = NULL;
      for (unsigned i = 0; i < LEDGER_SIZE; i++)
        if (ledger[i].ptr != NULL && ledger[i].ptr != (void*) 1 && ledger[i].seq > seq0 && (!best || ledger[i].seq < best->seq)) best = &ledger[i];
      if (best) print_sites("lsite", best->site, best->nsite);
      // forget them so that the next case starts from a clean ledger
      for (unsigned i = 0; i < LEDGER_SIZE; i++)
        if (ledger[i].ptr != NULL && ledger[i].ptr != (void*) 1 && ledger[i].seq > seq0)
        { ledger_live--; ledger_bytes -= ledger[i].size; ledger[i].ptr = (void*) 1; }
    }
    int sane;
    if (is_init) { sane = yr_initialize() == ERROR_SUCCESS && sanity(); yr_finalize(); }
    else sane = sanity();
    printf(" sane=%d\n", sane);
  }
  if (initialised) yr_finalize();
  free(line); free(g_data);
  return 0;
}
