// C12 harness (fold vs VM): for `A op B` prints the compile-time folded value (observed through
// string->fixed_offset of `$a at (A op B)`) and the run-time value (console.log of the same
// expression with operands made unknown at compile time by adding `filesize`, scanned on an empty buffer).
// line: <id> <op> <Aexpr> <Aval> <Bexpr> <Bval>     (unary: <id> <op> <Aexpr> <Aval>)
#include "common.h"
#include <yara/compiler.h>

static char logbuf[256];
static int have_log;

static int cb(YR_SCAN_CONTEXT* ctx, int msg, void* data, void* ud)
{
  if (msg == CALLBACK_MSG_CONSOLE_LOG) { snprintf(logbuf, sizeof logbuf, "%s", (const char*) data); have_log = 1; }
  return CALLBACK_CONTINUE;
}

static const char* optext(const char* op)
{
  if (!strcmp(op, "ADD")) return "+"; if (!strcmp(op, "SUB")) return "-"; if (!strcmp(op, "MUL")) return "*";
  if (!strcmp(op, "DIV")) return "\\"; if (!strcmp(op, "MOD")) return "%"; if (!strcmp(op, "XOR")) return "^";
  if (!strcmp(op, "AND")) return "&"; if (!strcmp(op, "OR")) return "|"; if (!strcmp(op, "SHL")) return "<<";
  if (!strcmp(op, "SHR")) return ">>"; if (!strcmp(op, "NEG")) return "-"; if (!strcmp(op, "NOT")) return "~";
  return "?";
}

int main()
{
  char* line = NULL; size_t cap = 0; char* t[16];
  yr_initialize();
  while (getline(&line, &cap, stdin) > 0)
  {
    int n = split(line, t, 16);
    if (n < 4) continue;
    int unary = (n == 4);
    char e1[512], e2[512], src[2048];
    if (unary) { snprintf(e1, sizeof e1, "%s(%s)", optext(t[1]), t[2]); snprintf(e2, sizeof e2, "%s(%s + filesize)", optext(t[1]), t[2]); }
    else { snprintf(e1, sizeof e1, "(%s) %s (%s)", t[2], optext(t[1]), t[4]);
           snprintf(e2, sizeof e2, "(%s + filesize) %s (%s + filesize)", t[2], optext(t[1]), t[4]); }
    printf("%s", t[0]);
    // compile-time value
    {
      YR_COMPILER* c; YR_RULES* r = NULL; VF_ERRS e = {{0}, 0, 0};
      yr_compiler_create(&c); yr_compiler_set_callback(c, vf_compiler_cb, &e);
      snprintf(src, sizeof src, "rule t { strings: $a = \"x\" condition: $a at (%s) }", e1);
      if (yr_compiler_add_string(c, src, NULL) > 0) printf(" fold=E:%s", errname(c->last_error));
      else if (yr_compiler_get_rules(c, &r) != ERROR_SUCCESS) printf(" fold=E:get_rules");
      else
      {
        YR_RULE* rule = &r->rules_table[0]; YR_STRING* s;
        yr_rule_strings_foreach(rule, s)
        {
          if (STRING_IS_FIXED_OFFSET(s)) printf(" fold=%" PRId64, s->fixed_offset); else printf(" fold=none");
        }
      }
      if (r) yr_rules_destroy(r);
      yr_compiler_destroy(c);
    }
    // run-time value
    {
      YR_COMPILER* c; YR_RULES* r = NULL; VF_ERRS e = {{0}, 0, 0};
      yr_compiler_create(&c); yr_compiler_set_callback(c, vf_compiler_cb, &e);
      snprintf(src, sizeof src, "import \"console\" rule t { condition: console.log(\"v=\", %s) }", e2);
      if (yr_compiler_add_string(c, src, NULL) > 0) printf(" run=E:%s", errname(c->last_error));
      else if (yr_compiler_get_rules(c, &r) != ERROR_SUCCESS) printf(" run=E:get_rules");
      else
      {
        have_log = 0;
        int rc = yr_rules_scan_mem(r, (const uint8_t*) "", 0, 0, cb, NULL, 0);
        if (rc != ERROR_SUCCESS) printf(" run=E:%s", errname(rc));
        else if (have_log) printf(" run=%s", logbuf + 2); else printf(" run=undef");
      }
      if (r) yr_rules_destroy(r);
      yr_compiler_destroy(c);
    }
    printf("\n");
  }
  yr_finalize();
  free(line);
  return 0;
}
