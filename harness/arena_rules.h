// Shared code of the arena/serialisation harnesses (C08 h_save, C17 h_load, C19 h_grow).
// A case line is   <id> <key>=<value> ...   (values never contain spaces; binary data is hex).
//   x=<t>:<name>:<val>   compile-time external (t = i,b,f,s ; s value in hex, f as decimal text)
//   n=<ns>:<hexsrc>      yr_compiler_add_string(src, ns)   ("-" = default namespace)
//   b=<hexbuf>           buffer to scan
//   init=<n> move=<0|1>  hooks yr_verif_arena_initial_size / yr_verif_arena_always_move
//   r=<seed>:<maxchunk>  chunking of the reading memory stream (0:0 = no chunking)
//   rx=<t>:<name>:<val>  yr_rules_define_*_variable before saving
//   via=mem|file         save/load through memory streams or yr_rules_save/yr_rules_load
// Every case runs in a forked child: a crash (assert, sanitizer report, signal) is an
// observation `CRASH:<summary>` and not the end of the run.
#ifndef VERIF_ARENA_RULES_H
#define VERIF_ARENA_RULES_H
#include "common.h"
#include <unistd.h>
#include <sys/wait.h>
#include <fcntl.h>
#include <yara/arena.h>
#include <yara/stream.h>

extern size_t yr_verif_arena_initial_size;
extern int yr_verif_arena_always_move;

// ------------------------------------------------------------------ string builder
typedef struct { char* p; size_t len, cap; } SB;
static void sb_need(SB* s, size_t n)
{
  if (s->len + n + 1 > s->cap)
  {
    s->cap = (s->len + n + 1) * 2 + 64;
    s->p = (char*) realloc(s->p, s->cap);
  }
}
static void sb_add(SB* s, const char* fmt, ...)
{
  va_list ap; char tmp[1024];
  va_start(ap, fmt);
  int n = vsnprintf(tmp, sizeof tmp, fmt, ap);
  va_end(ap);
  if (n < 0) return;
  if ((size_t) n >= sizeof tmp) n = sizeof tmp - 1;
  sb_need(s, (size_t) n);
  memcpy(s->p + s->len, tmp, (size_t) n);
  s->len += (size_t) n;
  s->p[s->len] = 0;
}
static void sb_hex(SB* s, const uint8_t* d, size_t n)
{
  if (n == 0) { sb_add(s, "-"); return; }
  sb_need(s, 2 * n);
  for (size_t i = 0; i < n; i++) { sprintf(s->p + s->len, "%02x", d[i]); s->len += 2; }
}
// identifier-ish text printed safely (anything else in hex after '#')
static void sb_txt(SB* s, const char* t)
{
  if (t == NULL) { sb_add(s, "(null)"); return; }
  int plain = *t != 0;
  for (const char* p = t; *p; p++)
    if (!((*p >= 'a' && *p <= 'z') || (*p >= 'A' && *p <= 'Z') || (*p >= '0' && *p <= '9') || *p == '_' || *p == '.' || *p == '$'))
      plain = 0;
  if (plain) sb_add(s, "%s", t); else { sb_add(s, "#"); sb_hex(s, (const uint8_t*) t, strlen(t)); }
}
static void sb_put(SB* s, const char* t)
{
  size_t n = strlen(t);
  sb_need(s, n);
  memcpy(s->p + s->len, t, n + 1);
  s->len += n;
}
static void sb_reset(SB* s) { s->len = 0; if (s->p) s->p[0] = 0; }
static const char* sb_str(SB* s) { return s->p ? s->p : ""; }
static void sb_free(SB* s) { free(s->p); s->p = NULL; s->len = s->cap = 0; }

static uint64_t fnv64(const uint8_t* d, size_t n)
{
  uint64_t h = 1469598103934665603ULL;
  for (size_t i = 0; i < n; i++) { h ^= d[i]; h *= 1099511628211ULL; }
  return h;
}

// ------------------------------------------------------------------ memory streams
// fread/fwrite contract: read returns the number of complete items delivered; fewer than
// asked only at end of data. The data is moved in chunks of pseudo-random size <= maxchunk
// (a transport delivering arbitrary chunk sizes behind the fread-like interface).
typedef struct
{
  uint8_t* p; size_t len, cap, pos;
  uint64_t rs; size_t maxchunk;
  SB trace;            // sequence of (size x count) requests, for the model tie
  int tracing;
  size_t ncalls;
} MS;

static uint64_t ms_rnd(MS* m) { m->rs = m->rs * 6364136223846793005ULL + 1442695040888963407ULL; return m->rs >> 33; }

static size_t ms_write(const void* ptr, size_t size, size_t count, void* ud)
{
  MS* m = (MS*) ud;
  size_t n = size * count;
  if (m->len + n > m->cap) { m->cap = (m->len + n) * 2 + 64; m->p = (uint8_t*) realloc(m->p, m->cap); }
  size_t done = 0;
  while (done < n)
  {
    size_t c = m->maxchunk ? 1 + ms_rnd(m) % m->maxchunk : n;
    if (c > n - done) c = n - done;
    memcpy(m->p + m->len + done, (const uint8_t*) ptr + done, c);
    done += c;
  }
  m->len += n;
  m->ncalls++;
  return count;
}

static size_t ms_read(void* ptr, size_t size, size_t count, void* ud)
{
  MS* m = (MS*) ud;
  size_t need = size * count, got = 0;
  if (m->tracing) sb_add(&m->trace, "%s%zux%zu", m->trace.len ? "," : "", size, count);
  m->ncalls++;
  while (got < need && m->pos < m->len)
  {
    size_t c = m->maxchunk ? 1 + ms_rnd(m) % m->maxchunk : need;
    if (c > need - got) c = need - got;
    if (c > m->len - m->pos) c = m->len - m->pos;
    memcpy((uint8_t*) ptr + got, m->p + m->pos, c);
    got += c; m->pos += c;
  }
  return size ? got / size : 0;
}

// run-length encoded request trace of a reading stream
static void rle_trace(const char* t, SB* out)
{
  char* s = strdup(t); char* save = NULL; char last[64] = ""; int n = 0; int first = 1;
  for (char* x = strtok_r(s, ",", &save); ; x = strtok_r(NULL, ",", &save))
  {
    if (x && !strcmp(x, last)) { n++; continue; }
    if (n > 0) { sb_add(out, "%s%s", first ? "" : ",", last); if (n > 1) sb_add(out, "*%d", n); first = 0; }
    if (!x) break;
    snprintf(last, sizeof last, "%s", x); n = 1;
  }
  free(s);
}

static void ms_free(MS* m) { free(m->p); sb_free(&m->trace); memset(m, 0, sizeof *m); }

// ------------------------------------------------------------------ case parsing
#define MAXKV 512
typedef struct { char* toks[MAXKV]; int n; const char* id; } CASE;

static void case_parse(char* line, CASE* c)
{
  c->n = split(line, c->toks, MAXKV);
  c->id = c->n ? c->toks[0] : "";
}
// value of the k-th occurrence of key (NULL if none)
static const char* case_get(CASE* c, const char* key, int k)
{
  size_t kl = strlen(key);
  for (int i = 1; i < c->n; i++)
    if (!strncmp(c->toks[i], key, kl) && c->toks[i][kl] == '=')
      if (k-- == 0) return c->toks[i] + kl + 1;
  return NULL;
}
static long case_int(CASE* c, const char* key, long dflt)
{
  const char* v = case_get(c, key, 0);
  return v ? strtol(v, 0, 10) : dflt;
}

// ------------------------------------------------------------------ compile
static int define_ext(YR_COMPILER* comp, YR_RULES* rules, const char* spec)
{
  char tmp[4096]; char* p[3];
  snprintf(tmp, sizeof tmp, "%s", spec);
  if (splitc(tmp, ':', p, 3) != 3) return ERROR_INVALID_ARGUMENT;
  char t = p[0][0];
  if (t == 'i') return comp ? yr_compiler_define_integer_variable(comp, p[1], strtoll(p[2], 0, 10))
                            : yr_rules_define_integer_variable(rules, p[1], strtoll(p[2], 0, 10));
  if (t == 'b') return comp ? yr_compiler_define_boolean_variable(comp, p[1], atoi(p[2]))
                            : yr_rules_define_boolean_variable(rules, p[1], atoi(p[2]));
  if (t == 'f') return comp ? yr_compiler_define_float_variable(comp, p[1], strtod(p[2], 0))
                            : yr_rules_define_float_variable(rules, p[1], strtod(p[2], 0));
  size_t l; uint8_t* s = unhex(p[2], &l);
  int rc = comp ? yr_compiler_define_string_variable(comp, p[1], (char*) s)
                : yr_rules_define_string_variable(rules, p[1], (char*) s);
  free(s);
  return rc;
}

// returns rules or NULL; *status gets "OK" / "ERR:<n>:<first message>" (static buffer)
static YR_RULES* compile_case(CASE* c, char* status, size_t stlen)
{
  YR_COMPILER* comp = NULL; YR_RULES* rules = NULL;
  VF_ERRS errs; memset(&errs, 0, sizeof errs);
  yr_verif_arena_initial_size = (size_t) case_int(c, "init", 0);
  yr_verif_arena_always_move = (int) case_int(c, "move", 0);
  if (yr_compiler_create(&comp) != ERROR_SUCCESS) DIE("compiler create");
  yr_compiler_set_callback(comp, vf_compiler_cb, &errs);
  const char* v;
  for (int k = 0; (v = case_get(c, "x", k)); k++)
  {
    int rc = define_ext(comp, NULL, v);
    if (rc != ERROR_SUCCESS) { snprintf(status, stlen, "XERR:%s", errname(rc)); yr_compiler_destroy(comp); return NULL; }
  }
  int nerr = 0;
  for (int k = 0; nerr == 0 && (v = case_get(c, "n", k)); k++)
  {
    char* tmp = strdup(v); char* p[2];
    if (splitc(tmp, ':', p, 2) != 2) DIE("bad n=");
    size_t l; uint8_t* src = unhex(p[1], &l);
    nerr = yr_compiler_add_string(comp, (char*) src, strcmp(p[0], "-") ? p[0] : NULL);
    free(src); free(tmp);
  }
  if (nerr == 0)
  {
    int rc = yr_compiler_get_rules(comp, &rules);
    if (rc != ERROR_SUCCESS) { snprintf(status, stlen, "GETRULES:%s", errname(rc)); rules = NULL; }
    else snprintf(status, stlen, "OK");
  }
  else
  {
    SB m = {0}; sb_txt(&m, errs.msg);
    snprintf(status, stlen, "ERR:%d:%.300s", nerr, sb_str(&m));
    sb_free(&m);
  }
  yr_compiler_destroy(comp);
  // the hooks only concern compilation; loaders and scans below run with defaults
  yr_verif_arena_initial_size = 0;
  yr_verif_arena_always_move = 0;
  return rules;
}

// ------------------------------------------------------------------ observation of a scan
typedef struct { SB* out; int nmatch; int nstr; } OBSCTX;

static int obs_cb(YR_SCAN_CONTEXT* ctx, int msg, void* data, void* ud)
{
  OBSCTX* o = (OBSCTX*) ud;
  if (msg == CALLBACK_MSG_RULE_MATCHING || msg == CALLBACK_MSG_RULE_NOT_MATCHING)
  {
    YR_RULE* r = (YR_RULE*) data;
    sb_add(o->out, ";");
    sb_txt(o->out, r->ns ? r->ns->name : NULL);
    sb_add(o->out, "/");
    sb_txt(o->out, r->identifier);
    sb_add(o->out, "=%d", msg == CALLBACK_MSG_RULE_MATCHING);
    if (msg == CALLBACK_MSG_RULE_MATCHING) o->nmatch++;
    const char* tag; int first = 1;
    yr_rule_tags_foreach(r, tag) { sb_add(o->out, first ? "[t:" : ","); first = 0; sb_txt(o->out, tag); }
    if (!first) sb_add(o->out, "]");
    YR_META* m; first = 1;
    yr_rule_metas_foreach(r, m)
    {
      sb_add(o->out, first ? "[m:" : ","); first = 0;
      sb_txt(o->out, m->identifier);
      if (m->type == META_TYPE_INTEGER) sb_add(o->out, "=i%" PRId64, m->integer);
      else if (m->type == META_TYPE_BOOLEAN) sb_add(o->out, "=b%" PRId64, m->integer);
      else { sb_add(o->out, "=s"); sb_hex(o->out, (const uint8_t*) m->string, m->string ? strlen(m->string) : 0); }
    }
    if (!first) sb_add(o->out, "]");
    YR_STRING* s; first = 1;
    yr_rule_strings_foreach(r, s)
    {
      YR_MATCH* mt;
      sb_add(o->out, first ? "[s:" : ","); first = 0;
      sb_txt(o->out, s->identifier);
      yr_string_matches_foreach(ctx, s, mt)
      {
        sb_add(o->out, "@%" PRId64 "+%d", mt->base + mt->offset, mt->match_length);
        if (mt->xor_key) sb_add(o->out, "x%02x", mt->xor_key);
        o->nstr++;
      }
    }
    if (!first) sb_add(o->out, "]");
  }
  else if (msg == CALLBACK_MSG_IMPORT_MODULE)
  {
    sb_add(o->out, ";import:"); sb_txt(o->out, ((YR_MODULE_IMPORT*) data)->module_name);
  }
  else if (msg == CALLBACK_MSG_CONSOLE_LOG)
  {
    sb_add(o->out, ";log:"); sb_hex(o->out, (const uint8_t*) data, strlen((const char*) data));
  }
  else if (msg == CALLBACK_MSG_TOO_MANY_MATCHES)
  {
    sb_add(o->out, ";toomany:"); sb_txt(o->out, ((YR_STRING*) data)->identifier);
  }
  return CALLBACK_CONTINUE;
}

// scans every b= buffer of the case; appends "<rc><obs>|<rc><obs>..." ; returns counts
static void observe(YR_RULES* rules, CASE* c, SB* out, int* nmatch, int* nstr)
{
  const char* v;
  OBSCTX o = {out, 0, 0};
  for (int k = 0; (v = case_get(c, "b", k)); k++)
  {
    size_t l; uint8_t* buf = unhex(v, &l);
    if (k) sb_add(out, "|");
    size_t mark = out->len;
    sb_add(out, "..");
    int rc = yr_rules_scan_mem(rules, buf, l, 0, obs_cb, &o, 0);
    memcpy(out->p + mark, rc == ERROR_SUCCESS ? "OK" : "ER", 2);
    if (rc != ERROR_SUCCESS) sb_add(out, ":%s", errname(rc));
    free(buf);
  }
  if (nmatch) *nmatch = o.nmatch;
  if (nstr) *nstr = o.nstr;
}

static void dump_externals(YR_RULES* rules, SB* out)
{
  YR_EXTERNAL_VARIABLE* e = rules->ext_vars_table;
  int first = 1;
  if (e == NULL) { sb_add(out, "none"); return; }
  for (; !EXTERNAL_VARIABLE_IS_NULL(e); e++)
  {
    if (!first) sb_add(out, ","); first = 0;
    sb_txt(out, e->identifier);
    switch (e->type)
    {
    case EXTERNAL_VARIABLE_TYPE_INTEGER: sb_add(out, "=i%" PRId64, e->value.i); break;
    case EXTERNAL_VARIABLE_TYPE_BOOLEAN: sb_add(out, "=b%" PRId64, e->value.i); break;
    case EXTERNAL_VARIABLE_TYPE_FLOAT: { uint64_t u; memcpy(&u, &e->value.f, 8); sb_add(out, "=f%016" PRIx64, u); break; }
    case EXTERNAL_VARIABLE_TYPE_STRING:
    case EXTERNAL_VARIABLE_TYPE_MALLOC_STRING:
      sb_add(out, "=s"); sb_hex(out, (const uint8_t*) e->value.s, e->value.s ? strlen(e->value.s) : 0); break;
    default: sb_add(out, "=?%d", e->type);
    }
  }
  if (first) sb_add(out, "none");
}

static int save_mem(YR_RULES* rules, MS* m)
{
  YR_STREAM st; st.user_data = m; st.write = ms_write; st.read = NULL;
  return yr_rules_save_stream(rules, &st);
}
static int load_mem(MS* m, YR_RULES** rules)
{
  YR_STREAM st; st.user_data = m; st.read = ms_read; st.write = NULL;
  *rules = NULL;
  return yr_rules_load_stream(&st, rules);
}

// ------------------------------------------------------------------ crash isolation
// Runs fn(arg) in a forked child with stdout/stderr captured. The child's stdout is the
// result; if the child dies, a one-token summary is built from its stderr.
// "<path>/file.c:line:col: runtime error: <message>" -> ubsan(<message without addresses>)@file.c
static void ub_summary(const char* err, const char* p, SB* out)
{
  const char* ls = p; while (ls > err && ls[-1] != '\n') ls--;
  char file[128]; int i = 0;
  const char* e = ls; while (e < p && *e != ':') e++;
  const char* b = e; while (b > ls && b[-1] != '/') b--;
  while (b < e && i < 127) file[i++] = *b++;
  file[i] = 0;
  sb_add(out, "ubsan(");
  for (p += 15; *p && *p != '\n'; p++)
  {
    if (p[0] == '0' && p[1] == 'x') { p += 2; while (hexval(*p) >= 0) p++; sb_add(out, "ADDR"); p--; continue; }
    if (*p >= '0' && *p <= '9' && p[-1] == ' ' && !strncmp(p - 6, "index ", 6)) { while (p[1] >= '0' && p[1] <= '9') p++; sb_add(out, "N"); continue; }
    sb_add(out, "%c", *p == ' ' ? '_' : *p);
  }
  sb_add(out, ")@%s", file);
}

// distinct recoverable UBSan reports (built with -fsanitize-recover=…) found in a child's stderr
static void ub_reports(const char* err, SB* out)
{
  SB seen = {0};
  const char* p = err;
  while ((p = strstr(p, "runtime error: ")))
  {
    SB one = {0};
    ub_summary(err, p, &one);
    char key[600]; snprintf(key, sizeof key, "|%s|", sb_str(&one));
    if (!strstr(sb_str(&seen), key)) { sb_put(&seen, key); sb_add(out, " UB:%s", sb_str(&one)); }
    sb_free(&one);
    p += 15;
  }
  sb_free(&seen);
}

static void crash_summary(const char* err, int status, SB* out)
{
  const char* p;
  sb_add(out, "CRASH:");
  if ((p = strstr(err, "Assertion `")))
  {
    // "<file>:<line>: <func>: Assertion `<expr>' failed."
    const char* q = strchr(p + 11, '\'');
    const char* ls = p; while (ls > err && ls[-1] != '\n') ls--;
    char file[128] = "", func[128] = "";
    // "[prog: ]file:line: func: Assertion `...' failed."
    {
      char buf[512]; size_t n = (size_t) (p - ls) < sizeof buf - 1 ? (size_t) (p - ls) : sizeof buf - 1;
      memcpy(buf, ls, n); buf[n] = 0;
      char* parts[8]; int np = splitc(buf, ':', parts, 8);
      if (np >= 4)
      {
        const char* fl = parts[np - 4]; while (*fl == ' ') fl++;
        const char* base = strrchr(fl, '/'); snprintf(file, sizeof file, "%s", base ? base + 1 : fl);
        const char* fn = parts[np - 2]; while (*fn == ' ') fn++;
        snprintf(func, sizeof func, "%s", fn);
      }
    }
    sb_add(out, "assert(");
    for (const char* r = p + 11; q && r < q; r++) sb_add(out, "%c", *r == ' ' ? '_' : *r);
    sb_add(out, ")@%s:%s", file, func);
    return;
  }
  if ((p = strstr(err, "ERROR: AddressSanitizer: ")) || (p = strstr(err, "ERROR: LeakSanitizer: ")))
  {
    p = strchr(p + 7, ':') + 2;
    char kind[64]; int i = 0;
    while (*p && *p != ' ' && *p != '\n' && i < 63) kind[i++] = *p++;
    kind[i] = 0;
    sb_add(out, "asan-%s", kind);
    // first frame inside /libyara/ (function name)
    const char* f = err;
    while ((f = strstr(f, " in ")))
    {
      const char* e = strchr(f, '\n'); if (!e) e = f + strlen(f);
      const char* ly = strstr(f, "/libyara/");
      if (ly && ly < e)
      {
        char fn[96]; i = 0; f += 4;
        while (*f && *f != ' ' && i < 95) fn[i++] = *f++;
        fn[i] = 0;
        const char* b = ly + 9; char file[96]; i = 0;
        while (*b && *b != ':' && *b != '\n' && i < 95) file[i++] = *b++;
        file[i] = 0;
        sb_add(out, "@%s:%s", file, fn);
        return;
      }
      f = e;
    }
    return;
  }
  if ((p = strstr(err, "runtime error: ")))
  {
    ub_summary(err, p, out);
    return;
  }
  if (WIFSIGNALED(status)) sb_add(out, "signal%d", WTERMSIG(status));
  else sb_add(out, "exit%d", WEXITSTATUS(status));
}

static char g_errpath[256], g_outpath[256];

static char* slurp(const char* path, size_t* n)
{
  FILE* f = fopen(path, "rb");
  if (!f) { *n = 0; return strdup(""); }
  fseek(f, 0, SEEK_END); long sz = ftell(f); fseek(f, 0, SEEK_SET);
  char* b = (char*) malloc((size_t) sz + 1);
  *n = fread(b, 1, (size_t) sz, f); b[*n] = 0;
  fclose(f);
  return b;
}

static const char* scratch_dir(void)
{
  const char* d = getenv("VF_SCRATCH");
  return d ? d : ".";
}

// returns 0 if the child finished normally; child output (stdout) appended to `out`,
// otherwise appends the partial stdout followed by the crash summary. stderr tail kept in *errtxt.
static SB* g_ub_sink;   // when set, UB: tokens go here instead of the result line

static int run_isolated(void (*fn)(void*), void* arg, SB* out, char** errtxt)
{
  snprintf(g_errpath, sizeof g_errpath, "%s/.vf_err_%d", scratch_dir(), (int) getpid());
  snprintf(g_outpath, sizeof g_outpath, "%s/.vf_out_%d", scratch_dir(), (int) getpid());
  fflush(stdout); fflush(stderr);
  pid_t pid = fork();
  if (pid < 0) DIE("fork failed");
  if (pid == 0)
  {
    int fo = open(g_outpath, O_WRONLY | O_CREAT | O_TRUNC, 0600);
    int fe = open(g_errpath, O_WRONLY | O_CREAT | O_TRUNC, 0600);
    if (fo < 0 || fe < 0) _exit(97);
    dup2(fo, 1); dup2(fe, 2); close(fo); close(fe);
    fn(arg);
    fflush(stdout);
    _exit(0);
  }
  int status = 0;
  waitpid(pid, &status, 0);
  size_t no, ne;
  char* o = slurp(g_outpath, &no);
  char* e = slurp(g_errpath, &ne);
  unlink(g_outpath); unlink(g_errpath);
  // strip newlines of child output
  for (size_t i = 0; i < no; i++) if (o[i] == '\n') o[i] = ' ';
  sb_put(out, o);
  int crashed = !(WIFEXITED(status) && WEXITSTATUS(status) == 0);
  ub_reports(e, g_ub_sink ? g_ub_sink : out);
  if (crashed)
  {
    if (out->len && out->p[out->len - 1] != ' ') sb_add(out, " ");
    crash_summary(e, status, out);
  }
  if (getenv("VF_SHOW_STDERR") && *e) { fputs(e, stderr); fflush(stderr); }
  if (errtxt) *errtxt = e; else free(e);
  free(o);
  return crashed;
}

#endif
