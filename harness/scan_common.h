// Shared by h_hist.c (C10) and h_entry.c (C13): case-line fields, rule-set cache, inputs with block
// partitions, a scripted block iterator (not-ready / stall / error at chosen calls), a scripted
// callback that records the canonical trace.
//
// Case line:  <id> key=value key=value ...        (keys unknown to the harness are model-only facts)
//   rs=<hex of YARA source>
//   in=<input>;<input>;...      input = <src>~<b0>+<b1>+...   src = @<path relative to the repo> | - | <hex>
//                               block = <size>[!][@<base>]  (! : fetch_data returns NULL; @base: reported base address, default
//                               contiguous); sizes sum to the input size
//   fl=<scan flags>  to=<timeout seconds>
// Trace of one API call: events joined by ',' then ",rc=<NAME>":
//   I:<module> M:<module>  +r<rule idx>[s<string idx>@<abs offset>:<len>;...]  -r<idx>[...]  T:s<idx>  F
#ifndef VERIF_SCAN_COMMON_H
#define VERIF_SCAN_COMMON_H
#include "common.h"
#include <stdarg.h>
#include <unistd.h>
#include <fcntl.h>
#include <sys/stat.h>
#if defined(__SANITIZE_ADDRESS__)
#include <sanitizer/lsan_interface.h>
#define VF_LEAK_CHECK() __lsan_do_recoverable_leak_check()
#else
#define VF_LEAK_CHECK() 0
#endif

#define MAXBLK 16
#define MAXIN 12

static const char* vf_repo(void)
{
  const char* r = getenv("VERIF_REPO");
  return r ? r : "/repo";
}

// ---------------------------------------------------------------- key=value fields
static const char* field(char** toks, int n, const char* key)
{
  size_t kl = strlen(key);
  for (int i = 1; i < n; i++)
    if (strncmp(toks[i], key, kl) == 0 && toks[i][kl] == '=') return toks[i] + kl + 1;
  return NULL;
}

// ---------------------------------------------------------------- rule sets (small cache)
typedef struct { char* key; YR_RULES* rules; } RSENT;
static RSENT rs_cache[8];
static int rs_next;

static YR_RULES* get_rules(const char* hexsrc)
{
  for (int i = 0; i < 8; i++)
    if (rs_cache[i].key && strcmp(rs_cache[i].key, hexsrc) == 0) return rs_cache[i].rules;
  size_t l; uint8_t* src = unhex(hexsrc, &l);
  YR_COMPILER* comp = NULL; YR_RULES* rules = NULL;
  if (yr_compiler_create(&comp) != ERROR_SUCCESS) DIE("compiler create");
  VF_ERRS e = {{0}, 0, 0};
  yr_compiler_set_callback(comp, vf_compiler_cb, &e);
  // sections "//@ns <name>\n..." are compiled into their own namespace, in order
  char* p = (char*) src;
  while (p && *p)
  {
    char nsname[64] = "default";
    char* nextsec = NULL;
    if (strncmp(p, "//@ns ", 6) == 0)
    {
      sscanf(p + 6, "%63s", nsname);
      p = strchr(p, '\n'); if (!p) break; p++;
    }
    nextsec = strstr(p, "\n//@ns ");
    if (nextsec) { *nextsec = 0; nextsec++; }
    if (yr_compiler_add_string(comp, p, nsname) != 0) DIE("rule set does not compile: %s (line %d)\n%s", e.msg, e.line, p);
    p = nextsec;
  }
  if (yr_compiler_get_rules(comp, &rules) != ERROR_SUCCESS) DIE("get_rules");
  yr_compiler_destroy(comp);
  free(src);
  RSENT* s = &rs_cache[rs_next++ % 8];
  if (s->key) { free(s->key); yr_rules_destroy(s->rules); }
  s->key = strdup(hexsrc); s->rules = rules;
  return rules;
}

static void free_rules_cache(void)
{
  for (int i = 0; i < 8; i++)
    if (rs_cache[i].key) { free(rs_cache[i].key); yr_rules_destroy(rs_cache[i].rules); rs_cache[i].key = NULL; }
}

// ---------------------------------------------------------------- inputs
typedef struct
{
  uint8_t* data; size_t size;
  int nblocks; size_t bsize[MAXBLK]; int avail[MAXBLK];
  uint64_t bbase[MAXBLK];   // base address reported for each block (default: contiguous from 0; "<size>@<base>" sets it)
  char path[512];   // non-empty: the bytes also exist as this file
} INPUT;

static void load_file(const char* path, uint8_t** data, size_t* size)
{
  FILE* f = fopen(path, "rb");
  if (!f) DIE("cannot open %s", path);
  fseek(f, 0, SEEK_END); long n = ftell(f); rewind(f);
  *data = (uint8_t*) malloc(n + 1);
  if (fread(*data, 1, n, f) != (size_t) n) DIE("short read %s", path);
  fclose(f); *size = n;
}

static void parse_input(char* tok, INPUT* in)
{
  char* p[2];
  if (splitc(tok, '~', p, 2) != 2) DIE("bad input %s", tok);
  char* blocks = p[1];
  if (p[0][0] == '@')
  {
    snprintf(in->path, sizeof in->path, "%s/%s", vf_repo(), p[0] + 1);
    load_file(in->path, &in->data, &in->size);
  }
  else
  {
    in->path[0] = 0;
    in->data = unhex(p[0], &in->size);
  }
  char* b[MAXBLK]; int nb = splitc(blocks, '+', b, MAXBLK);
  size_t sum = 0; in->nblocks = nb;
  for (int i = 0; i < nb; i++)
  {
    size_t l = strlen(b[i]);
    in->avail[i] = 1;
    char* at = strchr(b[i], '@');
    if (at) { *at = 0; l = strlen(b[i]); }
    if (l && b[i][l - 1] == '!') { in->avail[i] = 0; b[i][l - 1] = 0; }
    in->bbase[i] = at ? strtoull(at + 1, 0, 10) : sum;
    in->bsize[i] = strtoull(b[i], 0, 10); sum += in->bsize[i];
  }
  if (sum != in->size) DIE("partition of %zu does not sum to input size %zu", sum, in->size);
}

static int parse_inputs(const char* f, INPUT* ins)
{
  char* s = strdup(f); char* parts[MAXIN];
  int n = splitc(s, ';', parts, MAXIN);
  for (int i = 0; i < n; i++) parse_input(parts[i], &ins[i]);
  free(s);
  return n;
}

static void free_inputs(INPUT* ins, int n) { for (int i = 0; i < n; i++) free(ins[i].data); }

// ---------------------------------------------------------------- scripted iterator
typedef struct
{
  INPUT* in; int pos;
  const char* sched; int spos;       // per-call actions: . ok  n not-ready  s stall 400s  S stall 2000s  e iterator error
  uint64_t mask; int use_mask;       // alternative: not-ready at the k-th call overall (bit k), k < 64
  int stall_each;                    // with use_mask: every call that is not answered not-ready takes that many (virtual) seconds
  int total_calls;                   // over the life of the iterator
  int ended;                         // in the current API call: block loop has seen END/ok -> later calls come from rule evaluation
  int nr_in_eval;                    // a not-ready was delivered to rule evaluation
  YR_SCANNER* scanner;
  YR_MEMORY_BLOCK blk;
} ITCTX;

static const uint8_t* it_fetch(YR_MEMORY_BLOCK* b) { return (const uint8_t*) b->context; }

static YR_MEMORY_BLOCK* it_next(YR_MEMORY_BLOCK_ITERATOR* it)
{
  ITCTX* c = (ITCTX*) it->context;
  char act = '.';
  int k = c->total_calls++;
  if (c->use_mask) { if (k < 64 && ((c->mask >> k) & 1)) act = 'n'; else if (c->stall_each && c->scanner) c->scanner->stopwatch.ts_start.tv_sec -= c->stall_each; }
  else if (c->sched && c->sched[c->spos]) act = c->sched[c->spos++];
  if (act == 'n') { it->last_error = ERROR_BLOCK_NOT_READY; if (c->ended) c->nr_in_eval = 1; return NULL; }
  if (act == 'e') { it->last_error = ERROR_COULD_NOT_READ_PROCESS_MEMORY; return NULL; }
  if ((act == 's' || act == 'S') && c->scanner)
    c->scanner->stopwatch.ts_start.tv_sec -= (act == 's' ? 400 : 2000);   // the call "took" that long
  it->last_error = ERROR_SUCCESS;
  if (c->pos >= c->in->nblocks) { c->ended = 1; return NULL; }
  size_t base = 0;
  for (int i = 0; i < c->pos; i++) base += c->in->bsize[i];
  c->blk.base = c->in->bbase[c->pos]; c->blk.size = c->in->bsize[c->pos];
  c->blk.context = c->in->avail[c->pos] ? (void*) (c->in->data + base) : NULL;
  c->blk.fetch_data = it_fetch;
  c->pos++;
  return &c->blk;
}

static YR_MEMORY_BLOCK* it_first(YR_MEMORY_BLOCK_ITERATOR* it)
{
  ((ITCTX*) it->context)->pos = 0;
  return it_next(it);
}

static uint64_t it_file_size(YR_MEMORY_BLOCK_ITERATOR* it) { return ((ITCTX*) it->context)->in->size; }

static void it_init(YR_MEMORY_BLOCK_ITERATOR* it, ITCTX* c, INPUT* in, const char* sched, YR_SCANNER* sc, int no_fs)
{
  memset(c, 0, sizeof *c);
  c->in = in; c->sched = (sched && strcmp(sched, "-")) ? sched : NULL; c->scanner = sc;
  it->context = c; it->first = it_first; it->next = it_next;
  it->file_size = no_fs ? NULL : it_file_size;
  it->last_error = ERROR_SUCCESS;
}

// ---------------------------------------------------------------- scripted callback + trace
typedef struct
{
  char* buf; size_t len, cap;
  int nmsg;            // messages delivered in this logical scan
  int react_at; int react;   // return `react` at message number react_at (-1: never)
  YR_RULES* rules;
} CBCTX;

static void tr_add(CBCTX* t, const char* fmt, ...)
{
  va_list ap;
  if (t->cap - t->len < 256) { t->cap = t->cap * 2 + 512; t->buf = (char*) realloc(t->buf, t->cap); }
  va_start(ap, fmt);
  t->len += vsnprintf(t->buf + t->len, t->cap - t->len, fmt, ap);
  va_end(ap);
}

static void tr_reset(CBCTX* t) { t->len = 0; if (!t->buf) { t->cap = 1024; t->buf = (char*) malloc(t->cap); } t->buf[0] = 0; }

static int vf_scan_cb(YR_SCAN_CONTEXT* ctx, int msg, void* data, void* ud)
{
  CBCTX* t = (CBCTX*) ud;
  const char* sep = t->len ? "," : "";
  switch (msg)
  {
  case CALLBACK_MSG_RULE_MATCHING:
  case CALLBACK_MSG_RULE_NOT_MATCHING:
  {
    YR_RULE* r = (YR_RULE*) data; YR_STRING* s; YR_MATCH* m; int first = 1;
    tr_add(t, "%s%cr%d[", sep, msg == CALLBACK_MSG_RULE_MATCHING ? '+' : '-', (int) (r - t->rules->rules_table));
    yr_rule_strings_foreach(r, s)
    {
      yr_string_matches_foreach(ctx, s, m)
      {
        tr_add(t, "%ss%u@%" PRIu64 ":%d", first ? "" : ";", s->idx, (uint64_t) (m->base + m->offset), m->match_length);
        first = 0;
      }
    }
    tr_add(t, "]");
    break;
  }
  case CALLBACK_MSG_SCAN_FINISHED: tr_add(t, "%sF", sep); break;
  case CALLBACK_MSG_IMPORT_MODULE: tr_add(t, "%sI:%s", sep, ((YR_MODULE_IMPORT*) data)->module_name); break;
  case CALLBACK_MSG_MODULE_IMPORTED: tr_add(t, "%sM:%s", sep, ((YR_OBJECT*) data)->identifier); break;
  case CALLBACK_MSG_TOO_MANY_MATCHES: tr_add(t, "%sT:s%u", sep, ((YR_STRING*) data)->idx); break;
  case CALLBACK_MSG_CONSOLE_LOG: tr_add(t, "%sL:%s", sep, (const char*) data); break;
  case CALLBACK_MSG_TOO_SLOW_SCANNING: tr_add(t, "%sW", sep); break;
  default: tr_add(t, "%s?%d", sep, msg);
  }
  int k = t->nmsg++;
  if (k == t->react_at) return t->react;
  return CALLBACK_CONTINUE;
}

static void tr_rc(CBCTX* t, int rc) { tr_add(t, "%src=%s", t->len ? "," : "", errname(rc)); }

// "a3" / "e0" / "-"
static void cb_script(CBCTX* t, const char* s)
{
  t->nmsg = 0; t->react_at = -1; t->react = CALLBACK_CONTINUE;
  if (!s || s[0] == '-' || !s[0]) return;
  t->react = s[0] == 'a' ? CALLBACK_ABORT : CALLBACK_ERROR;
  t->react_at = atoi(s + 1);
}

static void set_stack(const char* s)
{
  uint32_t v = (!s || s[0] == '-' || !s[0]) ? DEFAULT_STACK_SIZE : (uint32_t) atoi(s);
  yr_set_configuration_uint32(YR_CONFIG_STACK_SIZE, v);
}

// a small process to scan with yr_scanner_scan_proc: one per harness process, dies with it
#include <sys/prctl.h>
#include <signal.h>
#include <sys/wait.h>
static pid_t vf_child = 0;
static void kill_child(void) { if (vf_child > 0) { kill(vf_child, SIGKILL); waitpid(vf_child, NULL, 0); vf_child = 0; } }
static pid_t get_child(void)
{
  if (vf_child > 0) return vf_child;
  fflush(stdout);
  vf_child = fork();
  if (vf_child == 0)
  {
    prctl(PR_SET_PDEATHSIG, SIGKILL);
    int nul = open("/dev/null", O_RDWR); dup2(nul, 0); dup2(nul, 1); dup2(nul, 2);
    execlp("sleep", "sleep", "100000", (char*) NULL);
    _exit(127);
  }
  atexit(kill_child);
  // wait until the child has become `sleep` (before the exec it is a copy of this sanitized process, terabytes of shadow mappings)
  for (int i = 0; i < 2000; i++)
  {
    char p[64], cmd[32] = {0};
    snprintf(p, sizeof p, "/proc/%d/cmdline", (int) vf_child);
    FILE* f = fopen(p, "r");
    if (f) { size_t n = fread(cmd, 1, sizeof cmd - 1, f); fclose(f); if (n >= 5 && !strncmp(cmd, "sleep", 5)) break; }
    usleep(5000);
  }
  return vf_child;
}

#endif
