// C08 harness: compile the case's rule set, (optionally redefine externals), scan, save through a
// chunking memory stream (or a file), scan again, load through another chunking, scan the loaded
// rules, compare, re-save the loaded rules. One output line per case:
//   <id> C=<compile status> [RX=<rc,..>] E=<externals> O=<obs per buffer> N=<matching rules>:<string matches>
//        S=<save rc> IMG=<len>:<fnv64> OA=<= | obs after save> L=<load rc> T=<read request trace hash>
//        LE=<= | externals of loaded> LO=<= | obs of loaded> S2=<rc> IMG2=<= | len:hash> [HEX=<image>]
// "K==" means "equal to the reference value printed earlier on the line".
#include "arena_rules.h"

static void eq_or(SB* out, const char* key, const char* ref, const char* val)
{
  sb_put(out, " "); sb_put(out, key);
  if (!strcmp(ref, val)) sb_put(out, "==");
  else { sb_put(out, "="); sb_put(out, val); }
}

static void child(void* arg)
{
  CASE* c = (CASE*) arg;
  char status[512];
  SB line = {0};
  YR_RULES* rules = compile_case(c, status, sizeof status);
  printf("C=%s", status); fflush(stdout);
  if (!rules) return;
  const char* v;
  for (int k = 0; (v = case_get(c, "rx", k)); k++)
    printf("%s%s", k ? "," : " RX=", errname(define_ext(NULL, rules, v)));
  fflush(stdout);

  SB e0 = {0}, o0 = {0};
  int nm = 0, ns = 0;
  dump_externals(rules, &e0);
  observe(rules, c, &o0, &nm, &ns);
  printf(" E=%s O=%s N=%d:%d", sb_str(&e0), sb_str(&o0), nm, ns); fflush(stdout);

  // dis=<m>: every rule whose position is a multiple of m is disabled BEFORE saving (the flag is part of the rules and is
  // saved); all later comparisons refer to that state; after loading, every rule of both copies is enabled again
  int dis = (int) case_int(c, "dis", 0);
  if (dis > 0)
  {
    YR_RULE* r; int k = 0;
    yr_rules_foreach(rules, r) { if (k % dis == 0) yr_rule_disable(r); k++; }
    sb_reset(&o0);
    observe(rules, c, &o0, NULL, NULL);
  }
  const char* via = case_get(c, "via", 0);
  int file = via && !strcmp(via, "file");
  char path[512];
  snprintf(path, sizeof path, "%s/.vf_img_%d.yarc", scratch_dir(), (int) getpid());
  MS img = {0};
  const char* rspec = case_get(c, "r", 0);
  unsigned long rseed = 0, rchunk = 0, wseed = 0, wchunk = 0;
  if (rspec) sscanf(rspec, "%lu:%lu", &rseed, &rchunk);
  const char* wspec = case_get(c, "w", 0);
  if (wspec) sscanf(wspec, "%lu:%lu", &wseed, &wchunk);
  int rc;
  if (file)
  {
    rc = yr_rules_save(rules, path);
    size_t n; char* d = slurp(path, &n);
    img.p = (uint8_t*) d; img.len = n; img.cap = n;
  }
  else
  {
    img.rs = wseed; img.maxchunk = wchunk;
    rc = save_mem(rules, &img);
  }
  printf(" S=%s IMG=%zu:%016" PRIx64, errname(rc), img.len, fnv64(img.p, img.len)); fflush(stdout);
  if (rc != ERROR_SUCCESS) { yr_rules_destroy(rules); return; }

  // the original must still be usable after saving
  SB o1 = {0}, e1 = {0};
  observe(rules, c, &o1, NULL, NULL);
  dump_externals(rules, &e1);
  eq_or(&line, "OA", sb_str(&o0), sb_str(&o1));
  eq_or(&line, "EA", sb_str(&e0), sb_str(&e1));
  printf("%s", sb_str(&line)); fflush(stdout); sb_reset(&line);

  // saving twice gives the same bytes
  {
    MS again = {0};
    int rc2 = save_mem(rules, &again);
    char a[64], b[64];
    snprintf(a, sizeof a, "%zu:%016" PRIx64, img.len, fnv64(img.p, img.len));
    snprintf(b, sizeof b, "%zu:%016" PRIx64, again.len, fnv64(again.p, again.len));
    printf(" SA=%s", errname(rc2));
    eq_or(&line, "IMGA", a, b);
    printf("%s", sb_str(&line)); fflush(stdout); sb_reset(&line);
    ms_free(&again);
  }

  YR_RULES* loaded = NULL;
  MS rd = {0};
  if (file)
    rc = yr_rules_load(path, &loaded);
  else
  {
    rd.p = img.p; rd.len = img.len; rd.rs = rseed; rd.maxchunk = rchunk; rd.tracing = 1;
    rc = load_mem(&rd, &loaded);
  }
  unlink(path);
  printf(" L=%s", errname(rc));
  if (!file) { SB tr = {0}; rle_trace(sb_str(&rd.trace), &tr); printf(" T=%s", sb_str(&tr)); sb_free(&tr); }
  fflush(stdout);
  if (rc == ERROR_SUCCESS && loaded == NULL) { printf(" LOADED=NULL"); rc = -1; }
  if (rc == ERROR_SUCCESS)
  {
    SB e2 = {0}, o2 = {0};
    dump_externals(loaded, &e2);
    observe(loaded, c, &o2, NULL, NULL);
    eq_or(&line, "LE", sb_str(&e0), sb_str(&e2));
    eq_or(&line, "LO", sb_str(&o0), sb_str(&o2));
    printf("%s", sb_str(&line)); fflush(stdout); sb_reset(&line);
    MS img2 = {0};
    int rc2 = save_mem(loaded, &img2);
    char a[64], b[64];
    snprintf(a, sizeof a, "%zu:%016" PRIx64, img.len, fnv64(img.p, img.len));
    snprintf(b, sizeof b, "%zu:%016" PRIx64, img2.len, fnv64(img2.p, img2.len));
    printf(" S2=%s", errname(rc2));
    eq_or(&line, "IMG2", a, b);
    printf("%s", sb_str(&line)); fflush(stdout);
    if (dis > 0)
    {
      // cached tables built at load time must not depend on the flags the rules were saved with
      YR_RULE* r;
      SB oe = {0}, le = {0};
      yr_rules_foreach(rules, r) yr_rule_enable(r);
      yr_rules_foreach(loaded, r) yr_rule_enable(r);
      observe(rules, c, &oe, NULL, NULL);
      observe(loaded, c, &le, NULL, NULL);
      sb_reset(&line);
      eq_or(&line, "EN", sb_str(&oe), sb_str(&le));
      printf("%s", sb_str(&line)); fflush(stdout);
      { int k = 0; yr_rules_foreach(rules, r) { if (k % dis == 0) yr_rule_disable(r); k++; } }
    }
    // and the original once more, now that a second rule set lives in the process
    SB o3 = {0};
    observe(rules, c, &o3, NULL, NULL);
    sb_reset(&line);
    eq_or(&line, "OB", sb_str(&o0), sb_str(&o3));
    printf("%s", sb_str(&line)); fflush(stdout);
    yr_rules_destroy(loaded);
  }
  if (case_int(c, "hex", 0))
  {
    SB h = {0}; sb_hex(&h, img.p, img.len);
    printf(" HEX=%s", sb_str(&h));
  }
  yr_rules_destroy(rules);
  fflush(stdout);
}

int main()
{
  char* line = NULL; size_t cap = 0;
  static CASE c;
  yr_initialize();
  while (getline(&line, &cap, stdin) > 0)
  {
    case_parse(line, &c);
    if (c.n < 1) continue;
    SB out = {0};
    run_isolated(child, &c, &out, NULL);
    printf("%s %s\n", c.id, sb_str(&out));
    fflush(stdout);
    sb_free(&out);
  }
  return 0;
}
