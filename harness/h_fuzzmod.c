// C06 runtime tie: scan mutated executables with rules touching every module field/function,
// under ASan/UBSan/LSan, one forked child per case (a crash/hang is an observation, not the end).
// usage: h_fuzzmod <rules.yar> [timeout_s]
// line:  <id> <seedfile|-> <op>,<op>,...      ops (applied in order to the seed bytes):
//   T<n> truncate to n bytes | W<off>:<w>:<hex> little-endian write of w bytes | B<off>:<w>:<hex> big-endian write
//   M<hexaddr> scan the bytes from a private mapping at this fixed address (wrap-around reproducer) |
//   X<off>:<hexbytes> raw bytes | A<n>:<hexbyte> append n bytes | Z<len>:<seed> replace by len pseudo-random bytes | N no-op
// out:   <id> ok rc=<err> rules=<k> def=<defined fields> str=<string bytes> len=<n>
//        <id> CRASH exit=<code> signal=<sig> len=<n> msg=<sanitizer report, newlines as ' ## '>
//        <id> TIMEOUT len=<n>        (every line also carries hdr=<first 8 input bytes>)
#include "common.h"
#include <unistd.h>
#include <signal.h>
#include <poll.h>
#include <time.h>
#include <sys/wait.h>
#include <sys/stat.h>
#include <fcntl.h>
#include <sys/mman.h>

extern int __lsan_do_recoverable_leak_check(void) __attribute__((weak));   // absent in the plain flavour

typedef struct { int rules; long def; long strbytes; unsigned sum; int depth_limit_hit; } STATS;

static void walk(YR_OBJECT* o, STATS* st, int depth)
{
  if (o == NULL) return;
  if (depth > 64) { st->depth_limit_hit = 1; return; }
  switch (o->type)
  {
  case OBJECT_TYPE_INTEGER:
    if (o->value.i != YR_UNDEFINED) { st->def++; st->sum += (unsigned) o->value.i; }
    break;
  case OBJECT_TYPE_FLOAT:
    st->def++;
    break;
  case OBJECT_TYPE_STRING:
    if (o->value.ss != NULL)
    {
      st->def++;
      for (uint32_t i = 0; i < o->value.ss->length; i++) st->sum += (uint8_t) o->value.ss->c_string[i];
      st->sum += (uint8_t) o->value.ss->c_string[o->value.ss->length];  // terminator is part of the allocation
      st->strbytes += o->value.ss->length;
    }
    break;
  case OBJECT_TYPE_STRUCTURE:
    for (YR_STRUCTURE_MEMBER* m = ((YR_OBJECT_STRUCTURE*) o)->members; m != NULL; m = m->next) walk(m->object, st, depth + 1);
    break;
  case OBJECT_TYPE_ARRAY:
  {
    YR_ARRAY_ITEMS* it = ((YR_OBJECT_ARRAY*) o)->items;
    if (it != NULL)
      for (int i = 0; i < it->length; i++) walk(it->objects[i], st, depth + 1);
    break;
  }
  case OBJECT_TYPE_DICTIONARY:
  {
    YR_DICTIONARY_ITEMS* it = ((YR_OBJECT_DICTIONARY*) o)->items;
    if (it != NULL)
      for (int i = 0; i < it->used; i++)
      {
        if (it->objects[i].key) for (uint32_t k = 0; k < it->objects[i].key->length; k++) st->sum += (uint8_t) it->objects[i].key->c_string[k];
        walk(it->objects[i].obj, st, depth + 1);
      }
    break;
  }
  default: break;
  }
}

static int cb(YR_SCAN_CONTEXT* ctx, int msg, void* data, void* ud)
{
  STATS* st = (STATS*) ud;
  if (msg == CALLBACK_MSG_RULE_MATCHING) st->rules++;
  else if (msg == CALLBACK_MSG_MODULE_IMPORTED) walk((YR_OBJECT*) data, st, 0);
  else if (msg == CALLBACK_MSG_CONSOLE_LOG) st->sum += (unsigned) strlen((const char*) data);
  return CALLBACK_CONTINUE;
}

static uint8_t* seed_buf; static size_t seed_len; static char seed_path[1024];

static void load_seed(const char* path)
{
  if (!strcmp(path, seed_path)) return;
  free(seed_buf); seed_buf = NULL; seed_len = 0;
  snprintf(seed_path, sizeof seed_path, "%s", path);
  if (!strcmp(path, "-")) return;
  FILE* f = fopen(path, "rb");
  if (!f) DIE("cannot open seed %s", path);
  fseek(f, 0, SEEK_END); long n = ftell(f); fseek(f, 0, SEEK_SET);
  seed_buf = (uint8_t*) malloc(n + 1);
  if (fread(seed_buf, 1, n, f) != (size_t) n) DIE("short read %s", path);
  fclose(f); seed_len = n;
}

static uint64_t map_at;

static uint8_t* apply_ops(char* ops, size_t* out_len)
{
  map_at = 0;
  size_t len = seed_len, cap = seed_len + 1;
  uint8_t* b = (uint8_t*) malloc(cap);
  if (seed_len) memcpy(b, seed_buf, seed_len);
  char* save = NULL;
  for (char* op = strtok_r(ops, ",", &save); op; op = strtok_r(NULL, ",", &save))
  {
    char k = op[0]; char* p[4]; int np = splitc(op + 1, ':', p, 4);
    if (k == 'M' && np == 1) { map_at = strtoull(p[0], 0, 16); }
    else if (k == 'T' && np == 1) { size_t n = strtoull(p[0], 0, 10); if (n < len) len = n; }
    else if ((k == 'W' || k == 'B') && np == 3)
    {
      size_t off = strtoull(p[0], 0, 10); int w = atoi(p[1]); uint64_t v = strtoull(p[2], 0, 16);
      if (w >= 1 && w <= 8 && off + w <= len)
        for (int i = 0; i < w; i++) b[off + (k == 'W' ? i : w - 1 - i)] = (uint8_t) (v >> (8 * i));
    }
    else if (k == 'X' && np == 2)
    {
      size_t off = strtoull(p[0], 0, 10); size_t l; uint8_t* x = unhex(p[1], &l);
      for (size_t i = 0; i < l && off + i < len; i++) b[off + i] = x[i];
      free(x);
    }
    else if (k == 'A' && np == 2)
    {
      size_t n = strtoull(p[0], 0, 10); int v = (int) strtoul(p[1], 0, 16);
      if (n > (1u << 22)) n = 1u << 22;
      b = (uint8_t*) realloc(b, len + n + 1); memset(b + len, v, n); len += n;
    }
    else if (k == 'Z' && np == 2)
    {
      size_t n = strtoull(p[0], 0, 10); uint64_t s = strtoull(p[1], 0, 10) * 0x9E3779B97F4A7C15ULL + 1;
      if (n > (1u << 22)) n = 1u << 22;
      b = (uint8_t*) realloc(b, n + 1); len = n;
      for (size_t i = 0; i < n; i++) { s ^= s << 13; s ^= s >> 7; s ^= s << 17; b[i] = (uint8_t) (s >> 32); }
    }
  }
  *out_len = len;
  return b;
}

static double now_s(void) { struct timespec t; clock_gettime(CLOCK_MONOTONIC, &t); return t.tv_sec + t.tv_nsec * 1e-9; }

int main(int argc, char** argv)
{
  if (argc < 2) DIE("usage: h_fuzzmod rules.yar [timeout_s]");
  double tmo = argc > 2 ? atof(argv[2]) : 20.0;
  yr_initialize();
  YR_COMPILER* comp; YR_RULES* rules;
  yr_compiler_create(&comp);
  VF_ERRS e = {{0}, 0, 0};
  yr_compiler_set_callback(comp, vf_compiler_cb, &e);
  FILE* rf = fopen(argv[1], "r");
  if (!rf) DIE("cannot open rules %s", argv[1]);
  if (yr_compiler_add_file(comp, rf, NULL, argv[1]) != 0) DIE("rules do not compile: line %d: %s", e.line, e.msg);
  fclose(rf);
  if (yr_compiler_get_rules(comp, &rules) != ERROR_SUCCESS) DIE("get_rules");
  yr_compiler_destroy(comp);

  char* line = NULL; size_t cap = 0; static char* t[8];
  while (getline(&line, &cap, stdin) > 0)
  {
    int n = split(line, t, 8);
    if (n < 3) continue;
    load_seed(t[1]);
    size_t len; uint8_t* buf = apply_ops(t[2], &len);
    int ep[2], rp[2];
    if (pipe(ep) || pipe(rp)) DIE("pipe");
    fflush(stdout);
    pid_t pid = fork();
    if (pid < 0) DIE("fork");
    if (pid == 0)
    {
      dup2(ep[1], 2); close(ep[0]); close(ep[1]); close(rp[0]);
      int dn = open("/dev/null", O_WRONLY); dup2(dn, 1);
      uint8_t* data;
      if (map_at)
      {
        data = (uint8_t*) mmap((void*) map_at, len + 1, PROT_READ | PROT_WRITE, MAP_PRIVATE | MAP_ANONYMOUS | MAP_FIXED_NOREPLACE, -1, 0);
        if (data != (uint8_t*) map_at) { fprintf(stderr, "MAPFAIL"); _exit(25); }
      }
      else data = (uint8_t*) malloc(len ? len : 1);   // exact-size heap copy: ASan sees every over-read
      memcpy(data, buf, len);
      STATS st; memset(&st, 0, sizeof st);
      int rc = yr_rules_scan_mem(rules, data, len, SCAN_FLAGS_NO_TRYCATCH, cb, &st, 1000000);
      if (map_at) munmap(data, len + 1); else free(data);
      free(buf);
      int leaks = __lsan_do_recoverable_leak_check ? __lsan_do_recoverable_leak_check() : 0;
      char res[256];
      int l = snprintf(res, sizeof res, "rc=%s rules=%d def=%ld str=%ld", errname(rc), st.rules, st.def, st.strbytes);
      if (write(rp[1], res, l) != l) _exit(24);
      _exit(leaks ? 23 : 0);
    }
    close(ep[1]); close(rp[1]);
    static char msg[1 << 16]; size_t ml = 0;
    double deadline = now_s() + tmo; int timed_out = 0;
    for (;;)
    {
      double left = deadline - now_s();
      if (left <= 0) { timed_out = 1; break; }
      struct pollfd pf = {ep[0], POLLIN, 0};
      int pr = poll(&pf, 1, (int) (left * 1000) + 1);
      if (pr <= 0) continue;
      char tmp[4096];
      ssize_t r = read(ep[0], tmp, sizeof tmp);
      if (r <= 0) break;
      for (ssize_t i = 0; i < r && ml + 5 < sizeof msg; i++)
      {
        if (tmp[i] == '\n') { memcpy(msg + ml, " ## ", 4); ml += 4; }
        else if ((unsigned char) tmp[i] >= 32) msg[ml++] = tmp[i];
      }
    }
    if (timed_out) kill(pid, SIGKILL);
    int status = 0; waitpid(pid, &status, 0);
    char res[256]; ssize_t rl = read(rp[0], res, sizeof res - 1); if (rl < 0) rl = 0; res[rl] = 0;
    close(ep[0]); close(rp[0]);
    msg[ml] = 0;
    char hdr[20] = "-";
    for (size_t i = 0; i < 8 && i < len; i++) sprintf(hdr + 2 * i, "%02x", buf[i]);
    free(buf);
    if (timed_out) printf("%s TIMEOUT len=%zu hdr=%s\n", t[0], len, hdr);
    else if (WIFEXITED(status) && WEXITSTATUS(status) == 0) printf("%s ok %s len=%zu hdr=%s\n", t[0], res, len, hdr);
    else
      printf("%s CRASH exit=%d signal=%d len=%zu hdr=%s msg=%s\n", t[0], WIFEXITED(status) ? WEXITSTATUS(status) : -1,
             WIFSIGNALED(status) ? WTERMSIG(status) : 0, len, hdr, msg);
    fflush(stdout);
  }
  yr_rules_destroy(rules);
  yr_finalize();
  free(line); free(seed_buf);
  return 0;
}
