// C10 harness: a history of scan calls on ONE scanner; after every call the same logical scan is
// replayed on a freshly created scanner with the same settings (reference).
//   ops=<op>;<op>;...   op = S/<input>/<sched>/<cb>/<stack>/<nofs>   start a scan with a new iterator
//                            R/<input>/<sched>/<cb>/<stack>/<nofs>   start a scan of another input with the SAME iterator
//                                                                      object: its last_error is not reset
//                            C                                         call again with the same iterator (only
//                                                                      performed if the last call returned BLOCK_NOT_READY)
// output:  <id> <trace op1>|<trace op2>|... # <reference traces> # leak=<0|1>
#include "scan_common.h"
#include <signal.h>
// a case that does not finish is reported with its id instead of stalling the whole run
static char vf_current[128];
static void vf_alarm(int sig) { (void) sig; fprintf(stderr, "CASE-HANGS %s (no result after 300 s)\n", vf_current); _exit(97); }

#define MAXOPS 24

typedef struct { char kind; int in; char sched[64]; char cb[16]; char stk[16]; int nofs; int flags; char pk; } OP;

static int parse_ops(const char* f, OP* ops)
{
  char* s = strdup(f); char* parts[MAXOPS];
  int n = splitc(s, ';', parts, MAXOPS);
  for (int i = 0; i < n; i++)
  {
    char* p[6] = {0}; int np = splitc(parts[i], '/', p, 6);
    memset(&ops[i], 0, sizeof(OP));
    ops[i].kind = p[0][0];
    if (ops[i].kind == 'S' || ops[i].kind == 'R')
    {
      if (np < 5) DIE("bad op");
      ops[i].in = atoi(p[1]);
      snprintf(ops[i].sched, sizeof ops[i].sched, "%s", p[2]);
      snprintf(ops[i].cb, sizeof ops[i].cb, "%s", p[3]);
      snprintf(ops[i].stk, sizeof ops[i].stk, "%s", p[4]);
      ops[i].nofs = np > 5 ? atoi(p[5]) : 0;
    }
    else if (ops[i].kind == 'F') { if (np < 2) DIE("bad op"); ops[i].flags = atoi(p[1]); }
    else if (ops[i].kind == 'P')
    {
      if (np < 3) DIE("bad op");
      ops[i].pk = p[1][0];
      snprintf(ops[i].cb, sizeof ops[i].cb, "%s", p[2]);
    }
  }
  free(s);
  return n;
}

typedef struct { ITCTX ic; YR_MEMORY_BLOCK_ITERATOR it; CBCTX t; } RUN;

static YR_SCANNER* mk_scanner(YR_RULES* rules, int flags, int timeout, RUN* r)
{
  YR_SCANNER* sc = NULL;
  if (yr_scanner_create(rules, &sc) != ERROR_SUCCESS) DIE("scanner create");
  yr_scanner_set_flags(sc, flags);
  yr_scanner_set_timeout(sc, timeout);
  yr_scanner_set_callback(sc, vf_scan_cb, &r->t);
  r->t.rules = rules;
  return sc;
}

// yr_scanner_scan_proc: what the process memory contains is not known to the model, only the kind of outcome is printed
static int do_proc(YR_SCANNER* sc, RUN* r, OP* op)
{
  cb_script(&r->t, op->cb);
  set_stack("-");
  tr_reset(&r->t);
  int rc = yr_scanner_scan_proc(sc, op->pk == 'x' ? 0x3ffffff0 : (int) get_child());
  tr_reset(&r->t);
  tr_add(&r->t, "%s", rc == ERROR_COULD_NOT_ATTACH_TO_PROCESS ? "P:NOATTACH" : "P:DONE");
  return rc;
}

// keep_error >= 0: the caller re-uses its iterator object: everything is re-pointed at the new input but `last_error` keeps the
// value the previous scan left there (given explicitly for the reference scanner)
static int do_call(YR_SCANNER* sc, RUN* r, OP* op, INPUT* ins, int is_start, int keep_error)
{
  if (is_start)
  {
    it_init(&r->it, &r->ic, &ins[op->in], op->sched, sc, op->nofs);
    if (keep_error >= 0) r->it.last_error = keep_error;
    cb_script(&r->t, op->cb);
    set_stack(op->stk);
  }
  tr_reset(&r->t);
  r->ic.ended = 0;
  int rc = yr_scanner_scan_mem_blocks(sc, &r->it);
  tr_rc(&r->t, rc);
  return rc;
}

// --describe: <id> rs=<hex>  ->  <id> nrules=<n> nstrings=<n> noreq=<bit per rule> fixed=<offset or - per string>
static int describe(void)
{
  char* line = NULL; size_t cap = 0; static char* toks[8];
  yr_initialize();
  while (getline(&line, &cap, stdin) > 0)
  {
    int n = split(line, toks, 8);
    if (n < 2) continue;
    YR_RULES* rules = get_rules(field(toks, n, "rs"));
    printf("%s nrules=%u nstrings=%u noreq=", toks[0], rules->num_rules, rules->num_strings);
    for (uint32_t i = 0; i < rules->num_rules; i++) putchar(yr_bitmask_is_set(rules->no_required_strings, i) ? '1' : '0');
    printf(" single=");
    for (uint32_t i = 0; i < rules->num_strings; i++) putchar(STRING_IS_SINGLE_MATCH(&rules->strings_table[i]) ? '1' : '0');
    printf(" chain=");
    {
      int any = 0;
      for (uint32_t i = 0; i < rules->num_strings; i++)
      {
        YR_STRING* st = &rules->strings_table[i];
        if (!STRING_IS_CHAIN_PART(st)) continue;
        printf("%s%u:%d:%d:%d:%d", any ? "," : "", i, st->chained_to ? (int) st->chained_to->idx : -1, st->chain_gap_min, st->chain_gap_max,
               STRING_IS_CHAIN_TAIL(st) ? 1 : 0);
        any = 1;
      }
      if (!any) printf("-");
    }
    printf(" fixed=");
    for (uint32_t i = 0; i < rules->num_strings; i++)
    {
      YR_STRING* st = &rules->strings_table[i];
      if (STRING_IS_FIXED_OFFSET(st)) printf("%s%" PRId64, i ? "," : "", st->fixed_offset); else printf("%s-", i ? "," : "");
    }
    printf("\n");
  }
  free_rules_cache(); yr_finalize(); free(line);
  return 0;
}

int main(int argc, char** argv)
{
  if (argc > 1 && !strcmp(argv[1], "--describe")) return describe();
  char* line = NULL; size_t cap = 0;
  static char* toks[64];
  static INPUT ins[MAXIN]; static OP ops[MAXOPS];
  static RUN mainr, refr;
  int leaked_before = 0;
  yr_initialize();
  while (getline(&line, &cap, stdin) > 0)
  {
    int n = split(line, toks, 64);
    if (n < 1) continue;
    snprintf(vf_current, sizeof vf_current, "%s", toks[0]);
    signal(SIGALRM, vf_alarm); alarm(300);
    const char* rs = field(toks, n, "rs"); const char* inf = field(toks, n, "in"); const char* opf = field(toks, n, "ops");
    if (!rs || !inf || !opf) DIE("missing field in case %s", toks[0]);
    int flags = atoi(field(toks, n, "fl") ? field(toks, n, "fl") : "0");
    int timeout = atoi(field(toks, n, "to") ? field(toks, n, "to") : "0");
    YR_RULES* rules = get_rules(rs);
    int nin = parse_inputs(inf, ins);
    int nops = parse_ops(opf, ops);
    char* main_tr[MAXOPS]; char* ref_tr[MAXOPS];
    YR_SCANNER* sc = mk_scanner(rules, flags, timeout, &mainr);
    int last_start = -1, last_rc = ERROR_SUCCESS, stale = -1, have_it = 0;
    for (int k = 0; k < nops; k++)
    {
      if (ops[k].kind == 'F')
      {
        flags = ops[k].flags;
        yr_scanner_set_flags(sc, flags);
        main_tr[k] = strdup("set"); ref_tr[k] = strdup("set");
        continue;
      }
      if (ops[k].kind == 'P')
      {
        int prc = do_proc(sc, &mainr, &ops[k]);
        if (prc != ERROR_COULD_NOT_ATTACH_TO_PROCESS) last_rc = prc;   // a failed attach does not touch the scanner: a suspended scan stays resumable
        main_tr[k] = strdup(mainr.t.buf);
        YR_SCANNER* scp = mk_scanner(rules, flags, timeout, &refr);
        do_proc(scp, &refr, &ops[k]);
        ref_tr[k] = strdup(refr.t.buf);
        yr_scanner_destroy(scp);
        continue;
      }
      if (ops[k].kind == 'S' || ops[k].kind == 'R')
      {
        last_start = k;
        stale = (ops[k].kind == 'R' && have_it) ? mainr.it.last_error : -1;
        have_it = 1;
      }
      if (last_start < 0 || (ops[k].kind == 'C' && last_rc != ERROR_BLOCK_NOT_READY))
      {
        main_tr[k] = strdup("skip"); ref_tr[k] = strdup("skip");
        continue;
      }
      last_rc = do_call(sc, &mainr, &ops[k], ins, ops[k].kind != 'C', stale);
      main_tr[k] = strdup(mainr.t.buf);
      // reference: the same logical scan, from its start, on a fresh scanner with the same settings
      YR_SCANNER* sc2 = mk_scanner(rules, flags, timeout, &refr);
      for (int j = last_start; j <= k; j++)
      {
        if (j > last_start && ops[j].kind != 'C') continue;
        do_call(sc2, &refr, &ops[last_start], ins, j == last_start, stale);
      }
      ref_tr[k] = strdup(refr.t.buf);
      yr_scanner_destroy(sc2);
      if (ops[k].kind != 'C') set_stack(ops[k].stk);
    }
    yr_scanner_destroy(sc);
    set_stack("-");
    free_inputs(ins, nin);
    printf("%s ", toks[0]);
    for (int k = 0; k < nops; k++) { printf("%s%s", k ? "|" : "", main_tr[k]); free(main_tr[k]); }
    printf(" # ");
    for (int k = 0; k < nops; k++) { printf("%s%s", k ? "|" : "", ref_tr[k]); free(ref_tr[k]); }
    int leak = 0;
    if (!leaked_before) { leak = VF_LEAK_CHECK() ? 1 : 0; leaked_before = leak; }
    printf(" # leak=%s\n", leak ? "1" : leaked_before ? "unknown" : "0");
    fflush(stdout);
  }
  free(mainr.t.buf); free(refr.t.buf);
  free_rules_cache();
  yr_finalize();
  free(line);
  fflush(stdout);
  if (leaked_before) _exit(0);   // already reported per case; skip the at-exit report
  return 0;
}
