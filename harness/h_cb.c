// C11 harness: builds a rule set from the case line, scans with a scripted callback and prints
// the ordered message list + return code of every scan (format: see lean/Driver/Cb.lean).
#include "common.h"
#include <sys/prctl.h>
#include <sys/wait.h>
#include <signal.h>
#include <unistd.h>
#include <fcntl.h>

#define MAXITEMS 512
#define SRCMAX 65536

typedef struct
{
  const char* script;  // answers, one char per message (c/a/e); CONTINUE once exhausted
  size_t pos;
} CB;

static int scan_cb(YR_SCAN_CONTEXT* ctx, int msg, void* data, void* ud)
{
  CB* cb = (CB*) ud;
  switch (msg)
  {
  case CALLBACK_MSG_TOO_MANY_MATCHES:
  {
    YR_STRING* st = (YR_STRING*) data;
    YR_RULE* ru = &ctx->rules->rules_table[st->rule_idx];
    printf(" TM:%s.%s.%s", ru->ns->name, ru->identifier, st->identifier);
    break;
  }
  case CALLBACK_MSG_IMPORT_MODULE:
    printf(" IMP:%s", ((YR_MODULE_IMPORT*) data)->module_name);
    break;
  case CALLBACK_MSG_MODULE_IMPORTED:
    printf(" MOD:%s", ((YR_OBJECT*) data)->identifier);
    break;
  case CALLBACK_MSG_RULE_MATCHING:
    printf(" M:%s.%s", ((YR_RULE*) data)->ns->name, ((YR_RULE*) data)->identifier);
    break;
  case CALLBACK_MSG_RULE_NOT_MATCHING:
    printf(" N:%s.%s", ((YR_RULE*) data)->ns->name, ((YR_RULE*) data)->identifier);
    break;
  case CALLBACK_MSG_SCAN_FINISHED:
    printf(" FIN");
    break;
  default:
    printf(" OTHER:%d", msg);
  }
  int r = CALLBACK_CONTINUE;
  if (cb->pos < strlen(cb->script))
  {
    char c = cb->script[cb->pos];
    r = c == 'a' ? CALLBACK_ABORT : c == 'e' ? CALLBACK_ERROR : CALLBACK_CONTINUE;
  }
  cb->pos++;
  return r;
}

static const char* ns_name(int ns)
{
  static char nm[32];
  if (ns <= 2) return ns == 0 ? NULL : ns == 1 ? "a" : "b";
  snprintf(nm, sizeof nm, "ns%d", ns);
  return nm;
}

// append the YARA text of one atom; string atoms add a definition to `strs`
static void atom_text(const char* a, char* cond, size_t* co, char* strs, size_t* so, int* nstr)
{
  switch (a[0])
  {
  case 'T': *co += snprintf(cond + *co, SRCMAX - *co, "true"); break;
  case 'F': *co += snprintf(cond + *co, SRCMAX - *co, "false"); break;
  case 'U': *co += snprintf(cond + *co, SRCMAX - *co, "uint8(100000) == 1"); break;   // undefined on every test buffer
  case 'z': *co += snprintf(cond + *co, SRCMAX - *co, "filesize > %s", a + 1); break;
  case 'I':
  {
    static const char* INTCOND[] = {"-1", "3 - filesize", "~uint8(1)", "int8(0)", "filesize - 5", "0 - filesize"};
    int k = atoi(a + 1);
    if (k < 0 || k > 5) DIE("bad integer atom %s", a);
    *co += snprintf(cond + *co, SRCMAX - *co, "%s", INTCOND[k]);
    break;
  }
  case 'y': *co += snprintf(cond + *co, SRCMAX - *co, "filesize < %s", a + 1); break;
  case 'r': *co += snprintf(cond + *co, SRCMAX - *co, "r%s", a + 1); break;
  case 'x': *co += snprintf(cond + *co, SRCMAX - *co, "not r%s", a + 1); break;
  case 's': case 'n': case 'c':       // $s / not $s / #s > N  (c<N>_<hex>)
  case 'S': case 'N': case 'C':       // the same with a `private` string
  {
    int priv = a[0] >= 'A' && a[0] <= 'Z';
    char kind = priv ? a[0] - 'A' + 'a' : a[0];
    const char* h = a + 1;
    long cnt = 0;
    if (kind == 'c')
    {
      cnt = strtol(a + 1, NULL, 10);
      h = strchr(a, '_');
      if (!h) DIE("bad count atom %s", a);
      h++;
    }
    *so += snprintf(strs + *so, SRCMAX - *so, " $s%d = {", *nstr);
    for (; h[0] && h[1]; h += 2) *so += snprintf(strs + *so, SRCMAX - *so, " %c%c", h[0], h[1]);
    *so += snprintf(strs + *so, SRCMAX - *so, " }%s", priv ? " private" : "");
    if (kind == 'c') *co += snprintf(cond + *co, SRCMAX - *co, "#s%d > %ld", *nstr, cnt);
    else *co += snprintf(cond + *co, SRCMAX - *co, "%s$s%d", kind == 'n' ? "not " : "", *nstr);
    (*nstr)++;
    break;
  }
  default: DIE("bad atom %s", a);
  }
}

// cond "a&b|c" -> "((A and B) or C)"
static void rule_text(char* src, size_t* off, int idx, const char* kind, char* condspec)
{
  static char cond[SRCMAX], strs[SRCMAX];
  size_t co = 0, so = 0; int nstr = 0;
  cond[0] = strs[0] = 0;
  for (char* q = condspec; *q; q++)
    if (*q == '&' || *q == '|') co += snprintf(cond + co, SRCMAX - co, "(");
  char* p = condspec;
  int first = 1;
  while (1)
  {
    char* q = p;
    while (*q && *q != '&' && *q != '|') q++;
    char op = *q;
    *q = 0;
    atom_text(p, cond, &co, strs, &so, &nstr);
    if (!first) co += snprintf(cond + co, SRCMAX - co, ")");
    if (!op) break;
    co += snprintf(cond + co, SRCMAX - co, " %s ", op == '&' ? "and" : "or");
    first = 0;
    p = q + 1;
  }
  *off += snprintf(src + *off, SRCMAX - *off, "%s%srule r%d {%s%s condition: %s }\n",
                   strchr(kind, 'g') ? "global " : "", strchr(kind, 'p') ? "private " : "", idx,
                   nstr ? " strings:" : "", strs, cond);
}

// ---- scan kinds other than yr_scanner_scan_mem
// a single-block iterator over the buffer; `file_size` is NULL for kind 'b' (filesize undefined), a function for kind 'B'
typedef struct { YR_MEMORY_BLOCK blk; const uint8_t* data; size_t size; } ONEBLK;
static const uint8_t* ob_fetch(YR_MEMORY_BLOCK* b) { return ((ONEBLK*) b->context)->data; }
static YR_MEMORY_BLOCK* ob_first(YR_MEMORY_BLOCK_ITERATOR* it)
{
  ONEBLK* o = (ONEBLK*) it->context;
  o->blk.size = o->size; o->blk.base = 0; o->blk.context = o; o->blk.fetch_data = ob_fetch;
  it->last_error = ERROR_SUCCESS;
  return &o->blk;
}
static YR_MEMORY_BLOCK* ob_next(YR_MEMORY_BLOCK_ITERATOR* it) { it->last_error = ERROR_SUCCESS; return NULL; }
static uint64_t ob_size(YR_MEMORY_BLOCK_ITERATOR* it) { return ((ONEBLK*) it->context)->size; }

// a small process for yr_scanner_scan_proc: one per harness process, dies with it. What its memory contains is not
// known to the model: the process scan is only a step of the history, its messages are not printed.
static pid_t vf_child = 0;
static void kill_child(void) { if (vf_child > 0) { kill(vf_child, SIGKILL); waitpid(vf_child, NULL, 0); vf_child = 0; } }
static pid_t get_child(void)
{
  if (vf_child > 0) return vf_child;
  fflush(stdout);
  vf_child = fork();
  if (vf_child == 0)
  {
    prctl(PR_SET_PDEATHSIG, SIGKILL);
    int nul = open("/dev/null", O_RDWR); dup2(nul, 0); dup2(nul, 1); dup2(nul, 2);
    execlp("sleep", "sleep", "100000", (char*) NULL);
    _exit(127);
  }
  atexit(kill_child);
  // wait until the child has become `sleep` (before the exec it is a copy of this sanitized process)
  for (int i = 0; i < 2000; i++)
  {
    char p[64], cmd[32] = {0};
    snprintf(p, sizeof p, "/proc/%d/cmdline", (int) vf_child);
    FILE* f = fopen(p, "r");
    if (f) { size_t n = fread(cmd, 1, sizeof cmd - 1, f); fclose(f); if (n >= 5 && !strncmp(cmd, "sleep", 5)) break; }
    usleep(5000);
  }
  return vf_child;
}
static int quiet_cb(YR_SCAN_CONTEXT* ctx, int msg, void* data, void* ud) { return CALLBACK_CONTINUE; }

static const char* kvget(char** toks, int n, const char* key)
{
  size_t l = strlen(key);
  for (int i = 1; i < n; i++)
    if (!strncmp(toks[i], key, l) && toks[i][l] == '=') return toks[i] + l + 1;
  DIE("missing %s", key);
}

int main()
{
  char* line = NULL; size_t cap = 0;
  static char* toks[64];
  static char src[SRCMAX];
  yr_initialize();
  while (getline(&line, &cap, stdin) > 0)
  {
    int n = split(line, toks, 64);
    if (n < 1) continue;
    printf("%s", toks[0]);
    int f = atoi(kvget(toks, n, "f"));
    char api = kvget(toks, n, "api")[0];
    char* bufspec = strdup(kvget(toks, n, "buf"));
    char* bs[16]; int nbufs = splitc(bufspec, '/', bs, 16);
    uint8_t* bufs[16]; size_t blens[16];
    for (int i = 0; i < nbufs; i++) bufs[i] = unhex(bs[i], &blens[i]);
    char* items = strdup(kvget(toks, n, "items"));
    char* scripts = strdup(kvget(toks, n, "scripts"));
    int flags = ((f & 1) ? SCAN_FLAGS_REPORT_RULES_MATCHING : 0) | ((f & 2) ? SCAN_FLAGS_REPORT_RULES_NOT_MATCHING : 0);
    // x: unrelated scan flags given together with the report flags (bit0 FAST_MODE, bit2 NO_TRYCATCH)
    int x = atoi(kvget(toks, n, "x"));
    flags |= ((x & 1) ? SCAN_FLAGS_FAST_MODE : 0) | ((x & 4) ? SCAN_FLAGS_NO_TRYCATCH : 0);

    YR_COMPILER* comp = NULL; YR_RULES* rules = NULL; YR_SCANNER* sc = NULL;
    yr_compiler_create(&comp);
    VF_ERRS e = {{0}, 0, 0};
    yr_compiler_set_callback(comp, vf_compiler_cb, &e);

    char* its[MAXITEMS]; int nit = items[0] ? splitc(items, ';', its, MAXITEMS) : 0;
    int ridx = 0, cur_ns = -1, errs = 0; size_t off = 0; src[0] = 0;
    for (int i = 0; i <= nit && !errs; i++)
    {
      char* p[4]; int np = 0, ns = -2;
      if (i < nit && its[i][0]) { np = splitc(its[i], ':', p, 4); ns = atoi(p[1]); }
      if ((i == nit || ns != cur_ns) && off > 0)
      {  // consecutive items of one namespace form one source text
        errs = yr_compiler_add_string(comp, src, ns_name(cur_ns));
        off = 0; src[0] = 0;
      }
      if (i == nit || np == 0) continue;
      cur_ns = ns;
      if (p[0][0] == 'i' && np == 3) off += snprintf(src + off, SRCMAX - off, "import \"%s\"\n", p[2]);
      else if (p[0][0] == 'r' && np == 4) rule_text(src, &off, ridx++, p[2], p[3]);
      else DIE("bad item");
    }
    if (errs) { printf(" CERR:%s\n", e.msg); goto done; }
    int rc = yr_compiler_get_rules(comp, &rules);
    if (rc != ERROR_SUCCESS) { printf(" RULES:%s\n", errname(rc)); goto done; }
    if (api != 'r')
    {
      rc = yr_scanner_create(rules, &sc);
      if (rc != ERROR_SUCCESS) { printf(" SCANNER:%s\n", errname(rc)); goto done; }
      if (api == 's') yr_scanner_set_flags(sc, flags);
    }
    {
      char* ss[128]; int nss = splitc(scripts, '/', ss, 128);
      for (int k = 0; k < nss; k++)
      {
        // scan kind: "p" = process scan (history step only), "b:<script>" / "B:<script>" = block iterator without /
        // with a file_size function, otherwise yr_scanner_scan_mem
        char kind = 'm'; char* script = ss[k];
        if (!strcmp(script, "p")) kind = 'p';
        else if ((script[0] == 'b' || script[0] == 'B') && script[1] == ':') { kind = script[0]; script += 2; }
        CB cb = {strcmp(script, "-") ? script : "", 0};
        uint8_t* buf = bufs[k % nbufs]; size_t blen = blens[k % nbufs];
        if (k) printf(" |");
        if (script[0] == 'F')
        {  // F<f>_<x>: yr_scanner_set_flags at this point of the history
          int f2 = atoi(script + 1); const char* us = strchr(script, '_'); int x2 = us ? atoi(us + 1) : 0;
          flags = ((f2 & 1) ? SCAN_FLAGS_REPORT_RULES_MATCHING : 0) | ((f2 & 2) ? SCAN_FLAGS_REPORT_RULES_NOT_MATCHING : 0) |
                  ((x2 & 1) ? SCAN_FLAGS_FAST_MODE : 0) | ((x2 & 4) ? SCAN_FLAGS_NO_TRYCATCH : 0);
          if (sc) yr_scanner_set_flags(sc, flags);
          printf(" SETF");
          continue;
        }
        if (kind == 'p')
        {
          if (api == 'r') yr_rules_scan_proc(rules, (int) get_child(), flags, quiet_cb, NULL, 0);
          else { yr_scanner_set_callback(sc, quiet_cb, NULL); yr_scanner_scan_proc(sc, (int) get_child()); }
          printf(" PROC");
          continue;
        }
        ONEBLK ob; YR_MEMORY_BLOCK_ITERATOR it;
        memset(&ob, 0, sizeof ob); memset(&it, 0, sizeof it);
        ob.data = buf; ob.size = blen;
        it.context = &ob; it.first = ob_first; it.next = ob_next; it.file_size = kind == 'B' ? ob_size : NULL;
        it.last_error = ERROR_SUCCESS;
        if (api == 'r')
          rc = kind == 'm' ? yr_rules_scan_mem(rules, buf, blen, flags, scan_cb, &cb, 0)
                           : yr_rules_scan_mem_blocks(rules, &it, flags, scan_cb, &cb, 0);
        else
        {
          yr_scanner_set_callback(sc, scan_cb, &cb);
          rc = kind == 'm' ? yr_scanner_scan_mem(sc, buf, blen) : yr_scanner_scan_mem_blocks(sc, &it);
        }
        printf(" rc=%s", errname(rc));
      }
    }
    printf("\n");
  done:
    if (sc) yr_scanner_destroy(sc);
    if (rules) yr_rules_destroy(rules);
    if (comp) yr_compiler_destroy(comp);
    for (int i = 0; i < nbufs; i++) free(bufs[i]);
    free(bufspec); free(items); free(scripts);
  }
  yr_finalize();
  free(line);
  return 0;
}
