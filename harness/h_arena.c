// Arena correspondence harness: drives the real arena API (arena.c) with an op sequence per line;
// the Lean model (lean/Driver/Arena.lean) executes the same line.  One output token per op.
//   create:<n>:<init>            yr_arena_create
//   move:<0|1>                   hook yr_verif_arena_always_move
//   w:<b>:<hex>                  yr_arena_write_data                 -> <b>.<off> | error
//   z:<b>:<size>                 yr_arena_allocate_zeroed_memory     -> <b>.<off> | error
//   s:<b>:<size>:<o>.<o>…|-      yr_arena_allocate_struct(…offsets…) -> <b>.<off> | error
//   r:<b>:<off>                  yr_arena_make_ptr_relocatable
//   sp:<b>.<off>:<tb>.<to>|null  *(void**)slot = yr_arena_ref_to_ptr(target)
//   p:<b>:<tb>.<to>|null         write_data(&ptr) + make_ptr_relocatable (parser.c emit_with_arg_reloc)
//   k:<b>.<off>:<hex>            memcpy into allocated memory
//   ref:<b>.<off>                yr_arena_ptr_to_ref of the pointer stored in the slot -> <b>.<off> | null | notfound
//   rt:<tb>.<to>|null            yr_arena_ptr_to_ref(yr_arena_ref_to_ptr(target)) -> <b>.<off> | null | notfound
//   rs:<b>.<off>:<target>:<0|1>  make_ptr_relocatable(slot) and *(void**)slot = yr_arena_ref_to_ptr(target); 1: store first, then register
//   save                         yr_arena_save_stream -> S=<hex image>
//   load:<mut>:<seed>:<maxchunk> save, mutate (full | p<n> | w<off>:<hex>… written w<off>.<hex>), yr_arena_load_stream through a
//                                chunking stream -> L=<rc>[:<hex image re-saved from the loaded arena>:<read requests>]
// An assert of arena.c aborts the (forked) case: token ASSERT, the rest of the line is dropped.
#include "arena_rules.h"

static YR_ARENA* A;

static int parse_ref(const char* s, YR_ARENA_REF* r)
{
  if (!strcmp(s, "null")) { *r = YR_ARENA_NULL_REF; return 1; }
  unsigned b, o;
  if (sscanf(s, "%u.%u", &b, &o) != 2) return 0;
  r->buffer_id = b; r->offset = o;
  return 1;
}

static void show_ref(YR_ARENA_REF r)
{
  if (YR_ARENA_IS_NULL_REF(r)) printf(" null"); else printf(" %u.%u", r.buffer_id, r.offset);
}

static int save_arena(YR_ARENA* a, MS* m)
{
  YR_STREAM st; st.user_data = m; st.write = ms_write; st.read = NULL;
  return yr_arena_save_stream(a, &st);
}

static void child(void* arg)
{
  CASE* c = (CASE*) arg;
  for (int t = 1; t < c->n; t++)
  {
    char* p[5]; char* tok = strdup(c->toks[t]);
    int np = splitc(tok, ':', p, 5);
    if (!strcmp(p[0], "create") && np == 3)
    {
      int rc = yr_arena_create((uint32_t) atoi(p[1]), (size_t) strtoull(p[2], 0, 10), &A);
      printf(" %s", errname(rc));
    }
    else if (!strcmp(p[0], "move") && np == 2) { yr_verif_arena_always_move = atoi(p[1]); printf(" OK"); }
    else if (!strcmp(p[0], "w") && np == 3)
    {
      size_t l; uint8_t* d = unhex(p[2], &l); YR_ARENA_REF r;
      int rc = yr_arena_write_data(A, (uint32_t) atoi(p[1]), d, l, &r);
      if (rc == ERROR_SUCCESS) show_ref(r); else printf(" %s", errname(rc));
      free(d);
    }
    else if (!strcmp(p[0], "z") && np == 3)
    {
      YR_ARENA_REF r;
      int rc = yr_arena_allocate_zeroed_memory(A, (uint32_t) atoi(p[1]), (size_t) strtoull(p[2], 0, 10), &r);
      if (rc == ERROR_SUCCESS) show_ref(r); else printf(" %s", errname(rc));
    }
    else if (!strcmp(p[0], "s") && np == 4)
    {
      size_t o[6]; int no = 0;
      if (strcmp(p[3], "-")) { char* q[6]; no = splitc(p[3], '.', q, 6); for (int i = 0; i < no; i++) o[i] = (size_t) strtoull(q[i], 0, 10); }
      for (int i = no; i < 6; i++) o[i] = EOL;
      YR_ARENA_REF r;
      int rc = yr_arena_allocate_struct(A, (uint32_t) atoi(p[1]), (size_t) strtoull(p[2], 0, 10), &r, o[0], o[1], o[2], o[3], o[4], o[5], EOL);
      if (rc == ERROR_SUCCESS) show_ref(r); else printf(" %s", errname(rc));
    }
    else if (!strcmp(p[0], "r") && np == 3)
    {
      int rc = yr_arena_make_ptr_relocatable(A, (uint32_t) atoi(p[1]), (size_t) strtoull(p[2], 0, 10), EOL);
      printf(" %s", errname(rc));
    }
    else if (!strcmp(p[0], "sp") && np == 3)
    {
      YR_ARENA_REF slot, target;
      if (!parse_ref(p[1], &slot) || !parse_ref(p[2], &target)) { printf(" BADOP"); continue; }
      void* v = yr_arena_ref_to_ptr(A, &target);
      memcpy((uint8_t*) yr_arena_get_ptr(A, slot.buffer_id, slot.offset), &v, sizeof v);
      printf(" OK");
    }
    else if (!strcmp(p[0], "p") && np == 3)
    {
      YR_ARENA_REF target, r;
      if (!parse_ref(p[2], &target)) { printf(" BADOP"); continue; }
      void* v = yr_arena_ref_to_ptr(A, &target);
      uint32_t b = (uint32_t) atoi(p[1]);
      int rc = yr_arena_write_data(A, b, &v, sizeof v, &r);
      if (rc == ERROR_SUCCESS) rc = yr_arena_make_ptr_relocatable(A, b, (size_t) r.offset, EOL);
      if (rc == ERROR_SUCCESS) show_ref(r); else printf(" %s", errname(rc));
    }
    else if (!strcmp(p[0], "k") && np == 3)
    {
      YR_ARENA_REF at; size_t l;
      if (!parse_ref(p[1], &at)) { printf(" BADOP"); continue; }
      uint8_t* d = unhex(p[2], &l);
      memcpy((uint8_t*) yr_arena_get_ptr(A, at.buffer_id, at.offset), d, l);
      free(d);
      printf(" OK");
    }
    else if (!strcmp(p[0], "ref") && np == 2)
    {
      YR_ARENA_REF slot, r; void* v;
      if (!parse_ref(p[1], &slot)) { printf(" BADOP"); continue; }
      memcpy(&v, (uint8_t*) yr_arena_get_ptr(A, slot.buffer_id, slot.offset), sizeof v);
      if (yr_arena_ptr_to_ref(A, v, &r)) show_ref(r); else printf(" notfound");
    }
    else if (!strcmp(p[0], "rt") && np == 2)
    {
      YR_ARENA_REF target, r;
      if (!parse_ref(p[1], &target)) { printf(" BADOP"); continue; }
      void* v = yr_arena_ref_to_ptr(A, &target);
      if (yr_arena_ptr_to_ref(A, v, &r)) show_ref(r); else printf(" notfound");
    }
    else if (!strcmp(p[0], "rs") && np == 4)
    {
      YR_ARENA_REF slot, target;
      if (!parse_ref(p[1], &slot) || !parse_ref(p[2], &target)) { printf(" BADOP"); continue; }
      int store_first = atoi(p[3]);
      int rc = ERROR_SUCCESS;
      void* v = yr_arena_ref_to_ptr(A, &target);
      if (store_first) memcpy((uint8_t*) yr_arena_get_ptr(A, slot.buffer_id, slot.offset), &v, sizeof v);
      rc = yr_arena_make_ptr_relocatable(A, slot.buffer_id, (size_t) slot.offset, EOL);
      if (!store_first) memcpy((uint8_t*) yr_arena_get_ptr(A, slot.buffer_id, slot.offset), &v, sizeof v);
      printf(" %s", errname(rc));
    }
    else if (!strcmp(p[0], "save") && np == 1)
    {
      MS m = {0};
      int rc = save_arena(A, &m);
      if (rc != ERROR_SUCCESS) printf(" S=%s", errname(rc));
      else { SB h = {0}; sb_hex(&h, m.p, m.len); printf(" S=%s", sb_str(&h)); sb_free(&h); }
      ms_free(&m);
    }
    else if (!strcmp(p[0], "load") && np >= 4)
    {
      // p[1] = mutation ("w<off>.<hex>" uses '.' because ':' separates the op fields)
      MS m = {0};
      int rc = save_arena(A, &m);
      if (rc != ERROR_SUCCESS) { printf(" L=SAVE-%s", errname(rc)); continue; }
      size_t len = m.len;
      if (p[1][0] == 'p') { size_t n = strtoull(p[1] + 1, 0, 10); if (n < len) len = n; }
      else if (p[1][0] == 'w')
      {
        char* dot = strchr(p[1], '.');
        size_t off = strtoull(p[1] + 1, 0, 10), l; uint8_t* d = unhex(dot ? dot + 1 : "-", &l);
        if (off + l <= m.len) memcpy(m.p + off, d, l);
        free(d);
      }
      MS rd = {0}; rd.p = m.p; rd.len = len; rd.tracing = 1;
      rd.rs = strtoull(p[2], 0, 10); rd.maxchunk = strtoull(p[3], 0, 10);
      YR_STREAM st; st.user_data = &rd; st.read = ms_read; st.write = NULL;
      YR_ARENA* loaded = NULL;
      rc = yr_arena_load_stream(&st, &loaded);
      printf(" L=%s", errname(rc)); fflush(stdout);
      size_t total = 0;
      if (rc == ERROR_SUCCESS)
        for (uint32_t i = 0; i < loaded->num_buffers; i++) total += loaded->buffers[i].used;
      if (rc == ERROR_SUCCESS && total > (1u << 22))
      {
        // a (wrongly) accepted image with a huge buffer: do not print gigabytes
        printf(":HUGE-%zu", total);
        yr_arena_release(loaded);
      }
      else if (rc == ERROR_SUCCESS)
      {
        MS m2 = {0};
        int rc2 = save_arena(loaded, &m2);
        SB h = {0}, tr = {0};
        if (rc2 == ERROR_SUCCESS) sb_hex(&h, m2.p, m2.len); else sb_add(&h, "SAVE-%s", errname(rc2));
        rle_trace(sb_str(&rd.trace), &tr);
        printf(":%s:%s", sb_str(&h), sb_str(&tr));
        yr_arena_release(loaded);
        ms_free(&m2); sb_free(&h); sb_free(&tr);
      }
      sb_free(&rd.trace);
      free(m.p);
    }
    else printf(" BADOP");
    fflush(stdout);
    free(tok);
  }
  if (A) yr_arena_release(A);
}

int main()
{
  char* line = NULL; size_t cap = 0;
  static CASE c;
  yr_initialize();
  while (getline(&line, &cap, stdin) > 0)
  {
    case_parse(line, &c);
    if (c.n < 1) continue;
    A = NULL; yr_verif_arena_always_move = 0;
    SB out = {0};
    run_isolated(child, &c, &out, NULL);
    printf("%s %s\n", c.id, sb_str(&out));
    fflush(stdout);
    sb_free(&out);
  }
  return 0;
}
