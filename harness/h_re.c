// Regular-expression engine harness (C02, C03): one case per line, key=value tokens
//   <id> src=<hex rule text> [buf=<hex>] [code=1] [fx=1] [wfx=1] [atomq=<hex table>]
// output: <id> OK ast=<$id>:<ast flags>:<ast>;...            RE_AST handed out by yr_compiler_set_re_ast_callback
//              [code=<hex of YR_RE_CODE_SECTION> strs=<idx>:<flags hex>:<chained_to|->:<gap_min>:<gap_max>;...
//               acm=<string idx>:<backtrack>:<fwd off|->:<bwd off|->;...]           (code=1: the REAL bytecode)
//              [fx=<pair>:<sidx>:<fwd>:<bwd>|<p>:<a|w>:<F>:<o>.<l>,<o>.<l>..|...;...]   (fx=1: yr_re_exec / yr_re_fast_exec run on
//                     the real code exactly as _yr_scan_verify_re_match does, at every position p of buf)
//              [wfx=<$id>:<flags>|f<p>:<l>,<l>..|b<q>:<l>,..;...]                    (wfx=1: whole AST emitted into a private
//                     arena by yr_re_ast_emit_code, run exhaustively forwards from p and backwards from q)
//      or <id> CERR <errname> <line>
// AST text: l<hh> m<vv><mm> n<hh> k<vv><mm> . c<neg><64 hex> w W s S d D e ^ $ b B C(x,y) A(x,y) *<g|l>(x) +<g|l>(x)
//           R<g|l><lo>,<hi>(x) J<g|l><lo>,<hi>;  n-ary RE_NODE_CONCAT is folded to the right, a one-child concat is its child.
#include "common.h"
#include <yara/compiler.h>
#include <yara/re.h>
#include <stdarg.h>

static char* out; static size_t outcap, outlen;
static void emit(const char* fmt, ...)
{
  va_list ap;
  for (;;)
  {
    va_start(ap, fmt);
    int n = vsnprintf(out + outlen, outcap - outlen, fmt, ap);
    va_end(ap);
    if ((size_t) n < outcap - outlen) { outlen += n; return; }
    outcap = outcap * 2 + n + 16; out = (char*) realloc(out, outcap);
  }
}

static void dump_node(const RE_NODE* n);
static void dump_concat(const RE_NODE* child)
{
  if (child->next_sibling == NULL) { dump_node(child); return; }
  emit("C("); dump_node(child); emit(","); dump_concat(child->next_sibling); emit(")");
}

static void dump_node(const RE_NODE* n)
{
  char g = n->greedy ? 'g' : 'l';
  switch (n->type)
  {
  case RE_NODE_LITERAL: emit("l%02x", n->value & 0xFF); break;
  case RE_NODE_MASKED_LITERAL: emit("m%02x%02x", n->value & 0xFF, n->mask & 0xFF); break;
  case RE_NODE_NOT_LITERAL: emit("n%02x", n->value & 0xFF); break;
  case RE_NODE_MASKED_NOT_LITERAL: emit("k%02x%02x", n->value & 0xFF, n->mask & 0xFF); break;
  case RE_NODE_ANY: emit("."); break;
  case RE_NODE_CLASS:
    emit("c%d", n->re_class->negated ? 1 : 0);
    for (int i = 0; i < 32; i++) emit("%02x", n->re_class->bitmap[i]);
    break;
  case RE_NODE_WORD_CHAR: emit("w"); break;
  case RE_NODE_NON_WORD_CHAR: emit("W"); break;
  case RE_NODE_SPACE: emit("s"); break;
  case RE_NODE_NON_SPACE: emit("S"); break;
  case RE_NODE_DIGIT: emit("d"); break;
  case RE_NODE_NON_DIGIT: emit("D"); break;
  case RE_NODE_EMPTY: emit("e"); break;
  case RE_NODE_ANCHOR_START: emit("^"); break;
  case RE_NODE_ANCHOR_END: emit("$"); break;
  case RE_NODE_WORD_BOUNDARY: emit("b"); break;
  case RE_NODE_NON_WORD_BOUNDARY: emit("B"); break;
  case RE_NODE_CONCAT: dump_concat(n->children_head); break;
  case RE_NODE_ALT: emit("A("); dump_node(n->children_head); emit(","); dump_node(n->children_tail); emit(")"); break;
  case RE_NODE_STAR: emit("*%c(", g); dump_node(n->children_head); emit(")"); break;
  case RE_NODE_PLUS: emit("+%c(", g); dump_node(n->children_head); emit(")"); break;
  case RE_NODE_RANGE: emit("R%c%d,%d(", g, n->start, n->end); dump_node(n->children_head); emit(")"); break;
  case RE_NODE_RANGE_ANY: emit("J%c%d,%d", g, n->start, n->end); break;
  default: emit("?%d", n->type);
  }
}

// ---- whole-AST function level: private arena, yr_re_ast_emit_code, exhaustive runs
typedef struct { int n; int len[65536]; int off[65536]; const uint8_t* base; int dedup; uint8_t seen[2048]; } LENS;
static int collect_cb(const uint8_t* match, int match_length, int flags, void* args)
{
  LENS* l = (LENS*) args;
  if (l->dedup)
  {
    // whole-pattern runs only need the SET of lengths (the backward fast matcher reports many duplicates)
    if (match_length >= 0 && match_length < 2048) { if (l->seen[match_length]) return ERROR_SUCCESS; l->seen[match_length] = 1; }
  }
  if (l->n < 65536) { l->len[l->n] = match_length; l->off[l->n] = (int) (match - l->base); l->n++; }
  return ERROR_SUCCESS;
}
static int cmp_int(const void* a, const void* b) { return *(const int*) a - *(const int*) b; }

typedef struct { int first; int want_wfx; const uint8_t* buf; size_t buflen; YR_SCAN_CONTEXT* ctx; int sflags; } ASTCB;

static void wfx_run(const RE_AST* ast, ASTCB* st, const char* ident)
{
  YR_ARENA* arena = NULL;
  if (yr_arena_create(YR_RE_CODE_SECTION + 1, 4096, &arena) != ERROR_SUCCESS) return;
  yr_arena_off_t f0 = yr_arena_get_current_offset(arena, YR_RE_CODE_SECTION);
  if (yr_re_ast_emit_code((RE_AST*) ast, arena, false) != ERROR_SUCCESS) { yr_arena_release(arena); return; }
  yr_arena_off_t b0 = yr_arena_get_current_offset(arena, YR_RE_CODE_SECTION);
  if (yr_re_ast_emit_code((RE_AST*) ast, arena, true) != ERROR_SUCCESS) { yr_arena_release(arena); return; }
  yr_arena_off_t e0 = yr_arena_get_current_offset(arena, YR_RE_CODE_SECTION);
  const uint8_t* fcode = (const uint8_t*) yr_arena_get_ptr(arena, YR_RE_CODE_SECTION, f0);
  const uint8_t* bcode = (const uint8_t*) yr_arena_get_ptr(arena, YR_RE_CODE_SECTION, b0);
  if (st->want_wfx == 2)
  {
    // wcode: the bytes yr_re_ast_emit_code wrote (forward code, backward code), for the Lean emit model
    emit("%s%s:C:", st->first ? "" : ";", ident); st->first = 0;
    for (const uint8_t* p = fcode; p < bcode; p++) emit("%02x", *p);
    emit(":");
    for (const uint8_t* p = bcode; p < fcode + (e0 - f0); p++) emit("%02x", *p);
    yr_arena_release(arena);
    return;
  }
  int fast = (ast->flags & RE_FLAGS_FAST_REGEXP) != 0;
  static LENS L;
  for (int pass = 0; pass < 2; pass++)
  {
    // pass 0: byte mode, pass 1: wide mode (only when the case asks for it through sflags)
    if (pass == 0 && !(st->sflags & 1)) continue;
    if (pass == 1 && !(st->sflags & 2)) continue;
    int fl = (st->sflags & 4 ? RE_FLAGS_NO_CASE : 0) | (st->sflags & 8 ? RE_FLAGS_DOT_ALL : 0) | (pass ? RE_FLAGS_WIDE : 0);
    emit("%s%s:%c", st->first ? "" : ";", ident, pass ? 'w' : 'a'); st->first = 0;
    for (size_t p = 0; p <= st->buflen; p++)
    {
      L.n = 0; L.base = st->buf; L.dedup = 1; memset(L.seen, 0, sizeof L.seen);
      int rc = (fast ? yr_re_fast_exec : yr_re_exec)(st->ctx, fcode, st->buf + p, st->buflen - p, p, fl | RE_FLAGS_EXHAUSTIVE, collect_cb, &L, NULL);
      if (rc != ERROR_SUCCESS) { emit("|f%zu:E%s", p, errname(rc)); continue; }
      if (L.n)
      {
        qsort(L.len, L.n, sizeof(int), cmp_int);
        emit("|f%zu:", p);
        for (int i = 0, k = 0; i < L.n; i++) if (i == 0 || L.len[i] != L.len[i - 1]) emit("%s%d", k++ ? "," : "", L.len[i]);
      }
    }
    for (size_t q = 0; q <= st->buflen; q++)
    {
      L.n = 0; L.base = st->buf; L.dedup = 1; memset(L.seen, 0, sizeof L.seen);
      int rc = (fast ? yr_re_fast_exec : yr_re_exec)(st->ctx, bcode, st->buf + q, st->buflen - q, q, fl | RE_FLAGS_EXHAUSTIVE | RE_FLAGS_BACKWARDS, collect_cb, &L, NULL);
      if (rc != ERROR_SUCCESS) { emit("|b%zu:E%s", q, errname(rc)); continue; }
      if (L.n)
      {
        qsort(L.len, L.n, sizeof(int), cmp_int);
        emit("|b%zu:", q);
        for (int i = 0, k = 0; i < L.n; i++) if (i == 0 || L.len[i] != L.len[i - 1]) emit("%s%d", k++ ? "," : "", L.len[i]);
      }
    }
  }
  yr_arena_release(arena);
}

static char* astlog; static size_t astcap, astlen;
static char* wfxlog; static size_t wfxlen;

static void ast_cb(const YR_RULE* rule, const char* ident, const RE_AST* ast, void* ud)
{
  ASTCB* st = (ASTCB*) ud;
  // AST text goes to astlog (the shared `out` buffer is used as scratch)
  size_t save = outlen;
  emit("%s%s:%u:", astlen ? ";" : "", ident, ast->flags);
  dump_node(ast->root_node);
  size_t n = outlen - save;
  if (astlen + n + 1 > astcap) { astcap = (astlen + n + 1) * 2; astlog = (char*) realloc(astlog, astcap); }
  memcpy(astlog + astlen, out + save, n); astlen += n; astlog[astlen] = 0;
  outlen = save;
  if (st->want_wfx && st->ctx)
  {
    save = outlen;
    wfx_run(ast, st, ident);
    n = outlen - save;
    wfxlog = (char*) realloc(wfxlog, wfxlen + n + 1);
    memcpy(wfxlog + wfxlen, out + save, n); wfxlen += n; wfxlog[wfxlen] = 0;
    outlen = save;
  }
}

// ---- real-code function level (fx=1): mirrors _yr_scan_verify_re_match without the match list
typedef struct { YR_STRING* s; const uint8_t* f; const uint8_t* b; } PAIR;

int main()
{
  char* line = NULL; size_t cap = 0;
  static char* toks[64];
  outcap = 1 << 16; out = (char*) malloc(outcap);
  yr_initialize();
  // a scan context for the fiber / position pools: any compiled rule set will do
  YR_COMPILER* c0 = NULL; YR_RULES* r0 = NULL; YR_SCANNER* sc0 = NULL;
  yr_compiler_create(&c0); yr_compiler_add_string(c0, "rule z { condition: true }", NULL);
  yr_compiler_get_rules(c0, &r0); yr_scanner_create(r0, &sc0);
  while (getline(&line, &cap, stdin) > 0)
  {
    int n = split(line, toks, 64);
    if (n < 1) continue;
    outlen = 0; out[0] = 0; astlen = 0; wfxlen = 0;
    const char* src = NULL; uint8_t* buf = NULL; size_t buflen = 0; uint8_t* atomq = NULL; size_t atomqlen = 0;
    int want_code = 0, want_fx = 0, want_wfx = 0, sflags = 1;
    for (int i = 1; i < n; i++)
    {
      if (!strncmp(toks[i], "src=", 4)) src = toks[i] + 4;
      else if (!strncmp(toks[i], "buf=", 4)) buf = unhex(toks[i] + 4, &buflen);
      else if (!strncmp(toks[i], "code=", 5)) want_code = 1;
      else if (!strncmp(toks[i], "fx=", 3)) want_fx = 1;
      else if (!strncmp(toks[i], "wfx=", 4)) want_wfx = atoi(toks[i] + 4) == 2 ? 2 : 1;
      else if (!strncmp(toks[i], "atomq=", 6)) atomq = unhex(toks[i] + 6, &atomqlen);
      else if (!strncmp(toks[i], "fl=", 3))
      {
        const char* f = toks[i] + 3;
        sflags = (strchr(f, 'a') ? 1 : 0) | (strchr(f, 'w') ? 2 : 0) | (strchr(f, 'i') ? 4 : 0) | (strchr(f, 's') ? 8 : 0);
      }
    }
    if (!src) { printf("%s BAD no-src\n", toks[0]); fflush(stdout); continue; }
    if (!buf) { buf = (uint8_t*) malloc(1); buflen = 0; }
    YR_COMPILER* comp = NULL; YR_RULES* rules = NULL;
    VF_ERRS errs = {{0}, 0, 0};
    ASTCB st = {1, want_wfx, buf, buflen, sc0, sflags};
    yr_compiler_create(&comp);
    yr_compiler_set_callback(comp, vf_compiler_cb, &errs);
    yr_compiler_set_re_ast_callback(comp, ast_cb, &st);
    if (atomq) yr_compiler_set_atom_quality_table(comp, atomq, (int) (atomqlen / 5), 0);
    for (int i = 1; i < n; i++)
      if (!strncmp(toks[i], "cext=", 5))
      {
        // cext=<s|i>:<name>:<hex string | integer>
        char* p[4]; char tmp[4096]; snprintf(tmp, sizeof tmp, "%s", toks[i] + 5);
        if (splitc(tmp, ':', p, 4) == 3)
        {
          if (p[0][0] == 's') { size_t xl; char* v = (char*) unhex(p[2], &xl); yr_compiler_define_string_variable(comp, p[1], v); free(v); }
          else yr_compiler_define_integer_variable(comp, p[1], strtoll(p[2], 0, 10));
        }
      }
    size_t l; char* text = (char*) unhex(src, &l);
    int e = yr_compiler_add_string(comp, text, NULL);
    free(text);
    int failed = 0;
    if (e > 0) { printf("%s CERR %s %d\n", toks[0], errname(comp->last_error), errs.line); failed = 1; }
    if (!failed)
    {
      int rc = yr_compiler_get_rules(comp, &rules);
      if (rc) { printf("%s CERR get_rules:%s 0\n", toks[0], errname(rc)); failed = 1; }
    }
    if (!failed)
    {
      emit("%s OK ast=%s", toks[0], astlen ? astlog : "-");
      if (want_wfx) emit(" wfx=%s", wfxlen ? wfxlog : "-");
      if (want_code || want_fx)
      {
        YR_ARENA* a = rules->arena;
        size_t csize = a->buffers[YR_RE_CODE_SECTION].used;
        const uint8_t* code = a->buffers[YR_RE_CODE_SECTION].data;
        size_t nacm = a->buffers[YR_AC_STATE_MATCHES_POOL].used / sizeof(YR_AC_MATCH);
        if (want_code)
        {
          emit(" code=");
          if (!csize) emit("-");
          for (size_t i = 0; i < csize; i++) emit("%02x", code[i]);
          emit(" strs=");
          uint32_t ns = rules->num_strings;
          if (!ns) emit("-");
          for (uint32_t i = 0; i < ns; i++)
          {
            YR_STRING* s = &rules->strings_table[i];
            emit("%s%u:%x:", i ? ";" : "", s->idx, s->flags & ~(STRING_FLAGS_REFERENCED | STRING_FLAGS_LAST_IN_RULE));
            if (s->chained_to) emit("%u", s->chained_to->idx); else emit("-");
            emit(":%d:%d", s->chain_gap_min, s->chain_gap_max);
          }
          emit(" acm=");
          if (!nacm) emit("-");
          for (size_t i = 0; i < nacm; i++)
          {
            YR_AC_MATCH* m = &rules->ac_match_pool[i];
            emit("%s%u:%u:", i ? ";" : "", m->string->idx, (unsigned) m->backtrack);
            if (m->forward_code) emit("%zu", (size_t) (m->forward_code - code)); else emit("-");
            emit(":");
            if (m->backward_code) emit("%zu", (size_t) (m->backward_code - code)); else emit("-");
          }
        }
        if (want_fx)
        {
          // distinct (string, forward code, backward code) triples among the automaton's match entries
          static PAIR pairs[4096]; int np = 0;
          for (size_t i = 0; i < nacm; i++)
          {
            YR_AC_MATCH* m = &rules->ac_match_pool[i];
            if (STRING_IS_LITERAL(m->string) || m->forward_code == NULL) continue;
            int k;
            for (k = 0; k < np; k++) if (pairs[k].s == m->string && pairs[k].f == m->forward_code && pairs[k].b == m->backward_code) break;
            if (k == np && np < 4096) { pairs[np].s = m->string; pairs[np].f = m->forward_code; pairs[np].b = m->backward_code; np++; }
          }
          emit(" fx=");
          if (!np) emit("-");
          static LENS L;
          for (int k = 0; k < np; k++)
          {
            YR_STRING* s = pairs[k].s;
            int fl = 0;
            if (STRING_IS_GREEDY_REGEXP(s)) fl |= RE_FLAGS_GREEDY;
            if (STRING_IS_NO_CASE(s)) fl |= RE_FLAGS_NO_CASE;
            if (STRING_IS_DOT_ALL(s)) fl |= RE_FLAGS_DOT_ALL;
            int fast = STRING_IS_FAST_REGEXP(s) != 0;
            emit("%s%u:%zu:", k ? ";" : "", s->idx, (size_t) (pairs[k].f - code));
            if (pairs[k].b) emit("%zu", (size_t) (pairs[k].b - code)); else emit("-");
            for (int pass = 0; pass < 2; pass++)
            {
              if (pass == 0 && !STRING_IS_ASCII(s)) continue;
              if (pass == 1 && !STRING_IS_WIDE(s)) continue;
              int pfl = fl | (pass ? RE_FLAGS_WIDE : 0);
              for (size_t p = 0; p < buflen; p++)
              {
                int F = -1;
                int rc = (fast ? yr_re_fast_exec : yr_re_exec)(sc0, pairs[k].f, buf + p, buflen - p, p, pfl, NULL, NULL, &F);
                if (rc != ERROR_SUCCESS) { emit("|%zu:%c:E%s", p, pass ? 'w' : 'a', errname(rc)); continue; }
                if (F == -1) continue;
                emit("|%zu:%c:%d:", p, pass ? 'w' : 'a', F);
                if (pairs[k].b)
                {
                  L.n = 0; L.base = buf; L.dedup = 0;
                  rc = (fast ? yr_re_fast_exec : yr_re_exec)(sc0, pairs[k].b, buf + p, buflen - p, p, pfl | RE_FLAGS_BACKWARDS | RE_FLAGS_EXHAUSTIVE, collect_cb, &L, NULL);
                  if (rc != ERROR_SUCCESS) { emit("E%s", errname(rc)); continue; }
                  for (int i = 0; i < L.n; i++) emit("%s%d.%d", i ? "," : "", L.off[i], L.len[i]);
                  if (!L.n) emit("-");
                }
                else emit("=");
              }
            }
          }
        }
      }
      printf("%s\n", out);
    }
    if (rules) yr_rules_destroy(rules);
    if (comp) yr_compiler_destroy(comp);
    free(buf); free(atomq);
    fflush(stdout);
  }
  yr_scanner_destroy(sc0); yr_rules_destroy(r0); yr_compiler_destroy(c0);
  yr_finalize();
  free(line); free(out); free(astlog); free(wfxlog);
  return 0;
}
