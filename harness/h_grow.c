// C19 harness: compile the case's rule set under the initial buffer capacity / always-move
// hooks given on the line (init=<n> move=<0|1>), scan, save, load the image back and scan again.
//   <id> C=<status> E=<externals> O=<obs> N=<matching rules>:<string matches> S=<rc> IMG=<len>:<fnv64> L=<rc> LO=<= | obs>
// The check compares E, O and IMG of every variant with the default build's (init=0 move=0).
// A stale pointer shows up as CRASH:asan-heap-use-after-free@<file>:<function> (the child's report).
#include "arena_rules.h"

static void child(void* arg)
{
  CASE* c = (CASE*) arg;
  char status[512];
  YR_RULES* rules = compile_case(c, status, sizeof status);
  printf("C=%s", status); fflush(stdout);
  if (!rules) return;
  SB e0 = {0}, o0 = {0};
  int nm = 0, ns = 0;
  dump_externals(rules, &e0);
  observe(rules, c, &o0, &nm, &ns);
  printf(" E=%s O=%s N=%d:%d", sb_str(&e0), sb_str(&o0), nm, ns); fflush(stdout);
  MS img = {0};
  int rc = save_mem(rules, &img);
  printf(" S=%s IMG=%zu:%016" PRIx64, errname(rc), img.len, fnv64(img.p, img.len)); fflush(stdout);
  if (rc == ERROR_SUCCESS)
  {
    YR_RULES* loaded = NULL;
    MS rd = {0}; rd.p = img.p; rd.len = img.len;
    rc = load_mem(&rd, &loaded);
    printf(" L=%s", errname(rc));
    if (rc == ERROR_SUCCESS)
    {
      SB o2 = {0};
      observe(loaded, c, &o2, NULL, NULL);
      if (!strcmp(sb_str(&o0), sb_str(&o2))) printf(" LO=="); else printf(" LO=%s", sb_str(&o2));
      yr_rules_destroy(loaded);
    }
    if (case_int(c, "hex", 0)) { SB h = {0}; sb_hex(&h, img.p, img.len); printf(" HEX=%s", sb_str(&h)); }
  }
  yr_rules_destroy(rules);
  fflush(stdout);
}

int main()
{
  char* line = NULL; size_t cap = 0;
  static CASE c;
  yr_initialize();
  while (getline(&line, &cap, stdin) > 0)
  {
    case_parse(line, &c);
    if (c.n < 1) continue;
    SB out = {0};
    run_isolated(child, &c, &out, NULL);
    printf("%s %s\n", c.id, sb_str(&out));
    fflush(stdout);
    sb_free(&out);
  }
  return 0;
}
