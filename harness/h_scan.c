// General compile-and-scan harness (C01-C05, C12): one case per line, key=value tokens, in order:
//   <id> [ns=<name>] src=<hex rule text> ...   (each src is one yr_compiler_add_string call, in the preceding ns)
//        [cext=<t>:<name>:<val>]* [atomq=<hex table>] [strict=1] [dis=<rule positions>: yr_rule_disable]
//        [rext=<t>:<name>:<val>]* [sext=<t>:<name>:<val>]* [fast=1] [atoms=1] [cands=1] [info=1] [mmd=<YR_CONFIG_MAX_MATCH_DATA for this case>]
//        buf=<hex> [blocks=<n1>,<n2>,...]
// output: <id> OK rules=<ns>:<rule>=<0|1>,... m=<rule>.<$id>@<off>:<len>:<xorkey>[p];... [atoms=...] [cands=...] [info=...]
//      or <id> CERR <errname> <line>     or <id> SERR <errname>
#include "common.h"
#include <yara/compiler.h>
#include <stdarg.h>

extern void (*yr_verif_on_atom)(uint32_t, const uint8_t*, const uint8_t*, int, int);
extern void (*yr_verif_on_candidate)(uint32_t, uint64_t, uint32_t);

static char* out; static size_t outcap, outlen;
static void emit(const char* fmt, ...)
{
  va_list ap;
  for (;;)
  {
    va_start(ap, fmt);
    int n = vsnprintf(out + outlen, outcap - outlen, fmt, ap);
    va_end(ap);
    if ((size_t) n < outcap - outlen) { outlen += n; return; }
    outcap = outcap * 2 + n + 16; out = (char*) realloc(out, outcap);
  }
}

static char* atomlog; static size_t atomcap, atomlen;
static void on_atom(uint32_t sidx, const uint8_t* bytes, const uint8_t* mask, int len, int backtrack)
{
  if (atomlen + 64 > atomcap) { atomcap = atomcap * 2 + 256; atomlog = (char*) realloc(atomlog, atomcap); }
  atomlen += sprintf(atomlog + atomlen, "%s%u:", atomlen ? "," : "", sidx);
  for (int i = 0; i < len; i++) atomlen += sprintf(atomlog + atomlen, "%02x", bytes[i]);
  atomlen += sprintf(atomlog + atomlen, ":");
  for (int i = 0; i < len; i++) atomlen += sprintf(atomlog + atomlen, "%02x", mask[i]);
  atomlen += sprintf(atomlog + atomlen, ":%d", backtrack);
}

static char* candlog; static size_t candcap, candlen;
static void on_cand(uint32_t sidx, uint64_t off, uint32_t backtrack)
{
  if (candlen + 48 > candcap) { candcap = candcap * 2 + 256; candlog = (char*) realloc(candlog, candcap); }
  candlen += sprintf(candlog + candlen, "%s%u@%" PRIu64 "/%u", candlen ? "," : "", sidx, off, backtrack);
}

typedef struct { int first_rule; int first_match; int nsm; } CBST;
static char* mlog; static size_t mcap, mlen;
static void memit(const char* fmt, ...)
{
  va_list ap;
  for (;;)
  {
    va_start(ap, fmt);
    int n = vsnprintf(mlog + mlen, mcap - mlen, fmt, ap);
    va_end(ap);
    if (mlog && (size_t) n < mcap - mlen) { mlen += n; return; }
    mcap = mcap * 2 + n + 256; mlog = (char*) realloc(mlog, mcap);
  }
}

static int scan_cb(YR_SCAN_CONTEXT* ctx, int msg, void* data, void* ud)
{
  if (msg == CALLBACK_MSG_RULE_MATCHING || msg == CALLBACK_MSG_RULE_NOT_MATCHING)
  {
    YR_RULE* r = (YR_RULE*) data; YR_STRING* s; YR_MATCH* m;
    CBST* st = (CBST*) ud;
    emit("%s%s:%s=%d", st->first_rule ? "" : ",", r->ns->name, r->identifier, msg == CALLBACK_MSG_RULE_MATCHING);
    st->first_rule = 0;
    yr_rule_strings_foreach(r, s)
    {
      // walk the list directly: yr_string_matches_foreach hides private matches
      for (m = ctx->matches[s->idx].head; m != NULL; m = m->next)
      {
        if (st->nsm) memit("%s%s:", st->first_match ? "" : ";", r->ns->name);
        memit("%s%s.%s@%" PRId64 ":%d:%d%s", (st->first_match || st->nsm) ? "" : ";", r->identifier, s->identifier,
              (int64_t) (m->base + m->offset), m->match_length, (int) m->xor_key, m->is_private ? "p" : "");
        st->first_match = 0;
      }
    }
  }
  return CALLBACK_CONTINUE;
}

static int define_ext(int level, void* obj, char* spec)
{
  char* p[4]; if (splitc(spec, ':', p, 4) != 3) return -1;
  char ty = p[0][0]; int rc = 0;
  size_t l; uint8_t* s = NULL;
  if (ty == 's') s = unhex(p[2], &l);
  if (level == 0)
  {
    YR_COMPILER* c = (YR_COMPILER*) obj;
    rc = ty == 'i' ? yr_compiler_define_integer_variable(c, p[1], strtoll(p[2], 0, 10))
       : ty == 'b' ? yr_compiler_define_boolean_variable(c, p[1], atoi(p[2]))
       : ty == 'f' ? yr_compiler_define_float_variable(c, p[1], atof(p[2]))
                   : yr_compiler_define_string_variable(c, p[1], (char*) s);
  }
  else if (level == 1)
  {
    YR_RULES* r = (YR_RULES*) obj;
    rc = ty == 'i' ? yr_rules_define_integer_variable(r, p[1], strtoll(p[2], 0, 10))
       : ty == 'b' ? yr_rules_define_boolean_variable(r, p[1], atoi(p[2]))
       : ty == 'f' ? yr_rules_define_float_variable(r, p[1], atof(p[2]))
                   : yr_rules_define_string_variable(r, p[1], (char*) s);
  }
  else
  {
    YR_SCANNER* sc = (YR_SCANNER*) obj;
    rc = ty == 'i' ? yr_scanner_define_integer_variable(sc, p[1], strtoll(p[2], 0, 10))
       : ty == 'b' ? yr_scanner_define_boolean_variable(sc, p[1], atoi(p[2]))
       : ty == 'f' ? yr_scanner_define_float_variable(sc, p[1], atof(p[2]))
                   : yr_scanner_define_string_variable(sc, p[1], (char*) s);
  }
  free(s);
  return rc;
}

// --- include files supplied on the case line: inc=<name>:<hex>
static char* inc_names[32]; static char* inc_bodies[32]; static int ninc;
static const char* inc_cb(const char* name, const char* calling_file, const char* calling_ns, void* ud)
{
  for (int i = 0; i < ninc; i++) if (!strcmp(inc_names[i], name)) return strdup(inc_bodies[i]);
  return NULL;
}
static void inc_free(const char* p, void* ud) { free((void*) p); }

// --- multi-block iterator over one buffer
typedef struct { const uint8_t* data; size_t size; size_t* cuts; int ncuts; int idx; YR_MEMORY_BLOCK blk; } MB;
static const uint8_t* mb_fetch(YR_MEMORY_BLOCK* b) { return (const uint8_t*) b->context; }
static YR_MEMORY_BLOCK* mb_get(MB* m)
{
  if (m->idx > m->ncuts) return NULL;
  size_t start = m->idx == 0 ? 0 : m->cuts[m->idx - 1];
  size_t end = m->idx == m->ncuts ? m->size : m->cuts[m->idx];
  m->blk.base = start; m->blk.size = end - start; m->blk.context = (void*) (m->data + start); m->blk.fetch_data = mb_fetch;
  return &m->blk;
}
static YR_MEMORY_BLOCK* mb_first(YR_MEMORY_BLOCK_ITERATOR* it) { MB* m = (MB*) it->context; m->idx = 0; it->last_error = ERROR_SUCCESS; return mb_get(m); }
static YR_MEMORY_BLOCK* mb_next(YR_MEMORY_BLOCK_ITERATOR* it) { MB* m = (MB*) it->context; m->idx++; it->last_error = ERROR_SUCCESS; return mb_get(m); }
static uint64_t mb_size(YR_MEMORY_BLOCK_ITERATOR* it) { return ((MB*) it->context)->size; }

int main()
{
  char* line = NULL; size_t cap = 0;
  static char* toks[8192];
  outcap = 1 << 16; out = (char*) malloc(outcap);
  yr_initialize();
  while (getline(&line, &cap, stdin) > 0)
  {
    int n = split(line, toks, 8192);
    if (n < 1) continue;
    outlen = 0; atomlen = 0; candlen = 0; mlen = 0; out[0] = 0;
    YR_COMPILER* comp = NULL; YR_RULES* rules = NULL; YR_SCANNER* sc = NULL;
    VF_ERRS errs = {{0}, 0, 0};
    const char* ns = NULL; int fast = 0, want_atoms = 0, want_cands = 0, want_info = 0, want_actab = 0, want_nsm = 0;
    uint8_t* buf = NULL; size_t buflen = 0; uint8_t* atomq = NULL; size_t atomqlen = 0;
    size_t cuts[64]; int ncuts = -1; int mmd = -1; size_t actab_max = 40000;   // actab=<n> with n > 1 raises the dump limit
    int failed = 0, i;
    yr_compiler_create(&comp);
    yr_compiler_set_callback(comp, vf_compiler_cb, &errs);
    for (i = 0; i < ninc; i++) { free(inc_bodies[i]); } ninc = 0;
    for (i = 1; i < n; i++)
      if (!strncmp(toks[i], "inc=", 4) && ninc < 32)
      {
        char* p[2]; if (splitc(toks[i] + 4, ':', p, 2) == 2) { size_t l; inc_names[ninc] = p[0]; inc_bodies[ninc] = (char*) unhex(p[1], &l); ninc++; }
      }
    if (ninc) yr_compiler_set_include_callback(comp, inc_cb, inc_free, NULL);
    // pass 1: options
    for (i = 1; i < n; i++)
    {
      if (!strncmp(toks[i], "atoms=", 6)) want_atoms = 1;
      else if (!strncmp(toks[i], "cands=", 6)) want_cands = 1;
      else if (!strncmp(toks[i], "info=", 5)) want_info = 1;
      else if (!strncmp(toks[i], "actab=", 6)) { want_actab = 1; if (atoi(toks[i] + 6) > 1) actab_max = (size_t) atoi(toks[i] + 6); }
      else if (!strncmp(toks[i], "nsm=", 4)) want_nsm = 1;
      else if (!strncmp(toks[i], "fast=", 5)) fast = atoi(toks[i] + 5);
      else if (!strncmp(toks[i], "mmd=", 4)) mmd = atoi(toks[i] + 4);
      else if (!strncmp(toks[i], "atomq=", 6)) atomq = unhex(toks[i] + 6, &atomqlen);
      else if (!strncmp(toks[i], "buf=", 4)) buf = unhex(toks[i] + 4, &buflen);
      else if (!strncmp(toks[i], "blocks=", 7))
      {
        char* p[64]; int np = splitc(toks[i] + 7, ',', p, 64); size_t acc = 0; ncuts = 0;
        for (int k = 0; k < np - 1; k++) { acc += strtoul(p[k], 0, 10); cuts[ncuts++] = acc; }
      }
    }
    if (atomq) yr_compiler_set_atom_quality_table(comp, atomq, (int) (atomqlen / 5), 0);
    yr_verif_on_atom = want_atoms ? on_atom : NULL;
    // pass 2: compile-time items in order
    for (i = 1; i < n && !failed; i++)
    {
      if (!strncmp(toks[i], "ns=", 3)) ns = toks[i] + 3;
      else if (!strncmp(toks[i], "cext=", 5))
      {
        int rc = define_ext(0, comp, toks[i] + 5);
        if (rc) { printf("%s XERR %s\n", toks[0], errname(rc)); failed = 1; }
      }
      else if (!strncmp(toks[i], "src=", 4))
      {
        size_t l; char* src = (char*) unhex(toks[i] + 4, &l);
        int e = yr_compiler_add_string(comp, src, ns);
        free(src);
        if (e > 0) { printf("%s CERR %s %d\n", toks[0], errname(comp->last_error), errs.line); failed = 1; }
      }
    }
    yr_verif_on_atom = NULL;
    if (!failed)
    {
      int rc = yr_compiler_get_rules(comp, &rules);
      if (rc) { printf("%s CERR get_rules:%s 0\n", toks[0], errname(rc)); failed = 1; }
    }
    // dis=<i,j,..>: switch off the rules at these positions (declaration order) through the API
    for (i = 1; i < n && !failed; i++)
      if (!strncmp(toks[i], "dis=", 4))
      {
        char* p[64]; int np = splitc(toks[i] + 4, ',', p, 64);
        for (int k = 0; k < np; k++)
        {
          uint32_t want = (uint32_t) strtoul(p[k], 0, 10);
          if (want < rules->num_rules) yr_rule_disable(&rules->rules_table[want]);
        }
      }
    for (i = 1; i < n && !failed; i++)
      if (!strncmp(toks[i], "rext=", 5))
      {
        int rc = define_ext(1, rules, toks[i] + 5);
        if (rc) { printf("%s XERR %s\n", toks[0], errname(rc)); failed = 1; }
      }
    if (!failed)
    {
      int rc = yr_scanner_create(rules, &sc);
      if (rc) { printf("%s SERR create:%s\n", toks[0], errname(rc)); failed = 1; }
    }
    for (i = 1; i < n && !failed; i++)
      if (!strncmp(toks[i], "sext=", 5))
      {
        int rc = define_ext(2, sc, toks[i] + 5);
        if (rc) { printf("%s XERR %s\n", toks[0], errname(rc)); failed = 1; }
      }
    if (!failed)
    {
      CBST st = {1, 1, want_nsm};
      yr_scanner_set_flags(sc, (fast ? SCAN_FLAGS_FAST_MODE : 0) | SCAN_FLAGS_REPORT_RULES_MATCHING | SCAN_FLAGS_REPORT_RULES_NOT_MATCHING);
      yr_scanner_set_callback(sc, scan_cb, &st);
      yr_verif_on_candidate = want_cands ? on_cand : NULL;
      if (mmd >= 0) yr_set_configuration_uint32(YR_CONFIG_MAX_MATCH_DATA, (uint32_t) mmd);
      emit("%s OK rules=", toks[0]);
      int rc;
      if (!buf) { buf = (uint8_t*) malloc(1); buflen = 0; }
      if (ncuts >= 0)
      {
        MB m = {buf, buflen, cuts, ncuts, 0};
        YR_MEMORY_BLOCK_ITERATOR it; memset(&it, 0, sizeof it);
        it.context = &m; it.first = mb_first; it.next = mb_next; it.file_size = mb_size; it.last_error = ERROR_SUCCESS;
        rc = yr_scanner_scan_mem_blocks(sc, &it);
      }
      else rc = yr_scanner_scan_mem(sc, buf, buflen);
      yr_verif_on_candidate = NULL;
      if (mmd >= 0) yr_set_configuration_uint32(YR_CONFIG_MAX_MATCH_DATA, 512);   // DEFAULT_MAX_MATCH_DATA
      if (rc) printf("%s SERR %s\n", toks[0], errname(rc));
      else
      {
        if (st.first_rule) emit("-");
        emit(" m=%s", st.first_match ? "-" : mlog);
        YR_RULE* r; YR_STRING* s;
        if (want_atoms) emit(" atoms=%s", atomlen ? atomlog : "-");
        if (want_cands) emit(" cands=%s", candlen ? candlog : "-");
        if (want_info)
        {
          emit(" info=");
          int f2 = 1;
          yr_rules_foreach(rules, r)
          {
            emit("%s%s:req=%d", f2 ? "" : ",", r->identifier, (int) r->required_strings); f2 = 0;
            yr_rule_strings_foreach(r, s)
            {
              emit("/%s:", s->identifier);
              if (STRING_IS_FIXED_OFFSET(s)) emit("F%" PRId64, s->fixed_offset);
              if (STRING_IS_SINGLE_MATCH(s)) emit("S");
              if (s->flags & STRING_FLAGS_FITS_IN_ATOM) emit("A");
              if (STRING_IS_CHAIN_PART(s)) emit("C");
              if (STRING_IS_CHAIN_TAIL(s)) emit("T");
            }
          }
        }
        if (want_actab)
        {
          size_t nt = yr_arena_get_current_offset(rules->arena, YR_AC_TRANSITION_TABLE) / sizeof(YR_AC_TRANSITION);
          size_t np = yr_arena_get_current_offset(rules->arena, YR_AC_STATE_MATCHES_POOL) / sizeof(YR_AC_MATCH);
          if (nt > actab_max) emit(" actab=TOOBIG:%zu", nt);
          else
          {
            emit(" act=");
            for (size_t k = 0; k < nt; k++) emit("%s%x", k ? "," : "", (unsigned) rules->ac_transition_table[k]);
            emit(" acm=");
            for (size_t k = 0; k < nt; k++) emit("%s%x", k ? "," : "", (unsigned) rules->ac_match_table[k]);
            emit(" acp=");
            for (size_t k = 0; k < np; k++)
            {
              YR_AC_MATCH* mm = &rules->ac_match_pool[k];
              emit("%s%u:%u:%u", k ? "," : "", (unsigned) mm->string->idx, (unsigned) mm->backtrack,
                   mm->next ? (unsigned) (mm->next - rules->ac_match_pool) + 1 : 0);
            }
            if (np == 0) emit("-");
          }
        }
        printf("%s\n", out);
      }
    }
    if (sc) yr_scanner_destroy(sc);
    if (rules) yr_rules_destroy(rules);
    if (comp) yr_compiler_destroy(comp);
    free(buf); free(atomq);
    fflush(stdout);
  }
  yr_finalize();
  free(line);
  return 0;
}
