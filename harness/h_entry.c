// C13 harness. One task per line (fields as in scan_common.h) plus one of
//   ep=<input> [cbs=<script>,<script>,...]
//                       scan that (single-block) input through every entry point, once per callback script ("-", a<k>, e<k>):
//                       rules_scan_mem, rules_scan_file, rules_scan_fd, scanner_scan_mem, scanner_scan_file,
//                       scanner_scan_fd, scanner_scan_mem_blocks (own single-block iterator), rules_scan_mem_blocks,
//                       scanner_scan_mem after a yr_scanner_scan_proc on the same scanner, rules_scan_mem of an exact-size
//                       heap copy, rules_scan_mem of a copy that is followed by letters.
//                       After every call the resource protocol is checked: buffer untouched, no descriptor leaked, file
//                       unchanged; for the fd entry points the CALLER's descriptor is still open, at the same offset,
//                       readable, and a second scan on it gives the same trace. Then missing file / closed descriptor.
//                       output: <id> E <script>=<trace>;R=<ok|what broke>|...(8)^<script>=...^N=<4 result codes>;msgs=0;R=ok
//   [st=<seconds>] with masks: every iterator call that is not answered not-ready takes that many (virtual) seconds
//   masks=<input>:<N>[:<w>[:<p>]]  (w: input holding the same bytes as ONE block; its yr_rules_scan_mem trace is appended as !W=...;
//                       p: input with OTHER data: after every interrupted run it is scanned with the same scanner and the same iterator
//                       object (last_error not reset); !P=<1|0 per mask> says whether that scan equals yr_rules_scan_mem of p)
//                       for EVERY subset of the first N iterator calls (counted over the whole interrupted scan, calls
//                       made by rule evaluation included) answer "not ready" at exactly those calls and repeat
//                       yr_scanner_scan_mem_blocks until it no longer returns ERROR_BLOCK_NOT_READY
//                       output: <id> M <k>!<class 0>!...!<class k-1>!<class index per mask>!<calls per mask>!<flag per mask>
//                       class = all callback messages of all calls concatenated + final result code; indices/calls in
//                       base 36; flag = 1 if a not-ready answer was given to a call made by rule evaluation
#include "scan_common.h"
#include <signal.h>
// a case that does not finish is reported with its id instead of stalling the whole run
static char vf_current[128];
static void vf_alarm(int sig) { (void) sig; fprintf(stderr, "CASE-HANGS %s (no result after 300 s)\n", vf_current); _exit(97); }

typedef struct { ITCTX ic; YR_MEMORY_BLOCK_ITERATOR it; CBCTX t; } RUN;

static const char* B36 = "0123456789abcdefghijklmnopqrstuvwxyz";

static void scratch_path(char* out, size_t n, const char* id)
{
  const char* d = getenv("VF_SCRATCH");
  snprintf(out, n, "%s/entry_%d_%s.bin", d ? d : "/work/out", (int) getpid(), id);
}

#include <dirent.h>
static int count_fds(void)
{
  int n = 0;
  DIR* d = opendir("/proc/self/fd");
  if (!d) return -1;
  while (readdir(d)) n++;
  closedir(d);
  return n;
}

// post-conditions of an fd entry point: the CALLER's descriptor is still open, at the same offset, readable, same size
static const char* fd_state(int fd, INPUT* in, off_t off0)
{
  struct stat st;
  if (fcntl(fd, F_GETFD) == -1) return "fd-closed";
  if (fstat(fd, &st) != 0) return "fstat-fails";
  if ((size_t) st.st_size != in->size) return "size-changed";
  if (lseek(fd, 0, SEEK_CUR) != off0) return "offset-moved";
  if (in->size)
  {
    uint8_t buf[16]; size_t n = in->size < 16 ? in->size : 16;
    if (pread(fd, buf, n, 0) != (ssize_t) n || memcmp(buf, in->data, n)) return "pread-fails";
  }
  return NULL;
}

// every entry point, every callback script; each trace is followed by ";R=ok" or ";R=<broken post-condition>"
static void do_entry_points(const char* id, YR_RULES* rules, INPUT* in, int flags, int timeout, const char* cbs)
{
  static RUN r;
  char path[600];
  int made = 0;
  if (in->path[0]) snprintf(path, sizeof path, "%s", in->path);
  else
  {
    scratch_path(path, sizeof path, id);
    FILE* f = fopen(path, "wb");
    if (!f) DIE("cannot write %s", path);
    if (in->size) fwrite(in->data, 1, in->size, f);
    fclose(f);
    made = 1;
  }
  uint8_t* copy = (uint8_t*) malloc(in->size + 1);
  memcpy(copy, in->data, in->size);
  // the same bytes in a buffer of EXACTLY that size (any read past the end is a sanitizer report) and in a buffer that goes on
  // with letters (a read past the end changes a `fullword` verdict)
  uint8_t* exact = (uint8_t*) malloc(in->size ? in->size : 1);
  memcpy(exact, in->data, in->size);
  uint8_t* padded = (uint8_t*) malloc(in->size + 16);
  memcpy(padded, in->data, in->size); memset(padded + in->size, 'A', 16);
  char* scripts = strdup(cbs && cbs[0] ? cbs : "-");
  char* sp[8]; int nsp = splitc(scripts, ',', sp, 8);
  printf("%s E ", id);
  r.t.rules = rules;
  for (int si = 0; si < nsp; si++)
  {
    printf("%s%s=", si ? "^" : "", sp[si]);
    for (int k = 0; k < 11; k++)
    {
      int rc = 0; const char* res = NULL; char* first = NULL;
      int fds0 = count_fds();
      YR_SCANNER* sc = NULL;
      int fd = -1; off_t off0 = 0;
      if ((k >= 3 && k <= 6) || k == 8)
      {
        if (yr_scanner_create(rules, &sc) != ERROR_SUCCESS) DIE("scanner create");
        yr_scanner_set_flags(sc, flags); yr_scanner_set_timeout(sc, timeout); yr_scanner_set_callback(sc, vf_scan_cb, &r.t);
        // the scanner OBJECT is (virtually) 2000 s old when it is used: the scan's deadline counts from the start of the scan,
        // not from yr_scanner_create — the one-shot rules-level calls create theirs just before scanning
        sc->stopwatch.ts_start.tv_sec -= 2000;
      }
      if (k == 2 || k == 5)
      {
        fd = open(path, O_RDONLY);
        if (fd < 0) DIE("open %s", path);
        off0 = lseek(fd, in->size < 3 ? (off_t) in->size : 3, SEEK_SET);
      }
      for (int round = 0; round < ((k == 2 || k == 5) ? 2 : 1); round++)
      {
        cb_script(&r.t, sp[si]);
        tr_reset(&r.t);
        if (k == 0) rc = yr_rules_scan_mem(rules, in->data, in->size, flags, vf_scan_cb, &r.t, timeout);
        else if (k == 1) rc = yr_rules_scan_file(rules, path, flags, vf_scan_cb, &r.t, timeout);
        else if (k == 2) rc = yr_rules_scan_fd(rules, fd, flags, vf_scan_cb, &r.t, timeout);
        else if (k == 3) rc = yr_scanner_scan_mem(sc, in->data, in->size);
        else if (k == 4) rc = yr_scanner_scan_file(sc, path);
        else if (k == 5) rc = yr_scanner_scan_fd(sc, fd);
        else if (k == 8)
        {
          // the scanner object has scanned a process before: its flags (e.g. a user-set SCAN_FLAGS_PROCESS_MEMORY) must be intact
          get_child();
          cb_script(&r.t, "-");
          yr_scanner_scan_proc(sc, (int) vf_child);
          cb_script(&r.t, sp[si]); tr_reset(&r.t);
          rc = yr_scanner_scan_mem(sc, in->data, in->size);
        }
        else if (k == 9) rc = yr_rules_scan_mem(rules, exact, in->size, flags, vf_scan_cb, &r.t, timeout);
        else if (k == 10) rc = yr_rules_scan_mem(rules, padded, in->size, flags, vf_scan_cb, &r.t, timeout);
        else
        {
          it_init(&r.it, &r.ic, in, NULL, sc, 0);
          rc = k == 6 ? yr_scanner_scan_mem_blocks(sc, &r.it) : yr_rules_scan_mem_blocks(rules, &r.it, flags, vf_scan_cb, &r.t, timeout);
        }
        tr_rc(&r.t, rc);
        if (k == 2 || k == 5)
        {
          if (!res) res = fd_state(fd, in, off0);
          if (round == 0) first = strdup(r.t.buf);
          else if (!res && strcmp(first, r.t.buf)) res = "second-scan-on-same-fd-differs";
        }
      }
      if (fd >= 0 && close(fd) != 0 && !res) res = "close-fails";
      if (sc) yr_scanner_destroy(sc);
      if (!res && memcmp(copy, in->data, in->size)) res = "buffer-modified";
      if (!res && count_fds() != fds0) res = "fd-leak";
      struct stat st;
      if (!res && (stat(path, &st) != 0 || (size_t) st.st_size != in->size)) res = "file-changed";
      printf("%s%s;R=%s", k ? "|" : "", first ? first : r.t.buf, res ? res : "ok");
      free(first);
    }
  }
  // mapping failures: no callback, error code, nothing leaked
  {
    int fds0 = count_fds();
    YR_SCANNER* sc = NULL;
    yr_scanner_create(rules, &sc); yr_scanner_set_callback(sc, vf_scan_cb, &r.t);
    cb_script(&r.t, "-"); tr_reset(&r.t);
    int a = yr_rules_scan_file(rules, "/nonexistent/verif/file", flags, vf_scan_cb, &r.t, timeout);
    int b = yr_scanner_scan_file(sc, "/nonexistent/verif/file");
    int c = yr_rules_scan_fd(rules, 1000000, flags, vf_scan_cb, &r.t, timeout);
    int d = yr_scanner_scan_fd(sc, 1000000);
    yr_scanner_destroy(sc);
    printf("^N=%s,%s,%s,%s;msgs=%d;R=%s", errname(a), errname(b), errname(c), errname(d), r.t.nmsg, count_fds() == fds0 ? "ok" : "fd-leak");
  }
  // the same bytes reached through other NAMES of the file: symlink, symlink chain, relative path, "..", hard link, very long
  // path, directory without the read bit, /proc/self/fd/N; and a directory (documented error)
  {
    char dir[600], base[700], nm[9][4200]; const char* label[9]; int nn = 0;
    const char* sd = getenv("VF_SCRATCH");
    snprintf(dir, sizeof dir, "%s/names_%d_%s", sd ? sd : "/work/out", (int) getpid(), id);
    mkdir(dir, 0755);
    snprintf(base, sizeof base, "%s/file.bin", dir);
    FILE* f = fopen(base, "wb"); if (!f) DIE("cannot write %s", base);
    if (in->size) fwrite(in->data, 1, in->size, f);
    fclose(f);
    char l1[700], l2[700], hl[700], sub[700], xd[700], xf[760];
    snprintf(l1, sizeof l1, "%s/link1", dir); snprintf(l2, sizeof l2, "%s/link2", dir); snprintf(hl, sizeof hl, "%s/hard", dir);
    snprintf(sub, sizeof sub, "%s/sub", dir); snprintf(xd, sizeof xd, "%s/xonly", dir); snprintf(xf, sizeof xf, "%s/f", xd);
    if (symlink(base, l1) == 0) { label[nn] = "symlink"; snprintf(nm[nn++], 4200, "%s", l1); }
    if (symlink("link1", l2) == 0) { label[nn] = "symlink-chain"; snprintf(nm[nn++], 4200, "%s", l2); }
    char cwd[600];
    if (getcwd(cwd, sizeof cwd) && !strncmp(base, cwd, strlen(cwd)) && base[strlen(cwd)] == '/')
    { label[nn] = "relative"; snprintf(nm[nn++], 4200, "%s", base + strlen(cwd) + 1); }
    if (mkdir(sub, 0755) == 0) { label[nn] = "dotdot"; snprintf(nm[nn++], 4200, "%s/../file.bin", sub); }
    if (link(base, hl) == 0) { label[nn] = "hardlink"; snprintf(nm[nn++], 4200, "%s", hl); }
    {
      label[nn] = "long-path";
      size_t o = snprintf(nm[nn], 4200, "%s", dir);
      while (o < 3800) o += snprintf(nm[nn] + o, 4200 - o, "/.");
      snprintf(nm[nn] + o, 4200 - o, "/file.bin"); nn++;
    }
    if (mkdir(xd, 0755) == 0 && link(base, xf) == 0 && chmod(xd, 0311) == 0) { label[nn] = "dir-without-read-bit"; snprintf(nm[nn++], 4200, "%s", xf); }
    int pfd = open(base, O_RDONLY);
    if (pfd >= 0) { label[nn] = "proc-self-fd"; snprintf(nm[nn++], 4200, "/proc/self/fd/%d", pfd); }
    label[nn] = "directory"; snprintf(nm[nn++], 4200, "%s", dir);
    printf("^F=");
    for (int k = 0; k < nn; k++)
    {
      YR_SCANNER* sc = NULL;
      yr_scanner_create(rules, &sc);
      yr_scanner_set_flags(sc, flags); yr_scanner_set_timeout(sc, timeout); yr_scanner_set_callback(sc, vf_scan_cb, &r.t);
      cb_script(&r.t, "-"); tr_reset(&r.t);
      int rc = yr_rules_scan_file(rules, nm[k], flags, vf_scan_cb, &r.t, timeout);
      tr_rc(&r.t, rc);
      printf("%s%s:%s,", k ? "|" : "", label[k], r.t.buf);
      cb_script(&r.t, "-"); tr_reset(&r.t);
      rc = yr_scanner_scan_file(sc, nm[k]);
      tr_rc(&r.t, rc);
      printf("%s", r.t.buf);
      yr_scanner_destroy(sc);
    }
    if (pfd >= 0) close(pfd);
    chmod(xd, 0755); unlink(xf); rmdir(xd); rmdir(sub); unlink(hl); unlink(l2); unlink(l1); unlink(base); rmdir(dir);
  }
  printf("\n");
  free(copy); free(scripts); free(exact); free(padded);
  if (made) unlink(path);
}

#define MAXCLASS 36
static void do_masks(const char* id, YR_RULES* rules, INPUT* in, int flags, int timeout, int N, INPUT* whole, INPUT* probe, int stall_each)
{
  static RUN r;
  static char* cls[MAXCLASS];
  int ncls = 0;
  uint64_t total = 1ull << N;
  char* cmap = (char*) malloc(total + 1);
  char* calls = (char*) malloc(total + 1);
  char* evf = (char*) malloc(total + 1);
  char* prb = (char*) malloc(total + 1);
  char* want = NULL;
  YR_SCANNER* sc = NULL;
  if (probe)
  {
    // what a scan of the probe input must report: yr_rules_scan_mem of its bytes
    r.t.rules = rules; cb_script(&r.t, "-"); tr_reset(&r.t);
    int rcw = yr_rules_scan_mem(rules, probe->data, probe->size, flags, vf_scan_cb, &r.t, timeout);
    tr_rc(&r.t, rcw);
    want = strdup(r.t.buf);
  }
  // ONE scanner for all masks (the interrupted scans follow each other on it, as a long-running user would do)
  if (yr_scanner_create(rules, &sc) != ERROR_SUCCESS) DIE("scanner create");
  yr_scanner_set_flags(sc, flags); yr_scanner_set_timeout(sc, timeout); yr_scanner_set_callback(sc, vf_scan_cb, &r.t);
  r.t.rules = rules;
  for (uint64_t m = 0; m < total; m++)
  {
    it_init(&r.it, &r.ic, in, NULL, sc, 0);
    r.ic.use_mask = 1; r.ic.mask = m; r.ic.stall_each = stall_each;
    cb_script(&r.t, "-");
    tr_reset(&r.t);
    int rc, n = 0, ev = 0;
    do
    {
      r.ic.ended = 0;
      rc = yr_scanner_scan_mem_blocks(sc, &r.it);
      n++;
      if (r.ic.nr_in_eval) ev = 1;
    } while (rc == ERROR_BLOCK_NOT_READY && n < N + 2);
    tr_rc(&r.t, rc);
    int c;
    for (c = 0; c < ncls; c++) if (!strcmp(cls[c], r.t.buf)) break;
    if (c == ncls) { if (ncls == MAXCLASS) DIE("too many classes"); cls[ncls++] = strdup(r.t.buf); }
    cmap[m] = B36[c]; calls[m] = B36[n < 36 ? n : 35]; evf[m] = ev ? '1' : '0';
    int stale = r.it.last_error;
    if (rc == ERROR_BLOCK_NOT_READY)
    {
      // never completed: do not let the suspended state reach the next mask through a bug under test
      yr_scanner_destroy(sc);
      if (yr_scanner_create(rules, &sc) != ERROR_SUCCESS) DIE("scanner create");
      yr_scanner_set_flags(sc, flags); yr_scanner_set_timeout(sc, timeout); yr_scanner_set_callback(sc, vf_scan_cb, &r.t);
      stale = ERROR_SUCCESS;
    }
    prb[m] = '-';
    if (probe)
    {
      // the SAME scanner and the SAME iterator object, re-pointed at OTHER data, last_error as the interrupted scan left it:
      // nothing of that scan may show (no stale match, no skipped block)
      it_init(&r.it, &r.ic, probe, NULL, sc, 0);
      r.it.last_error = stale;
      cb_script(&r.t, "-"); tr_reset(&r.t);
      int rc2 = yr_scanner_scan_mem_blocks(sc, &r.it);
      tr_rc(&r.t, rc2);
      prb[m] = strcmp(r.t.buf, want) ? '0' : '1';
      if (rc2 == ERROR_BLOCK_NOT_READY)
      {
        yr_scanner_destroy(sc);
        if (yr_scanner_create(rules, &sc) != ERROR_SUCCESS) DIE("scanner create");
        yr_scanner_set_flags(sc, flags); yr_scanner_set_timeout(sc, timeout); yr_scanner_set_callback(sc, vf_scan_cb, &r.t);
      }
    }
  }
  yr_scanner_destroy(sc);
  cmap[total] = calls[total] = evf[total] = prb[total] = 0;
  printf("%s M %d", id, ncls);
  for (int c = 0; c < ncls; c++) { printf("!%s", cls[c]); free(cls[c]); }
  printf("!%s!%s!%s", cmap, calls, evf);
  if (probe) printf("!P=%s", prb);
  if (whole)
  {
    // the same bytes through yr_rules_scan_mem
    cb_script(&r.t, "-"); tr_reset(&r.t);
    int rc = yr_rules_scan_mem(rules, whole->data, whole->size, flags, vf_scan_cb, &r.t, timeout);
    tr_rc(&r.t, rc);
    printf("!W=%s", r.t.buf);
  }
  printf("\n");
  free(cmap); free(calls); free(evf); free(prb); free(want);
}

int main()
{
  char* line = NULL; size_t cap = 0;
  static char* toks[64];
  static INPUT ins[MAXIN];
  yr_initialize();
  while (getline(&line, &cap, stdin) > 0)
  {
    int n = split(line, toks, 64);
    if (n < 1) continue;
    snprintf(vf_current, sizeof vf_current, "%s", toks[0]);
    signal(SIGALRM, vf_alarm); alarm(300);
    const char* rs = field(toks, n, "rs"); const char* inf = field(toks, n, "in");
    if (!rs || !inf) DIE("missing field in case %s", toks[0]);
    int flags = atoi(field(toks, n, "fl") ? field(toks, n, "fl") : "0");
    int timeout = atoi(field(toks, n, "to") ? field(toks, n, "to") : "0");
    YR_RULES* rules = get_rules(rs);
    int nin = parse_inputs(inf, ins);
    const char* ep = field(toks, n, "ep"); const char* mk = field(toks, n, "masks");
    if (ep) do_entry_points(toks[0], rules, &ins[atoi(ep)], flags, timeout, field(toks, n, "cbs"));
    else if (mk)
    {
      int i = 0, N = 0, wi = -1, pi = -1;
      if (sscanf(mk, "%d:%d:%d:%d", &i, &N, &wi, &pi) < 2 || N > 16) DIE("bad masks");
      do_masks(toks[0], rules, &ins[i], flags, timeout, N, wi >= 0 ? &ins[wi] : NULL, pi >= 0 ? &ins[pi] : NULL,
               field(toks, n, "st") ? atoi(field(toks, n, "st")) : 0);
    }
    else printf("%s BADTASK\n", toks[0]);
    free_inputs(ins, nin);
    fflush(stdout);
  }
  free_rules_cache();
  yr_finalize();
  free(line);
  return 0;
}
