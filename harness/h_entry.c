// C13 harness. One task per line (fields as in scan_common.h) plus one of
//   ep=<input>          scan that (single-block) input through every entry point:
//                       rules_scan_mem, rules_scan_file, rules_scan_fd, scanner_scan_mem, scanner_scan_file,
//                       scanner_scan_fd, scanner_scan_mem_blocks (own single-block iterator), rules_scan_mem_blocks
//                       output: <id> E <trace>|<trace>|...           (8 traces, in that order)
//   masks=<input>:<N>   for EVERY subset of the first N iterator calls (counted over the whole interrupted scan, calls
//                       made by rule evaluation included) answer "not ready" at exactly those calls and repeat
//                       yr_scanner_scan_mem_blocks until it no longer returns ERROR_BLOCK_NOT_READY
//                       output: <id> M <k>!<class 0>!...!<class k-1>!<class index per mask>!<calls per mask>!<flag per mask>
//                       class = all callback messages of all calls concatenated + final result code; indices/calls in
//                       base 36; flag = 1 if a not-ready answer was given to a call made by rule evaluation
#include "scan_common.h"

typedef struct { ITCTX ic; YR_MEMORY_BLOCK_ITERATOR it; CBCTX t; } RUN;

static const char* B36 = "0123456789abcdefghijklmnopqrstuvwxyz";

static void scratch_path(char* out, size_t n, const char* id)
{
  const char* d = getenv("VF_SCRATCH");
  snprintf(out, n, "%s/entry_%d_%s.bin", d ? d : "/work/out", (int) getpid(), id);
}

static void do_entry_points(const char* id, YR_RULES* rules, INPUT* in, int flags, int timeout)
{
  static RUN r;
  char path[600];
  int made = 0;
  if (in->path[0]) snprintf(path, sizeof path, "%s", in->path);
  else
  {
    scratch_path(path, sizeof path, id);
    FILE* f = fopen(path, "wb");
    if (!f) DIE("cannot write %s", path);
    if (in->size) fwrite(in->data, 1, in->size, f);
    fclose(f);
    made = 1;
  }
  printf("%s E ", id);
  r.t.rules = rules;
  for (int k = 0; k < 8; k++)
  {
    int rc;
    cb_script(&r.t, "-");
    tr_reset(&r.t);
    if (k == 0) rc = yr_rules_scan_mem(rules, in->data, in->size, flags, vf_scan_cb, &r.t, timeout);
    else if (k == 1) rc = yr_rules_scan_file(rules, path, flags, vf_scan_cb, &r.t, timeout);
    else if (k == 2)
    {
      int fd = open(path, O_RDONLY);
      if (fd < 0) DIE("open %s", path);
      rc = yr_rules_scan_fd(rules, fd, flags, vf_scan_cb, &r.t, timeout);
      close(fd);
    }
    else if (k == 7)
    {
      it_init(&r.it, &r.ic, in, NULL, NULL, 0);
      rc = yr_rules_scan_mem_blocks(rules, &r.it, flags, vf_scan_cb, &r.t, timeout);
    }
    else
    {
      YR_SCANNER* sc = NULL;
      if (yr_scanner_create(rules, &sc) != ERROR_SUCCESS) DIE("scanner create");
      yr_scanner_set_flags(sc, flags); yr_scanner_set_timeout(sc, timeout); yr_scanner_set_callback(sc, vf_scan_cb, &r.t);
      if (k == 3) rc = yr_scanner_scan_mem(sc, in->data, in->size);
      else if (k == 4) rc = yr_scanner_scan_file(sc, path);
      else if (k == 5)
      {
        int fd = open(path, O_RDONLY);
        if (fd < 0) DIE("open %s", path);
        rc = yr_scanner_scan_fd(sc, fd);
        close(fd);
      }
      else
      {
        it_init(&r.it, &r.ic, in, NULL, sc, 0);
        rc = yr_scanner_scan_mem_blocks(sc, &r.it);
      }
      yr_scanner_destroy(sc);
    }
    tr_rc(&r.t, rc);
    printf("%s%s", k ? "|" : "", r.t.buf);
  }
  printf("\n");
  if (made) unlink(path);
}

#define MAXCLASS 36
static void do_masks(const char* id, YR_RULES* rules, INPUT* in, int flags, int timeout, int N)
{
  static RUN r;
  static char* cls[MAXCLASS];
  int ncls = 0;
  uint64_t total = 1ull << N;
  char* cmap = (char*) malloc(total + 1);
  char* calls = (char*) malloc(total + 1);
  char* evf = (char*) malloc(total + 1);
  YR_SCANNER* sc = NULL;
  // ONE scanner for all masks (the interrupted scans follow each other on it, as a long-running user would do)
  if (yr_scanner_create(rules, &sc) != ERROR_SUCCESS) DIE("scanner create");
  yr_scanner_set_flags(sc, flags); yr_scanner_set_timeout(sc, timeout); yr_scanner_set_callback(sc, vf_scan_cb, &r.t);
  r.t.rules = rules;
  for (uint64_t m = 0; m < total; m++)
  {
    it_init(&r.it, &r.ic, in, NULL, sc, 0);
    r.ic.use_mask = 1; r.ic.mask = m;
    cb_script(&r.t, "-");
    tr_reset(&r.t);
    int rc, n = 0, ev = 0;
    do
    {
      r.ic.ended = 0;
      rc = yr_scanner_scan_mem_blocks(sc, &r.it);
      n++;
      if (r.ic.nr_in_eval) ev = 1;
    } while (rc == ERROR_BLOCK_NOT_READY && n < N + 2);
    tr_rc(&r.t, rc);
    int c;
    for (c = 0; c < ncls; c++) if (!strcmp(cls[c], r.t.buf)) break;
    if (c == ncls) { if (ncls == MAXCLASS) DIE("too many classes"); cls[ncls++] = strdup(r.t.buf); }
    cmap[m] = B36[c]; calls[m] = B36[n < 36 ? n : 35]; evf[m] = ev ? '1' : '0';
    if (rc == ERROR_BLOCK_NOT_READY)
    {
      // never completed: do not let the suspended state reach the next mask through a bug under test
      yr_scanner_destroy(sc);
      if (yr_scanner_create(rules, &sc) != ERROR_SUCCESS) DIE("scanner create");
      yr_scanner_set_flags(sc, flags); yr_scanner_set_timeout(sc, timeout); yr_scanner_set_callback(sc, vf_scan_cb, &r.t);
    }
  }
  yr_scanner_destroy(sc);
  cmap[total] = calls[total] = evf[total] = 0;
  printf("%s M %d", id, ncls);
  for (int c = 0; c < ncls; c++) { printf("!%s", cls[c]); free(cls[c]); }
  printf("!%s!%s!%s\n", cmap, calls, evf);
  free(cmap); free(calls); free(evf);
}

int main()
{
  char* line = NULL; size_t cap = 0;
  static char* toks[64];
  static INPUT ins[MAXIN];
  yr_initialize();
  while (getline(&line, &cap, stdin) > 0)
  {
    int n = split(line, toks, 64);
    if (n < 1) continue;
    const char* rs = field(toks, n, "rs"); const char* inf = field(toks, n, "in");
    if (!rs || !inf) DIE("missing field in case %s", toks[0]);
    int flags = atoi(field(toks, n, "fl") ? field(toks, n, "fl") : "0");
    int timeout = atoi(field(toks, n, "to") ? field(toks, n, "to") : "0");
    YR_RULES* rules = get_rules(rs);
    int nin = parse_inputs(inf, ins);
    const char* ep = field(toks, n, "ep"); const char* mk = field(toks, n, "masks");
    if (ep) do_entry_points(toks[0], rules, &ins[atoi(ep)], flags, timeout);
    else if (mk)
    {
      int i = 0, N = 0;
      if (sscanf(mk, "%d:%d", &i, &N) != 2 || N > 16) DIE("bad masks");
      do_masks(toks[0], rules, &ins[i], flags, timeout, N);
    }
    else printf("%s BADTASK\n", toks[0]);
    free_inputs(ins, nin);
    fflush(stdout);
  }
  free_rules_cache();
  yr_finalize();
  free(line);
  return 0;
}
