// C06 function-level correspondence: the *compiled* bounds macros/functions of /repo evaluated on
// 64-bit tuples (no dereference: made-up pointers), and pe_rva_to_offset on crafted section tables.
// lines:
//   <id> p <pred> <hex args...>            -> <id> <0|1>
//   <id> rva <dataSize> <fa> <sa> <nsec> <secOff> <rva> <n> (<va> <vsize> <rawptr> <rawsize>)*n   -> <id> <offset|-1>
//   <id> sizes                             -> <id> lc=.. fh=.. vp=.. sh=.. maxsec=..
// Build flavour: plain (UBSan's pointer-overflow check would abort on the made-up pointers).
#include "common.h"
#include <sys/mman.h>
#include <yara/pe.h>
#include <yara/pe_utils.h>
#include <yara/dex.h>
#include <yara/macho.h>
#include <yara/stream.h>
#include <yara/arena.h>
#include "modules/elf/elf.c"   // static is_valid_ptr

#define NOINL __attribute__((noinline))

static NOINL int c_fits_in_pe(uint64_t data, uint64_t dsz, uint64_t p, uint64_t n)
{
  PE s; PE* pe = &s; s.data = (const uint8_t*) data; s.data_size = (size_t) dsz;
  return fits_in_pe(pe, p, n) ? 1 : 0;
}
static NOINL int c_struct_fits_in_pe(uint64_t data, uint64_t dsz, uint64_t p)
{
  PE s; PE* pe = &s; s.data = (const uint8_t*) data; s.data_size = (size_t) dsz;
  return struct_fits_in_pe(pe, p, IMAGE_SECTION_HEADER) ? 1 : 0;
}
static NOINL int c_fits_in_dex(uint64_t data, uint64_t dsz, uint64_t p, uint64_t n)
{
  DEX s; DEX* dex = &s; s.data = (const uint8_t*) data; s.data_size = (size_t) dsz;
  return fits_in_dex(dex, p, n) ? 1 : 0;
}
static NOINL int c_struct_fits_in_dex(uint64_t data, uint64_t dsz, uint64_t p)
{
  DEX s; DEX* dex = &s; s.data = (const uint8_t*) data; s.data_size = (size_t) dsz;
  return struct_fits_in_dex(dex, p, dex_header_t) ? 1 : 0;
}
static NOINL int c_is_valid_ptr(uint64_t base, uint64_t size, uint64_t p, uint64_t n)
{
  return is_valid_ptr((const void*) base, (size_t) size, (const void*) p, n) ? 1 : 0;
}

// function_read_*: a one-block iterator whose fetch callback only records that it was called
// (= the range test was passed) and returns NULL, so nothing is dereferenced.
extern int64_t read_uint8_t_little_endian(YR_MEMORY_BLOCK_ITERATOR*, size_t);
extern int64_t read_uint16_t_little_endian(YR_MEMORY_BLOCK_ITERATOR*, size_t);
extern int64_t read_uint32_t_big_endian(YR_MEMORY_BLOCK_ITERATOR*, size_t);
static int fetched;
static YR_MEMORY_BLOCK blk;
static const uint8_t* fetch_cb(YR_MEMORY_BLOCK* b) { fetched = 1; return NULL; }
static YR_MEMORY_BLOCK* first_cb(YR_MEMORY_BLOCK_ITERATOR* it) { return &blk; }
static YR_MEMORY_BLOCK* next_cb(YR_MEMORY_BLOCK_ITERATOR* it) { return NULL; }
static int c_function_read(uint64_t base, uint64_t size, uint64_t off, uint64_t tsize)
{
  YR_MEMORY_BLOCK_ITERATOR it; memset(&it, 0, sizeof it);
  it.first = first_cb; it.next = next_cb;
  blk.base = base; blk.size = (size_t) size; blk.fetch_data = fetch_cb; blk.context = NULL;
  fetched = 0;
  if (tsize == 1) read_uint8_t_little_endian(&it, (size_t) off);
  else if (tsize == 2) read_uint16_t_little_endian(&it, (size_t) off);
  else read_uint32_t_big_endian(&it, (size_t) off);
  return fetched;
}

// arena relocation test through yr_arena_load_stream on a crafted image
typedef struct { const uint8_t* p; size_t len, pos; } MS;
static size_t ms_read(void* ptr, size_t size, size_t count, void* ud)
{
  MS* m = (MS*) ud; size_t done = 0;
  while (done < count && m->pos + size <= m->len) { memcpy((uint8_t*) ptr + done * size, m->p + m->pos, size); m->pos += size; done++; }
  return done;
}
static int c_arena_reloc_reject(uint64_t id, uint64_t nb, uint64_t off, uint64_t used, uint64_t bdata)
{
  static uint8_t img[1 << 16];
  size_t o = 0;
  if (nb < 1 || nb > 4 || id > 15 || used > 4096 || (bdata == 0 && used != 0) || (bdata != 0 && used == 0)) return -1;
  memcpy(img, "YARA", 4); img[4] = YR_ARENA_FILE_VERSION; img[5] = (uint8_t) nb; o = 6;
  uint32_t sizes[4];
  uint64_t fo = 6 + 12 * nb;
  for (unsigned i = 0; i < nb; i++)
  {
    sizes[i] = (i == id) ? (uint32_t) used : 16;
    memcpy(img + o, &fo, 8); memcpy(img + o + 8, &sizes[i], 4); o += 12; fo += sizes[i];
  }
  for (unsigned i = 0; i < nb; i++) { memset(img + o, 0xFF, sizes[i]); o += sizes[i]; }  // null refs everywhere
  uint32_t rr[2] = {(uint32_t) id, (uint32_t) off};
  memcpy(img + o, rr, 8); o += 8;
  MS m = {img, o, 0};
  YR_STREAM st; st.user_data = &m; st.read = ms_read; st.write = NULL;
  YR_ARENA* a = NULL;
  int rc = yr_arena_load_stream(&st, &a);
  if (rc == ERROR_SUCCESS) { yr_arena_release(a); return 0; }
  if (rc == ERROR_CORRUPT_FILE) return 1;
  return -2;
}

// pe_get_dotnet_string on a real zero-filled mapping at a fixed address
extern char* pe_get_dotnet_string(PE* pe, const uint8_t* heap_offset, uint32_t heap_size, uint32_t string_index);
#define MAPADDR 0x200000000000ULL
#define MAPLEN 0x4000
static int c_dotnet_string(uint64_t data, uint64_t dsz, uint64_t start, uint64_t idx, uint64_t hs)
{
  static uint8_t* map;
  if (!map)
  {
    map = (uint8_t*) mmap((void*) MAPADDR, MAPLEN, PROT_READ | PROT_WRITE, MAP_PRIVATE | MAP_ANONYMOUS | MAP_FIXED_NOREPLACE, -1, 0);
    if (map != (uint8_t*) MAPADDR) DIE("mmap fixed failed");
  }
  // only tuples whose accepted accesses stay in the mapping are executed
  if (data < MAPADDR + 0x1000 || data + dsz > MAPADDR + MAPLEN - 0x1000 || idx > 0xffffffffULL || hs > 0xffffffffULL) return -1;
  PE s; memset(&s, 0, sizeof s); s.data = (const uint8_t*) data; s.data_size = (size_t) dsz;
  return pe_get_dotnet_string(&s, (const uint8_t*) (start - idx), (uint32_t) hs, (uint32_t) idx) != NULL;
}

static uint64_t H(const char* s) { return strtoull(s, NULL, 16); }

int main()
{
  char* line = NULL; size_t cap = 0;
  static char* t[1024];
  while (getline(&line, &cap, stdin) > 0)
  {
    int n = split(line, t, 1024);
    if (n < 2) continue;
    if (!strcmp(t[1], "sizes"))
    {
      printf("%s lc=%zu fh=%zu vp=%zu sh=%zu maxsec=%d\n", t[0], sizeof(yr_load_command_t), sizeof(yr_fat_header_t), sizeof(void*),
             sizeof(IMAGE_SECTION_HEADER), MAX_PE_SECTIONS);
    }
    else if (!strcmp(t[1], "p") && n >= 3)
    {
      uint64_t a[6] = {0};
      for (int i = 3; i < n && i < 9; i++) a[i - 3] = H(t[i]);
      int r = -9;
      if (!strcmp(t[2], "fits_in_pe")) r = c_fits_in_pe(a[0], a[1], a[2], a[3]);
      else if (!strcmp(t[2], "struct_fits_in_pe")) r = c_struct_fits_in_pe(a[0], a[1], a[2]);
      else if (!strcmp(t[2], "fits_in_dex")) r = c_fits_in_dex(a[0], a[1], a[2], a[3]);
      else if (!strcmp(t[2], "struct_fits_in_dex")) r = c_struct_fits_in_dex(a[0], a[1], a[2]);
      else if (!strcmp(t[2], "is_valid_ptr")) r = c_is_valid_ptr(a[0], a[1], a[2], a[3]);
      else if (!strcmp(t[2], "function_read_in_range")) r = c_function_read(a[0], a[1], a[2], a[3]);
      else if (!strcmp(t[2], "arena_reloc_reject")) r = c_arena_reloc_reject(a[0], a[1], a[2], a[3], a[4]);
      else if (!strcmp(t[2], "dotnet_string_start_ok")) r = c_dotnet_string(a[0], a[1], a[2], a[3], a[4]);
      printf("%s %d\n", t[0], r);
    }
    else if (!strcmp(t[1], "rva") && n >= 9)
    {
      uint64_t dataSize = H(t[2]), fa = H(t[3]), sa = H(t[4]), nsec = H(t[5]), secOff = H(t[6]), rva = H(t[7]);
      int ns = (int) H(t[8]);
      // header at hdrOff so that IMAGE_FIRST_SECTION(header) == data + secOff
      size_t optsz = 0xE0, hdrOff = (size_t) secOff - 24 - optsz;
      size_t real = (size_t) secOff + 40 * (size_t) (ns + 1) + 64;
      uint8_t* buf = (uint8_t*) calloc(1, real);
      PIMAGE_NT_HEADERS32 h = (PIMAGE_NT_HEADERS32) (buf + hdrOff);
      h->FileHeader.NumberOfSections = (WORD) nsec;
      h->FileHeader.SizeOfOptionalHeader = (WORD) optsz;
      h->OptionalHeader.Magic = IMAGE_NT_OPTIONAL_HDR32_MAGIC;
      h->OptionalHeader.FileAlignment = (DWORD) fa;
      h->OptionalHeader.SectionAlignment = (DWORD) sa;
      PIMAGE_SECTION_HEADER sec = (PIMAGE_SECTION_HEADER) (buf + secOff);
      for (int i = 0; i < ns && 9 + 4 * i + 3 < n; i++)
      {
        sec[i].VirtualAddress = (DWORD) H(t[9 + 4 * i]);
        sec[i].Misc.VirtualSize = (DWORD) H(t[10 + 4 * i]);
        sec[i].PointerToRawData = (DWORD) H(t[11 + 4 * i]);
        sec[i].SizeOfRawData = (DWORD) H(t[12 + 4 * i]);
      }
      PE pe; memset(&pe, 0, sizeof pe);
      pe.data = buf; pe.data_size = (size_t) dataSize; pe.header = h;
      int64_t r = pe_rva_to_offset(&pe, rva);
      printf("%s %" PRId64 "\n", t[0], r);
      free(buf);
    }
    else printf("%s BADOP\n", t[0]);
  }
  free(line);
  return 0;
}
