// C17/C08 harness for the FILE-NAME API: yr_rules_load / yr_rules_save and the resources they hold.
//   line   <id> img=<hex image> muts=<m>,<m>,...
//   m      full            the intact image written to a file, yr_rules_load(path)
//          p<n>            the first n bytes
//          w<off>:<hex>    one field overwritten
//          nofile          yr_rules_load of a path that does not exist
//          dir             yr_rules_load of a directory
//          unreadable      yr_rules_load of a file without read permission (skipped when running as root: reported as such)
//          saveok          yr_rules_save(rules of the intact image, new file)
//          savenodir       yr_rules_save into a directory that does not exist
//          savefull        yr_rules_save to /dev/full (every flush fails: ENOSPC)
//          savedir         yr_rules_save where the path is a directory
//   output <id> <m>=<file rc>:<stream rc | ->:<fd delta after the call>:<fd delta after destroy | ->[:RULES-RETURNED][:LEAK] ...
// The descriptor count is the number of entries of /proc/self/fd (deterministic: a load that is rejected must give back
// the descriptor it opened).  With VF_LSAN=1 (an ASan build with detect_leaks=1) __lsan_do_recoverable_leak_check() runs
// after every operation: a FILE left open is also a heap leak.  The whole line runs in a forked child.
#include "arena_rules.h"
#include <dirent.h>
#include <sys/stat.h>

#if defined(__has_feature)
#if __has_feature(address_sanitizer)
#define HAVE_LSAN 1
#endif
#endif
#if defined(__SANITIZE_ADDRESS__)
#define HAVE_LSAN 1
#endif
#ifdef HAVE_LSAN
int __lsan_do_recoverable_leak_check(void);
#endif

static CASE g_case;
static uint8_t* g_img; static size_t g_len;
static char g_dir[600];

static int fd_count(void)
{
  DIR* d = opendir("/proc/self/fd");
  if (!d) return -1;
  int n = 0; struct dirent* e;
  while ((e = readdir(d)) != NULL) if (e->d_name[0] != '.') n++;
  closedir(d);
  return n;
}

static int leak_now(void)
{
#ifdef HAVE_LSAN
  const char* v = getenv("VF_LSAN");
  if (v && *v == '1') return __lsan_do_recoverable_leak_check();
#endif
  return 0;
}

static void write_file(const char* path, const uint8_t* d, size_t n)
{
  FILE* f = fopen(path, "wb");
  if (!f) DIE("cannot write scratch file");
  if (n) fwrite(d, 1, n, f);
  fclose(f);
}

static void one_load(const char* name, const char* path, const uint8_t* d, size_t n, int with_stream)
{
  int f0 = fd_count();
  YR_RULES* rules = NULL;
  int rc = yr_rules_load(path, &rules);
  int f1 = fd_count();
  printf(" %s=%s:", name, errname(rc));
  if (with_stream)
  {
    MS rd = {0}; rd.p = (uint8_t*) d; rd.len = n;
    YR_RULES* r2 = NULL;
    int rc2 = load_mem(&rd, &r2);
    printf("%s", errname(rc2));
    if (rc2 == ERROR_SUCCESS && r2) yr_rules_destroy(r2);
  }
  else printf("-");
  printf(":%d:", f1 - f0);
  if (rc == ERROR_SUCCESS && rules) { yr_rules_destroy(rules); printf("%d", fd_count() - f0); } else printf("-");
  if (rc != ERROR_SUCCESS && rules != NULL) printf(":RULES-RETURNED");
  if (leak_now()) printf(":LEAK");
  fflush(stdout);
}

static void one_save(const char* name, YR_RULES* rules, const char* path)
{
  int f0 = fd_count();
  int rc = yr_rules_save(rules, path);
  int f1 = fd_count();
  printf(" %s=%s:-:%d:-", name, errname(rc), f1 - f0);
  if (leak_now()) printf(":LEAK");
  fflush(stdout);
}

static void child(void* arg)
{
  (void) arg;
  char path[700], path2[700];
  snprintf(path, sizeof path, "%s/m.yarc", g_dir);
  const char* spec = case_get(&g_case, "muts", 0);
  char* s = strdup(spec ? spec : "");
  YR_RULES* good = NULL;
  char* save = NULL;
  for (char* t = strtok_r(s, ",", &save); t; t = strtok_r(NULL, ",", &save))
  {
    if (!strcmp(t, "full")) { write_file(path, g_img, g_len); one_load(t, path, g_img, g_len, 1); }
    else if (t[0] == 'p')
    {
      size_t n = strtoull(t + 1, 0, 10); if (n > g_len) n = g_len;
      write_file(path, g_img, n); one_load(t, path, g_img, n, 1);
    }
    else if (t[0] == 'w')
    {
      char* colon = strchr(t, ':');
      size_t off = strtoull(t + 1, 0, 10), l = 0;
      uint8_t* b = unhex(colon ? colon + 1 : "-", &l);
      uint8_t* d = (uint8_t*) malloc(g_len + 1); memcpy(d, g_img, g_len);
      if (off + l <= g_len) memcpy(d + off, b, l);
      write_file(path, d, g_len); one_load(t, path, d, g_len, 1);
      free(d); free(b);
    }
    else if (!strcmp(t, "nofile")) { snprintf(path2, sizeof path2, "%s/does-not-exist.yarc", g_dir); one_load(t, path2, NULL, 0, 0); }
    else if (!strcmp(t, "dir")) one_load(t, g_dir, NULL, 0, 0);
    else if (!strcmp(t, "unreadable"))
    {
      if (geteuid() == 0) { printf(" %s=SKIPPED-ROOT:-:0:-", t); continue; }
      snprintf(path2, sizeof path2, "%s/unreadable.yarc", g_dir);
      write_file(path2, g_img, g_len); chmod(path2, 0);
      one_load(t, path2, NULL, 0, 0);
      chmod(path2, 0600); unlink(path2);
    }
    else if (!strncmp(t, "save", 4))
    {
      if (!good)
      {
        MS rd = {0}; rd.p = g_img; rd.len = g_len;
        if (load_mem(&rd, &good) != ERROR_SUCCESS) { printf(" %s=NO-RULES", t); continue; }
      }
      if (!strcmp(t, "saveok"))
      {
        snprintf(path2, sizeof path2, "%s/saved.yarc", g_dir);
        one_save(t, good, path2);
        // the file written is the image
        size_t n; char* got = slurp(path2, &n);
        printf(":%s", (n == g_len && !memcmp(got, g_img, n)) ? "same" : "DIFFERENT");
        free(got); unlink(path2);
      }
      else if (!strcmp(t, "savenodir")) { snprintf(path2, sizeof path2, "%s/no-such-dir/x.yarc", g_dir); one_save(t, good, path2); }
      else if (!strcmp(t, "savefull")) one_save(t, good, "/dev/full");
      else if (!strcmp(t, "savedir")) one_save(t, good, g_dir);
      else printf(" %s=BADMUT", t);
    }
    else printf(" %s=BADMUT", t);
  }
  if (good) yr_rules_destroy(good);
  unlink(path);
  free(s);
}

int main()
{
  char* line = NULL; size_t cap = 0;
  yr_initialize();
  while (getline(&line, &cap, stdin) > 0)
  {
    case_parse(line, &g_case);
    if (g_case.n < 1) continue;
    const char* hx = case_get(&g_case, "img", 0);
    if (!hx) { printf("%s BADCASE\n", g_case.id); fflush(stdout); continue; }
    g_img = unhex(hx, &g_len);
    snprintf(g_dir, sizeof g_dir, "%s/lf-%d", scratch_dir(), (int) getpid());
    mkdir(g_dir, 0700);
    SB out = {0};
    run_isolated(child, NULL, &out, NULL);
    printf("%s %s\n", g_case.id, sb_str(&out));
    fflush(stdout);
    sb_free(&out);
    rmdir(g_dir);
    free(g_img);
  }
  return 0;
}
