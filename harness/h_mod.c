// C14 harness: evaluates hash / math / string module functions through the real compiler,
// VM (OP_CALL) and module code on a caller-defined list of memory blocks.
// line:   <id> <blocks> <call> <call> ...
//   blocks: none | base:hex,base:hex,...          ("-" = empty block)
//   call:   name:arg:arg...   (see CALLS below; i = int64 decimal, s = hex bytes, f = numerator of x/8, b = 0|1)
// output: <id> <res> ...   res: U undefined | I<int> | S<hex> | F<%.17g> | X<why> (inconsistent observation)
// Every call k becomes `rule r<k> { condition: console.log("<k>:", <expr>) }`; all rules of a line are one
// rule set and are evaluated in order in ONE scan (so they share the per-scan digest cache).
// A result is defined iff console.log was reached (it is skipped when its argument is undefined) iff the rule
// matched; integer / string values are read from the console message, float values (console prints only %f)
// from the function object's return_obj inside the console callback (exact double).
#include "common.h"
#include <yara/modules.h>
#include <yara/object.h>
#include <yara/hash.h>
#include <math.h>

typedef struct { const char* name; const char* expr; const char* args; char ret; const char* mod; const char* fn; } CALLDEF;

static const CALLDEF CALLS[] = {
  {"md5", "hash.md5", "ii", 's', "hash", "md5"}, {"md5s", "hash.md5", "s", 's', "hash", "md5"},
  {"sha1", "hash.sha1", "ii", 's', "hash", "sha1"}, {"sha1s", "hash.sha1", "s", 's', "hash", "sha1"},
  {"sha256", "hash.sha256", "ii", 's', "hash", "sha256"}, {"sha256s", "hash.sha256", "s", 's', "hash", "sha256"},
  {"crc32", "hash.crc32", "ii", 'i', "hash", "crc32"}, {"crc32s", "hash.crc32", "s", 'i', "hash", "crc32"},
  {"ck32", "hash.checksum32", "ii", 'i', "hash", "checksum32"}, {"ck32s", "hash.checksum32", "s", 'i', "hash", "checksum32"},
  {"ent", "math.entropy", "ii", 'f', "math", "entropy"}, {"ents", "math.entropy", "s", 'f', "math", "entropy"},
  {"dev", "math.deviation", "iif", 'f', "math", "deviation"}, {"devs", "math.deviation", "sf", 'f', "math", "deviation"},
  {"mean", "math.mean", "ii", 'f', "math", "mean"}, {"means", "math.mean", "s", 'f', "math", "mean"},
  {"sc", "math.serial_correlation", "ii", 'f', "math", "serial_correlation"},
  {"scs", "math.serial_correlation", "s", 'f', "math", "serial_correlation"},
  {"mc", "math.monte_carlo_pi", "ii", 'f', "math", "monte_carlo_pi"},
  {"mcs", "math.monte_carlo_pi", "s", 'f', "math", "monte_carlo_pi"},
  {"inr", "math.in_range", "fff", 'i', "math", "in_range"},
  {"min", "math.min", "ii", 'i', "math", "min"}, {"max", "math.max", "ii", 'i', "math", "max"},
  {"tonum", "math.to_number", "b", 'i', "math", "to_number"}, {"abs", "math.abs", "i", 'i', "math", "abs"},
  {"cnt", "math.count", "iii", 'i', "math", "count"}, {"cntg", "math.count", "i", 'i', "math", "count"},
  {"pct", "math.percentage", "iii", 'f', "math", "percentage"}, {"pctg", "math.percentage", "i", 'f', "math", "percentage"},
  {"mode", "math.mode", "ii", 'i', "math", "mode"}, {"modeg", "math.mode", "", 'i', "math", "mode"},
  {"tostr", "math.to_string", "i", 's', "math", "to_string"}, {"tostrb", "math.to_string", "ii", 's', "math", "to_string"},
  {"toint", "string.to_int", "s", 'i', "string", "to_int"}, {"tointb", "string.to_int", "si", 'i', "string", "to_int"},
  {"len", "string.length", "s", 'i', "string", "length"},
  {NULL, NULL, NULL, 0, NULL, NULL}};

#define MAXB 16
#define MAXC 4096

typedef struct
{
  YR_MEMORY_BLOCK blk[MAXB];
  uint8_t* data[MAXB];
  int n, cur;
} ITER;

static const uint8_t* it_fetch(YR_MEMORY_BLOCK* b) { return (const uint8_t*) b->context; }

static YR_MEMORY_BLOCK* it_first(YR_MEMORY_BLOCK_ITERATOR* it)
{
  ITER* c = (ITER*) it->context;
  c->cur = 0;
  it->last_error = ERROR_SUCCESS;
  return c->n > 0 ? &c->blk[0] : NULL;
}

static YR_MEMORY_BLOCK* it_next(YR_MEMORY_BLOCK_ITERATOR* it)
{
  ITER* c = (ITER*) it->context;
  it->last_error = ERROR_SUCCESS;
  c->cur++;
  return c->cur < c->n ? &c->blk[c->cur] : NULL;
}

static uint64_t it_size(YR_MEMORY_BLOCK_ITERATOR* it)
{
  ITER* c = (ITER*) it->context;
  return c->n ? c->blk[c->n - 1].base + c->blk[c->n - 1].size : 0;
}

typedef struct
{
  const CALLDEF* def[MAXC];
  int ncalls;
  int seen[MAXC];     // console message count
  int matched[MAXC];
  char* text[MAXC];   // message remainder (i / s results)
  double dval[MAXC];  // f results
  int dok[MAXC];
} OBS;

static int scan_cb(YR_SCAN_CONTEXT* ctx, int msg, void* data, void* ud)
{
  OBS* o = (OBS*) ud;
  if (msg == CALLBACK_MSG_CONSOLE_LOG)
  {
    const char* m = (const char*) data;
    char* end;
    long k = strtol(m, &end, 10);
    if (end == m || *end != ':' || k < 0 || k >= o->ncalls) return CALLBACK_CONTINUE;
    o->seen[k]++;
    free(o->text[k]);
    o->text[k] = strdup(end + 1);
    if (o->def[k]->ret == 'f')
    {
      YR_OBJECT* mod = (YR_OBJECT*) yr_hash_table_lookup(ctx->objects_table, o->def[k]->mod, NULL);
      YR_OBJECT* fn = mod ? yr_object_lookup_field(mod, o->def[k]->fn) : NULL;
      if (fn != NULL && fn->type == OBJECT_TYPE_FUNCTION)
      {
        YR_OBJECT* r = object_as_function(fn)->return_obj;
        if (r != NULL && r->type == OBJECT_TYPE_FLOAT) { o->dval[k] = r->value.d; o->dok[k] = 1; }
      }
    }
  }
  else if (msg == CALLBACK_MSG_RULE_MATCHING)
  {
    int k;
    if (sscanf(((YR_RULE*) data)->identifier, "r%d", &k) == 1 && k >= 0 && k < o->ncalls) o->matched[k] = 1;
  }
  return CALLBACK_CONTINUE;
}

static size_t emit_arg(char* dst, size_t cap, char kind, const char* a)
{
  size_t off = 0;
  if (kind == 'i')
  {
    if (!strcmp(a, "-9223372036854775808")) off += snprintf(dst, cap, "(-9223372036854775807 - 1)");
    else off += snprintf(dst, cap, "%s", a);
  }
  else if (kind == 'b') off += snprintf(dst, cap, "%s", a[0] == '1' ? "(1 == 1)" : "(1 == 2)");
  else if (kind == 'f')
  {
    long long n = strtoll(a, 0, 10);
    unsigned long long m = n < 0 ? (unsigned long long) (-n) : (unsigned long long) n;
    off += snprintf(dst, cap, "%s%llu.%03llu", n < 0 ? "-" : "", m / 8, (m % 8) * 125);
  }
  else  // 's'
  {
    size_t l;
    uint8_t* s = unhex(a, &l);
    off += snprintf(dst + off, cap - off, "\"");
    for (size_t i = 0; i < l && off + 8 < cap; i++) off += snprintf(dst + off, cap - off, "\\x%02x", s[i]);
    off += snprintf(dst + off, cap - off, "\"");
    free(s);
  }
  return off;
}

int main()
{
  char* line = NULL; size_t cap = 0;
  static char* toks[MAXC + 8];
  static OBS o;
  yr_initialize();
  while (getline(&line, &cap, stdin) > 0)
  {
    int n = split(line, toks, MAXC + 4);
    if (n < 2) continue;
    printf("%s", toks[0]);
    // ---- blocks
    ITER it; memset(&it, 0, sizeof it);
    if (strcmp(toks[1], "none") != 0)
    {
      char* bp[MAXB]; int nb = splitc(toks[1], ',', bp, MAXB);
      for (int i = 0; i < nb; i++)
      {
        char* p[2];
        if (splitc(bp[i], ':', p, 2) != 2) DIE("bad block");
        size_t l; uint8_t* d = unhex(p[1], &l);
        uint8_t* exact = (uint8_t*) malloc(l ? l : 1);   // exact size: ASan sees any over-read
        memcpy(exact, d, l); free(d);
        it.data[i] = exact;
        it.blk[i].base = strtoull(p[0], 0, 10);
        it.blk[i].size = l;
        it.blk[i].context = exact;
        it.blk[i].fetch_data = it_fetch;
      }
      it.n = nb;
    }
    // ---- rules
    memset(&o, 0, sizeof o);
    o.ncalls = n - 2;
    size_t scap = 256 + (size_t) o.ncalls * 160 + 8 * strlen(line) + 8 * cap, off = 0;
    char* src = (char*) malloc(scap);
    off += snprintf(src + off, scap - off, "import \"hash\"\nimport \"math\"\nimport \"string\"\nimport \"console\"\n");
    int bad = 0;
    for (int k = 0; k < o.ncalls; k++)
    {
      char* p[6]; int np = splitc(toks[k + 2], ':', p, 6);
      const CALLDEF* d = CALLS;
      while (d->name && strcmp(d->name, p[0])) d++;
      if (!d->name || (int) strlen(d->args) != np - 1) { bad = 1; break; }
      o.def[k] = d;
      off += snprintf(src + off, scap - off, "rule r%d { condition: console.log(\"%d:\", %s(", k, k, d->expr);
      for (int a = 0; a < np - 1; a++)
      {
        if (a) off += snprintf(src + off, scap - off, ", ");
        off += emit_arg(src + off, scap - off, d->args[a], p[a + 1]);
      }
      off += snprintf(src + off, scap - off, ")) }\n");
    }
    if (bad) { printf(" BADCALL\n"); free(src); for (int i = 0; i < it.n; i++) free(it.data[i]); continue; }
    YR_COMPILER* comp = NULL; YR_RULES* rules = NULL; YR_SCANNER* sc = NULL;
    yr_compiler_create(&comp);
    VF_ERRS e = {{0}, 0, 0};
    yr_compiler_set_callback(comp, vf_compiler_cb, &e);
    int errs = yr_compiler_add_string(comp, src, NULL);
    if (errs) { printf(" CERR:%d:", e.line); for (char* m = e.msg; *m; m++) putchar(*m == ' ' ? '_' : *m); printf("\n"); }
    else
    {
      int rc = yr_compiler_get_rules(comp, &rules);
      if (rc == ERROR_SUCCESS) rc = yr_scanner_create(rules, &sc);
      if (rc == ERROR_SUCCESS)
      {
        YR_MEMORY_BLOCK_ITERATOR iter;
        iter.context = &it; iter.first = it_first; iter.next = it_next; iter.file_size = it_size; iter.last_error = ERROR_SUCCESS;
        yr_scanner_set_flags(sc, SCAN_FLAGS_REPORT_RULES_MATCHING);
        yr_scanner_set_callback(sc, scan_cb, &o);
        rc = yr_scanner_scan_mem_blocks(sc, &iter);
      }
      if (rc != ERROR_SUCCESS) printf(" ERR:%s\n", errname(rc));
      else
      {
        for (int k = 0; k < o.ncalls; k++)
        {
          if (o.seen[k] > 1) printf(" Xmulti");
          else if ((o.seen[k] == 1) != (o.matched[k] == 1)) printf(" Xmatch%d%d", o.seen[k], o.matched[k]);
          else if (!o.seen[k]) printf(" U");
          else if (o.def[k]->ret == 'i')
          {
            char* end; long long v = strtoll(o.text[k], &end, 10);
            if (*end || end == o.text[k]) printf(" Xint"); else printf(" I%lld", v);
          }
          else if (o.def[k]->ret == 's')
          {
            printf(" S");
            if (!o.text[k][0]) printf("-");
            for (char* m = o.text[k]; *m; m++) printf("%02x", (unsigned char) *m);
          }
          else if (!o.dok[k]) printf(" Xnofloat");
          else if (isnan(o.dval[k])) printf(" Xnan");
          else printf(" F%.17g", o.dval[k]);
        }
        printf("\n");
      }
    }
    fflush(stdout);
    for (int k = 0; k < o.ncalls; k++) free(o.text[k]);
    if (sc) yr_scanner_destroy(sc);
    if (rules) yr_rules_destroy(rules);
    if (comp) yr_compiler_destroy(comp);
    free(src);
    for (int i = 0; i < it.n; i++) free(it.data[i]);
  }
  yr_finalize();
  free(line);
  return 0;
}
