// C04 function-level correspondence: the comparison functions of libyara/sizedstr.c on exact-size heap copies of the operands
// (ASan sees any read beyond c_string[length]).
// Line:  <id> a=<hex|-> b=<hex|->
// Out:   <id> cmp=<ss_compare> icmp=<ss_icompare> co=<ss_contains> ico=<ss_icontains> sw=<ss_startswith> isw=<..> ew=<ss_endswith> iew=<..>
#include "common.h"
#include <yara/sizedstr.h>

static SIZED_STRING* mk(const char* hex)
{
  size_t l = 0; uint8_t* b = NULL;
  if (strcmp(hex, "-") != 0) b = unhex(hex, &l);
  SIZED_STRING* s = (SIZED_STRING*) malloc(sizeof(SIZED_STRING) + l);   // c_string[1] in the struct + l = room for the terminating NUL
  s->length = (uint32_t) l; s->flags = 0;
  if (l) memcpy(s->c_string, b, l);
  s->c_string[l] = 0;
  free(b);
  return s;
}

int main()
{
  char* line = NULL; size_t cap = 0;
  static char* toks[64];
  yr_initialize();
  while (getline(&line, &cap, stdin) > 0)
  {
    int n = split(line, toks, 64);
    if (n < 3 || strncmp(toks[1], "a=", 2) || strncmp(toks[2], "b=", 2)) continue;
    SIZED_STRING* a = mk(toks[1] + 2);
    SIZED_STRING* b = mk(toks[2] + 2);
    printf("%s cmp=%d icmp=%d co=%d ico=%d sw=%d isw=%d ew=%d iew=%d\n", toks[0], ss_compare(a, b), ss_icompare(a, b), (int) ss_contains(a, b),
           (int) ss_icontains(a, b), (int) ss_startswith(a, b), (int) ss_istartswith(a, b), (int) ss_endswith(a, b), (int) ss_iendswith(a, b));
    free(a); free(b);
  }
  yr_finalize();
  free(line);
  return 0;
}
