// C07 runtime tie: compile arbitrary text in a forked child under ASan/UBSan/LSan and check the error protocol.
// line: <id> <S|B> <hex source> [I<name>=<hex content>]... [U<hex unit>]... [O<opts>] [N<hex file name>] [P<hex namespace>]   (units: added to the same compiler after the source, while errors == 0)        (S: yr_compiler_add_string, B: yr_compiler_add_bytes, F: yr_compiler_add_file, D: yr_compiler_add_fd)
// out:  <id> ok errs=<ret> cb=<error callbacks> warn=<warning callbacks> msgok=<all messages non-empty> lineok=<all lines >= 1>
//            l0=<callbacks with line < 1> l0eof=<of those, "unexpected end of file"> l0msg=<first other message with line < 1>
//            rules=<got rules 0|1> scan=<rc of scanning a small buffer|-> destroy=1 follow=<ok|BAD...> kind=<first message, 3 words>
//       <id> CRASH exit=.. signal=.. msg=<report>      |     <id> TIMEOUT
// "follow": after the case (failed or not) a fresh compiler compiles a fixed rule and a scan must report exactly that rule.
#include "common.h"
#include <unistd.h>
#include <signal.h>
#include <poll.h>
#include <time.h>
#include <sys/wait.h>
#include <fcntl.h>
#include <dirent.h>
#include <sys/mman.h>

extern int __lsan_do_recoverable_leak_check(void) __attribute__((weak));
extern size_t yr_verif_arena_initial_size;   // hooks of the -DYARA_VERIF build (default 0 / 0)
extern int yr_verif_arena_always_move;
#ifdef VERIF_COV
extern void __gcov_dump(void);   // coverage flavour (-DVERIF_COV --coverage): the child leaves through _exit, so flush the counters by hand
#endif

typedef struct { int errs, warns, msgok, lineok, l0, l0eof; char first[96]; char l0msg[96]; char diag[400]; int ndiag; } CB;
typedef struct { char* name; char* content; } INC;
static INC incs[64]; static int nincs;
static char* units[16]; static int nunits;
static char opts[16];          // O<letters>: g/i arena growth hooks (always move / 64-byte initial buffers), s strict_escape, n include callback NULL (includes disabled), d default (file system) include callback, q atom quality table
static char* fname; static char* nspace;   // N<hex> file name given to add_file/add_fd, P<hex> namespace given to every add_*   // further compilation units added to the SAME compiler while no error occurred

static void ccb(int level, const char* file, int line, const YR_RULE* rule, const char* msg, void* ud)
{
  CB* c = (CB*) ud;
  // every diagnostic in order: E|W <line> @ <last path component of the file name, '-' when none>
  if (c->ndiag < 24)
  {
    const char* fb = file ? (strrchr(file, '/') ? strrchr(file, '/') + 1 : file) : "-";
    size_t dl = strlen(c->diag);
    snprintf(c->diag + dl, sizeof c->diag - dl, "%s%c%d@%.12s", c->ndiag ? "," : "", level == YARA_ERROR_LEVEL_ERROR ? 'E' : 'W', line, fb[0] ? fb : "-");
    c->ndiag++;
  }
  if (level == YARA_ERROR_LEVEL_ERROR)
  {
    if (c->errs == 0 && msg) snprintf(c->first, sizeof c->first, "%s", msg);
    c->errs++;
    if (msg == NULL || msg[0] == 0) c->msgok = 0;
    if (line < 1)
    {
      c->lineok = 0; c->l0++;
      if (msg && strstr(msg, "unexpected end of file")) c->l0eof++;
      else if (msg && !c->l0msg[0]) snprintf(c->l0msg, sizeof c->l0msg, "%s", msg);
    }
  }
  else c->warns++;
}

static const char* inc_cb(const char* name, const char* calling_file, const char* calling_ns, void* ud)
{
  for (int i = 0; i < nincs; i++)
    if (!strcmp(incs[i].name, name)) return strdup(incs[i].content);
  return NULL;
}
static void inc_free(const char* res, void* ud) { free((void*) res); }

static int scan_cb(YR_SCAN_CONTEXT* ctx, int msg, void* data, void* ud)
{
  if (msg == CALLBACK_MSG_RULE_MATCHING) { int* n = (int*) ud; n[0]++; if (!strcmp(((YR_RULE*) data)->identifier, "follow")) n[1]++; }
  return CALLBACK_CONTINUE;
}

// number of open descriptors of this process (a compile must not change it)
static int count_fds(void)
{
  DIR* d = opendir("/proc/self/fd"); if (!d) return -1;
  int n = 0; struct dirent* e;
  while ((e = readdir(d)) != NULL) if (e->d_name[0] != '.') n++;
  closedir(d);
  return n;
}

static double now_s(void) { struct timespec t; clock_gettime(CLOCK_MONOTONIC, &t); return t.tv_sec + t.tv_nsec * 1e-9; }

static void child(char mode, uint8_t* src, size_t len, int rfd)
{
  static const uint8_t buf[] = "xx needle in a haystack: abcdefgh 0123456789 \x00\x01\x02\xff MZ\x90 verif";
  CB c; memset(&c, 0, sizeof c); c.msgok = 1; c.lineok = 1;
  YR_COMPILER* comp = NULL; YR_RULES* rules = NULL;
  // growth flavour: every arena allocation moves its buffer (g) / tiny initial buffers (i), so a pointer kept across an allocation is dangling at once
  int fds_before = count_fds();
  if (strchr(opts, 'g')) yr_verif_arena_always_move = 1;
  if (strchr(opts, 'i')) yr_verif_arena_initial_size = 64;
  if (yr_compiler_create(&comp) != ERROR_SUCCESS) _exit(30);
  yr_compiler_set_callback(comp, ccb, &c);
  if (strchr(opts, 'n')) yr_compiler_set_include_callback(comp, NULL, NULL, NULL);
  else if (!strchr(opts, 'd')) yr_compiler_set_include_callback(comp, inc_cb, inc_free, NULL);
  if (strchr(opts, 's')) comp->strict_escape = true;
  static const uint8_t aq[] = {0x00, 0x00, 0x00, 0x00, 10, 0x41, 0x41, 0x41, 0x41, 1, 0xff, 0xff, 0xff, 0xff, 255};   // 3 entries of 4 atom bytes + quality
  if (strchr(opts, 'q')) yr_compiler_set_atom_quality_table(comp, aq, 3, 200);
  yr_compiler_define_integer_variable(comp, "ext_int", 5);
  yr_compiler_define_string_variable(comp, "ext_str", "hello");
  yr_compiler_define_boolean_variable(comp, "ext_bool", 1);
  int errs;
  if (mode == 'F')        // yr_compiler_add_file on a stdio stream over the bytes
  {
    FILE* f = len ? fmemopen(src, len, "r") : fopen("/dev/null", "r");
    errs = yr_compiler_add_file(comp, f, nspace, fname ? (fname[0] ? fname : NULL) : "mem.yar");
    fclose(f);
  }
  else if (mode == 'D')   // yr_compiler_add_fd on an anonymous file holding the bytes
  {
    int fd = memfd_create("c07", 0);
    if (fd < 0 || write(fd, src, len) != (ssize_t) len) _exit(31);
    lseek(fd, 0, SEEK_SET);
    errs = yr_compiler_add_fd(comp, fd, nspace, fname ? (fname[0] ? fname : NULL) : "fd.yar");
    close(fd);
  }
  else errs = (mode == 'B') ? yr_compiler_add_bytes(comp, src, len, nspace) : yr_compiler_add_string(comp, (const char*) src, nspace);
  for (int u = 0; u < nunits && errs == 0; u++)   // yr_compiler_add_* may only be called again while the error count is 0 (it asserts so)
    errs = yr_compiler_add_string(comp, units[u], NULL);
  int lasterr = comp->last_error;   // error code behind the last callback
  int got = 0; char scan[48] = "-";
  if (errs == 0)
  {
    int rc = yr_compiler_get_rules(comp, &rules);
    if (rc == ERROR_SUCCESS)
    {
      got = 1; int n[2] = {0, 0};
      rc = yr_rules_scan_mem(rules, buf, sizeof buf - 1, 0, scan_cb, n, 20);
      snprintf(scan, sizeof scan, "%s", errname(rc));
      yr_rules_destroy(rules);
    }
    else snprintf(scan, sizeof scan, "getrules:%s", errname(rc));
  }
  yr_compiler_destroy(comp);
  free(src);
  yr_verif_arena_always_move = 0; yr_verif_arena_initial_size = 0;
  // follow-up compilation and scan in the same process
  const char* follow = "ok";
  {
    YR_COMPILER* c2 = NULL; YR_RULES* r2 = NULL; int n[2] = {0, 0};
    CB cb2; memset(&cb2, 0, sizeof cb2);
    if (yr_compiler_create(&c2) != ERROR_SUCCESS) follow = "BAD-create";
    else
    {
      yr_compiler_set_callback(c2, ccb, &cb2);
      if (yr_compiler_add_string(c2, "rule follow { strings: $a = \"needle\" $b = /hay[a-z]+k/ condition: $a and $b and filesize > 10 }  rule other { condition: false }", NULL) != 0)
        follow = "BAD-compile";
      else if (yr_compiler_get_rules(c2, &r2) != ERROR_SUCCESS) follow = "BAD-getrules";
      else if (yr_rules_scan_mem(r2, buf, sizeof buf - 1, 0, scan_cb, n, 20) != ERROR_SUCCESS) follow = "BAD-scan";
      else if (n[0] != 1 || n[1] != 1) follow = "BAD-result";
      if (r2) yr_rules_destroy(r2);
      yr_compiler_destroy(c2);
    }
  }
  int fds_delta = count_fds() - fds_before;
  int leaks = __lsan_do_recoverable_leak_check ? __lsan_do_recoverable_leak_check() : 0;
  char kind[64]; int k = 0, words = 0;
  for (const char* p = c.first; *p && k < 60; p++)
  {
    if (*p == ' ') { if (++words == 3) break; kind[k++] = '_'; }
    else if ((*p >= 'a' && *p <= 'z') || (*p >= 'A' && *p <= 'Z')) kind[k++] = *p;
    else if (*p == '"' || *p == ':' || *p == ',') break;
  }
  kind[k] = 0;
  for (char* p = c.l0msg; *p; p++) if (*p == ' ') *p = '_';
  char res[1024];
  int l = snprintf(res, sizeof res, "errs=%d cb=%d warn=%d msgok=%d lasterr=%s lineok=%d l0=%d l0eof=%d rules=%d scan=%s destroy=1 follow=%s fds=%d kind=%s l0msg=%.60s diag=%s", errs, c.errs, c.warns, c.msgok,
                   errname(lasterr), c.lineok, c.l0, c.l0eof, got, scan, follow, fds_delta, k ? kind : "-", c.l0msg[0] ? c.l0msg : "-", c.ndiag ? c.diag : "-");
  if (write(rfd, res, l) != l) _exit(24);
#ifdef VERIF_COV
  __gcov_dump();
#endif
  _exit(leaks ? 23 : 0);
}

int main(int argc, char** argv)
{
  double tmo = argc > 1 ? atof(argv[1]) : 20.0;
  yr_initialize();
  char* line = NULL; size_t cap = 0;
  static char* t[80];
  while (getline(&line, &cap, stdin) > 0)
  {
    int n = split(line, t, 80);
    if (n < 3) continue;
    size_t len; uint8_t* src = unhex(t[2], &len);
    nincs = 0; nunits = 0; opts[0] = 0; free(fname); free(nspace); fname = nspace = NULL;
    for (int i = 3; i < n && nincs < 64; i++)
      if (t[i][0] == 'U' && nunits < 16) { size_t l3; units[nunits++] = (char*) unhex(t[i] + 1, &l3); }
      else if (t[i][0] == 'O') snprintf(opts, sizeof opts, "%s", t[i] + 1);
      else if (t[i][0] == 'N') { size_t l3; fname = (char*) unhex(t[i][1] ? t[i] + 1 : "-", &l3); }
      else if (t[i][0] == 'P') { size_t l3; nspace = (char*) unhex(t[i] + 1, &l3); }
      else if (t[i][0] == 'I')
      {
        char* eq = strchr(t[i], '=');
        if (!eq) continue;
        *eq = 0; size_t l2;
        incs[nincs].name = t[i] + 1; incs[nincs].content = (char*) unhex(eq + 1, &l2); nincs++;
      }
    int ep[2], rp[2];
    if (pipe(ep) || pipe(rp)) DIE("pipe");
    fflush(stdout);
    pid_t pid = fork();
    if (pid < 0) DIE("fork");
    if (pid == 0)
    {
      dup2(ep[1], 2); close(ep[0]); close(ep[1]); close(rp[0]);
      int dn = open("/dev/null", O_WRONLY); dup2(dn, 1);
      // exact-size copy so that an over-read of the source is visible (add_string needs the terminator)
      uint8_t* copy = (uint8_t*) malloc(len + (t[1][0] == 'S' ? 1 : 0) + (len == 0 && t[1][0] != 'S'));
      memcpy(copy, src, len); if (t[1][0] == 'S') copy[len] = 0;
      child(t[1][0], copy, len, rp[1]);
    }
    close(ep[1]); close(rp[1]);
    static char msg[1 << 15]; size_t ml = 0;
    double deadline = now_s() + tmo; int timed_out = 0;
    for (;;)
    {
      double left = deadline - now_s();
      if (left <= 0) { timed_out = 1; break; }
      struct pollfd pf = {ep[0], POLLIN, 0};
      int pr = poll(&pf, 1, (int) (left * 1000) + 1);
      if (pr <= 0) continue;
      char tmp[4096];
      ssize_t r = read(ep[0], tmp, sizeof tmp);
      if (r <= 0) break;
      for (ssize_t i = 0; i < r && ml + 5 < sizeof msg; i++)
      {
        if (tmp[i] == '\n') { memcpy(msg + ml, " ## ", 4); ml += 4; }
        else if ((unsigned char) tmp[i] >= 32 && (unsigned char) tmp[i] < 127) msg[ml++] = tmp[i];
      }
    }
    if (timed_out) kill(pid, SIGKILL);
    int status = 0; waitpid(pid, &status, 0);
    char res[1024]; ssize_t rl = read(rp[0], res, sizeof res - 1); if (rl < 0) rl = 0; res[rl] = 0;
    close(ep[0]); close(rp[0]);
    msg[ml] = 0;
    if (timed_out) printf("%s TIMEOUT\n", t[0]);
    else if (WIFEXITED(status) && WEXITSTATUS(status) == 0) printf("%s ok %s\n", t[0], res);
    else printf("%s CRASH exit=%d signal=%d res=[%s] msg=%s\n", t[0], WIFEXITED(status) ? WEXITSTATUS(status) : -1, WIFSIGNALED(status) ? WTERMSIG(status) : 0, res, msg);
    fflush(stdout);
    free(src);
    for (int i = 0; i < nincs; i++) free(incs[i].content);
    for (int i = 0; i < nunits; i++) free(units[i]);
  }
  yr_finalize();
  free(line);
  return 0;
}
