// C04 translation validation: dump the condition bytecode the real compiler produced.
// Line:  <id> [cext=<t>:<name>:<val>]* src=<hex rule text> ...            (other tokens ignored)
// Out:   <id> OK code=<hex of the code section> rel=<codeoff>:<kind><payload>,...
//        kind S<rule>.<k>  pointer to the k-th string of rule <rule>
//             P<hex>       pointer into the string pool: up to 64 raw bytes of the target (C string or SIZED_STRING)
//             R            pointer into the regexp code section
//             O<buf>       anything else
//   or   <id> CERR <errname> <line>
#include "common.h"
#include <yara/compiler.h>
#include <yara/arena.h>

static int define_ext(YR_COMPILER* c, char* spec)
{
  char* p[4]; if (splitc(spec, ':', p, 4) != 3) return -1;
  char ty = p[0][0]; int rc; size_t l; uint8_t* s = NULL;
  if (ty == 's') s = unhex(p[2], &l);
  rc = ty == 'i' ? yr_compiler_define_integer_variable(c, p[1], strtoll(p[2], 0, 10))
     : ty == 'b' ? yr_compiler_define_boolean_variable(c, p[1], atoi(p[2]))
     : ty == 'f' ? yr_compiler_define_float_variable(c, p[1], atof(p[2]))
                 : yr_compiler_define_string_variable(c, p[1], (char*) s);
  free(s);
  return rc;
}

int main()
{
  char* line = NULL; size_t cap = 0;
  static char* toks[8192];
  yr_initialize();
  while (getline(&line, &cap, stdin) > 0)
  {
    int n = split(line, toks, 8192);
    if (n < 1) continue;
    YR_COMPILER* comp = NULL; YR_RULES* rules = NULL;
    VF_ERRS errs = {{0}, 0, 0};
    int failed = 0;
    yr_compiler_create(&comp);
    yr_compiler_set_callback(comp, vf_compiler_cb, &errs);
    for (int i = 1; i < n && !failed; i++)
    {
      if (!strncmp(toks[i], "cext=", 5))
      {
        int rc = define_ext(comp, toks[i] + 5);
        if (rc) { printf("%s XERR %s\n", toks[0], errname(rc)); failed = 1; }
      }
      else if (!strncmp(toks[i], "src=", 4))
      {
        size_t l; char* src = (char*) unhex(toks[i] + 4, &l);
        int e = yr_compiler_add_string(comp, src, NULL);
        free(src);
        if (e > 0) { printf("%s CERR %s %d\n", toks[0], errname(comp->last_error), errs.line); failed = 1; }
      }
    }
    if (!failed)
    {
      int rc = yr_compiler_get_rules(comp, &rules);
      if (rc) { printf("%s CERR get_rules:%s 0\n", toks[0], errname(rc)); failed = 1; }
    }
    if (!failed)
    {
      YR_ARENA* a = rules->arena;
      uint8_t* code = a->buffers[YR_CODE_SECTION].data;
      size_t used = a->buffers[YR_CODE_SECTION].used;
      printf("%s OK code=", toks[0]);
      for (size_t i = 0; i < used; i++) printf("%02x", code[i]);
      if (used == 0) printf("-");
      printf(" rel=");
      int first = 1;
      for (YR_RELOC* r = a->reloc_list_head; r != NULL; r = r->next)
      {
        if (r->buffer_id != YR_CODE_SECTION) continue;
        void* p; memcpy(&p, code + r->offset, sizeof p);
        YR_ARENA_REF ref;
        printf("%s%u:", first ? "" : ",", (unsigned) r->offset); first = 0;
        if (p == NULL || yr_arena_ptr_to_ref(a, p, &ref) == 0) { printf("O-"); continue; }
        if (ref.buffer_id == YR_STRINGS_TABLE)
        {
          YR_STRING* s = (YR_STRING*) p;
          YR_RULE* rule = &rules->rules_table[s->rule_idx];
          printf("S%u.%u", (unsigned) s->rule_idx, (unsigned) (s - rule->strings));
        }
        else if (ref.buffer_id == YR_SZ_POOL)
        {
          size_t avail = a->buffers[YR_SZ_POOL].used - ref.offset;
          if (avail > 64) avail = 64;
          printf("P");
          for (size_t i = 0; i < avail; i++) printf("%02x", ((uint8_t*) p)[i]);
        }
        else if (ref.buffer_id == YR_RE_CODE_SECTION) printf("R");
        else printf("O%u", (unsigned) ref.buffer_id);
      }
      if (first) printf("-");
      printf("\n");
    }
    if (rules) yr_rules_destroy(rules);
    if (comp) yr_compiler_destroy(comp);
    fflush(stdout);
  }
  yr_finalize();
  free(line);
  return 0;
}
