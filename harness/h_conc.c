// C09 runtime tie: N threads scan concurrently over ONE compiled rule set.
//  * frame hypothesis "scans only read YR_RULES": every arena buffer of the rules and the YR_RULES struct are moved to
//    page-aligned mappings which are PROT_READ for the whole run (a write faults at once, whatever the schedule);
//    a hash of all buffers is taken before and after as well;
//  * determinism: every (thread, iteration) scan is first run alone (sequentially) and then concurrently after a barrier;
//    result code and the hash of the full callback trace (message kinds, rule ids, every match offset/length, module
//    imports, console output) must be identical;
//  * the same binary is built with -fsanitize=thread for the data-race part.
// usage: h_conc <workdir>        line: <id> <nthreads> <iters> <seed> [noprotect]
// out:   <id> n=<nthreads> scans=<k> mismatch=<m> rules_hash=<same|CHANGED> ro=<0|1> handler_inside_bad=<scans that saw the application's SIGBUS
//        handler while inside YR_TRYCATCH> handler_outside_bad=<application handler missing before/after the concurrent phase> kinds=<histogram> rcs=<histogram> [first=<detail>]
#include "common.h"
#include <pthread.h>
#include <unistd.h>
#include <time.h>
#include <signal.h>
#include <sys/mman.h>
#include <sys/stat.h>
#include <fcntl.h>
#include <semaphore.h>
#include <setjmp.h>
#include <sys/wait.h>
#include <yara/arena.h>
#include <yara/rules.h>

static const char* RULES_SRC =
    "import \"pe\"\n import \"math\"\n import \"hash\"\n import \"console\"\n import \"elf\"\n"
    "rule s_text { strings: $a = \"needle\" $b = \"HAYSTACK\" nocase $c = \"wide\" wide ascii condition: any of them }\n"
    "rule s_hex { strings: $h = { 4D 5A [0-64] 50 45 } $j = { 00 01 ?? 03 ( 04 | 05 06 ) } condition: $h or #j > 0 }\n"
    "rule s_re { strings: $r = /[a-z]{4,8}[0-9]{2,}/ $q = /n(e|o)+dle/i $x = /\\x00{4,}\\x01/ condition: #r > 1 or $q or $x }\n"
    "rule s_many { strings: $a = \"a\" condition: #a > 3 and @a[2] > 0 and for any i in (1..#a) : ( @a[i] % 7 == 3 ) }\n"
    "rule m_pe { condition: pe.number_of_sections > 0 and pe.sections[0].raw_data_size >= 0 and pe.entry_point >= 0 }\n"
    "rule m_elf { condition: elf.number_of_sections > 0 or elf.type == elf.ET_EXEC }\n"
    "rule m_math { condition: math.entropy(0, filesize) > 2.0 and math.mean(0, filesize) > 10.0 }\n"
    "rule m_hash { condition: hash.md5(0, filesize) != \"\" and hash.crc32(0, filesize) != 0 and hash.sha1(0, 16) == hash.sha1(0, 16) }\n"
    "rule m_console { condition: console.log(\"size: \", filesize) and console.hex(uint16(0)) }\n"
    "rule e_i0 { condition: ext_i == 0 }\n rule e_i1 { condition: ext_i == 1 }\n rule e_i2 { condition: ext_i == 2 }\n rule e_i3 { condition: ext_i == 3 }\n"
    "rule e_s { condition: ext_s == \"t1\" or ext_s contains \"2\" }\n rule e_b { condition: ext_b }\n rule e_f { condition: ext_f > 0.25 }\n"
    "rule loops { condition: for all i in (0..2000) : ( uint8(i % filesize) + i >= 0 ) }\n"
    "rule ref { condition: s_text and not e_i3 }\n"
    "rule fib { strings: $f = /(a{1,50}){1,50}b/ condition: $f }\n"
    "rule chain { strings: $c = { 43 48 41 49 4E 48 45 41 44 [250-400] 43 48 41 49 4E 54 41 49 4C } $d = \"CHAINHEAD\" condition: #c >= 0 or $d }\n"
    "private rule priv { condition: filesize > 10 }\n global rule glob { condition: filesize > 0 }\n";

enum { K_SCANNER_MEM, K_SCANNER_FILE, K_RULES_MEM, K_RULES_FILE, K_ABORT, K_CBERROR, K_NOFILE, K_REUSE, K_FAST, K_FD, K_UNMAPPABLE, K_TIMEOUT, K_NKINDS };
static const char* KNAME[] = {"scanner_mem", "scanner_file", "rules_mem", "rules_file", "cb_abort", "cb_error", "missing_file", "scanner_reuse", "fast_mode", "scan_fd", "unmappable_file", "timeout"};

#define NBUF 8
static const char* workdir_g;
static uint8_t* bufs[NBUF]; static size_t blen[NBUF]; static char bpath[NBUF][512];
static YR_RULES* rules;           // the read-only relocated rule set
static YR_RULES* old_rules;       // kept reachable, never used again
static struct { uint8_t* p; size_t len; size_t used; } ro[YR_MAX_ARENA_BUFFERS + 1]; static int nro;
static int ro_ok;
static YR_RULES* keep_r1;

typedef struct { uint64_t h; int n; int stop_at; int mode; int sleep_ms; int expect_chain; } TRACE;   // expect_chain: 1 + number of occurrences of the chained string planted in the buffer (0 = unknown)
static int chain_bad;
static const char* unmappable_path = "/nonexistent/verif/unmappable";
typedef struct { int rc; uint64_t h; int n; } RES;
typedef struct { int idx, kind, iters, seed; RES* out; int fresh; } JOB;   // fresh: reference run — a reused scanner is replaced by a new one per scan

static uint64_t fnv(uint64_t h, const void* p, size_t n) { const uint8_t* b = (const uint8_t*) p; for (size_t i = 0; i < n; i++) { h ^= b[i]; h *= 0x100000001b3ULL; } return h; }

// handler protocol observed from outside: the application's SIGBUS handler (`app_handler`) must be in place whenever no scan is
// inside YR_TRYCATCH, and replaced by libyara's while a scan is (every callback runs inside the protected region)
// the application's own SIGBUS handler: recovers a fault the application itself provokes on purpose (foreign to libyara), anything else ends the process
static __thread sigjmp_buf* foreign_jmp;
static volatile int foreign_seen;
static void app_handler(int sig, siginfo_t* si, void* uc)
{
  if (foreign_jmp) { foreign_seen++; siglongjmp(*foreign_jmp, 1); }
  static const char m[] = "h_conc: the APPLICATION's SIGBUS handler received a fault raised inside a libyara scan (the library did not recognise its own fault)\n";
  if (write(2, m, sizeof m - 1) < 0) _exit(78);
  _exit(77);
}
// provoke a SIGBUS outside any scan: read a private mapping of a file that was truncated; returns 1 when the application handler recovered it
static int foreign_fault(int tag)
{
  char path[600]; snprintf(path, sizeof path, "%s/foreign_%d_%d.bin", workdir_g, (int) getpid(), tag);
  int fd = open(path, O_RDWR | O_CREAT | O_TRUNC, 0600); if (fd < 0) return -1;
  if (ftruncate(fd, 8192) != 0) { close(fd); return -1; }
  volatile uint8_t* m = (volatile uint8_t*) mmap(NULL, 8192, PROT_READ, MAP_PRIVATE, fd, 0);
  if (m == MAP_FAILED) { close(fd); return -1; }
  if (ftruncate(fd, 0) != 0) { munmap((void*) m, 8192); close(fd); return -1; }
  sigjmp_buf jb; int got = 0;
  foreign_jmp = &jb;
  if (sigsetjmp(jb, 1) == 0) { volatile uint8_t x = m[100]; (void) x; }
  else got = 1;
  foreign_jmp = NULL;
  munmap((void*) m, 8192); close(fd); unlink(path);
  return got;
}
static int hnd_inside_bad, hnd_outside_bad, fd_bad;
static int app_handler_installed(void)
{
  struct sigaction sa; sigaction(SIGBUS, NULL, &sa);
  return (sa.sa_flags & SA_SIGINFO) && sa.sa_sigaction == app_handler;
}

static int cb(YR_SCAN_CONTEXT* ctx, int msg, void* data, void* ud)
{
  TRACE* t = (TRACE*) ud;
  if (t->n == 0 && app_handler_installed()) __atomic_add_fetch(&hnd_inside_bad, 1, __ATOMIC_RELAXED);
  t->h = fnv(t->h, &msg, sizeof msg); t->n++;
  if (msg == CALLBACK_MSG_RULE_MATCHING || msg == CALLBACK_MSG_RULE_NOT_MATCHING)
  {
    YR_RULE* r = (YR_RULE*) data;
    t->h = fnv(t->h, r->identifier, strlen(r->identifier));
    if (msg == CALLBACK_MSG_RULE_MATCHING)
    {
      YR_STRING* s; YR_MATCH* m; int chain_seen = 0;
      yr_rule_strings_foreach(r, s)
      {
        t->h = fnv(t->h, s->identifier, strlen(s->identifier));
        int nm = 0;
        yr_string_matches_foreach(ctx, s, m)
        {
          t->h = fnv(t->h, &m->offset, sizeof m->offset); t->h = fnv(t->h, &m->match_length, sizeof m->match_length);
          t->h = fnv(t->h, m->data, m->data_length); nm++;
        }
        if (!strcmp(s->identifier, "$c")) chain_seen += nm;   // the fragments of a chained string share the identifier; the matches hang off one of them
      }
      // ground truth for the chained hex string (jump > 200): every planted occurrence must be enumerated, whatever the scanner did before
      if (t->expect_chain && !strcmp(r->identifier, "chain") && chain_seen != t->expect_chain - 1) __atomic_add_fetch(&chain_bad, 1, __ATOMIC_RELAXED);
    }
  }
  else if (msg == CALLBACK_MSG_IMPORT_MODULE)
  {
    YR_MODULE_IMPORT* mi = (YR_MODULE_IMPORT*) data;
    t->h = fnv(t->h, mi->module_name, strlen(mi->module_name));
    if (t->sleep_ms) { struct timespec ts = {t->sleep_ms / 1000, (t->sleep_ms % 1000) * 1000000L}; nanosleep(&ts, NULL); t->sleep_ms = 0; }
  }
  else if (msg == CALLBACK_MSG_MODULE_IMPORTED)
  {
    YR_OBJECT* o = (YR_OBJECT*) data; t->h = fnv(t->h, o->identifier, strlen(o->identifier));
  }
  else if (msg == CALLBACK_MSG_CONSOLE_LOG) t->h = fnv(t->h, data, strlen((const char*) data));
  if (t->stop_at && t->n == t->stop_at) return t->mode;
  return CALLBACK_CONTINUE;
}

static void define_ext(YR_SCANNER* sc, int v)
{
  char s[8]; snprintf(s, sizeof s, "t%d", v % 3);
  yr_scanner_define_integer_variable(sc, "ext_i", v % 4);
  yr_scanner_define_string_variable(sc, "ext_s", s);
  yr_scanner_define_boolean_variable(sc, "ext_b", v & 1);
  yr_scanner_define_float_variable(sc, "ext_f", (v % 5) / 4.0);
}

// the work of one logical thread: `iters` scans; deterministic in (idx, kind, seed)
static void work(JOB* j)
{
  YR_SCANNER* reuse = NULL;
  for (int it = 0; it < j->iters; it++)
  {
    int b = (j->kind == K_REUSE) ? (int) (((unsigned) (j->idx * 2654435761u + j->seed * 40503u) >> 3) + it * (1 + (j->idx + j->seed) % 5)) % NBUF
                                 : (j->idx * 7 + it * 3 + j->seed) % NBUF;
    TRACE t = {0xcbf29ce484222325ULL, 0, 0, 0, 0, (b == 7 ? 2 : 0) + 1};
    int rc = -1;
    int flags = SCAN_FLAGS_REPORT_RULES_MATCHING | SCAN_FLAGS_REPORT_RULES_NOT_MATCHING;
    switch (j->kind)
    {
    case K_FD:
    {
      // the thread's OWN descriptor: after the scan it must still be open and refer to the same file (the library must not close it)
      int fd = open(bpath[b], O_RDONLY);
      if (fd < 0) { __atomic_add_fetch(&fd_bad, 1, __ATOMIC_RELAXED); break; }
      if (it & 1) rc = yr_rules_scan_fd(rules, fd, flags, cb, &t, 0);
      else
      {
        YR_SCANNER* sc = NULL;
        if (yr_scanner_create(rules, &sc) == ERROR_SUCCESS)
        {
          define_ext(sc, j->idx); yr_scanner_set_flags(sc, flags); yr_scanner_set_callback(sc, cb, &t);
          rc = yr_scanner_scan_fd(sc, fd);
          yr_scanner_destroy(sc);
        }
      }
      struct stat st;
      if (fstat(fd, &st) != 0 || (size_t) st.st_size != blen[b]) __atomic_add_fetch(&fd_bad, 1, __ATOMIC_RELAXED);
      if (close(fd) != 0) __atomic_add_fetch(&fd_bad, 1, __ATOMIC_RELAXED);
      break;
    }
    case K_RULES_MEM: rc = yr_rules_scan_mem(rules, bufs[b], blen[b], flags, cb, &t, 0); break;
    case K_RULES_FILE: rc = yr_rules_scan_file(rules, bpath[b], flags, cb, &t, 0); break;
    case K_REUSE:
      if (j->fresh && reuse) { yr_scanner_destroy(reuse); reuse = NULL; }   // reference: what this scan reports with a scanner that has no history
      if (!reuse) { if (yr_scanner_create(rules, &reuse) != ERROR_SUCCESS) break; }
      define_ext(reuse, j->idx + it);
      yr_scanner_set_callback(reuse, cb, &t); yr_scanner_set_flags(reuse, flags);
      rc = (it & 1) ? yr_scanner_scan_file(reuse, bpath[b]) : yr_scanner_scan_mem(reuse, bufs[b], blen[b]);
      break;
    default:
    {
      YR_SCANNER* sc = NULL;
      if (yr_scanner_create(rules, &sc) != ERROR_SUCCESS) break;
      define_ext(sc, j->idx);
      if (j->kind == K_FAST) flags |= SCAN_FLAGS_FAST_MODE;
      yr_scanner_set_flags(sc, flags); yr_scanner_set_callback(sc, cb, &t);
      if (j->kind == K_ABORT) { t.stop_at = 3 + (j->idx + it) % 9; t.mode = CALLBACK_ABORT; }
      if (j->kind == K_CBERROR) { t.stop_at = 2 + (j->idx + it) % 7; t.mode = CALLBACK_ERROR; }
      if (j->kind == K_TIMEOUT) { yr_scanner_set_timeout(sc, 1); t.sleep_ms = 1600; }
      if (j->kind == K_NOFILE) rc = yr_scanner_scan_file(sc, "/nonexistent/verif/c09");
      else if (j->kind == K_UNMAPPABLE) rc = yr_scanner_scan_file(sc, unmappable_path);   // opens and stats fine, mmap fails
      else if (j->kind == K_SCANNER_FILE) rc = yr_scanner_scan_file(sc, bpath[b]);
      else rc = yr_scanner_scan_mem(sc, bufs[b], blen[b]);
      yr_scanner_destroy(sc);
    }
    }
    j->out[it].rc = rc; j->out[it].h = t.h; j->out[it].n = t.n;
  }
  if (reuse) yr_scanner_destroy(reuse);
}

static pthread_barrier_t bar;
static void* thr(void* a) { pthread_barrier_wait(&bar); work((JOB*) a); return NULL; }


// ---- library lifetime + faulting scan (YR_TRYCATCH exercised for real): the file is truncated by the scan's own callback
// after it was mapped, so the next access of the module parsers raises SIGBUS inside the protected region.
typedef struct { char path[600]; int rc; int done; size_t keep; int variant; } FAULT;
static int fault_cb(YR_SCAN_CONTEXT* ctx, int msg, void* data, void* ud)
{
  FAULT* f = (FAULT*) ud;
  if (msg == CALLBACK_MSG_IMPORT_MODULE && !f->done) { f->done = 1; if (truncate(f->path, (off_t) f->keep) != 0) f->rc = -2; }
  return CALLBACK_CONTINUE;
}
static const char* workdir;
// variant 0: the whole file disappears; 1..3: only the LAST page disappears, holding 1 byte / 2 bytes / a full page of the file — the first faulting access
// is then the last byte, one of the last two bytes, or the first byte of the last page of the block
static void fault_scan_v(FAULT* f, int tag, int variant)
{
  size_t pgs = (size_t) sysconf(_SC_PAGESIZE);
  size_t size = variant == 0 ? blen[1] : (variant == 1 ? 3 * pgs + 1 : variant == 2 ? 3 * pgs + 2 : 4 * pgs);
  f->keep = variant == 0 ? 0 : 3 * pgs;
  snprintf(f->path, sizeof f->path, "%s/fault_%d_%d.bin", workdir, (int) getpid(), tag);
  FILE* o = fopen(f->path, "wb"); if (!o) { f->rc = -3; return; }
  fwrite(bufs[1], 1, size, o); fclose(o);
  f->done = 0; f->rc = -1;
  YR_SCANNER* sc = NULL;
  if (yr_scanner_create(rules, &sc) != ERROR_SUCCESS) { f->rc = -4; return; }
  define_ext(sc, tag);
  yr_scanner_set_callback(sc, fault_cb, f);
  int rc = yr_scanner_scan_file(sc, f->path);
  if (f->rc == -1) f->rc = rc;
  yr_scanner_destroy(sc);
  unlink(f->path);
}
static void fault_scan(FAULT* f, int tag) { fault_scan_v(f, tag, 0); }
static void* fault_thr(void* a) { pthread_barrier_wait(&bar); FAULT* f = (FAULT*) a; fault_scan_v(f, 100 + (int) (((uintptr_t) f / sizeof(FAULT)) % 100000), f->variant); return NULL; }

// ---- too-many-matches parking scenario (library built with a small YR_MAX_STRING_MATCHES): thread A floods two strings; it answers CONTINUE for the
// first one and PARKS inside the callback for the second one, i.e. while the first string is temporarily disabled in A's scan; meanwhile thread B scans a
// buffer in which that first string occurs once. B's trace must equal its trace when run alone.
static sem_t a_parked, b_done;
typedef struct { TRACE t; int too_many; int park; int refuse; } PARK;
static int park_cb(YR_SCAN_CONTEXT* ctx, int msg, void* data, void* ud)
{
  PARK* p = (PARK*) ud;
  if (msg == CALLBACK_MSG_TOO_MANY_MATCHES)
  {
    p->too_many++;
    YR_STRING* s = (YR_STRING*) data;
    p->t.h = fnv(p->t.h, s->identifier, strlen(s->identifier)); p->t.n++;
    if (p->too_many == 2 && p->park) { sem_post(&a_parked); sem_wait(&b_done); p->park = 2; }
    if (p->refuse && p->too_many == 2) return CALLBACK_ABORT;
    return CALLBACK_CONTINUE;
  }
  return cb(ctx, msg, data, &p->t);
}
static uint8_t flood[2048]; static size_t flood_len; static const uint8_t once[] = "xx needle yy haystack zz 0123456789 abcdefghij";
typedef struct { RES r; } BRES;
static void scan_once(RES* out)
{
  TRACE t = {0xcbf29ce484222325ULL, 0, 0, 0, 0};
  YR_SCANNER* sc = NULL; out->rc = -1;
  if (yr_scanner_create(rules, &sc) != ERROR_SUCCESS) return;
  define_ext(sc, 1); yr_scanner_set_flags(sc, SCAN_FLAGS_REPORT_RULES_MATCHING | SCAN_FLAGS_REPORT_RULES_NOT_MATCHING); yr_scanner_set_callback(sc, cb, &t);
  out->rc = yr_scanner_scan_mem(sc, once, sizeof once - 1); out->h = t.h; out->n = t.n;
  yr_scanner_destroy(sc);
}
static void scan_flood(PARK* p, RES* out)
{
  YR_SCANNER* sc = NULL; out->rc = -1;
  if (yr_scanner_create(rules, &sc) != ERROR_SUCCESS) return;
  define_ext(sc, 2); yr_scanner_set_flags(sc, SCAN_FLAGS_REPORT_RULES_MATCHING | SCAN_FLAGS_REPORT_RULES_NOT_MATCHING); yr_scanner_set_callback(sc, park_cb, p);
  out->rc = yr_scanner_scan_mem(sc, flood, flood_len); out->h = p->t.h; out->n = p->t.n;
  yr_scanner_destroy(sc);
}
static PARK pa; static RES ra, rb;
static void* thr_a(void* x) { scan_flood(&pa, &ra); if (pa.park == 1) sem_post(&a_parked); return NULL; }
static void* thr_b(void* x) { sem_wait(&a_parked); scan_once(&rb); sem_post(&b_done); return NULL; }

static sem_t x_inside, x_release; static int hold_rc;
static int hold_cb(YR_SCAN_CONTEXT* ctx, int msg, void* data, void* ud)
{
  int* first = (int*) ud;
  if (!*first) { *first = 1; sem_post(&x_inside); sem_wait(&x_release); }
  return CALLBACK_CONTINUE;
}
static void* thr_hold(void* a)
{
  YR_SCANNER* sc = NULL; int first = 0; hold_rc = -1;
  if (yr_scanner_create(rules, &sc) != ERROR_SUCCESS) { sem_post(&x_inside); return NULL; }
  define_ext(sc, 1); yr_scanner_set_callback(sc, hold_cb, &first);
  hold_rc = yr_scanner_scan_mem(sc, bufs[0], blen[0]);
  yr_scanner_destroy(sc);
  if (!first) sem_post(&x_inside);
  return NULL;
}

static uint64_t rules_hash(void)
{
  uint64_t h = 0xcbf29ce484222325ULL;
  for (int i = 0; i < nro; i++) h = fnv(h, ro[i].p, ro[i].used);
  return h;
}

static size_t pg(size_t n) { size_t p = (size_t) sysconf(_SC_PAGESIZE); return (n + p - 1) / p * p; }

// move every arena buffer to its own page-aligned mapping, fixing all relocatable pointers; rebuild YR_RULES in a mapping too
static int relocate_readonly(YR_RULES* r0)
{
  YR_ARENA* a = r0->arena;
  uint8_t* oldp[YR_MAX_ARENA_BUFFERS]; size_t oldu[YR_MAX_ARENA_BUFFERS]; uint8_t* newp[YR_MAX_ARENA_BUFFERS];
  for (uint32_t i = 0; i < a->num_buffers; i++)
  {
    oldp[i] = a->buffers[i].data; oldu[i] = a->buffers[i].used; newp[i] = NULL;
    if (oldp[i] == NULL) continue;
    size_t len = pg(oldu[i] ? oldu[i] : 1);
    newp[i] = (uint8_t*) mmap(NULL, len, PROT_READ | PROT_WRITE, MAP_PRIVATE | MAP_ANONYMOUS, -1, 0);
    if (newp[i] == MAP_FAILED) return 0;
    memcpy(newp[i], oldp[i], oldu[i]);
    ro[nro].p = newp[i]; ro[nro].len = len; ro[nro].used = oldu[i]; nro++;
  }
  for (YR_RELOC* rl = a->reloc_list_head; rl != NULL; rl = rl->next)
  {
    uint8_t* addr = newp[rl->buffer_id] + rl->offset;   // may be unaligned
    uint8_t* target; memcpy(&target, addr, sizeof target);
    if (target == NULL) continue;
    int moved = 0;
    for (uint32_t k = 0; k < a->num_buffers; k++)
      if (oldp[k] && target >= oldp[k] && target < oldp[k] + oldu[k])
      {
        uint8_t* nt = newp[k] + (target - oldp[k]); memcpy(addr, &nt, sizeof nt); moved = 1; break;
      }
    if (!moved) return 0;   // a registered pointer that leaves the arena: cannot build a faithful read-only copy
  }
  for (uint32_t i = 0; i < a->num_buffers; i++)
    if (oldp[i]) { yr_free(oldp[i]); a->buffers[i].data = newp[i]; a->buffers[i].size = pg(oldu[i] ? oldu[i] : 1); }
  YR_RULES* r1 = NULL;
  if (yr_rules_from_arena(a, &r1) != ERROR_SUCCESS) return 0;
  size_t len = pg(sizeof(YR_RULES));
  YR_RULES* r2 = (YR_RULES*) mmap(NULL, len, PROT_READ | PROT_WRITE, MAP_PRIVATE | MAP_ANONYMOUS, -1, 0);
  if (r2 == MAP_FAILED) return 0;
  memcpy(r2, r1, sizeof(YR_RULES));
  ro[nro].p = (uint8_t*) r2; ro[nro].len = len; ro[nro].used = 0; nro++;   // struct holds a time stamp-free copy; not hashed (used = 0)
  keep_r1 = r1;   // r1's no_required_strings bitmask is shared with r2; released at exit
  rules = r2;
  return 1;
}

static void protect(int on)
{
  for (int i = 0; i < nro; i++)
    if (mprotect(ro[i].p, ro[i].len, on ? PROT_READ : PROT_READ | PROT_WRITE) != 0) DIE("mprotect");
}

#include <dirent.h>
static int count_fds(void)
{
  DIR* d = opendir("/proc/self/fd"); if (!d) return -1;
  int n = 0; struct dirent* e;
  while ((e = readdir(d)) != NULL) if (e->d_name[0] != '.') n++;
  closedir(d);
  return n;
}
// a file that opens and stats as a non-empty regular file but cannot be memory-mapped (sysfs attributes: mmap gives ENODEV)
static void probe_unmappable(void)
{
  static const char* cand[] = {"/sys/devices/system/cpu/online", "/sys/kernel/mm/transparent_hugepage/enabled", "/sys/class/net/lo/mtu", "/sys/kernel/notes", NULL};
  for (int i = 0; cand[i]; i++)
  {
    int fd = open(cand[i], O_RDONLY); if (fd < 0) continue;
    struct stat st;
    if (fstat(fd, &st) == 0 && S_ISREG(st.st_mode) && st.st_size > 0)
    {
      void* m = mmap(NULL, (size_t) st.st_size, PROT_READ, MAP_PRIVATE, fd, 0);
      if (m == MAP_FAILED) { unmappable_path = cand[i]; close(fd); return; }
      munmap(m, (size_t) st.st_size);
    }
    close(fd);
  }
}

static void make_buffers(const char* dir)
{
  for (int b = 0; b < NBUF; b++)
  {
    size_t n = (size_t[]){3000, 70000, 12345, 4096, 200000, 64, 5000, 3500}[b];
    bufs[b] = (uint8_t*) malloc(n); blen[b] = n;
    uint64_t s = 0x9E3779B97F4A7C15ULL * (b + 1);
    for (size_t i = 0; i < n; i++) { s ^= s << 13; s ^= s >> 7; s ^= s << 17; bufs[b][i] = (b % 2) ? (uint8_t) (s >> 33) : (uint8_t) ("abcdefghij 0123456789\n"[(s >> 20) % 22]); }
    const char* plant[] = {"needle", "haystack", "w\0i\0d\0e\0", "noodle", "abcd1234", "\0\0\0\0\0\1", "\0\1\2\3\4"};
    size_t plen[] = {6, 8, 8, 6, 8, 6, 5};
    for (int k = 0; k < 7; k++) { size_t at = (n / 9) * (k + 1) % (n > 16 ? n - 16 : 1); if (at + plen[k] < n && (k + b) % 3 != 0) memcpy(bufs[b] + at, plant[k], plen[k]); }
    if (b == 1 || b == 4) { memcpy(bufs[b], "MZ", 2); memset(bufs[b] + 2, 0, 62); bufs[b][0x3c] = 0x40; memcpy(bufs[b] + 0x40, "PE\0\0\x4c\x01\x01\0", 8); bufs[b][0x40 + 20] = 0xE0; bufs[b][0x40 + 24] = 0x0b; bufs[b][0x40 + 25] = 0x01; }
    if (b == 3) memcpy(bufs[b], "\x7f" "ELF\x02\x01\x01", 7);
    if (b == 6) { memset(bufs[b] + 4, 'a', n - 8); }                       // exhausts the regexp fibres of rule `fib` (ERROR_TOO_MANY_RE_FIBERS)
    if (b == 7) for (int k = 0; k < 2; k++) { memcpy(bufs[b] + 100 + 1500 * k, "CHAINHEAD", 9); memcpy(bufs[b] + 100 + 1500 * k + 9 + 300, "CHAINTAIL", 9); }
    snprintf(bpath[b], sizeof bpath[b], "%s/buf%d.bin", dir, b);
    FILE* f = fopen(bpath[b], "wb"); if (!f) DIE("cannot write %s", bpath[b]);
    fwrite(bufs[b], 1, n, f); fclose(f);
  }
}

int main(int argc, char** argv)
{
  if (argc < 2) DIE("usage: h_conc <workdir>");
  mkdir(argv[1], 0755);
  workdir = argv[1]; workdir_g = argv[1];
  yr_initialize();
  { struct sigaction sa; memset(&sa, 0, sizeof sa); sa.sa_sigaction = app_handler; sa.sa_flags = SA_SIGINFO; sigemptyset(&sa.sa_mask); sigaction(SIGBUS, &sa, NULL); }
  make_buffers(argv[1]);
  probe_unmappable();
  YR_COMPILER* comp; VF_ERRS e = {{0}, 0, 0};
  yr_compiler_create(&comp); yr_compiler_set_callback(comp, vf_compiler_cb, &e);
  yr_compiler_define_integer_variable(comp, "ext_i", 0); yr_compiler_define_string_variable(comp, "ext_s", "t0");
  yr_compiler_define_boolean_variable(comp, "ext_b", 0); yr_compiler_define_float_variable(comp, "ext_f", 0.0);
  if (yr_compiler_add_string(comp, RULES_SRC, NULL) != 0) DIE("rules: line %d: %s", e.line, e.msg);
  // 12 more namespaces (> 8), > 64 rules and > 64 strings in total; every namespace has a global rule that fails on exactly one of the buffers,
  // so which namespaces are suppressed flips from scan to scan of a reused scanner
  for (int i = 0; i < 12; i++)
  {
    char ns[16], src[4096]; int o = 0;
    snprintf(ns, sizeof ns, "ns%d", i);
    o += snprintf(src + o, sizeof src - o, "global rule g { condition: filesize != %zu }\n", blen[i % NBUF]);
    o += snprintf(src + o, sizeof src - o, "rule a { strings: $s = \"needle\" $t = \"haystack\" nocase condition: any of them }\n rule t { condition: true }\n");
    o += snprintf(src + o, sizeof src - o, "rule h { strings: $h = { 00 01 ?? 03 } condition: $h or g }\n rule r { strings: $r = /n(e|o){2}dle[0-9]?/ condition: #r > 0 and t }\n");
    if (i == 0)
    {
      o += snprintf(src + o, sizeof src - o, "rule many { strings:");
      for (int k = 0; k < 70; k++) o += snprintf(src + o, sizeof src - o, " $m%d = \"q%cz%c%dw\"", k, 'a' + k % 10, 'a' + (k / 10), k % 10);
      o += snprintf(src + o, sizeof src - o, " condition: 3 of them or #m1 > 100 }\n");
    }
    if (yr_compiler_add_string(comp, src, ns) != 0) DIE("ns rules %d: line %d: %s", i, e.line, e.msg);
  }
  if (yr_compiler_get_rules(comp, &old_rules) != ERROR_SUCCESS) DIE("get_rules");
  yr_compiler_destroy(comp);
  ro_ok = getenv("H_CONC_NORELOC") ? 0 : relocate_readonly(old_rules);
  if (!ro_ok) { rules = old_rules; nro = 0; }

  char* line = NULL; size_t cap = 0; static char* t[8];
  while (getline(&line, &cap, stdin) > 0)
  {
    int n = split(line, t, 8);
    if (n < 4) continue;
    if (!strcmp(t[1], "F"))
    {
      // foreign fault while ANOTHER thread is held inside an ordinary (protected) scan: libyara's handler is installed at that moment and must hand the
      // fault to the application's SIGBUS handler. Run in a forked child with a time limit: a process that spins or dies is the observation.
      int rp[2]; if (pipe(rp)) DIE("pipe");
      fflush(stdout);
      pid_t pid = fork();
      if (pid == 0)
      {
        close(rp[0]);
        sem_init(&x_inside, 0, 0); sem_init(&x_release, 0, 0);
        pthread_t tx; pthread_create(&tx, NULL, thr_hold, NULL);
        sem_wait(&x_inside);
        int yara_installed = app_handler_installed() ? 0 : 1;
        int got = foreign_fault(9);
        sem_post(&x_release); pthread_join(tx, NULL);
        char res[128]; int l = snprintf(res, sizeof res, "recovered=%d yara_handler_installed_during_scan=%d held_scan=%s after_installed=%d", got, yara_installed, errname(hold_rc),
                                        app_handler_installed());
        if (write(rp[1], res, l) != l) _exit(3);
        _exit(0);
      }
      close(rp[1]);
      int status = 0, waited = 0;
      while (waitpid(pid, &status, WNOHANG) == 0 && waited < 300) { struct timespec ts = {0, 100000000L}; nanosleep(&ts, NULL); waited++; }
      char res[160] = ""; 
      if (waited >= 300) { kill(pid, SIGKILL); waitpid(pid, &status, 0); printf("%s F outcome=TIMEOUT\n", t[0]); }
      else
      {
        ssize_t rl = read(rp[0], res, sizeof res - 1); if (rl < 0) rl = 0; res[rl] = 0;
        if (WIFEXITED(status) && WEXITSTATUS(status) == 0) printf("%s F outcome=done %s\n", t[0], res);
        else printf("%s F outcome=DIED exit=%d signal=%d\n", t[0], WIFEXITED(status) ? WEXITSTATUS(status) : -1, WIFSIGNALED(status) ? WTERMSIG(status) : 0);
      }
      close(rp[0]); fflush(stdout);
      continue;
    }
    if (!strcmp(t[1], "P"))
    {
      int prot = ro_ok && !(n > 3 && !strcmp(t[3], "noprotect"));
      flood_len = 0;
      for (int k = 0; k < 40; k++) { memcpy(flood + flood_len, "needle ", 7); flood_len += 7; }
      for (int k = 0; k < 40; k++) { memcpy(flood + flood_len, "haystack ", 9); flood_len += 9; }
      RES b_alone, a_alone; PARK p0; memset(&p0, 0, sizeof p0); p0.t.h = 0xcbf29ce484222325ULL;
      uint64_t h0 = rules_hash();
      if (prot) protect(1);
      scan_once(&b_alone); scan_flood(&p0, &a_alone);
      memset(&pa, 0, sizeof pa); pa.t.h = 0xcbf29ce484222325ULL; pa.park = 1;
      sem_init(&a_parked, 0, 0); sem_init(&b_done, 0, 0);
      pthread_t ta, tb; pthread_create(&ta, NULL, thr_a, NULL); pthread_create(&tb, NULL, thr_b, NULL);
      pthread_join(tb, NULL); pthread_join(ta, NULL);
      if (prot) protect(0);
      uint64_t h1 = rules_hash();
      int mism = (rb.rc != b_alone.rc || rb.h != b_alone.h || rb.n != b_alone.n) + (ra.rc != a_alone.rc || ra.h != a_alone.h || ra.n != a_alone.n);
      // a scan that ERRORS in the block phase (callback refuses to continue after too many matches): afterwards the application's handler must be back
      // (use count returned to 0) and a handler-recovered foreign fault must reach the application
      PARK pe2; memset(&pe2, 0, sizeof pe2); pe2.t.h = 0xcbf29ce484222325ULL; pe2.refuse = 1; RES re2;
      scan_flood(&pe2, &re2);
      int after_bad = app_handler_installed() ? 0 : 1;
      int foreign = foreign_fault(3);
      printf("%s P too_many=%d parked=%d mismatch=%d rules_hash=%s ro=%d block_error_rc=%s handler_after_block_error_bad=%d foreign_after=%d b_alone=%s/%d/%016" PRIx64 " b_concurrent=%s/%d/%016" PRIx64 "\n", t[0], pa.too_many, pa.park == 2, mism,
             h0 == h1 ? "same" : "CHANGED", prot, re2.rc < 0 ? "SETUP" : errname(re2.rc), after_bad, foreign, errname(b_alone.rc), b_alone.n, b_alone.h, errname(rb.rc), rb.n, rb.h);
      fflush(stdout);
      continue;
    }
    if (!strcmp(t[1], "L"))
    {
      // <id> L <nthreads> <seed>: the main thread takes a SECOND reference on the library (as another component of the program would), threads scan,
      // the main thread drops that reference again, and afterwards the remaining user's scans must still be fault-protected
      int nt = atoi(t[2]); if (nt < 1 || nt > 32) nt = 4;
      FAULT alone; alone.rc = 0;
      for (int v = 0; v < 4; v++) { FAULT a1; fault_scan_v(&a1, 1 + v, v); if (a1.rc != ERROR_COULD_NOT_MAP_FILE) alone = a1; else if (v == 0) alone = a1; }
      int rc_init = yr_initialize();
      FAULT* fs = (FAULT*) calloc(nt, sizeof(FAULT)); pthread_t* th = (pthread_t*) calloc(nt, sizeof(pthread_t));
      JOB* js = (JOB*) calloc(nt, sizeof(JOB));
      pthread_barrier_init(&bar, NULL, nt);
      for (int i = 0; i < nt; i++) { js[i] = (JOB){i, i % 4, 1, atoi(t[3]), (RES*) calloc(1, sizeof(RES)), 0}; pthread_create(&th[i], NULL, thr, &js[i]); }
      for (int i = 0; i < nt; i++) pthread_join(th[i], NULL);
      pthread_barrier_destroy(&bar);
      int rc_fin = yr_finalize();
      pthread_barrier_init(&bar, NULL, nt);
      for (int i = 0; i < nt; i++) { fs[i].variant = i % 4; pthread_create(&th[i], NULL, fault_thr, &fs[i]); }
      for (int i = 0; i < nt; i++) pthread_join(th[i], NULL);
      pthread_barrier_destroy(&bar);
      int okc = 0, other = 0, first_other = 0;
      for (int i = 0; i < nt; i++) { if (fs[i].rc == ERROR_COULD_NOT_MAP_FILE) okc++; else { if (!other) first_other = fs[i].rc; other++; } }
      printf("%s L n=%d nested_init=%s nested_finalize=%s fault_alone=%s fault_after=COULD_NOT_MAP_FILE:%d,other:%d first_other=%s handler_outside_bad=%d foreign_after=%d\n", t[0], nt,
             errname(rc_init), errname(rc_fin), alone.rc < 0 ? "SETUP" : errname(alone.rc), okc, other, other ? (first_other < 0 ? "SETUP" : errname(first_other)) : "-",
             app_handler_installed() ? 0 : 1, foreign_fault(2));
      fflush(stdout);
      for (int i = 0; i < nt; i++) free(js[i].out);
      free(fs); free(th); free(js);
      continue;
    }
    int nt = atoi(t[1]), iters = atoi(t[2]), seed = atoi(t[3]);
    int prot = ro_ok && !(n > 4 && !strcmp(t[4], "noprotect"));
    if (nt < 1 || nt > 64 || iters < 1 || iters > 64) { printf("%s BADOP\n", t[0]); continue; }
    JOB* seqj = (JOB*) calloc(nt, sizeof(JOB)); JOB* conj = (JOB*) calloc(nt, sizeof(JOB));
    int kinds[K_NKINDS] = {0}; int ntimeout = 0;
    for (int i = 0; i < nt; i++)
    {
      int kind = (i * 7 + seed) % (K_NKINDS - 1);             // K_TIMEOUT only on request (slow): one thread when seed % 4 == 3
      if (seed % 4 == 3 && i == nt / 2 && ntimeout == 0) { kind = K_TIMEOUT; ntimeout++; }
      kinds[kind]++;
      int its = kind == K_TIMEOUT ? 1 : (kind == K_REUSE ? iters * 4 : iters);
      seqj[i] = (JOB){i, kind, its, seed, (RES*) calloc(its, sizeof(RES)), 1};
      conj[i] = (JOB){i, kind, its, seed, (RES*) calloc(its, sizeof(RES)), 0};
    }
    uint64_t h0 = rules_hash();
    hnd_inside_bad = 0; hnd_outside_bad = 0; fd_bad = 0; chain_bad = 0;
    int fds0 = count_fds();
    if (!app_handler_installed()) hnd_outside_bad++;
    if (prot) protect(1);
    for (int i = 0; i < nt; i++) work(&seqj[i]);             // each logical thread alone
    pthread_t* th = (pthread_t*) calloc(nt, sizeof(pthread_t));
    pthread_barrier_init(&bar, NULL, nt);
    for (int i = 0; i < nt; i++) if (pthread_create(&th[i], NULL, thr, &conj[i]) != 0) DIE("pthread_create");
    for (int i = 0; i < nt; i++) pthread_join(th[i], NULL);
    pthread_barrier_destroy(&bar);
    if (!app_handler_installed()) hnd_outside_bad++;
    if (prot) protect(0);
    uint64_t h1 = rules_hash();
    int mism = 0, scans = 0; char first[200] = "";
    int rch[80] = {0};
    for (int i = 0; i < nt; i++)
      for (int it = 0; it < seqj[i].iters; it++)
      {
        RES* a = &seqj[i].out[it]; RES* c = &conj[i].out[it];
        scans++;
        if (c->rc >= 0 && c->rc < 80) rch[c->rc]++;
        if (a->rc != c->rc || a->h != c->h || a->n != c->n)
        {
          if (!mism) snprintf(first, sizeof first, "thread=%d,kind=%s,iter=%d,alone=%s/%d/%016" PRIx64 ",concurrent=%s/%d/%016" PRIx64, i, KNAME[seqj[i].kind], it,
                              errname(a->rc), a->n, a->h, errname(c->rc), c->n, c->h);
          mism++;
        }
      }
    printf("%s n=%d scans=%d mismatch=%d rules_hash=%s ro=%d handler_inside_bad=%d handler_outside_bad=%d fd_bad=%d foreign_after=%d chain_bad=%d fd_delta=%d unmappable=%s kinds=", t[0], nt, scans, mism, h0 == h1 ? "same" : "CHANGED", prot,
           hnd_inside_bad, hnd_outside_bad, fd_bad, foreign_fault(1), chain_bad, count_fds() - fds0, unmappable_path[1] == 's' ? "sysfs" : "none");
    for (int k = 0; k < K_NKINDS; k++) if (kinds[k]) printf("%s:%d,", KNAME[k], kinds[k]);
    printf(" rcs=");
    for (int k = 0; k < 80; k++) if (rch[k]) printf("%s:%d,", errname(k), rch[k]);
    if (mism) printf(" first=%s", first);
    printf("\n"); fflush(stdout);
    for (int i = 0; i < nt; i++) { free(seqj[i].out); free(conj[i].out); }
    free(seqj); free(conj); free(th);
  }
  free(line);
  for (int b = 0; b < NBUF; b++) free(bufs[b]);
  if (keep_r1) { yr_free(keep_r1->no_required_strings); yr_free(keep_r1); }
  printf("END finalize=%s\n", errname(yr_finalize()));
  // the relocated rule set lives in mappings and is deliberately not destroyed through yr_rules_destroy (its buffers are not heap blocks)
  return 0;
}
