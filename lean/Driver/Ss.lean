/- C04 function-level correspondence driver: the model of sizedstr.c REGENERATED from the source (Gen/SizedStr.lean).
   Line:  <id> a=<hex|-> b=<hex|->
   Out:   <id> cmp=.. icmp=.. co=.. ico=.. sw=.. isw=.. ew=.. iew=..   (same format as harness/h_ss.c) -/
import YaraModel.Gen.SizedStr
import Driver.Util
namespace Driver.Ss
open YaraModel.Gen.SizedStr

def arg (tok : String) : Option (List UInt8) :=
  let v := (tok.drop 2).toString
  if v == "-" then some [] else Driver.unhex v

def handle (line : String) : String :=
  match Driver.toks line with
  | [id, ta, tb] =>
    match arg ta, arg tb with
    | some a, some b =>
      let bit (x : Bool) : String := if x then "1" else "0"
      s!"{id} cmp={ss_compare a b} icmp={ss_icompare a b} co={bit (ss_contains a b)} ico={bit (ss_icontains a b)} sw={bit (ss_startswith a b)} isw={bit (ss_istartswith a b)} ew={bit (ss_endswith a b)} iew={bit (ss_iendswith a b)}"
    | _, _ => s!"{id} BADCASE"
  | _ => ""

end Driver.Ss
