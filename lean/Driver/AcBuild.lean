/- Aho-Corasick construction driver (correspondence tie of Model/AcBuild.lean):
   `<id> atoms=<sidx:hex:bt,…|->`  (the atoms in insertion order, as hook yr_verif_on_atom logged them)
   → `<id> act=<hex32,…> acm=<hex32,…> acp=<sidx:bt:next,…|->`   — the format harness/h_scan.c `actab=1` prints for the
     real automaton — or `<id> ASSERT` when the model hits the table-size assertion.
   With `buf=<hex> cands=<sidx@off/bt,…|->` (the real candidate sequence, hook yr_verif_on_candidate) two more tokens:
   `seq=<same|diff>` (Model.AcScan.scan over the BUILT tables = the real sequence, order included) and
   `spec=<same|diff>` (the specification sequence `expectedScan atoms buf` of Thm/AcBuild.build_scan_exact = the real one). -/
import YaraModel.Model.AcBuild
import Driver.Ac
namespace Driver.AcBuild
open YaraModel.AC YaraModel.Text

def hexU32 (v : UInt32) : String :=
  let n := v.toNat
  if n = 0 then "0" else
  let rec go (fuel n : Nat) (acc : List Char) : List Char :=
    match fuel with
    | 0 => acc
    | fuel + 1 => if n = 0 then acc else go fuel (n / 16) (Driver.hexDigit (n % 16) :: acc)
  String.ofList (go 8 n [])

def joinWith (sep : String) (xs : List String) : String := sep.intercalate xs

def handle (line : String) : String :=
  match Driver.toks line with
  | [] => ""
  | id :: rest =>
    match (Driver.Ac.kv rest "atoms").bind Driver.Ac.parseAtoms with
    | some atoms =>
      match Build.build atoms with
      | some T =>
        let act := joinWith "," (T.t.toList.map hexU32)
        let acm := joinWith "," (T.m.toList.map hexU32)
        let acp := if T.pool.isEmpty then "-" else
          joinWith "," (T.pool.toList.map fun (e : Nat × Nat × Nat) => s!"{e.1}:{e.2.1}:{e.2.2}")
        let extra := match (Driver.Ac.kv rest "buf").bind Driver.unhex, (Driver.Ac.kv rest "cands").bind Driver.Ac.parseCands with
          | some buf, some cands =>
            let sc := scan T buf
            let sp := Build.expectedScan atoms buf
            s!" seq={if sc == cands then "same" else "diff"} spec={if sp == cands then "same" else "diff"}"
          | _, _ => ""
        s!"{id} act={act} acm={acm} acp={acp}{extra}"
      | none => s!"{id} ASSERT"
    | none => s!"{id} BADCASE"

end Driver.AcBuild
