/- yvdriver: `yvdriver <engine>` reads case lines on stdin, prints one canonical line per case. -/
import Driver.Ext

partial def loop (h : IO.FS.Stream) (out : IO.FS.Stream) (f : String → String) : IO Unit := do
  let line ← h.getLine
  if line.isEmpty then return ()
  let r := f line
  if r ≠ "" then out.putStrLn r
  loop h out f

def main (args : List String) : IO UInt32 := do
  let stdin ← IO.getStdin
  let stdout ← IO.getStdout
  match args with
  | ["ext"] => loop stdin stdout Driver.Ext.handle; return 0
  | _ => IO.eprintln "usage: yvdriver <engine>"; return 2
