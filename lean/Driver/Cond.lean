/- C04 driver: condition S-expressions + environment -> spec verdict per rule.
   Line:  <id> [cext=<t>:<name>:<val>]* [mext=<t>:m_<alias>:<val>]* [dis=<i,j..>] buf=<hex> [blocks=n1,n2,..] rule=<sexpr>*   (other tokens ignored)
   sets: (set;i;j..) expanded indices, or as written (sset;x$a;w$a;t) / (rsset;xr;wr) — resolved by Cond.setDenotes
   rule sexpr: (rule;<name>;(strs;(s;off:len;..);..);<cond>)          separator `;`, no spaces
   Output: <id> rules=default:<name>=<0|1>,... model=default:<name>=<0|1|?>,...
   `rules` = the specification (Spec.Cond.eval); `model` = the compiled code run on the VM model
   (Model.CondCompile / Model.CondVm), i.e. what libyara is modelled to compute, known defects included. -/
import YaraModel.Spec.Cond
import YaraModel.Model.CondCompile
import Driver.Util
namespace Driver.Cond
open YaraModel YaraModel.Cond

inductive SX
  | atom (s : String)
  | list (xs : List SX)
deriving Inhabited

/-- tokens: "(" ")" and atoms; `;` separates -/
def lexSX (s : String) : List String :=
  let rec go (cs : List Char) (cur : List Char) (acc : List String) : List String :=
    let flush := if cur.isEmpty then acc else String.ofList cur.reverse :: acc
    match cs with
    | [] => flush.reverse
    | '(' :: t => go t [] ("(" :: flush)
    | ')' :: t => go t [] (")" :: flush)
    | ';' :: t => go t [] flush
    | c :: t => go t (c :: cur) acc
  go s.toList [] []

partial def parseSX : List String → Option (SX × List String)
  | [] => none
  | "(" :: rest =>
    let rec items (ts : List String) (acc : List SX) : Option (SX × List String) :=
      match ts with
      | [] => none
      | ")" :: r => some (.list acc.reverse, r)
      | _ => match parseSX ts with
        | some (x, r) => items r (x :: acc)
        | none => none
    items rest []
  | ")" :: _ => none
  | a :: rest => some (.atom a, rest)

/-! The double operations are PARAMETERS of the specification and of the VM model (`Cond.FloatOps`); the correspondence runs
    instantiate them with Lean's `Float` (IEEE binary64, the C compiler's `double`), on the 64-bit patterns. -/
def dblBits (f : Float) : Int := C.wrap (f.toBits.toNat : Int)
def bitsDbl (v : Int) : Float := Float.ofBits (UInt64.ofNat (v % 18446744073709551616).toNat)
def dblEpsilon : Float := 2.220446049250313e-16

def ieee : FloatOps :=
  { ofInt := fun i => dblBits (Float.ofInt i)
    add := fun a b => dblBits (bitsDbl a + bitsDbl b)
    sub := fun a b => dblBits (bitsDbl a - bitsDbl b)
    mul := fun a b => dblBits (bitsDbl a * bitsDbl b)
    div := fun a b => dblBits (bitsDbl a / bitsDbl b)
    neg := fun a => dblBits (-(bitsDbl a))
    lt := fun a b => bitsDbl a < bitsDbl b
    le := fun a b => bitsDbl a ≤ bitsDbl b
    gt := fun a b => bitsDbl a > bitsDbl b
    ge := fun a b => bitsDbl a ≥ bitsDbl b
    nearZero := fun x => Float.abs (bitsDbl x) < dblEpsilon
    farZero := fun x => Float.abs (bitsDbl x) ≥ dblEpsilon }

def parseFloat (s : String) : Option Float :=
  let (neg, body) := if s.startsWith "-" then (true, (s.drop 1).toString) else (false, s)
  match body.splitOn "." with
  | [a] => a.toNat?.map fun n => let f := Float.ofNat n; if neg then -f else f
  | [a, b] =>
    match (a ++ b).toNat? with
    | some m => let f := Float.ofScientific m true b.length; some (if neg then -f else f)
    | none => none
  | _ => none

def parseSRef (s : String) : Option SRef :=
  if s == "$" then some .cur
  else if s.startsWith "$" then ((s.drop 1).toString.toNat?).map .id else none

def parseRd : String → Option RdKind
  | "i8" => some .i8 | "i16" => some .i16 | "i32" => some .i32
  | "u8" => some .u8 | "u16" => some .u16 | "u32" => some .u32
  | "i8be" => some .i8be | "i16be" => some .i16be | "i32be" => some .i32be
  | "u8be" => some .u8be | "u16be" => some .u16be | "u32be" => some .u32be
  | _ => none

def parseAr : String → Option ArOp
  | "add" => some .add | "sub" => some .sub | "mul" => some .mul | "div" => some .div | "mod" => some .mod
  | "band" => some .band | "bor" => some .bor | "bxor" => some .bxor | "shl" => some .shl | "shr" => some .shr
  | _ => none

def parseCmp : String → Option CmpOp
  | "eq" => some .eq | "neq" => some .neq | "lt" => some .lt | "le" => some .le | "gt" => some .gt | "ge" => some .ge
  | _ => none

def parseSop : String → Option StrOp
  | "contains" => some .contains | "icontains" => some .icontains | "startswith" => some .startswith
  | "istartswith" => some .istartswith | "endswith" => some .endswith | "iendswith" => some .iendswith
  | "iequals" => some .iequals | _ => none

def parseNats : List SX → Option (List Nat)
  | [] => some []
  | .atom a :: t => do let n ← a.toNat?; let r ← parseNats t; pure (n :: r)
  | _ => none

def parseSet : SX → Option (List Nat)
  | .list (.atom "set" :: xs) => parseNats xs
  | _ => none

/-- a written set item: `x<identifier>` exact, `w<prefix>` wildcard, `t` = them -/
def parseItem (a : String) : Option SetItem :=
  if a == "t" then some .them
  else if a.startsWith "x" then some (.exact (a.drop 1).toString)
  else if a.startsWith "w" then some (.wild (a.drop 1).toString)
  else none

/-- `(sset;items..)` / `(rsset;items..)`: sets as WRITTEN; the specification (`Cond.setDenotes`) says which strings /
    rules they denote, given the rule's string identifiers / the identifiers of the rules declared before it -/
partial def resolveSets (names rnames : List String) : SX → Option SX
  | .atom a => some (.atom a)
  | .list (.atom "sset" :: xs) => do
      let items ← xs.mapM fun x => match x with
        | .atom a => parseItem a
        | _ => none
      pure (.list (.atom "set" :: (setDenotes names items).map fun i => .atom (toString i)))
  | .list (.atom "rsset" :: xs) => do
      let items ← xs.mapM fun x => match x with
        | .atom a => parseItem a
        | _ => none
      pure (.list (.atom "set" :: (setDenotes rnames items).map fun i => .atom (toString i)))
  | .list xs => do
      let ys ← xs.mapM (resolveSets names rnames)
      pure (.list ys)

mutual
partial def parseExpr : SX → Option Expr
  | .list [.atom "int", .atom v] => v.toInt?.map .int
  | .list [.atom "flt", .atom v] => (parseFloat v).map fun f => .flt (dblBits f)
  | .list [.atom "str", .atom h] => (Driver.unhex h).map .str
  | .list [.atom "filesize"] => some .filesize
  | .list [.atom "ext", .atom n] => some (.ext n)
  | .list [.atom "var", .atom k] => k.toNat?.map .var
  | .list [.atom "undef", .atom "i"] => some (.undefOf .i)
  | .list [.atom "undef", .atom "f"] => some (.undefOf .f)
  | .list [.atom "undef", .atom "s"] => some (.undefOf .s)
  | .list [.atom "count", .atom s] => (parseSRef s).map .count
  | .list [.atom "countin", .atom s, lo, hi] => do
      pure (.countIn (← parseSRef s) (← parseExpr lo) (← parseExpr hi))
  | .list [.atom "offset", .atom s, i] => do pure (.offset (← parseSRef s) (← parseExpr i))
  | .list [.atom "length", .atom s, i] => do pure (.length (← parseSRef s) (← parseExpr i))
  | .list [.atom "read", .atom k, e] => do pure (.read (← parseRd k) (← parseExpr e))
  | .list [.atom "neg", e] => (parseExpr e).map .neg
  | .list [.atom "bnot", e] => (parseExpr e).map .bnot
  | .list [.atom "ar", .atom op, a, b] => do pure (.arith (← parseAr op) (← parseExpr a) (← parseExpr b))
  | .list [.atom "tt"] => some .tt
  | .list [.atom "ff"] => some .ff
  | .list [.atom "found", .atom s] => (parseSRef s).map .found
  | .list [.atom "foundat", .atom s, e] => do pure (.foundAt (← parseSRef s) (← parseExpr e))
  | .list [.atom "foundin", .atom s, lo, hi] => do
      pure (.foundIn (← parseSRef s) (← parseExpr lo) (← parseExpr hi))
  | .list [.atom "cmp", .atom op, a, b] => do pure (.cmp (← parseCmp op) (← parseExpr a) (← parseExpr b))
  | .list [.atom "sop", .atom op, a, b] => do pure (.strop (← parseSop op) (← parseExpr a) (← parseExpr b))
  | .list [.atom "matches", a, .atom h, .atom nc] => do
      pure (.matches (← parseExpr a) (← Driver.unhex h) (nc == "1"))
  | .list [.atom "not", e] => (parseExpr e).map .not
  | .list [.atom "defined", e] => (parseExpr e).map .defined
  | .list [.atom "and", a, b] => do pure (.and (← parseExpr a) (← parseExpr b))
  | .list [.atom "or", a, b] => do pure (.or (← parseExpr a) (← parseExpr b))
  | .list [.atom "ruleref", .atom k] => k.toNat?.map .ruleRef
  | .list [.atom "of", q, set] => do
      let (k, e) ← parseQ q; pure (.ofStr k e (← parseSet set))
  | .list [.atom "ofin", q, set, lo, hi] => do
      let (k, e) ← parseQ q; pure (.ofStrIn k e (← parseSet set) (← parseExpr lo) (← parseExpr hi))
  | .list [.atom "ofat", q, set, p] => do
      let (k, e) ← parseQ q; pure (.ofStrAt k e (← parseSet set) (← parseExpr p))
  | .list [.atom "pct", p, set] => do pure (.pctStr (← parseExpr p) (← parseSet set))
  | .list [.atom "ofrules", q, set] => do
      let (k, e) ← parseQ q; pure (.ofRules k e (← parseSet set))
  | .list [.atom "pctrules", p, set] => do pure (.pctRules (← parseExpr p) (← parseSet set))
  | .list [.atom "forrange", q, lo, hi, body] => do
      let (k, e) ← parseQ q; pure (.forRange k e (← parseExpr lo) (← parseExpr hi) (← parseExpr body))
  | .list [.atom "forenum", q, .list (.atom "items" :: items), body] => do
      let (k, e) ← parseQ q; pure (.forEnum k e (← parseExprs items) (← parseExpr body))
  | .list [.atom "forof", q, set, body] => do
      let (k, e) ← parseQ q; pure (.forOf k e (← parseSet set) (← parseExpr body))
  | _ => none
partial def parseExprs : List SX → Option (List Expr)
  | [] => some []
  | x :: t => do let e ← parseExpr x; let r ← parseExprs t; pure (e :: r)
partial def parseQ : SX → Option (QKind × Expr)
  | .list [.atom "q", .atom "all"] => some (.all, .int 0)
  | .list [.atom "q", .atom "any"] => some (.any, .int 0)
  | .list [.atom "q", .atom "none"] => some (.none, .int 0)
  | .list [.atom "q", .atom "num", e] => (parseExpr e).map fun x => (.num, x)
  | _ => none
end

def parseMatch (s : String) : Option (Int × Int) :=
  match s.splitOn ":" with
  | [a, b] => do pure (← a.toInt?, ← b.toInt?)
  | _ => none

def parseMatches : List SX → Option (List (Int × Int))
  | [] => some []
  | .atom a :: t => do let m ← parseMatch a; let r ← parseMatches t; pure (m :: r)
  | _ => none

def parseStrs : List SX → Option (List (List (Int × Int)))
  | [] => some []
  | .list (.atom "s" :: ms) :: t => do let m ← parseMatches ms; let r ← parseStrs t; pure (m :: r)
  | _ => none

def parseNames : List SX → Option (List String)
  | [] => some []
  | .atom a :: t => (parseNames t).map (a :: ·)
  | _ => none

/-- `(rule;name;(strs..);cond)` or `(rule;name;(strs..);(names;$a;$ab..);cond)`; `rnames`: the rules declared before -/
def parseRule (rnames : List String) (s : String) : Option (String × Rule) :=
  match parseSX (lexSX s) with
  | some (.list [.atom "rule", .atom name, .list (.atom "strs" :: strs), cond], []) => do
      let ss ← parseStrs strs
      let c ← parseExpr cond
      pure (name, { strs := ss, cond := c })
  | some (.list [.atom "rule", .atom name, .list (.atom "strs" :: strs), .list (.atom "names" :: ns), cond], []) => do
      let ss ← parseStrs strs
      let names ← parseNames ns
      let c ← parseExpr (← resolveSets names rnames cond)
      pure (name, { strs := ss, cond := c })
  | _ => none

def parseExt (spec : String) : Option (String × Val) :=
  match spec.splitOn ":" with
  | ["i", n, v] => v.toInt?.map fun x => (n, .int x)
  | ["b", n, v] => v.toInt?.map fun x => (n, .bool (x != 0))
  | ["f", n, v] => (parseFloat v).map fun x => (n, .flt (dblBits x))
  | ["s", n, v] => (Driver.unhex v).map fun x => (n, .str x)
  | _ => none

/-- cut `buf` into blocks of the given sizes (the last block takes the remainder) -/
def mkBlocks (buf : Bytes) (sizes : List Nat) : List (Nat × Bytes) :=
  let rec go (base : Nat) (rest : Bytes) : List Nat → List (Nat × Bytes)
    | [] => [(base, rest)]
    | [_] => [(base, rest)]
    | n :: t => (base, rest.take n) :: go (base + n) (rest.drop n) t
  go 0 buf sizes

structure Case where
  ext : List (String × Val) := []
  buf : Bytes := []
  sizes : Option (List Nat) := none
  rules : List (String × Rule) := []
  disabled : List Nat := []              -- dis=<i,j,..>: rules (by position) switched off with yr_rule_disable
  bad : Bool := false

def parseCase (toks : List String) : Case :=
  toks.foldl (fun c t =>
    if t.startsWith "cext=" || t.startsWith "mext=" then
      match parseExt (t.drop 5).toString with
      | some e => { c with ext := c.ext ++ [e] }
      | none => { c with bad := true }
    else if t.startsWith "buf=" then
      match Driver.unhex (t.drop 4).toString with
      | some b => { c with buf := b }
      | none => { c with bad := true }
    else if t.startsWith "blocks=" then
      { c with sizes := some (((t.drop 7).toString.splitOn ",").filterMap String.toNat?) }
    else if t.startsWith "dis=" then
      { c with disabled := ((t.drop 4).toString.splitOn ",").filterMap String.toNat? }
    else if t.startsWith "rule=" then
      match parseRule (c.rules.map (·.1)) (t.drop 5).toString with
      | some r => { c with rules := c.rules ++ [r] }
      | none => { c with bad := true }
    else c) {}

def handle (line : String) : String :=
  match Driver.toks line with
  | [] => ""
  | id :: rest =>
    let c := parseCase rest
    if c.bad then s!"{id} BADCASE" else
    let blocks := match c.sizes with
      | some sz => mkBlocks c.buf sz
      | none => [(0, c.buf)]
    let vs := evalRulesD blocks c.buf.length c.ext c.disabled ieee (c.rules.map (·.2)) []
    let shown := (c.rules.zip vs).map fun (r, v) => s!"default:{r.1}={Driver.bit v}"
    let ms := YaraModel.CondCompile.modelRulesD blocks c.buf.length c.ext c.disabled ieee (c.rules.map (·.2)) []
    let mshown := (c.rules.zip ms).map fun (r, v) =>
      let t := match v with
        | some b => String.singleton (Driver.bit b)
        | none => "?"
      s!"default:{r.1}={t}"
    s!"{id} rules={",".intercalate shown} model={",".intercalate mshown}"

end Driver.Cond
