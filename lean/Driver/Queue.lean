/- C18 / D11 driver: replays a history recorded by harness/h_queue.c (atomic actions of the real
   file_queue_put/get/finish in their global order) against the model `YaraModel.Queue.step` with the
   constants generated from the sources.  Output `<id> ok …` iff the history is a run of the model that
   ends in a final state having delivered every path exactly once; otherwise `<id> bad ev=<k> <token> <why>`. -/
import YaraModel.Model.Queue
import YaraModel.Gen.Cli
import Driver.Util
namespace Driver.Queue
open YaraModel.Queue

abbrev St := State Nat
def cfg : Cfg := YaraModel.Gen.Cli.cfg

structure Ev where
  tid : Nat
  kind : String
  a : String
  b : String

def parseEv (tok : String) : Option Ev :=
  match Driver.parts tok "." with
  | [t, k] => t.toNat?.map fun n => ⟨n, k, "", ""⟩
  | [t, k, a] => t.toNat?.map fun n => ⟨n, k, a, ""⟩
  | [t, k, a, b] => t.toNat?.map fun n => ⟨n, k, a, b⟩
  | _ => none

def actName : Act → String
  | .pWait => "pWait" | .pLock => "pLock" | .pWrite => "pWrite" | .pAdvTail => "pAdvTail" | .pUnlock => "pUnlock"
  | .pPost => "pPost" | .pFinishBegin => "pFinishBegin" | .pFinishPost => "pFinishPost" | .pFinishEnd => "pFinishEnd"
  | .cWait i => s!"cWait({i})" | .cLock i => s!"cLock({i})" | .cTest i => s!"cTest({i})" | .cRead i => s!"cRead({i})"
  | .cAdvHead i => s!"cAdvHead({i})" | .cUnlock i => s!"cUnlock({i})" | .cPost i => s!"cPost({i})" | .cReturn i => s!"cReturn({i})"

def act (s : St) (a : Act) : Except String St :=
  match step cfg s a with
  | some s' => .ok s'
  | none => .error s!"model-action-not-enabled:{actName a}(used={s.used},unused={s.unused},head={s.head},tail={s.tail},lockfree={s.lock.isNone})"

def checkHT (s : St) (h t : String) : Except String Unit :=
  if h.toNat? = some s.head ∧ t.toNat? = some s.tail then .ok ()
  else .error s!"head/tail:code={h}/{t},model={s.head}/{s.tail}"

def applyEv (s : St) (e : Ev) : Except String St :=
  if e.tid = 0 then
    match e.kind with
    | "A" =>
      match s.ppc, s.todo with
      | .idle, x :: _ => if e.a.toNat? = some x then .ok s else .error "put-argument-differs"
      | _, _ => .error "put-called-but-model-producer-not-idle"
    | "W" => if e.a = "n" then act s .pWait else .error "producer-waits-on-wrong-semaphore"
    | "L" => do let s ← act s .pLock; checkHT s e.a e.b; pure s
    | "U" => do
        let s ← act s .pWrite
        let s ← act s .pAdvTail
        checkHT s e.a e.b
        act s .pUnlock
    | "P" =>
      if e.a ≠ "u" then .error "producer-posts-wrong-semaphore" else
      match s.ppc with
      | .unlocked => act s .pPost
      | .finishing _ => act s .pFinishPost
      | _ => .error "producer-post-at-unexpected-point"
    | "F" => act s .pFinishBegin
    | "E" => act s .pFinishEnd
    | k => .error s!"unexpected-producer-event:{k}"
  else
    let i := e.tid - 1
    match e.kind with
    | "W" => if e.a = "u" then act s (.cWait i) else .error "consumer-waits-on-wrong-semaphore"
    | "L" => do let s ← act s (.cLock i); checkHT s e.a e.b; pure s
    | "U" => do
        let s ← act s (.cTest i)
        let s ← match s.cs[i]? with
          | some .reading => do let s ← act s (.cRead i); act s (.cAdvHead i)
          | _ => pure s
        checkHT s e.a e.b
        act s (.cUnlock i)
    | "P" => if e.a = "n" then act s (.cPost i) else .error "consumer-posts-wrong-semaphore"
    | "G" =>
      match s.cs[i]? with
      | some (.returned r) =>
        let code : Int := match r with
          | some x => (x : Int)
          | none => -1
        if e.a.toInt? = some code then act s (.cReturn i) else .error s!"get-result:code={e.a},model={code}"
      | _ => .error "get-returned-but-model-consumer-not-at-return"
    | k => .error s!"unexpected-consumer-event:{k}"

def finalB (s : St) : Bool :=
  (match s.ppc with | .done => true | _ => false) &&
  s.cs.all fun pc => match pc with | .exited => true | _ => false

def allActs (n : Nat) : List Act :=
  [.pWait, .pLock, .pWrite, .pAdvTail, .pUnlock, .pPost, .pFinishBegin, .pFinishPost, .pFinishEnd] ++
  (List.range n).flatMap fun i => [.cWait i, .cLock i, .cTest i, .cRead i, .cAdvHead i, .cUnlock i, .cPost i, .cReturn i]

def enabledB (n : Nat) (s : St) : Bool := (allActs n).any fun a => (step cfg s a).isSome

def sizeOf (s : St) : Nat := size cfg s

def kvNat (toks : List String) (key : String) : Option Nat :=
  toks.findSome? fun t => match t.splitOn "=" with
    | [k, v] => if k = key then v.toNat? else none
    | _ => none

def handle (line : String) : String :=
  match Driver.toks line with
  | [] => ""
  | id :: rest =>
    let hd := rest.takeWhile (· ≠ "|")
    let evToks := (rest.dropWhile (· ≠ "|")).drop 1
    match kvNat hd "n", hd.getLast? with
    | some n, some status =>
      let evs := evToks.map fun t => (t, parseEv t)
      if evs.any (fun p => p.2.isNone) then s!"{id} bad unparsable-event" else
      let input : List Nat := evs.filterMap fun p => match p.2 with
        | some e => if e.tid = 0 ∧ e.kind = "A" then e.a.toNat? else none
        | none => none
      let rec go (s : St) (k : Nat) (mx : Nat) : List (String × Option Ev) → Except String (St × Nat × Nat)
        | [] => .ok (s, k, mx)
        | (tok, some e) :: more =>
          match applyEv s e with
          | .ok s' => go s' (k + 1) (max mx (sizeOf s')) more
          | .error why => .error s!"ev={k} {tok} {why}"
        | (_, none) :: _ => .error "unparsable"
      match go (init cfg n input) 0 0 evs with
      | .error why => s!"{id} bad {why}"
      | .ok (s, k, mx) =>
        let fin := finalB s
        let perm := s.delivered.mergeSort (· ≤ ·) == input.mergeSort (· ≤ ·)
        if status = "DONE" then
          if fin ∧ perm then s!"{id} ok ev={k} items={input.length} maxsize={mx} final=1 perm=1"
          else s!"{id} bad end-of-history final={Driver.bit fin} perm={Driver.bit perm} delivered={s.delivered.length} input={input.length}"
        else
          s!"{id} bad threads-hang model_final={Driver.bit fin} model_enabled={Driver.bit (enabledB n s)} ev={k} delivered={s.delivered.length} input={input.length}"
    | _, _ => s!"{id} bad header"

end Driver.Queue
