/- Aho-Corasick certificate driver:
   `<id> atoms=<sidx:hex:bt,…> act=<hex32,…> acm=<hex32,…> acp=<sidx:bt:next,…|-> buf=<hex> cands=<sidx@off/bt,…|->`
   → `<id> cert=<0|1> states=<n> scan=<same|diff>` -/
import YaraModel.Model.AcScan
import Driver.Util
namespace Driver.Ac
open YaraModel.AC YaraModel.Text

def kv (toks : List String) (k : String) : Option String :=
  (toks.find? (·.startsWith (k ++ "="))).map fun t => (t.drop (k.length + 1)).toString

def hexNat (s : String) : Option Nat :=
  s.toList.foldlM (fun acc c => (Driver.hexVal c).map (acc * 16 + ·)) 0

def parseU32s (t : String) : Option (Array UInt32) :=
  ((t.splitOn ",").mapM fun (x : String) => (hexNat x).map UInt32.ofNat).map List.toArray

def parsePool (t : String) : Option (Array (Nat × Nat × Nat)) :=
  if t == "-" then some #[] else
  ((t.splitOn ",").mapM fun (x : String) =>
    match x.splitOn ":" with
    | [a, b, c] => do pure ((← a.toNat?), (← b.toNat?), (← c.toNat?))
    | _ => none).map List.toArray

def parseAtoms (t : String) : Option (List (Nat × Atom)) :=
  if t == "-" then some [] else
  (t.splitOn ",").mapM fun (x : String) =>
    match x.splitOn ":" with
    | [s, h, b] => do pure ((← s.toNat?), ⟨(← Driver.unhex (if h == "" then "-" else h)), (← b.toNat?)⟩)
    | _ => none

def parseCands (t : String) : Option (List (Nat × Nat × Nat)) :=
  if t == "-" then some [] else
  (t.splitOn ",").mapM fun (x : String) =>
    match x.splitOn "@" with
    | [s, r] => match r.splitOn "/" with
      | [o, b] => do pure ((← s.toNat?), (← o.toNat?), (← b.toNat?))
      | _ => none
    | _ => none

def handle (line : String) : String :=
  match Driver.toks line with
  | [] => ""
  | id :: rest =>
    match (kv rest "atoms").bind parseAtoms, (kv rest "act").bind parseU32s, (kv rest "acm").bind parseU32s,
          (kv rest "acp").bind parsePool, (kv rest "buf").bind Driver.unhex, (kv rest "cands").bind parseCands with
    | some atoms, some t, some m, some pool, some buf, some cands =>
      let T : Tables := { t := t, m := m, pool := pool }
      let paths := bfsPaths T
      let ok := certOK T atoms paths
      let sc := scan T buf
      s!"{id} cert={if ok then 1 else 0} states={paths.length} scan={if sc == cands then "same" else "diff"}"
    | _, _, _, _, _, _ => s!"{id} BADCASE"

end Driver.Ac
