/- C20 driver: op sequence per line -> one result token per op (same format as harness/h_ext.c). -/
import YaraModel.Model.Externals
import Driver.Util
namespace Driver.Ext
open YaraModel.Ext

def parseTy : String → Option Ty
  | "i" => some .int | "b" => some .bool | "f" => some .flt | "s" => some .str | _ => none

def parseVal (ty : Ty) (s : String) : Option Val :=
  match ty with
  | .str => (Driver.unhex s).map .str
  | .flt => s.toInt?.map .flt
  | _ => s.toInt?.map .int

def parseOp (tok : String) : Option Op :=
  match Driver.parts tok with
  | ["cdef", t, n, v] => do let ty ← parseTy t; let x ← parseVal ty v; pure (.cdef ty n x)
  | ["compile"] => some .compile
  | ["rdef", t, n, v] => do let ty ← parseTy t; let x ← parseVal ty v; pure (.rdef ty n x)
  | ["screate", k] => k.toNat?.map .screate
  | ["sdestroy", k] => k.toNat?.map .sdestroy
  | ["sdef", k, t, n, v] => do
      let ty ← parseTy t; let x ← parseVal ty v; let kk ← k.toNat?; pure (.sdef kk ty n x)
  | ["scan", k] => k.toNat?.map .scan
  | ["rscan"] => some .rscan
  | _ => none

def errName : Err → String
  | .duplicated => "DUPLICATED_EXTERNAL_VARIABLE"
  | .invalidArgument => "INVALID_ARGUMENT"
  | .invalidType => "INVALID_EXTERNAL_VARIABLE_TYPE"

def showObs (vs : List Var) : String :=
  if vs.isEmpty then "none" else
  ",".intercalate (vs.map fun v => v.name ++ "=" ++ String.ofList ((probes v.ty v.val).map Driver.bit))

def showOut : Out → String
  | .ok => "OK"
  | .err e => errName e
  | .noRules => "NORULES"
  | .noScanner => "NOSCANNER"
  | .unmodelled => "UNMODELLED"
  | .obs vs => showObs vs

def handle (line : String) : String :=
  match Driver.toks line with
  | [] => ""
  | id :: ops =>
    let rec go (s : St) : List String → List String
      | [] => []
      | t :: ts =>
        match parseOp t with
        | none => "BADOP" :: go s ts
        | some op => let (s', o) := step s op; showOut o :: go s' ts
    " ".intercalate (id :: go init ops)

end Driver.Ext
