/- C20 driver (command-line typing of -d values): `<id> v=<hex of the value text>` → `<id> int:<n>` | `flt:<-?><num>/<scale>` | `bool:<0|1>` | `str` -/
import YaraModel.Spec.ExtCli
import Driver.Util
namespace Driver.Extcli
open YaraModel.ExtCli

def handle (line : String) : String :=
  match Driver.toks line with
  | [id, v] =>
    match Driver.unhex ((v.drop 2).toString) with
    | some bs =>
      let cs := bs.map fun b => Char.ofNat b.toNat
      match classify cs with
      | .int n => s!"{id} int:{n}"
      | .flt neg num sc => s!"{id} flt:{if neg then "-" else ""}{num}/{sc}"
      | .bool b => s!"{id} bool:{if b then 1 else 0}"
      | .str _ => s!"{id} str"
    | none => s!"{id} BADCASE"
  | [] => ""
  | id :: _ => s!"{id} BADCASE"

end Driver.Extcli
