/- C10/C13 driver: a history of scan calls on one scanner -> trace of every call
   (same case line and same output format as harness/h_hist.c, reference part excluded). -/
import YaraModel.Model.ScannerInst
import Driver.Util
namespace Driver.Hist
open YaraModel.Scan

def field (toks : List String) (key : String) : Option String :=
  (toks.find? fun t => t.startsWith (key ++ "=")).map fun t => (t.drop (key.length + 1)).toString

def nat (s : String) : Nat := s.toNat?.getD 0
def optNat (s : String) : Option Nat := if s == "-" then none else s.toNat?
def listOf (s : String) (sep : String) : List String := if s == "-" || s == "" then [] else s.splitOn sep

/-! rules -/

def condTok (stack : List Cond) (tok : String) : List Cond :=
  match tok.splitOn ":" with
  | ["tt"] => .tt :: stack
  | ["ff"] => .ff :: stack
  | ["str", s] => .str (nat s) :: stack
  | ["cnt", s, n] => .cnt (nat s) (nat n) :: stack
  | ["at", s, o] => .strAt (nat s) (nat o) :: stack
  | ["fseq", n] => .fsEq (nat n) :: stack
  | ["fsge", n] => .fsGe (nat n) :: stack
  | ["epdef"] => .epDef :: stack
  | ["epeq", n] => .epEq (nat n) :: stack
  | ["rd", w, o, v] => .rd (nat w) (nat o) (nat v) :: stack
  | ["mod", m, v] => .modEq (nat m) (nat v) :: stack
  | ["hash", o, l] => .hash (nat o) (nat l) :: stack
  | ["ref", r] => .ref (nat r) :: stack
  | ["in", s, lo, hi] => .inR (nat s) (nat lo) (nat hi) :: stack
  | ["off", s, i, v] => .offEq (nat s) (nat i) (nat v) :: stack
  | ["cin", s, lo, hi, n] => .cntIn (nat s) (nat lo) (nat hi) (nat n) :: stack
  | ["len", s, i, v] => .lenEq (nat s) (nat i) (nat v) :: stack
  | ["ofat", n, o, ss] => .ofAt (nat n) (nat o) ((listOf ss "+").map nat) :: stack
  | ["ofin", n, lo, hi, ss] => .ofIn (nat n) (nat lo) (nat hi) ((listOf ss "+").map nat) :: stack
  | ["forat", o, ss] => .forAt (nat o) ((listOf ss "+").map nat) :: stack
  | ["forin", lo, hi, ss] => .forIn (nat lo) (nat hi) ((listOf ss "+").map nat) :: stack
  | ["burn"] => .burn :: stack
  | ["not"] => (match stack with | a :: t => .not a :: t | t => t)
  | ["and"] => (match stack with | b :: a :: t => .and a b :: t | t => t)
  | ["or"] => (match stack with | b :: a :: t => .or a b :: t | t => t)
  | _ => stack

def parseCond (s : String) : Cond := ((s.splitOn "~").foldl condTok []).headD .ff

def parseRule (s : String) : Option RuleSpec :=
  match s.splitOn "," with
  | [ns, fl, strs, cond] =>
    some { rule := { ns := nat ns, isGlobal := fl.contains 'g', isPrivate := fl.contains 'p', noReq := fl.contains 'n',
                     strings := (listOf strs "+").map nat },
           cond := parseCond cond }
  | _ => none

/-! facts -/

def parseCand (s : String) : Option Cand :=
  match s.splitOn ":" with
  | [a, b, c] => some ⟨nat a, nat b, nat c⟩
  | _ => none

def parsePair (s : String) : Option (Nat × Nat) :=
  match s.splitOn ":" with
  | [a, b] => some (nat a, nat b)
  | _ => none

structure BlockDesc where
  block : Block
  facts : BlockFacts

def parseBlock (key : Nat) (s : String) : Option BlockDesc :=
  match s.splitOn "." with
  | [base, size, avail, ep, mods, cands] =>
    some { block := ⟨nat base, nat size, if avail == "1" then some key else none⟩,
           facts := { ep := optNat ep, mods := (listOf mods "&").filterMap parsePair,
                      cands := (listOf cands "&").filterMap parseCand, err := none } }
  | [base, size, avail, ep, mods, cands, err] =>
    some { block := ⟨nat base, nat size, if avail == "1" then some key else none⟩,
           facts := { ep := optNat ep, mods := (listOf mods "&").filterMap parsePair,
                      cands := (listOf cands "&").filterMap parseCand, err := optNat err } }
  | [base, size, avail, ep, mods, cands, err, epPM, modsPM] =>
    some { block := ⟨nat base, nat size, if avail == "1" then some key else none⟩,
           facts := { ep := optNat ep, mods := (listOf mods "&").filterMap parsePair,
                      cands := (listOf cands "&").filterMap parseCand, err := optNat err,
                      epPM := optNat epPM, modsPM := (listOf modsPM "&").filterMap parsePair } }
  | _ => none

structure InputDesc where
  total : Nat
  reads : List (Nat × Nat × Nat)
  hashOk : List (Nat × Nat)
  blocks : List BlockDesc

def parseRead (s : String) : Option (Nat × Nat × Nat) :=
  match s.splitOn "." with
  | [o, w, v] => some (nat o, nat w, nat v)
  | _ => none

def parseInput (idx : Nat) (s : String) : Option InputDesc :=
  match s.splitOn "|" with
  | total :: reads :: hok :: blks =>
    some { total := nat total, reads := (listOf reads ",").filterMap parseRead,
           hashOk := (listOf hok ",").filterMap fun s => (match s.splitOn "." with | [a, b] => some (nat a, nat b) | _ => none),
           blocks := ((List.range blks.length).zip blks).filterMap fun p => parseBlock (idx * 64 + p.1) p.2 }
  | _ => none

def mkFacts (ins : List InputDesc) : Facts :=
  { blocks := fun key => (ins[key / 64]?).bind fun i => (i.blocks[key % 64]?).map (·.facts)
    reads := fun i => (ins[i]?).map (·.reads) |>.getD []
    total := fun i => (ins[i]?).map (·.total) |>.getD 0
    hashOk := fun i => (ins[i]?).map (·.hashOk) |>.getD [] }

/-! settings, ops -/

def parseSettings (fl to : Nat) : Settings :=
  let m := fl / 8 % 2 == 1
  let n := fl / 16 % 2 == 1
  let fast := fl % 2 == 1
  let pm := fl / 2 % 2 == 1
  if !m && !n then ⟨true, true, to, true, fast, pm⟩ else ⟨m, n, to, true, fast, pm⟩

def parseSched (s : String) : List Act :=
  if s == "-" then [] else
  s.toList.map fun c =>
    if c == 'n' then .notReady else if c == 's' then .stall 400 else if c == 'S' then .stall 2000
    else if c == 'e' then .fail 0 else .ok

def parseCb (s : String) : Nat → CbRet :=
  if s.startsWith "a" then let k := nat (s.drop 1).toString; fun i => if i == k then .abort else .cont
  else if s.startsWith "e" then let k := nat (s.drop 1).toString; fun i => if i == k then .error else .cont
  else fun _ => .cont

def modName : Nat → String
  | 0 => "pe" | 1 => "elf" | 2 => "hash" | 3 => "math" | _ => "mod?"

def walking (m : Nat) : Bool := m == 0 || m == 1

def errName : Err → String
  | .success => "OK"
  | .blockNotReady => "BLOCK_NOT_READY"
  | .scanTimeout => "SCAN_TIMEOUT"
  | .tooManyMatches => "TOO_MANY_MATCHES"
  | .callbackError => "CALLBACK_ERROR"
  | .callbackRequired => "CALLBACK_REQUIRED"
  | .exec 25 => "EXEC_STACK_OVERFLOW"
  | .exec _ => "ERR_OTHER"
  | .iter _ => "COULD_NOT_READ_PROCESS_MEMORY"
  | .couldNotAttach => "COULD_NOT_ATTACH_TO_PROCESS"
  | .verify 46 => "TOO_MANY_RE_FIBERS"
  | .verify _ => "ERR_OTHER"

def showMatches (ms : MatchTable) : String :=
  ";".intercalate (ms.flatMap fun p => p.2.map fun m => s!"s{p.1}@{m.base + m.off}:{m.len}")

def showMsg : Msg → String
  | .ruleMatching r ms => s!"+r{r}[{showMatches ms}]"
  | .ruleNotMatching r ms => s!"-r{r}[{showMatches ms}]"
  | .scanFinished => "F"
  | .importModule m => "I:" ++ modName m
  | .moduleImported m => "M:" ++ modName m
  | .tooManyMatches s => s!"T:s{s}"

def showTrace (ms : List Msg) (rc : Err) : String :=
  ",".intercalate (ms.map showMsg ++ ["rc=" ++ errName rc])

structure Case where
  P : Params
  set : Settings
  inputs : List InputDesc
  variant : Variant

def parseCase (toks : List String) : Option Case := do
  let mr ← field toks "mr"
  let mf ← field toks "mf"
  let rules := (mr.splitOn ";").filterMap parseRule
  let infs := mf.splitOn ";"
  let ins := ((List.range infs.length).zip infs).filterMap fun p => parseInput p.1 p.2
  let imports := (listOf ((field toks "mi").getD "-") "+").map nat
  let mx := nat ((field toks "mx").getD "1000000")
  let set := parseSettings (nat ((field toks "fl").getD "0")) (nat ((field toks "to").getD "0"))
  let variant := if (field toks "mv") == some "current" then Variant.current else Variant.fixed
  let single := (listOf ((field toks "ms").getD "-") "+").map nat
  let chains := (listOf ((field toks "mc").getD "-") ",").filterMap fun t =>
    match t.splitOn ":" with
    | [i, p, gmin, gmax, tl] =>
      some (nat i, ({ prev := if p == "-1" then none else some (nat p), gapMin := nat gmin, gapMax := nat gmax, isTail := tl == "1" } : ChainInfo))
    | _ => none
  pure { P := mkParams rules imports mx walking (mkFacts ins) single chains, set := set, inputs := ins, variant := variant }

structure St where
  sc : Sc
  it : Option It
  cb : Nat → CbRet
  stack : Nat
  w : World
  lastRc : Err

def mkIt (c : Case) (inp : Nat) (sched : String) (nofs : Bool) : It :=
  let i := c.inputs[inp]?
  let blocks := (i.map fun d => d.blocks.map (·.block)).getD []
  { all := blocks, rest := blocks, sched := parseSched sched, lastError := .success,
    fileSize := if nofs then none else i.map (·.total) }

def stepOp (c : Case) (st : St) (op : String) : St × String :=
  let doCall (st : St) (it : It) : St × String :=
    let o := scanCall c.P c.variant st.cb st.stack st.sc it st.w
    ({ st with sc := o.sc, it := some o.it, w := o.world, lastRc := o.rc }, showTrace o.msgs o.rc)
  match op.splitOn "/" with
  | "S" :: inp :: sched :: cb :: stk :: rest =>
    let it := mkIt c (nat inp) sched (rest.head? == some "1")
    doCall { st with cb := parseCb cb, stack := (optNat stk).getD 16384, w := { st.w with nmsg := 0 } } it
  | "R" :: inp :: sched :: cb :: stk :: rest =>     -- same iterator object re-pointed: `last_error` is NOT reset
    let it0 := mkIt c (nat inp) sched (rest.head? == some "1")
    let it := { it0 with lastError := (st.it.map (·.lastError)).getD .success }
    doCall { st with cb := parseCb cb, stack := (optNat stk).getD 16384, w := { st.w with nmsg := 0 } } it
  | ["C"] =>
    match st.it with
    | some it => if st.lastRc = .blockNotReady then doCall st it else (st, "skip")
    | none => (st, "skip")
  | ["F", fl] =>      -- yr_scanner_set_flags
    ({ st with sc := { st.sc with set := parseSettings (nat fl) st.sc.set.timeout } }, "set")
  | ["P", kind, cb] =>   -- yr_scanner_scan_proc: the process's memory is unknown to the model (any iterator does: Thm/C10)
    if kind == "x" then (st, "P:NOATTACH")
    else
      let s1 : Sc := { st.sc with set := { st.sc.set with processMemory := true } }
      let o := scanCall c.P c.variant (parseCb cb) 16384 s1 ⟨[], [], [], .success, none⟩ { st.w with nmsg := 0 }
      ({ st with sc := { o.sc with set := st.sc.set }, w := o.world, lastRc := o.rc }, "P:DONE")
  | _ => (st, "BADOP")

def runOps (c : Case) : St → List String → List String
  | _, [] => []
  | st, op :: ops => let (st', out) := stepOp c st op; out :: runOps c st' ops

def handle (line : String) : String :=
  match Driver.toks line with
  | [] => ""
  | id :: rest =>
    match parseCase rest, field rest "ops" with
    | some c, some ops =>
      let st : St := { sc := Sc.fresh c.set, it := none, cb := fun _ => .cont, stack := 16384, w := ⟨0, 0⟩, lastRc := .success }
      id ++ " " ++ "|".intercalate (runOps c st (ops.splitOn ";"))
    | _, _ => id ++ " BADCASE"

end Driver.Hist
