/- C14 driver: `<id> <blocks> <call> <call> …` -> `<id> <result> <result> …` (same shape as harness/h_mod.c).
   blocks: `none` | `base:hex,base:hex,…` ("-" = empty).  call: `name:arg:arg…`.
   result: `U` undefined | `I<int>` | `S<hex>` | `Q<num>/<den>` exact rational | `E<ieee bits>` Lean Float |
   `D<alg>:<hex of the addressed bytes>` (digest of these bytes; evaluated by the Python side with hashlib).
   A result `<spec>~<model>` is printed when the specification value (Spec/HashMath.lean, on the addressed
   bytes) differs from the value of the code-following model (Model/HashMath.lean). -/
import YaraModel.Model.HashMath
import YaraModel.Spec.HashMath
import Driver.Util
namespace Driver.Mod
open YaraModel.HM

inductive Out
  | undef
  | int (i : Int)
  | str (s : String)
  | rat (q : Rat)
  | flt (f : Float)
  | dig (a : Alg) (bs : Bytes)
  | bad

def showOut : Out → String
  | .undef => "U"
  | .int i => "I" ++ toString i
  | .str s => "S" ++ Driver.hex s.toUTF8.toList
  | .rat q => "Q" ++ toString q.num ++ "/" ++ toString q.den
  | .flt f => "E" ++ toString f.toBits.toNat
  | .dig a bs => "D" ++ a.ns ++ ":" ++ Driver.hex bs
  | .bad => "BAD"

def ofOptRat : Option Rat → Out
  | none => .undef | some q => .rat q
def ofOptInt : Option Int → Out
  | none => .undef | some i => .int i

/-- dyadic float argument: the token is the numerator over 8 -/
def ratArg (s : String) : Option Rat := s.toInt?.map fun n => (n : Rat) / 8

def parseBlocks (tok : String) : Option (List Block) :=
  if tok == "none" then some [] else
  (Driver.parts tok ",").mapM fun p =>
    match Driver.parts p with
    | [b, h] => do let base ← b.toNat?; let d ← Driver.unhex h; pure ⟨base, d⟩
    | _ => none

/-- entropy over a histogram, evaluated in IEEE double like the C loop -/
def entropyF (h : Nat → Nat) (total : Nat) : Float :=
  (List.range 256).foldl (fun e i =>
    if h i ≠ 0 then
      let x := Float.ofNat (h i) / Float.ofNat total
      e - x * Float.log2 x
    else e) 0.0

abbrev SymCache := Cache (Alg × Bytes)

def symH (a : Alg) (bs : Bytes) : Alg × Bytes := (a, bs)

def algOf : String → Option Alg
  | "md5" => some .md5 | "sha1" => some .sha1 | "sha256" => some .sha256 | _ => none

def u32 (x : UInt32) : Out := .int x.toNat

/-- Specification-level addressed bytes: the memory-map semantics of Spec/HashMath.lean.  Layouts that
    contain a zero-size block next to other blocks are outside the specification (a zero-size region is
    not a buffer): there the code-following walker is printed for both. -/
def specBytes (blocks : List Block) (off len : Int) : Option Bytes :=
  if blocks.length ≤ 1 ∨ blocks.all (fun b => b.size > 0) then
    Spec.addressedMem (blocks.map fun b => (b.base, b.data)) off len
  else rangeWalk blocks off len

/-- Evaluate one call: (cache', specification value, code-model value). -/
def eval (blocks : List Block) (c : SymCache) (parts : List String) : SymCache × Out × Out :=
  let same (o : Out) := (c, o, o)
  let range (o l : String) (f : List Bytes → Bytes → Out × Out) : SymCache × Out × Out :=
    match o.toInt?, l.toInt? with
    | some off, some len =>
      -- specification value: on the spec-level addressed bytes; model value: on the walker's chunks
      let sv : Out := match specBytes blocks off len with
        | none => .undef | some bs => (f [bs] bs).1
      let mv : Out := match chunksWalk blocks off len with
        | none => .undef | some chunks => (f chunks chunks.flatten).2
      (c, sv, mv)
    | _, _ => same .bad
  let glob (f : Bytes → Out) : SymCache × Out × Out :=
    match globalWalk blocks 0 with
    | none => same .undef
    | some chunks => same (f chunks.flatten)
  let str (h : String) (f : Bytes → Out × Out) : SymCache × Out × Out :=
    match Driver.unhex h with
    | some s => let r := f s; (c, r.1, r.2)
    | none => same .bad
  match parts with
  -- hash: digests (cached)
  | [n, o, l] =>
    match algOf n, o.toInt?, l.toInt? with
    | some a, some off, some len =>
      let r := dataDigest symH blocks c a off len
      let spec : Out := match specBytes blocks off len with
        | none => .undef | some bs => .dig a bs
      let model : Out := match r.2 with
        | none => .undef | some (a', bs) => .dig a' bs
      (r.1, spec, model)
    | none, _, _ =>
      match n with
      | "crc32" => range o l fun ch bs => (u32 (Spec.bitwiseCrc bs), u32 (tableCrcChunks ch))
      | "ck32" => range o l fun ch bs => (.int (Spec.checksum32 bs), u32 (checksum32Chunks ch))
      | "mean" => range o l fun ch bs => (ofOptRat (Spec.mean bs), ofOptRat (meanHist (histChunks ch)))
      | "ent" => range o l fun ch bs =>
          (.flt (entropyF (Spec.count bs) bs.length), .flt (entropyF (histChunks ch) (total256 (histChunks ch))))
      | "sc" => range o l fun ch bs => (.rat (Spec.serialCorrelation bs), .rat (sccChunks ch))
      | "mc" => range o l fun ch bs => (ofOptRat (Spec.monteCarloPi bs), ofOptRat (mcChunks ch))
      | "mode" => range o l fun ch _ => let m : Out := .int (modeHist (histChunks ch)); (m, m)
      | "devs" => str o fun s =>
          match ratArg l with
          | some m => (ofOptRat (Spec.deviation s m), ofOptRat (deviationStr unsignedConv s m))
          | none => (.bad, .bad)
      | "min" => match o.toInt?, l.toInt? with
          | some i, some j => same (.int (mathMin i j)) | _, _ => same .bad
      | "max" => match o.toInt?, l.toInt? with
          | some i, some j => same (.int (mathMax i j)) | _, _ => same .bad
      | "tostrb" => match o.toInt?, l.toInt? with
          | some i, some b => same (match mathToStringBase i b with | some s => .str s | none => .undef)
          | _, _ => same .bad
      | "tointb" => str o fun s =>
          match l.toInt? with
          | some b => let r := ofOptInt (stringToIntBase s b); (r, r)
          | none => (.bad, .bad)
      | _ => same .bad
    | _, _, _ => same .bad
  | [n, x] =>
    match n with
    | "md5s" => str x fun s => (.dig .md5 s, .dig .md5 s)
    | "sha1s" => str x fun s => (.dig .sha1 s, .dig .sha1 s)
    | "sha256s" => str x fun s => (.dig .sha256 s, .dig .sha256 s)
    | "crc32s" => str x fun s => (u32 (Spec.bitwiseCrc s), u32 (tableCrc s))
    | "ck32s" => str x fun s => (.int (Spec.checksum32 s), u32 (checksum32 s))
    | "means" => str x fun s => (ofOptRat (Spec.mean s), ofOptRat (meanStr unsignedConv s))
    | "ents" => str x fun s => (.flt (entropyF (Spec.count s) s.length), .flt (entropyF (histOf s) s.length))
    | "scs" => str x fun s => (.rat (Spec.serialCorrelation s), .rat (sccStr unsignedConv s))
    | "mcs" => str x fun s => (ofOptRat (Spec.monteCarloPi s), ofOptRat (mcStr unsignedConv s))
    | "toint" => str x fun s => let r := ofOptInt (stringToInt s); (r, r)
    | "len" => str x fun s => (.int (stringLength s), .int (stringLength s))
    | "abs" => match x.toInt? with
        | some i => same (ofOptInt (mathAbs i)) | none => same .bad
    | "tonum" => same (.int (mathToNumber (x == "1")))
    | "tostr" => match x.toInt? with
        | some i => same (.str (mathToString i)) | none => same .bad
    | "cntg" => match x.toInt? with
        | some b => glob fun bs => ofOptInt (countHist (histOf bs) b)
        | none => same .bad
    | "pctg" => match x.toInt? with
        | some b => glob fun bs => ofOptRat (percentageHist (histOf bs) b)
        | none => same .bad
    | _ => same .bad
  | ["modeg"] => glob fun bs => .int (modeHist (histOf bs))
  | [n, a, o, l] =>
    match n with
    | "dev" => match ratArg l with
        | some m => range a o fun ch bs => (ofOptRat (Spec.deviation bs m), ofOptRat (deviationHist (histChunks ch) m))
        | none => same .bad
    | "cnt" => match a.toInt? with
        | some b => range o l fun ch bs =>
            (if b < 0 ∨ b > 255 then .undef else .int (Spec.count bs b.toNat), ofOptInt (countHist (histChunks ch) b))
        | none => same .bad
    | "pct" => match a.toInt? with
        | some b => range o l fun ch bs =>
            (if b < 0 ∨ b > 255 then .undef else ofOptRat (Spec.percentage bs b.toNat),
             ofOptRat (percentageHist (histChunks ch) b))
        | none => same .bad
    | "inr" => match ratArg a, ratArg o, ratArg l with
        | some t, some lo, some hi => same (.int (mathInRange t lo hi))
        | _, _, _ => same .bad
    | _ => same .bad
  | _ => same .bad

def handle (line : String) : String :=
  match Driver.toks line with
  | id :: btok :: calls =>
    match parseBlocks btok with
    | none => id ++ " BADBLOCKS"
    | some blocks =>
      let rec go (c : SymCache) : List String → List String
        | [] => []
        | t :: ts =>
          let r := eval blocks c (Driver.parts t)
          let s := showOut r.2.1
          let m := showOut r.2.2
          (if s == m then s else s ++ "~" ++ m) :: go r.1 ts
      " ".intercalate (id :: go [] calls)
  | _ => ""

end Driver.Mod
