/- Line-protocol helpers for the model driver (core Lean only). -/
namespace Driver

def hexVal (c : Char) : Option Nat :=
  if '0' ≤ c ∧ c ≤ '9' then some (c.toNat - '0'.toNat)
  else if 'a' ≤ c ∧ c ≤ 'f' then some (c.toNat - 'a'.toNat + 10)
  else if 'A' ≤ c ∧ c ≤ 'F' then some (c.toNat - 'A'.toNat + 10)
  else none

/-- decode a hex token; "-" is the empty byte string -/
def unhex (s : String) : Option (List UInt8) :=
  if s == "-" then some [] else
  let rec go : List Char → List UInt8 → Option (List UInt8)
    | [], acc => some acc.reverse
    | [_], _ => none
    | a :: b :: t, acc => do
        let x ← hexVal a
        let y ← hexVal b
        go t (UInt8.ofNat (x * 16 + y) :: acc)
  go s.toList []

def hexDigit (n : Nat) : Char := if n < 10 then Char.ofNat (48 + n) else Char.ofNat (87 + n)

def hex (bs : List UInt8) : String :=
  if bs.isEmpty then "-" else
  String.ofList (bs.flatMap fun b => [hexDigit (b.toNat / 16), hexDigit (b.toNat % 16)])

def toks (line : String) : List String :=
  (line.trimAscii.toString.splitOn " ").filter (· ≠ "")

def parts (tok : String) (sep : String := ":") : List String := tok.splitOn sep

def bit (b : Bool) : Char := if b then '1' else '0'

end Driver
