/- C02/C03 driver, specification side: for the pattern AST and the buffer of a case line, print the set of
   admissible match lengths at every offset (byte mode and/or wide mode, optional fullword filter), or the
   verdict of the `matches` operator.

   case line tokens (others are ignored):
     re=<ast>  fl=<flags: subset of a w i s f>  buf=<hex>          -> <id> S a=<o>:<l>,<l>..;.. w=.. [af=.. wf=..]
     re=<ast>  fl=<i s>  mstr=<hex>                                -> <id> M <0|1>
   AST text (no blanks): l<hh> m<vv><mm> n<hh> k<vv><mm> . c<0|1><64 hex> w W s S d D e ^ $ b B
     C(x,y) A(x,y) *<g|l>(x) +<g|l>(x) R<g|l><lo>,<hi>(x) J<g|l><lo>,<hi>                                   -/
import YaraModel.Spec.Re
import YaraModel.Model.ReEval
import YaraModel.Model.ReEmit
import Driver.Util
namespace Driver.Re
open YaraModel.Re

def hexByte (a b : Char) : Option UInt8 := do
  let x ← Driver.hexVal a
  let y ← Driver.hexVal b
  pure (UInt8.ofNat (x * 16 + y))

def readNat : List Char → Nat → (Nat × List Char)
  | c :: t, acc => if c.isDigit then readNat t (acc * 10 + (c.toNat - 48)) else (acc, c :: t)
  | [], acc => (acc, [])

def readBitmap : Nat → List Char → Nat → Nat → Option (Nat × List Char)
  | 0, cs, _, acc => some (acc, cs)
  | n+1, a :: b :: t, i, acc => do
      let v ← hexByte a b
      readBitmap n t (i + 1) (acc + v.toNat * 2 ^ (8 * i))
  | _, _, _, _ => none

def greedyOf : Char → Option Bool
  | 'g' => some true | 'l' => some false | _ => none

partial def parseRe : List Char → Option (Re × List Char)
  | 'l' :: a :: b :: t => do let v ← hexByte a b; pure (.lit v, t)
  | 'n' :: a :: b :: t => do let v ← hexByte a b; pure (.notLit v, t)
  | 'm' :: a :: b :: c :: d :: t => do let v ← hexByte a b; let m ← hexByte c d; pure (.masked v m, t)
  | 'k' :: a :: b :: c :: d :: t => do let v ← hexByte a b; let m ← hexByte c d; pure (.maskedNot v m, t)
  | '.' :: t => some (.any, t)
  | 'c' :: n :: t => do
      let (bm, t') ← readBitmap 32 t 0 0
      pure (.cls bm (n == '1'), t')
  | 'w' :: t => some (.wordCh, t) | 'W' :: t => some (.nonWordCh, t)
  | 's' :: t => some (.space, t) | 'S' :: t => some (.nonSpace, t)
  | 'd' :: t => some (.digit, t) | 'D' :: t => some (.nonDigit, t)
  | 'e' :: t => some (.empty, t)
  | '^' :: t => some (.bol, t) | '$' :: t => some (.eol, t)
  | 'b' :: t => some (.wordB, t) | 'B' :: t => some (.nonWordB, t)
  | 'C' :: '(' :: t => do
      let (x, t1) ← parseRe t
      match t1 with
      | ',' :: t2 => do
          let (y, t3) ← parseRe t2
          match t3 with | ')' :: t4 => pure (.cat x y, t4) | _ => none
      | _ => none
  | 'A' :: '(' :: t => do
      let (x, t1) ← parseRe t
      match t1 with
      | ',' :: t2 => do
          let (y, t3) ← parseRe t2
          match t3 with | ')' :: t4 => pure (.alt x y, t4) | _ => none
      | _ => none
  | '*' :: g :: '(' :: t => do
      let gr ← greedyOf g
      let (x, t1) ← parseRe t
      match t1 with | ')' :: t2 => pure (.star x gr, t2) | _ => none
  | '+' :: g :: '(' :: t => do
      let gr ← greedyOf g
      let (x, t1) ← parseRe t
      match t1 with | ')' :: t2 => pure (.plus x gr, t2) | _ => none
  | 'R' :: g :: t => do
      let gr ← greedyOf g
      let (lo, t1) := readNat t 0
      match t1 with
      | ',' :: t2 =>
          let (hi, t3) := readNat t2 0
          match t3 with
          | '(' :: t4 => do
              let (x, t5) ← parseRe t4
              match t5 with | ')' :: t6 => pure (.range x lo hi gr, t6) | _ => none
          | _ => none
      | _ => none
  | 'J' :: g :: t => do
      let gr ← greedyOf g
      let (lo, t1) := readNat t 0
      match t1 with
      | ',' :: t2 => let (hi, t3) := readNat t2 0; pure (.rangeAny lo hi gr, t3)
      | _ => none
  | _ => none

def parseAst (s : String) : Option Re :=
  match parseRe s.toList with
  | some (r, []) => some r
  | _ => none

def field (ts : List String) (key : String) : Option String :=
  (ts.find? (·.startsWith (key ++ "="))).map (fun t => (t.drop (key.length + 1)).toString)

def insertSorted (x : Nat) : List Nat → List Nat
  | [] => [x]
  | y :: t => if x ≤ y then x :: y :: t else y :: insertSorted x t
def sortNat (l : List Nat) : List Nat := l.foldr insertSorted []

def showSets (buf : Bytes) (f : Nat → List Nat) : String :=
  let rec go (o : Nat) (n : Nat) (acc : List String) : List String :=
    match n with
    | 0 => acc.reverse
    | n+1 =>
      let ls := sortNat (f o)
      go (o + 1) n (if ls.isEmpty then acc else (toString o ++ ":" ++ ",".intercalate (ls.map toString)) :: acc)
  let items := go 0 buf.size []
  if items.isEmpty then "-" else ";".intercalate items

/-- match lengths at offset `o`, through the set evaluator (proved equal to `Re.lens`, Lemmas/ReEval.lean) -/
def lensAt (fl : Flags) (buf : Bytes) (r : Re) (o : Nat) : List Nat := (r.endsSet fl buf [o]).map (· - o)

/-- whole-pattern function level (h_re wfx=): exhaustive forward lengths from every p, backward lengths from every q -/
def showWfx (fl : Flags) (buf : Bytes) (r : Re) : String :=
  let n := buf.size
  let table : List (Nat × List Nat) := (List.range (n + 1)).map (fun p => (p, r.endsSet fl buf [p]))
  let fw := table.foldl (fun acc (p, es) =>
    let ls := sortNat ((es.map (· - p)).eraseDups)
    if ls.isEmpty then acc else acc ++ "|f" ++ toString p ++ ":" ++ ",".intercalate (ls.map toString)) ""
  let bw := (List.range (n + 1)).foldl (fun acc q =>
    let ls := sortNat ((table.filterMap (fun (p, es) => if es.contains q then some (q - p) else none)).eraseDups)
    if ls.isEmpty then acc else acc ++ "|b" ++ toString q ++ ":" ++ ",".intercalate (ls.map toString)) ""
  fw ++ bw

def handle (line : String) : String :=
  match Driver.toks line with
  | [] => ""
  | id :: ts =>
    match field ts "re" with
    | none => id ++ " BAD no-re"
    | some reTxt =>
      match parseAst reTxt with
      | none => id ++ " BAD ast"
      | some r =>
        let flTxt := (field ts "fl").getD "a"
        let has (c : Char) : Bool := flTxt.toList.contains c
        let base : Flags := { wide := false, nocase := has 'i', dotall := has 's' }
        match field ts "mstr" with
        | some h =>
          match Driver.unhex h with
          | none => id ++ " BAD hex"
          | some bs =>
            let buf : Bytes := bs.toArray
            let starts := (List.range (buf.size + 1)).filter (fun o => !(r.endsSet base buf [o]).isEmpty)
            id ++ " M " ++ (if starts.isEmpty then "0" else "1")
        | none =>
          match (field ts "buf").bind Driver.unhex with
          | none => id ++ " BAD hex"
          | some bs =>
            let buf : Bytes := bs.toArray
            let fw := has 'f'
            let wideFl : Flags := { base with wide := true }
            if (field ts "wfx") == some "2" then
              -- the Lean model of _yr_re_emit: forward and backward code of the whole AST
              id ++ " E " ++ Driver.hex (YaraModel.ReEmit.emitCode false r) ++ ":" ++ Driver.hex (YaraModel.ReEmit.emitCode true r)
            else if (field ts "wfx").isSome then
              let parts := (if has 'a' then ["a" ++ showWfx base buf r] else []) ++ (if has 'w' then ["w" ++ showWfx wideFl buf r] else [])
              id ++ " W " ++ (if parts.isEmpty then "-" else ";".intercalate parts)
            else
            let a := if has 'a' then " a=" ++ showSets buf (fun o => lensAt base buf r o) else ""
            let w := if has 'w' then " w=" ++ showSets buf (fun o => lensAt wideFl buf r o) else ""
            let af := if fw && has 'a' then
                " af=" ++ showSets buf (fun o => (lensAt base buf r o).filter (fun L => fullwordOk false buf o L)) else ""
            let wf := if fw && has 'w' then
                " wf=" ++ showSets buf (fun o => (lensAt wideFl buf r o).filter (fun L => fullwordOk true buf o L)) else ""
            id ++ " S" ++ a ++ w ++ af ++ wf

end Driver.Re
