/- C02 driver: the shape predicates of Model/ReHexG.lean on every piece of a hex string's AST (pieces = what the model of
   yr_re_ast_split_at_chaining_point, Model/ReSplit.lean, cuts the string into — the units that are emitted and verified).
   case line:  <id> re=<ast>   ->  <id> G <pieces> gram=<n true> hexg=<n> hexgrev=<n> mask=<n> whole=<0|1>
   (`whole`: gram .toks on the undivided AST with the piece-level jump bound lifted is not evaluated; 1 = one piece) -/
import YaraModel.Model.ReSplit
import YaraModel.Model.ReHexG
import Driver.Re
namespace Driver.Rehexg
open YaraModel.Re YaraModel.ReSplit YaraModel.ReHexG

def count (l : List Re) (f : Re → Bool) : Nat := (l.filter f).length

def handle (line : String) : String :=
  let ts := (line.trimAscii.toString.splitOn " ").filter (· ≠ "")
  let id := ts.headD "?"
  match (Driver.Re.field ts "re").bind Driver.Re.parseAst with
  | none => id ++ " BAD ast"
  | some r =>
    let cs := chainSplit r
    let ps := cs.1 :: cs.2.map (·.2)
    id ++ " G " ++ toString ps.length ++ " gram=" ++ toString (count ps (gram .piece)) ++ " hexg=" ++ toString (count ps hexG) ++
      " hexgrev=" ++ toString (count ps (fun p => hexG (mirror p))) ++ " mask=" ++ toString (count ps maskOK) ++
      " toks=" ++ (if gram .toks r then "1" else "0")

end Driver.Rehexg
