/- C02/C03 driver: the chain structure the model of yr_re_ast_split_at_chaining_point (Model/ReSplit.lean) gives a string.
   case line:  <id> re=<ast>   ->  <id> C <number of pieces> <gmin>:<gmax>,...   (`-` when there is one piece) -/
import YaraModel.Model.ReSplit
import Driver.Re
namespace Driver.Resplit
open YaraModel.Re YaraModel.ReSplit

def handle (line : String) : String :=
  let ts := (line.trimAscii.toString.splitOn " ").filter (· ≠ "")
  let id := ts.headD "?"
  match (Driver.Re.field ts "re").bind Driver.Re.parseAst with
  | none => id ++ " BAD ast"
  | some r =>
    let rest := (chainSplit r).2
    id ++ " C " ++ toString (rest.length + 1) ++ " " ++ (if rest.isEmpty then "-" else ",".intercalate (rest.map fun gp => toString gp.1.gmin ++ ":" ++ toString gp.1.gmax))

end Driver.Resplit
