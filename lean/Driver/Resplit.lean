/- C02/C03 driver: the chain structure the model of yr_re_ast_split_at_chaining_point (Model/ReSplit.lean) gives a string.
   case line:  <id> re=<ast>   ->  <id> C <number of pieces> <gmin>:<gmax>,...   (`-` when there is one piece) -/
import YaraModel.Model.ReSplit
import Driver.Re
namespace Driver.Resplit
open YaraModel.Re YaraModel.ReSplit

def handle (line : String) : String :=
  let ts := (line.trimAscii.toString.splitOn " ").filter (· ≠ "")
  let id := ts.headD "?"
  match (Driver.Re.field ts "re").bind Driver.Re.parseAst with
  | none => id ++ " BAD ast"
  | some r =>
    let (ps, gs) := chainSplit r
    id ++ " C " ++ toString ps.length ++ " " ++ (if gs.isEmpty then "-" else ",".intercalate (gs.map fun g => toString g.gmin ++ ":" ++ toString g.gmax))

end Driver.Resplit
