/- C12 driver (fold vs VM): same line format as harness/h_fold.c -/
import YaraModel.Model.FoldVm
import Driver.Util
namespace Driver.Fold
open YaraModel YaraModel.Gen.Fold YaraModel.Gen.VmOps YaraModel.FoldVm

def parseBin : String → Option FBin
  | "ADD" => some .ADD | "SUB" => some .SUB | "MUL" => some .MUL | "DIV" => some .DIV | "MOD" => some .MOD
  | "XOR" => some .XOR | "AND" => some .AND | "OR" => some .OR | "SHL" => some .SHL | "SHR" => some .SHR | _ => none

def parseUn : String → Option FUn
  | "NEG" => some .NEG | "NOT" => some .NOT | _ => none

def showFold : FoldRes → String
  | .val v => if C.isUndef v then "fold=none" else s!"fold={v}"
  | .err e => s!"fold=E:{e}"
  | .noval => "fold=none"
  | .unparsed => "fold=UNPARSED"

def showRun (v : Int) : String := if C.isUndef v then "run=undef" else s!"run={v}"

def handle (line : String) : String :=
  match Driver.toks line with
  | [id, op, _, av, _, bv] =>
    match parseBin op, av.toInt?, bv.toInt? with
    | some o, some a, some b => s!"{id} {showFold (foldBin o a b)} {showRun (vmBin noPrim (toVm o) a b)}"
    | _, _, _ => s!"{id} BADCASE"
  | [id, op, _, av] =>
    match parseUn op, av.toInt? with
    | some o, some a => s!"{id} {showFold (foldUn o a)} {showRun (vmUn noPrim (toVmUn o) a)}"
    | _, _ => s!"{id} BADCASE"
  | [] => ""
  | id :: _ => s!"{id} BADCASE"

end Driver.Fold
