/- C13 driver: entry points and exhaustive not-ready masks (same case lines / output as harness/h_entry.c). -/
import YaraModel.Spec.Scanner
import Driver.Hist
namespace Driver.Entry
open YaraModel.Scan Driver.Hist

def b36 (n : Nat) : Char :=
  let n := if n < 36 then n else 35
  if n < 10 then Char.ofNat (48 + n) else Char.ofNat (87 + n)

def cont : Nat → CbRet := fun _ => .cont

/-- `E <mem-style trace>|<mapped-file-style trace>` (an empty file is mapped as NULL/0) -/
def entryPoints1 (c : Case) (inp : Nat) (script : String) : String :=
  let cb := parseCb script
  let it := mkIt c inp "-" false
  let a := rulesScanBlocks c.P c.variant cb 16384 c.set it ⟨0, 0⟩
  let size := (c.inputs[inp]?.map (·.total)).getD 0
  let data := match it.all with | b :: _ => b.data | [] => none
  let b := rulesScanMapped c.P c.variant cb 16384 c.set (.ok (if size == 0 then none else data, size)) ⟨0, 0⟩
  script ++ "=" ++ showTrace a.msgs a.rc ++ "|" ++ showTrace b.msgs b.rc

/-- per callback script: `<script>=<mem-style trace>|<mapped-file-style trace>`, joined by `^` -/
def entryPoints (c : Case) (inp : Nat) (scripts : List String) : String :=
  "E " ++ "^".intercalate (scripts.map (entryPoints1 c inp))

/-- `yr_rules_scan_mem` of a whole (single-block) input -/
def wholeTrace (c : Case) (inp : Nat) : String :=
  let a := rulesScanBlocks c.P c.variant cont 16384 c.set (mkIt c inp "-" false) ⟨0, 0⟩
  showTrace a.msgs a.rc

def maskSched (n m : Nat) (st : Nat := 0) : List Act :=
  (List.range n).map fun k => if m / 2 ^ k % 2 == 1 then .notReady else if st > 0 then .stall st else .ok

/-- repeat the call while it answers "not ready" (at most `fuel` calls); returns messages, rc, calls, final state -/
def repeatCall (c : Case) : Nat → Sc → It → World → List Msg → Nat → (List Msg × Err × Nat × Sc × It)
  | 0, s, it, _, ms, n => (ms, .blockNotReady, n, s, it)
  | fuel + 1, s, it, w, ms, n =>
    let o := scanCall c.P c.variant cont 16384 s it w
    if o.rc = .blockNotReady then repeatCall c fuel o.sc o.it o.world (ms ++ o.msgs) (n + 1)
    else (ms ++ o.msgs, o.rc, n + 1, o.sc, o.it)

/-- was a not-ready answer consumed by a call that came after the block loop had seen the end of the blocks? -/
def evalNR (sched : List Act) (nblocks consumed : Nat) : Bool :=
  let rec go : List Act → Nat → Nat → Bool
    | [], _, _ => false
    | a :: t, goLeft, left =>
      if left == 0 then false
      else if isNR a then (goLeft == 0) || go t goLeft (left - 1)
      else go t (goLeft - 1) (left - 1)
  go sched (nblocks + 1) consumed

structure Acc where
  sc : Sc
  classes : List String
  cmap : List Char
  calls : List Char
  flags : List Char
  probes : List Char

def masks (c : Case) (inp n : Nat) (probe : Option Nat := none) (st : Nat := 0) : String :=
  let it0 := mkIt c inp "-" false
  let want := probe.map (wholeTrace c)
  let step (acc : Acc) (m : Nat) : Acc :=
    -- with stalls, EVERY call that is not answered "not ready" takes `st` seconds, also those after the first `n`
    let len := if st > 0 then 2 * n + 2 else n
    let sched := maskSched len m st
    let it := { it0 with sched := sched }
    let (ms, rc, k, sc', itEnd) := repeatCall c (n + 2) acc.sc it ⟨0, 0⟩ [] 0
    let tr := showTrace ms rc
    let (idx, classes) := match acc.classes.findIdx? (· == tr) with
      | some i => (i, acc.classes)
      | none => (acc.classes.length, acc.classes ++ [tr])
    let ev := evalNR sched it0.all.length (len - itEnd.sched.length)
    let sc1 := if rc = .blockNotReady then Sc.fresh c.set else sc'
    -- probe: the SAME scanner and the SAME iterator object (last_error as the interrupted scan left it) on the other input
    let (sc2, pc) := match probe, want with
      | some wi, some wt =>
        let pit := { mkIt c wi "-" false with lastError := if rc = .blockNotReady then .success else itEnd.lastError }
        let o := scanCall c.P c.variant cont 16384 sc1 pit ⟨0, 0⟩
        (if o.rc = .blockNotReady then Sc.fresh c.set else o.sc, if showTrace o.msgs o.rc == wt then '1' else '0')
      | _, _ => (sc1, '-')
    { sc := sc2, classes := classes, cmap := b36 idx :: acc.cmap,
      calls := b36 k :: acc.calls, flags := (if ev then '1' else '0') :: acc.flags, probes := pc :: acc.probes }
  let acc := (List.range (2 ^ n)).foldl step ⟨Sc.fresh c.set, [], [], [], [], []⟩
  s!"M {acc.classes.length}!" ++ "!".intercalate acc.classes ++ "!" ++ String.ofList acc.cmap.reverse ++ "!" ++
    String.ofList acc.calls.reverse ++ "!" ++ String.ofList acc.flags.reverse ++
    (if probe.isSome then "!P=" ++ String.ofList acc.probes.reverse else "")

def handle (line : String) : String :=
  match Driver.toks line with
  | [] => ""
  | id :: rest =>
    match parseCase rest with
    | none => id ++ " BADCASE"
    | some c =>
      match field rest "ep", field rest "masks" with
      | some e, _ => id ++ " " ++ entryPoints c (nat e) (((field rest "cbs").getD "-").splitOn ",")
      | none, some m =>
        (match m.splitOn ":" with
         | [i, n] => id ++ " " ++ masks c (nat i) (nat n) none (nat ((field rest "st").getD "0"))
         | [i, n, wi] => id ++ " " ++ masks c (nat i) (nat n) ++ "!W=" ++ wholeTrace c (nat wi)
         | [i, n, wi, pi] => id ++ " " ++ masks c (nat i) (nat n) (some (nat pi)) ++ "!W=" ++ wholeTrace c (nat wi)
         | _ => id ++ " BADTASK")
      | none, none => id ++ " BADTASK"

end Driver.Entry
