/- C01 driver (base64 modifiers): `<id> mods=<a,w,b,B> alpha=<hex|-> s=<hex> buf=<hex>` → `<id> m=<off>:<len>|<len>;…` -/
import YaraModel.Spec.Base64
import Driver.Util
namespace Driver.B64
open YaraModel.B64

def kv (toks : List String) (k : String) : Option String :=
  (toks.find? (·.startsWith (k ++ "="))).map fun t => (t.drop (k.length + 1)).toString

def handle (line : String) : String :=
  match Driver.toks line with
  | [] => ""
  | id :: rest =>
    match kv rest "mods", (kv rest "alpha").bind Driver.unhex, (kv rest "s").bind Driver.unhex, (kv rest "buf").bind Driver.unhex with
    | some mt, some alpha, some s, some buf =>
      let ps := mt.splitOn ","
      let m : Mods := { ascii := ps.contains "a", wide := ps.contains "w", base64 := ps.contains "b", base64wide := ps.contains "B" }
      let alphabet := if alpha.isEmpty then stdAlphabet else alpha
      let occ := occurrences m alphabet s buf
      let body := if occ.isEmpty then "-" else
        ";".intercalate (occ.map fun (o, l) => s!"{o}:" ++ "|".intercalate (l.map toString))
      let pats := ",".intercalate ((patterns m alphabet s).map Driver.hex)
      s!"{id} m={body} pats={pats}"
    | _, _, _, _ => s!"{id} BADCASE"

end Driver.B64
