/- Arena driver.
   (1) op lines   `<id> create:<n>:<init> <op> ...`  -> one token per op, same format as harness/h_arena.c
   (2) image lines `<id> img=<hex> [b=…] muts=<m>,<m>…` -> load result of every mutated image, same
       format as harness/h_load.c restricted to the loader's outcome. -/
import YaraModel.Spec.Arena
import Driver.Util
namespace Driver.Arena
open YaraModel.Arena
open YaraModel.Gen.ArenaLayout

def errName : Err → String
  | .invalidArgument => "INVALID_ARGUMENT"
  | .insufficientMemory => "INSUFFICIENT_MEMORY"
  | .invalidFile => "INVALID_FILE"
  | .corruptFile => "CORRUPT_FILE"
  | .unsupportedFileVersion => "UNSUPPORTED_FILE_VERSION"
  | .assertFail => "ASSERT"
  | .outOfBounds => "OOB"

/-- address handed out by the model allocator for the k-th request: far apart, never reused -/
def addr (k : Nat) : Nat := (k + 1) * 2 ^ 33

def parseRef (s : String) : Option (Option Ref) :=
  if s == "null" then some none else
  match s.splitOn "." with
  | [b, o] => do let b ← b.toNat?; let o ← o.toNat?; pure (some ⟨b, o⟩)
  | _ => none

def showRef : Option Ref → String
  | none => "null"
  | some r => s!"{r.buf}.{r.off}"

structure St where
  a : Arena := { bufs := [] }
  cfg : Cfg := {}
  k : Nat := 0          -- allocator counter
  dead : Bool := false  -- an assert fired: the process is gone
  ax : Option AArena := none   -- abstract machine state while the line is inside the protocol (Spec/Arena.lean)
  created : Bool := false
  flag : String := ""

def unhexD (s : String) : Bytes := (Driver.unhex s).getD []

/-- apply a mutation to an image -/
def mutate (img : Bytes) (m : String) : Option Bytes :=
  if m == "full" then some img
  else if m.startsWith "p" then (m.drop 1).toString.toNat?.map (img.take ·)
  else if m.startsWith "w" then
    match ((m.drop 1).toString.replace "." ":").splitOn ":" with
    | [off, hx] => do
        let off ← off.toNat?
        let bs ← Driver.unhex hx
        if off + bs.length ≤ img.length then pure (patch img off bs) else pure img
    | _ => none
  else none

/-- a chunking of `s` derived from a seed (sizes 1..max) -/
def chunked (seed max : Nat) (s : Bytes) : List Bytes :=
  let rec go (fuel : Nat) (x : Nat) (s : Bytes) (acc : List Bytes) : List Bytes :=
    match fuel with
    | 0 => (s :: acc).reverse
    | fuel + 1 =>
      if s.isEmpty then acc.reverse else
      let x' := (x * 6364136223846793005 + 1442695040888963407) % 2 ^ 64
      let n := 1 + (x' / 2 ^ 33) % max
      go fuel x' (s.drop n) (s.take n :: acc)
  if max = 0 then [s] else go (s.length + 1) seed s []

def loadOutcome (alloc : Nat → Nat) (rules : Bool) (s : Bytes) : Except Err Arena :=
  if rules then loadRules loaderCfg alloc s else load loaderCfg alloc s

/-- number of 8-byte read requests of the relocation loop: one per entry processed, plus the last one
    (short read, or the entry that is rejected) -/
def relocReads (a : Arena) : Bytes → Nat
  | b0 :: b1 :: b2 :: b3 :: b4 :: b5 :: b6 :: b7 :: rest =>
    match applyRelocs loaderCfg a [b0, b1, b2, b3, b4, b5, b6, b7] with
    | .ok a' => 1 + relocReads a' rest
    | .error _ => 1
  | _ => 1

def rleReqs (l : List String) : List String :=
  let rec go (cur : Option (String × Nat)) (l : List String) (acc : List String) : List String :=
    let flush (c : Option (String × Nat)) (acc : List String) : List String :=
      match c with
      | none => acc
      | some (r, k) => (if k = 1 then r else s!"{r}*{k}") :: acc
    match l with
    | [] => (flush cur acc).reverse
    | r :: t =>
      match cur with
      | some (r0, k) => if r0 == r then go (some (r0, k + 1)) t acc else go (some (r, 1)) t (flush cur acc)
      | none => go (some (r, 1)) t acc
  go none l []

/-- `yr_stream_read` requests issued by the loader on `s`, run-length encoded "<size>x<count>[*reps]" -/
def readTrace (s : Bytes) : String :=
  let reqs : List String :=
    match parseHeader s with
    | .error _ => [s!"{headerSize}x1"]
    | .ok (n, s1) =>
      let t := [s!"{headerSize}x1", s!"{tableEntrySize}x{n}"]
      match parseTable n s1 with
      | .error _ => t
      | .ok (sizes, s2) =>
        if loaderCfg.checksOffsets && !offsetsOk s1 0 (headerSize + tableEntrySize * n) sizes then t else
        let rec bodiesT (sizes : List Nat) (s : Bytes) (acc : List String) : List String × Bool :=
          match sizes with
          | [] => (acc, true)
          | z :: rest =>
            if z = 0 then bodiesT rest s acc
            else if newCap loadInitialSize 0 0 z > 2 ^ maxBufferSizeLog2 then (acc, false)
            else if s.length < z then (acc ++ [s!"{z}x1"], false)
            else bodiesT rest (s.drop z) (acc ++ [s!"{z}x1"])
        let (t2, ok) := bodiesT sizes s2 t
        if !ok then t2 else
        match readBodies addr 0 sizes s2 with
        | .error _ => t2
        | .ok (bufs, s3) =>
          t2 ++ List.replicate (relocReads { bufs := bufs, relocs := [], init := loadInitialSize } s3)
            (if loaderReadsRelocBytes then s!"1x{relocEntrySize}" else s!"{relocEntrySize}x1")
  ",".intercalate (rleReqs reqs)

/-- entries of the relocation section of an image (after header, table and bodies), if it parses that far -/
def relocEntries (s : Bytes) : List Ref :=
  match parseHeader s with
  | .error _ => []
  | .ok (n, s1) =>
    match parseTable n s1 with
    | .error _ => []
    | .ok (sizes, s2) =>
      if loaderCfg.checksOffsets && !offsetsOk s1 0 (headerSize + tableEntrySize * n) sizes then [] else
      match readBodies addr 0 sizes s2 with
      | .error _ => []
      | .ok (_, s3) =>
        let rec go (fuel : Nat) (s : Bytes) (acc : List Ref) : List Ref :=
          match fuel with
          | 0 => acc.reverse
          | fuel + 1 =>
            if s.length < 8 then acc.reverse else
            match decRef (leVal (s.take 8)) with
            | none => acc.reverse
            | some r => go fuel (s.drop 8) (r :: acc)
        go (s3.length / 8 + 1) s3 []

/-- two relocation entries of the image overlap: the loader then reads a pointer it has just
    written as if it were a reference, and the outcome depends on the process's addresses -/
def addrDependent (s : Bytes) : Bool :=
  let es := relocEntries s
  let rec go : List Ref → Bool
    | [] => false
    | r :: t => t.any (fun q => q.buf == r.buf && q.off < r.off + 8 && r.off < q.off + 8) || go t
  go es

def showOut : Out → String
  | .unit => "OK"
  | .ref r => showRef (some r)
  | .found r => showRef r
  | .notFound => "notfound"

/-- a client-operation token as an `Op` of the model (none: not an operation token / malformed) -/
def parseOp (tok : String) : Option Op :=
  match Driver.parts tok with
  | ["w", b, hx] => some (.write (b.toNat?.getD 0) (unhexD hx))
  | ["z", b, size] => some (.zalloc (b.toNat?.getD 0) (size.toNat?.getD 0))
  | ["s", b, size, offs] =>
    some (.struct (b.toNat?.getD 0) (size.toNat?.getD 0) (if offs == "-" then [] else (offs.splitOn ".").filterMap (·.toNat?)))
  | ["r", b, off] => some (.reloc (b.toNat?.getD 0) (off.toNat?.getD 0))
  | ["sp", slot, target] =>
    match parseRef slot, parseRef target with
    | some (some s), some t => some (.setPtr s t)
    | _, _ => none
  | ["p", b, target] => (parseRef target).map (fun t => .ptr (b.toNat?.getD 0) t)
  | ["k", at_, hx] =>
    match parseRef at_ with
    | some (some r) => some (.poke r (unhexD hx))
    | _ => none
  | ["ref", slot] =>
    match parseRef slot with
    | some (some s) => some (.ref s)
    | _ => none
  | ["rt", target] => (parseRef target).map (fun t => .rt t)
  | ["rs", slot, target, _] =>
    match parseRef slot, parseRef target with
    | some (some s), some t => some (.regPtr s t)
    | _, _ => none
  | _ => none

/-- the abstract machine of Spec/Arena.lean run next to the model (the executable shadow of Thm/C19 `run_abs`):
    while the sequence stays inside the protocol (`astep` defined, allocator answer admissible) the model's
    observation and abstract content must be the abstract machine's; (new shadow state, flags) -/
def shadow (st : St) (nb : Nat) (op : Op) (res : Except Err (Arena × Out)) : Option AArena × String :=
  match st.ax with
  | none => (none, st.flag)
  | some x =>
    match astep x op with
    | none => (none, st.flag)
    | some (x1, o) =>
      if !decide (StepFresh st.cfg nb st.a op) then (none, st.flag ++ ":NOADM") else
      match res with
      | .ok (a1, o1) =>
        if o1 == o && YaraModel.Arena.abs a1 == x1 then (if a1.unspec then none else some x1, st.flag)
        else (none, st.flag ++ ":SPECDIFF")
      | .error .insufficientMemory => (none, st.flag)
      | .error _ => (none, st.flag ++ ":SPECDIFF")

def stepOp (st : St) (tok : String) : St × String :=
  if st.dead then (st, "") else
  let fail (st : St) (e : Err) : St × String := ({ st with dead := (e == .assertFail), ax := none }, errName e)
  let k := st.k
  match parseOp tok with
  | some op =>
    let res := exec st.cfg (addr k) st.a op
    let (ax, flag) := shadow st (addr k) op res
    let st := { st with ax := ax, flag := flag, k := k + 1 }
    match res with
    | .ok (a, o) => ({ st with a := a }, showOut o)
    | .error e => fail st e
  | none =>
  match Driver.parts tok with
  | ["create", n, init] =>
    let n := n.toNat?.getD 0
    let init := init.toNat?.getD 0
    ({ st with a := create n init, created := true,
               ax := if !st.created && n ≤ maxBuffers && init > 0 then some (aCreate n) else none }, "OK")
  | ["move", m] => ({ st with cfg := { alwaysMove := m == "1" } }, "OK")
  | ["save"] =>
    match saveFull st.a with
    | .error _ => ({ st with dead := true, flag := if st.ax.isSome then st.flag ++ ":SPECDIFF" else st.flag, ax := none }, "ASSERT")
    | .ok (img, a') =>
      let good := match st.ax with
        | some x => saveOfAbs x == img && a' == st.a
        | none => true
      ({ st with a := a', flag := if good then st.flag else st.flag ++ ":SPECDIFF" },
        if st.a.unspec then "S=UNSPEC" else "S=" ++ Driver.hex img)
  | ["load", m, seed, max] =>
    match saveFull st.a with
    | .error _ => ({ st with dead := true, ax := none }, "ASSERT")
    | .ok (img, a0) =>
    let st := { st with a := a0 }
    match mutate img m with
    | none => (st, "BADOP")
    | some s =>
      if addrDependent s then ({ st with ax := none }, "L=ADDRDEP") else
      let alloc := fun i => addr (k + 1000 + i)
      let r := load loaderCfg alloc s
      let via := loadVia loaderCfg alloc (chunked (seed.toNat?.getD 0) (max.toNat?.getD 0) s)
      let agree := match r, via with
        | .ok x, .ok y => x == y
        | .error e, .error f => e == f
        | _, _ => false
      let t := if agree then "" else ":CHUNKDIFF"
      -- the shadow of Thm/C08 `load_save_reachable`: inside the protocol an intact image loads and re-saves identically
      let rt_ok := !(st.ax.isSome && m == "full") ||
        (match r with
         | .ok a' => YaraModel.Arena.abs a' == YaraModel.Arena.abs st.a && save a' == img
         | .error _ => false)
      let st := if rt_ok then st else { st with flag := st.flag ++ ":SPECDIFF" }
      match r with
      | .error e => if e == .assertFail then ({ st with dead := true }, "ASSERT") else (st, "L=" ++ errName e ++ t)
      | .ok a' =>
        match saveFull a' with
        | .error _ => ({ st with dead := true }, "L=OK ASSERT")
        | .ok (img', _) => (st, "L=OK:" ++ (if st.a.unspec then "UNSPEC" else Driver.hex img') ++ ":" ++ readTrace s ++ t)
  | _ => (st, "BADOP")

/-- one output token per op; the last token `OPSOK=<k>[:flags]` says that the first `k` tokens of the line were
    produced inside the protocol of Thm/C19 (there the outputs are a function of the op list alone: whatever the
    initial size and the always-move setting) -/
def handleOps (id : String) (ops : List String) : String :=
  let rec go (st : St) (pos okc : Nat) : List String → List String
    | [] => [s!"OPSOK={okc}{st.flag}"]
    | t :: ts =>
      let (st', o) := stepOp st t
      if o == "" then go st' pos okc ts
      else o :: go st' (pos + 1) (if st'.ax.isSome then pos + 1 else okc) ts
  " ".intercalate (id :: go {} 0 0 ops)

/-- expand "p<a>-<b>" ranges; returns (label, mutation) pairs grouped per spec item -/
def rle (items : List (Nat × String)) : List String :=
  let rec go (cur : Option (Nat × Nat × String)) (l : List (Nat × String)) (acc : List String) : List String :=
    let flush (c : Option (Nat × Nat × String)) (acc : List String) : List String :=
      match c with
      | none => acc
      | some (a, b, r) => (if b = a + 1 then s!"p{a}={r}" else s!"p{a}-{b}={r}") :: acc
    match l with
    | [] => (flush cur acc).reverse
    | (n, r) :: t =>
      match cur with
      | some (a, b, r0) => if r0 == r ∧ b = n then go (some (a, n + 1, r0)) t acc else go (some (n, n + 1, r)) t (flush cur acc)
      | none => go (some (n, n + 1, r)) t acc
  go none items []

def outcomeNameRaw (r : Except Err Arena) : String :=
  match r with
  | .ok _ => "OK"
  | .error e => errName e

def outcomeOn (rules : Bool) (s : Bytes) : String :=
  if addrDependent s then "ADDRDEP" else outcomeNameRaw (loadOutcome addr rules s)

/-- (offset, bytes) of a "w<off>:<hex>" mutation -/
def parseW (m : String) : Option (Nat × Bytes) :=
  if m.startsWith "w" then
    match ((m.drop 1).toString.replace "." ":").splitOn ":" with
    | [off, hx] => do
        let off ← off.toNat?
        let bs ← Driver.unhex hx
        pure (off, bs)
    | _ => none
  else none

/-- the verdict Thm/C17 proves for a single-field corruption of an intact image written by `save` (header, buffer
    count, offsets, sizes), computed from the closed forms of the theorems — not by running the loader:
    corrupt_magic / _version / _num_buffers / _offset / _size_not_last / _size_last_raised / _size_last_lowered_dvd.
    none: no closed form (last size lowered by a multiple of 8: depends on the buffer's bytes) or not such a field. -/
def predicted (img : Bytes) (off : Nat) (bs : Bytes) : Option String :=
  let n := (img.getD hdrNumBuffersOff 0).toNat
  let sizes := (List.range n).map (fun i => rdLE tblSizeSize img (sizeFieldAt i))
  let bodiesEnd := headerSize + tableEntrySize * n + sizes.sum
  let nrel := (img.length - bodiesEnd) / relocEntrySize
  let unchanged := (img.drop off).take bs.length == bs
  if unchanged || off + bs.length > img.length then none
  else if bs.length == 1 && off < 4 then some "INVALID_FILE"
  else if bs.length == 1 && off == hdrVersionOff then some "UNSUPPORTED_FILE_VERSION"
  else if bs.length == 1 && off == hdrNumBuffersOff then
    some (if (bs.getD 0 0).toNat > maxBuffers then "INVALID_FILE" else "CORRUPT_FILE")
  else if off < headerSize || off ≥ headerSize + tableEntrySize * n then none
  else
    let i := (off - headerSize) / tableEntrySize
    let f := (off - headerSize) % tableEntrySize
    if f == tblOffsetOff && bs.length == 8 then some "CORRUPT_FILE"
    else if f == tblSizeOff && bs.length == 4 then
      let z := leVal bs
      let len := sizes.getD i 0
      if i + 1 < n then some "CORRUPT_FILE"
      else if len < z then
        let capOk := !(decide (newCap loadInitialSize 0 0 z > 2 ^ maxBufferSizeLog2))
        if (z - len) % 8 == 0 && z - len ≤ 8 * nrel && capOk then some "OK"
        else some (if capOk then "CORRUPT_FILE" else "INSUFFICIENT_MEMORY")
      else if (len - z) % 8 != 0 then some "CORRUPT_FILE"
      else none
    else none

def handleImg (id : String) (kvs : List String) : String :=
  let get (k : String) : Option String := (kvs.find? (·.startsWith (k ++ "="))).map (fun s => (s.drop (k.length + 1)).toString)
  match get "img", get "muts" with
  | some hx, some muts =>
    let img := unhexD hx
    let rules := (get "rules").getD "1" == "1"
    let ref := outcomeOn rules img
    let extra :=
      match load loaderCfg addr img with
      | .ok a => s!" RELOCS={a.relocs.length} RESAVE={if save a == img then "same" else "diff"} T={readTrace img}"
      | .error _ => ""
    -- every mutation with its verdict; for a single-field overwrite also the closed-form verdict of Thm/C17
    -- (the executable shadow of the corruption theorems)
    let res : List (String × Option (String × String)) := (muts.splitOn ",").map fun m =>
      if m.startsWith "p" then
        match (m.drop 1).toString.splitOn "-" with
        | [a, b] =>
          let a := a.toNat?.getD 0; let b := b.toNat?.getD 0
          (" ".intercalate (rle ((List.range (b - a)).map fun i => (a + i, outcomeOn rules (img.take (a + i))))), none)
        | _ =>
          match mutate img m with
          | some s => (s!"{m}={outcomeOn rules s}", none)
          | none => (s!"{m}=BADMUT", none)
      else
        match mutate img m with
        | some s =>
          let o := outcomeOn rules s
          let pr := match parseW m with
            | some (off, bs) => (predicted img off bs).map (fun p => (p, o))
            | none => none
          (s!"{m}={o}", pr)
        | none => (s!"{m}=BADMUT", none)
    let outs := res.map (·.1)
    let chk := res.filterMap (fun x => x.2.map (fun p => (x.1, p.1, p.2)))
    let bad := chk.filter (fun (x : String × String × String) => x.2.1 != x.2.2 && x.2.2 != "ADDRDEP")
    let thm := s!" THM={chk.length}:{bad.length}" ++ (match bad with | [] => "" | x :: _ => s!":{x.1}:predicted-{x.2.1}")
    s!"{id} REF={ref}{extra} " ++ " ".intercalate outs ++ thm
  | _, _ => s!"{id} BADCASE"

def handle (line : String) : String :=
  match Driver.toks line with
  | [] => ""
  | id :: rest =>
    if rest.any (·.startsWith "img=") then handleImg id rest else handleOps id rest

end Driver.Arena
