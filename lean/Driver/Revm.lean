/- C02/C03 driver, engine-model side: runs the Lean model of yr_re_exec / yr_re_fast_exec (Model/ReVm.lean) on the REAL
   bytecode dumped by harness/h_re.c, exactly as _yr_scan_verify_re_match calls them, and prints the same `fx=` token.

   case line:  <id> code=<hex> strs=<idx>:<flags hex>:<chained|->:<min>:<max>;... buf=<hex> pairs=<sidx>:<fwd>:<bwd|->,...
   output:     <id> fx=<sidx>:<fwd>:<bwd>|<p>:<a|w>:<F>:<off>.<len>,..|...;...                                         -/
import YaraModel.Model.ReVm
import Driver.Util
namespace Driver.Revm
open YaraModel.Re YaraModel.ReVm

def field (ts : List String) (key : String) : Option String :=
  (ts.find? (·.startsWith (key ++ "="))).map (fun t => (t.drop (key.length + 1)).toString)

def hexNat (s : String) : Nat := s.toList.foldl (fun acc c => acc * 16 + (Driver.hexVal c).getD 0) 0

def showInt (i : Int) : String := if i < 0 then "-" ++ toString i.natAbs else toString i.toNat

/-- forward value F and the backward callbacks (offset, length), for one automaton entry at position p -/
def verifyAt (code : Code) (buf : Bytes) (fast : Bool) (base : VmFlags) (fwd : Nat) (bwd : Option Nat) (p : Nat) : String :=
  let envF : Env := { code := code, entry := fwd, buf := buf, start := p, fl := base }
  let F : Option Int :=
    if fast then (match fastExec envF with | .done m _ => some m | _ => none)
    else (match exec envF with | .done m _ => some m | _ => none)
  match F with
  | none => "X"
  | some f =>
    if f = -1 then "" else
    let head := showInt f ++ ":"
    match bwd with
    | none => head ++ "="
    | some b =>
      let envB : Env := { code := code, entry := b, buf := buf, start := p, fl := { base with backwards := true, exhaustive := true } }
      let calls : Option (List (Nat × Nat)) :=
        if fast then (match fastExec envB with | .done _ cs => some cs | _ => none)
        else (match exec envB with | .done _ cs => some (cs.map (fun l => (p - l, l))) | _ => none)
      match calls with
      | none => head ++ "X"
      | some cs => head ++ (if cs.isEmpty then "-" else ",".intercalate (cs.map (fun (o, l) => toString o ++ "." ++ toString l)))

def handle (line : String) : String :=
  match Driver.toks line with
  | [] => ""
  | id :: ts =>
    match (field ts "code").bind Driver.unhex, (field ts "buf").bind Driver.unhex, field ts "strs", field ts "pairs" with
    | some codeL, some bufL, some strs, some pairs =>
      if pairs == "-" then id ++ " fx=-" else
      let code : Code := codeL.toArray
      let buf : Bytes := bufL.toArray
      let sflags : List (Nat × Nat) := (strs.splitOn ";").filterMap fun s =>
        match s.splitOn ":" with
        | i :: f :: _ => some (i.toNat!, hexNat f)
        | _ => none
      let one (pr : String) : String :=
        match pr.splitOn ":" with
        | [si, fw, bw] =>
          let sidx := si.toNat!
          let flags := (sflags.find? (·.1 == sidx)).map (·.2) |>.getD 0
          let fast := flags &&& 0x40 != 0
          let base : VmFlags := { nocase := flags &&& 0x04 != 0, dotall := flags &&& 0x20000 != 0 }
          let bwd : Option Nat := if bw == "-" then none else some bw.toNat!
          let passes : List (Bool × String) := (if flags &&& 0x08 != 0 then [(false, "a")] else []) ++ (if flags &&& 0x10 != 0 then [(true, "w")] else [])
          let body := passes.foldl (fun acc (w, tag) =>
            (List.range buf.size).foldl (fun acc p =>
              let r := verifyAt code buf fast { base with wide := w } fw.toNat! bwd p
              if r == "" then acc else acc ++ "|" ++ toString p ++ ":" ++ tag ++ ":" ++ r) acc) ""
          pr ++ body
        | _ => pr ++ "|BAD"
      id ++ " fx=" ++ ";".intercalate ((pairs.splitOn ",").map one)
    | _, _, _, _ => id ++ " BAD"

end Driver.Revm
