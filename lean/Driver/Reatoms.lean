/- C02/C03 driver: the atoms the model of atoms.c (Model/ReAtoms.lean, with the heuristic quality function of atoms.c)
   extracts from a non-literal hex / regex AST.
   case line:  <id> re=<ast> fl=<subset of a w i>   ->  <id> A <hex bytes>,<hex bytes>,... P <fwd>:<bwd>,...   (sorted, no duplicates;
   `-` = the zero-length atom; P = the code positions the atoms' automaton entries point to) -/
import YaraModel.Model.ReAtoms
import Driver.Re
namespace Driver.Reatoms
open YaraModel.Re YaraModel.ReAtoms

def insertS (x : String) : List String → List String
  | [] => [x]
  | y :: t => if x == y then y :: t else if x < y then x :: y :: t else y :: insertS x t

def handle (line : String) : String :=
  let ts := (line.splitOn " ").filter (· ≠ "")
  let id := ts.headD "?"
  match (Driver.Re.field ts "re").bind Driver.Re.parseAst with
  | none => id ++ " BAD ast"
  | some r =>
    let flTxt := (Driver.Re.field ts "fl").getD "a"
    let has (c : Char) : Bool := flTxt.toList.contains c
    let m : Mods := { ascii := has 'a' || !has 'w', wide := has 'w', nocase := has 'i' }
    let as := atomsOf quality m r
    let strs := as.foldl (fun acc (b, _) => insertS (if b.isEmpty then "-" else Driver.hex b) acc) []
    let sh (o : Option Nat) : String := match o with | some n => toString n | none => "-"
    let refs := (atomRefs quality r).foldl (fun acc (f, b) => insertS (sh f ++ ":" ++ sh b) acc) []
    id ++ " A " ++ ",".intercalate strs ++ " P " ++ (if refs.isEmpty then "0:-" else ",".intercalate refs)

end Driver.Reatoms
