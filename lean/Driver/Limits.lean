/- C15 driver: predicts, from the abstract description on each case line, the canonical outcome
   that harness/h_limits.c prints for the real code (same format, minus the `t=` timing tokens).
   The oracle is the model instantiated with the SPECIFICATION guards (`Guards.spec`, proved sound in
   Thm/C15.spec_guards_sound); the limits themselves come from the case line or the generated defaults. -/
import YaraModel.Model.Limits
import Driver.Util
namespace Driver.Limits
open YaraModel.Limits
open YaraModel.Gen.Limits

abbrev KV := List (String × String)

def parseKV (ts : List String) : KV :=
  ts.filterMap fun t =>
    match t.splitOn "=" with
    | k :: v :: rest => some (k, "=".intercalate (v :: rest))
    | _ => none

def get? (kv : KV) (k : String) : Option String := (kv.find? (·.1 == k)).map (·.2)
def getD (kv : KV) (k : String) (d : String) : String := (get? kv k).getD d
def getNat (kv : KV) (k : String) (d : Nat) : Nat := ((get? kv k).bind (·.toNat?)).getD d

def errName : Err → String
  | .tooManyMatches => "TOO_MANY_MATCHES" | .stackOverflow => "EXEC_STACK_OVERFLOW"
  | .loopNesting => "LOOP_NESTING_LIMIT_EXCEEDED" | .includeDepth => "SYNTAX_ERROR:includes_depth_exceeded"
  | .includeCircular => "SYNTAX_ERROR:includes_circular_reference" | .tooManyStrings => "TOO_MANY_STRINGS"
  | .identTooLong => "SYNTAX_ERROR:identifier_too_long" | .intOverflow => "INTEGER_OVERFLOW"
  | .reTooComplex => "REGULAR_EXPRESSION_TOO_COMPLEX" | .reTooLarge => "REGULAR_EXPRESSION_TOO_LARGE"
  | .tooManyFibers => "TOO_MANY_RE_FIBERS" | .scanTimeout => "SCAN_TIMEOUT"

/-! ### ml: `_yr_scan_add_match_to_list` driven directly -/

def rle : List String → List String
  | [] => []
  | x :: xs =>
    let rec go (cur : String) (n : Nat) : List String → List String
      | [] => [s!"{cur}*{n}"]
      | y :: ys => if y == cur then go cur (n + 1) ys else s!"{cur}*{n}" :: go y 1 ys
    go x 1 xs

def parseOffs (s : String) : List Match :=
  if s == "-" then [] else
  (s.splitOn ",").filterMap fun t =>
    match t.splitOn ":" with
    | [o] => o.toNat?.map fun x => ⟨x, 1⟩
    | [o, l] => do let x ← o.toNat?; let y ← l.toNat?; pure ⟨x, y⟩
    | _ => none

def fnv (items : List Match) : UInt64 :=
  items.foldl (fun h m => (h ^^^ (UInt64.ofNat (m.off * 31 + m.len))) * 1099511628211) 14695981039346656037

def hex16 (x : UInt64) : String :=
  let ds := (List.range 16).map fun i => Driver.hexDigit (((x >>> (UInt64.ofNat (4 * (15 - i)))) &&& 15).toNat)
  String.ofList ds

def descB : List Match → Bool
  | [] => true
  | [_] => true
  | a :: b :: t => decide (a.off > b.off) && descB (b :: t)

def runMl (kv : KV) : String :=
  let MAX := getNat kv "L" maxStringMatches
  let rep := getNat kv "rep" 0 == 1
  let ms : List Match :=
    match get? kv "asc" with
    | some a => (List.range (a.toNat?.getD 0)).map fun i => ⟨i, 1⟩
    | none => parseOffs (getD kv "offs" "-")
  let (l, codesRev) := ms.foldl (fun (acc : MList × List String) m =>
      let r := addMatch Guards.spec MAX m rep acc.1
      (r.1, (match r.2 with | none => "OK" | some e => errName e) :: acc.2)) (MList.empty, [])
  let codes := rle codesRev.reverse
  let fwd := l.items.reverse
  let walked := fwd.length
  let tail := if walked ≤ 40 then
      " list=" ++ (if fwd.isEmpty then "-" else ",".intercalate (fwd.map fun m => s!"{m.off}:{m.len}"))
    else " hash=" ++ hex16 (fnv fwd)
  s!" codes={if codes.isEmpty then "-" else ",".intercalate codes} count={l.count} walked={walked} sorted={if descB l.items then 1 else 0} links=1{tail}"

/-! ### fib -/

def runFib (kv : KV) : String :=
  let MAX := getNat kv "L" reMaxFibers
  let ops : List FibOp :=
    match get? kv "n" with
    | some n => List.replicate (n.toNat?.getD 0) .create
    | none => (getD kv "ops" "").toList.filterMap fun c => if c == 'c' then some .create else if c == 'r' then some .release else none
  let r := fibRun Guards.spec MAX ⟨0, 0, 0⟩ ops
  -- the harness counts successful creations, errors and the 1-based step of the first error
  let created := ((ops.zip r.2).filter fun (o, e) => o == .create && e.isNone).length
  let errs := (r.2.filter (·.isSome)).length
  let first := match (r.2.zipIdx.find? fun (e, _) => e.isSome) with | some (_, i) => s!"{i + 1}" | none => "-1"
  let code := if errs > 0 then "TOO_MANY_RE_FIBERS" else "-"
  s!" ok={created} errs={errs} first={first} code={code} allocated={r.1.allocated} live={r.1.live}"

/-! ### regular expressions: prefix syntax  l y c | Cxy Axy | Sx Px | R<lo>,<hi>;x -/

partial def parseRe : List Char → Option (Re × List Char)
  | 'l' :: r => some (.lit, r)
  | 'y' :: r => some (.any, r)
  | 'c' :: r => some (.cls, r)
  | 'C' :: r => do let (a, r1) ← parseRe r; let (b, r2) ← parseRe r1; pure (.cat a b, r2)
  | 'A' :: r => do let (a, r1) ← parseRe r; let (b, r2) ← parseRe r1; pure (.alt a b, r2)
  | 'S' :: r => do let (a, r1) ← parseRe r; pure (.star a, r1)
  | 'P' :: r => do let (a, r1) ← parseRe r; pure (.plus a, r1)
  | 'R' :: r =>
    let lo := r.takeWhile Char.isDigit
    let r1 := (r.dropWhile Char.isDigit).drop 1
    let hi := r1.takeWhile Char.isDigit
    let r2 := (r1.dropWhile Char.isDigit).drop 1
    do
      let l ← (String.ofList lo).toNat?
      let h ← (String.ofList hi).toNat?
      let (a, r3) ← parseRe r2
      pure (.range l h a, r3)
  | _ => none

def runRe (kv : KV) : String :=
  match parseRe (getD kv "ast" "").toList with
  | some (r, []) =>
    match emitCode Guards.spec (getNat kv "L" reMaxSplitId) r with
    | .ok c => s!" OK size={c.size}"
    | .error e => " " ++ errName e
  | _ => " BADAST"

/-! ### compile-time limits -/

def compileOutcome (kv : KV) : Option Err :=
  match getD kv "m" "" with
  | "loops" =>
    let evs := (getD kv "shape" "").toList.filterMap fun c =>
      if c == '(' then some LoopEv.enter else if c == ')' then some LoopEv.exit else none
    if (loopRun Guards.spec (getNat kv "L" maxLoopNesting) 0 evs).isNone then some .loopNesting else none
  | "ident" => if Guards.spec.identTooLong (getNat kv "n" 0) then some .identTooLong else none
  | "intlit" =>
    let suf := match getD kv "suf" "none" with | "kb" => Suffix.kb | "mb" => Suffix.mb | _ => Suffix.none
    match intLiteral Guards.spec (getNat kv "value" 0) suf with
    | .ok _ => none
    | .error e => some e
  | "incl" =>
    let names := (getD kv "names" "").splitOn "," |>.filter (· ≠ "")
    let top := getD kv "top" "-"
    let stack := if top == "-" then [] else [top]
    match pushChain Guards.spec (getNat kv "L" maxIncludeDepth) stack names with
    | .ok _ => none
    | .error e => some e
  | "spr" =>
    let parts := ((getD kv "parts" "").splitOn ",").filterMap (·.toNat?)
    let n := parts.foldl (· + ·) 0
    if (countStrings Guards.spec (getNat kv "M" defaultMaxStringsPerRule) 0 n).isNone then some .tooManyStrings else none
  | "resplit" =>
    match parseRe (getD kv "ast" "").toList with
    | some (r, []) =>
      match emitCode Guards.spec (getNat kv "L" reMaxSplitId) r with
      | .ok _ => none
      | .error e => some e
    | _ => none
  | _ => none

def runCompile (kv : KV) : String :=
  match compileOutcome kv with
  | none => " OK sane=1"
  | some e => s!" CERR:{errName e} sane=1"

/-! ### scans -/

structure StrDecl where
  id : String
  tok : String
structure RuleDecl where
  name : String
  str : StrDecl
  atLeast : Nat

/-- rules=<name>:<strid>:<tok>:<K>,…   (one string per rule, condition `#s >= K`) -/
def parseRules (s : String) : List RuleDecl :=
  (s.splitOn ",").filterMap fun t =>
    match t.splitOn ":" with
    | [n, i, tk, k] => k.toNat?.map fun kk => ⟨n, ⟨i, tk⟩, kk⟩
    | _ => none

def parseSegs (s : String) : List (String × Nat) :=
  (s.splitOn "+").filterMap fun t =>
    match t.splitOn "*" with
    | [tk, n] => n.toNat?.map fun k => (tk, k)
    | [tk] => some (tk, 1)
    | _ => none

/-- candidate events in buffer order; tokens are `tokLen` bytes long and never overlap each other -/
def mkEvents (rules : List RuleDecl) (segs : List (String × Nat)) (tokLen : Nat) : List Ev :=
  let idx := rules.zipIdx
  let rec go (pos : Nat) : List (String × Nat) → List Ev → List Ev
    | [], acc => acc.reverse
    | (tk, n) :: rest, acc =>
      let sids := (idx.filter fun (r, _) => r.str.tok == tk).map (·.2)
      let acc' := (List.range n).foldl (fun a i => sids.foldl (fun a' sid => ⟨sid, ⟨pos + tokLen * i, tokLen⟩⟩ :: a') a) acc
      go (pos + tokLen * n) rest acc'
  go 0 segs []

def showStr (id : String) (l : MList) : String :=
  match l.items with
  | [] => s!"{id}=0@-1--1/0"
  | last :: _ =>
    let first := (l.items.getLast?).getD last
    let sum := l.items.foldl (fun a m => a + m.len) 0
    s!"{id}={l.count}@{first.off}-{last.off}/{sum}"

def insertSorted (x : String) : List String → List String
  | [] => [x]
  | y :: ys => if x ≤ y then x :: y :: ys else y :: insertSorted x ys

def scanOut (label : String) (MAX : Nat) (cb : String) (rules : List RuleDecl) (segs : List (String × Nat)) (tokLen : Nat)
    (showPrefix : String) : String :=
  let evs := mkEvents rules segs tokLen
  let r := scanEvents Guards.spec MAX (fun _ => cb == "c") SState.init evs
  let warned := r.1.warned.reverse.map fun sid => match rules[sid]? with | some rd => rd.str.id | none => "?"
  let tmm := if warned.isEmpty then "" else s!" {label}.tmm=" ++ ",".intercalate (warned.foldl (fun a x => insertSorted x a) [])
  match r.2 with
  | some e => s!" {label}={errName e}{tmm}"
  | none =>
    -- consecutive entries with the same rule name are the strings of ONE rule (condition: every `#s >= K` holds)
    let rec group : List (RuleDecl × Nat) → List (String × List (RuleDecl × Nat))
      | [] => []
      | x :: xs =>
        match group xs with
        | (n, ys) :: rest => if n == x.1.name then (n, x :: ys) :: rest else (x.1.name, [x]) :: (n, ys) :: rest
        | [] => [(x.1.name, [x])]
    let shown := (group rules.zipIdx).filter fun (n, _) => n.startsWith showPrefix
    let res := shown.map fun (n, strs) =>
      let ok := strs.all fun (rd, sid) => decide ((r.1.lists sid).count ≥ rd.atLeast)
      s!"{n}:{if ok then 1 else 0}:" ++ ":".intercalate (strs.map fun (rd, sid) => showStr rd.str.id (r.1.lists sid))
    let resS := if res.isEmpty then "" else s!" {label}.res=" ++ ",".intercalate res
    s!" {label}=OK{tmm}{resS}"

def stackOps (prog : String) : List StkOp :=
  let body := prog.toList.flatMap fun c =>
    if c == 'f' then [StkOp.push] else if c == '+' then [.pop, .pop, .push] else []
  -- `> 0`: push the constant, compare (pop 2, push 1); OP_MATCH_RULE pops the result
  body ++ [.push, .pop, .pop, .push, .pop]

/-! ### loops: stack profile of the code the compiler emits for `for <q> <vars> in <iterator> : ( body )` -/

/-- one loop level: kind letter and size (`r` range, `R` empty range, `e<n>` enum, `a` array, `A` empty array,
    `d` dictionary, `D` empty dictionary, `s<n>` string set (for..of), `t<n>` text string set) -/
def parseLevels (shape : String) : List (Char × Nat) :=
  (shape.splitOn ".").filterMap fun t =>
    match t.toList with
    | c :: rest => some (c, (String.ofList rest).toNat?.getD 0)
    | [] => none

def rep (n : Nat) (o : StkOp) : List StkOp := List.replicate n o

/-- push/pop program of the loop nest (outer → inner), innermost body = one boolean -/
def loopProg : List (Char × Nat) → List StkOp
  | [] => [.push]                                            -- body: `true` / `$`
  | (k, n) :: inner =>
    let args : List StkOp := match k with
      | 'r' | 'R' => [.push, .push]
      | 'e' => rep n .push ++ [.push]
      | 's' => [.push] ++ rep n .push ++ [.push]
      | 't' => rep n .push ++ [.push]
      | _ => [.push]                                         -- module array / dictionary object
    let start : List StkOp := match k with
      | 'r' | 'R' => [.pop, .pop, .push]
      | 'e' | 't' => [.pop] ++ rep n .pop ++ [.push]
      | 's' => [.pop] ++ rep n .pop ++ [.pop, .push]
      | _ => [.pop, .push]
    let isDict := k == 'd' || k == 'D'
    let empty := k == 'R' || k == 'A' || k == 'D'
    let next : List StkOp := [.pop, .push] ++ rep (if isDict then 3 else 2) .push
    let vars : List StkOp := rep (if isDict then 2 else 1) .pop ++ [.pop]        -- OP_POP_M per variable, OP_JTRUE_P
    let iter : List StkOp := if empty then [] else
      loopProg inner ++ [.push, .push, .pop, .pop, .pop, .push, .push, .pop, .pop]
    let fin : List StkOp := [.pop, .push, .push, .push, .pop, .pop, .pop, .push]
    [.push, .pop] ++ args ++ start ++ next ++ vars ++ iter ++ fin

def runScan (kv : KV) : String :=
  match getD kv "m" "" with
  | "matches" =>
    let MAX := getNat kv "L" maxStringMatches
    let rules := parseRules (getD kv "rules" "")
    let segs := parseSegs (getD kv "segs" "")
    let tokLen := getNat kv "toklen" 4
    let showP := getD kv "show" ""
    let cb := getD kv "cb" "c"
    let reps := getNat kv "reps" 1
    let one := scanOut "S" MAX cb rules segs tokLen showP
    let s := String.join (List.replicate reps one)
    let b := if (get? kv "text2").isSome then
        String.join (List.replicate reps (scanOut "B0" MAX cb (rules.filter (·.name.startsWith showP)) segs tokLen showP))
      else ""
    s!" OK{s}{b} sane=1"
  | "stack" =>
    match vmRun Guards.spec (getNat kv "S" defaultStackSize) 0 (stackOps (getD kv "prog" "")) with
    | some _ => " OK S=OK S.res=r:1 sane=1"
    | none => " OK S=EXEC_STACK_OVERFLOW sane=1"
  | "loopstack" =>
    let levels := parseLevels (getD kv "shape" "")
    -- rule r: the loop nest; rule q (shown): `r`; OP_MATCH_RULE pops the value of each condition
    let prog := loopProg levels ++ [.pop] ++ [.push, .pop]
    let allNonEmpty := levels.all fun (k, _) => !(k == 'R' || k == 'A' || k == 'D')
    match vmRun Guards.spec (getNat kv "S" defaultStackSize) 0 prog with
    | some _ => s!" OK S=OK S.res=q:{if allNonEmpty then 1 else 0} sane=1"
    | none => " OK S=EXEC_STACK_OVERFLOW sane=1"
  | "rebound" =>
    -- a regexp at a size boundary: rejected at compile time or compiled and scanned (the rule's condition is `$a or true`)
    match parseRe (getD kv "ast" "").toList with
    | some (r, []) =>
      match emitCode Guards.spec (getNat kv "L" reMaxSplitId) r with
      | .ok _ => " OK S=OK S.res=q:1 sane=1"
      | .error e => s!" CERR:{errName e} sane=1"
    | _ => " BADAST"
  | "timeout" => " OK S=SCAN_TIMEOUT sane=1"
  | _ => " UNMODELLED"

/-- litseq: `steps=<m>/<lit>+<lit>,…`, lit = `<value><n|k|m>` (integer literal with suffix none/KB/MB) or `f` (a float literal, always
    accepted). Specification: every compilation stands on its own — a source is rejected iff one of ITS literals is out of range. -/
def runLitSeq (kv : KV) : String :=
  let steps := ((getD kv "steps" "").splitOn ",").filter (· ≠ "")
  let litErr (l : String) : Option Err :=
    if l == "f" then none else
    let cs := l.toList
    let suf := match cs.getLast? with | some 'k' => Suffix.kb | some 'm' => Suffix.mb | _ => Suffix.none
    match intLiteral Guards.spec ((String.ofList cs.dropLast).toNat?.getD 0) suf with
    | .ok _ => none
    | .error e => some e
  let close (cur : Option (Bool × Nat)) : String :=
    match cur with | none => "" | some (true, _) => " RX" | some (false, k) => s!" R{k}"
  let (out, cur) := steps.foldl (fun (acc : String × Option (Bool × Nat)) st =>
      let (out, cur) := acc
      let (mode, body) := match st.splitOn "/" with | [m, b] => (m, b) | _ => ("n", "")
      let lits := (body.splitOn "+").filter (· ≠ "")
      let needNew := mode == "n" || (match cur with | none => true | some (e, _) => e)
      let out := if needNew then out ++ close cur else out
      let cnt := if needNew then 0 else (match cur with | some (_, k) => k | none => 0)
      match lits.findSome? litErr with
      | none => (out ++ " OK", some (false, cnt + 1))
      | some e => (out ++ s!" CERR:{errName e}", some (true, cnt))) ("", none)
  out ++ close cur ++ " sane=1"

/-- fileseq: `files=<name>:<depth>,…` through one compiler; specification: every file starts from an empty include stack -/
def runFileSeq (kv : KV) : String :=
  let files := ((getD kv "files" "").splitOn ",").filter (· ≠ "") |>.zipIdx.map fun (t, k) =>
    match t.splitOn ":" with
    | [n, d] => (n, (List.range (d.toNat?.getD 0)).map fun i => s!"{k}_{i + 1}")
    | _ => (t, [])
  let outs := addFileSeq Guards.spec (getNat kv "L" maxIncludeDepth) true [] files
  let failed := outs.any (·.isSome)
  let toks := outs.map fun o => match o with | none => " OK" | some e => s!" CERR:{errName e}"
  let total := files.foldl (fun a f => a + 1 + f.2.length) 0
  String.join toks ++ (if failed then " RX" else s!" R{total}") ++ " sane=1"

/-- cases with `nest=`: the configured limits as read back after the nested `yr_initialize()`/`yr_finalize()` — unchanged -/
def cfgPrefix (kv : KV) : String :=
  if (get? kv "nest").isNone then "" else
  String.join (["ss", "mspr", "mmd", "chunk"].filterMap fun k => (get? kv k).map fun v => s!" cfg.{k}={v}")

def handle (line : String) : String :=
  match Driver.toks line with
  | id :: cmd :: rest =>
    let kv := parseKV rest
    let body := match cmd with
      | "settimeout" =>
        " " ++ " ".intercalate (((getD kv "s" "0").splitOn ",").filterMap fun t => t.toInt?.map fun v => s!"{v}:{specTimeoutNs v}")
      | "cfg" =>
        -- specification of the configuration API: what was set is what is read back, through every accessor, return codes 0
        " " ++ " ".intercalate (((getD kv "v" "0").splitOn ",").filterMap fun t => t.toNat?.map fun v => s!"{v}:{v},{v},{v}:0")
      | "scanblocks" =>
        -- virtual clock: block j (0-based) starts after j deliveries of `sleep_ms`; the clock is read at the start of every block
        -- (byte position 0 is a multiple of the stride) and compared with the deadline
        let n := getNat kv "nblocks" 0
        let sl := getNat kv "sleep_ms" 0 * 1000000
        let tmo := getNat kv "timeout" 1 * 1000000000
        let hit := (List.range n).any fun j => (blockReads blockTimeoutStride 0 (getNat kv "bsize" 64) ≥ 1) && Guards.spec.blockExpired (j * sl) tmo
        s!" OK S={if hit then "SCAN_TIMEOUT" else "OK"} sane=1"
      | "scanseq" =>
        -- one scanner, several scans; buffer 1 needs few fibers, buffer 2 more than the limit
        if getD kv "m" "" == "tmmseq" then
          -- every scan starts from `_yr_scanner_clean_matches` (all strings un-muted): each scan is independent of the ones before
          let seq := (getD kv "seq" "1").splitOn ","
          -- worst case before the scan: the string `idx` was muted by the previous one; the memset covers `nstr` strings
          let muted := cleanDisabled (getNat kv "nstr" 1) (fun _ => true) (getNat kv "idx" 0)
          let steps := seq.zipIdx.map fun (_, i) => s!"S{i + 1}=OK S{i + 1}.same={if muted then 0 else 1}"
          " OK F1=OK F2=OK " ++ " ".intercalate steps ++ " sane=1"
        else
        let MAX := getNat kv "L" reMaxFibers
        let needOf (w : String) : Nat := if w == "2" then getNat kv "need2" 0 else getNat kv "need1" 0
        let seq := (getD kv "seq" "1").splitOn ","
        let show1 (e : Option Err) : String := match e with | none => "OK" | some x => errName x
        let fresh := fun (w : String) => show1 (reExec Guards.spec MAX (needOf w) ⟨0, 0, 0⟩).2
        let outs := reExecSeq Guards.spec MAX ⟨0, 0, 0⟩ (seq.map needOf)
        let steps := (outs.zipIdx.zip seq).map fun ((e, i), w) => s!"S{i + 1}={show1 e} S{i + 1}.same={if show1 e == fresh w then 1 else 0}"
        s!" OK F1={fresh "1"} F2={fresh "2"} " ++ " ".intercalate steps ++ " sane=1"
      | "ml" => runMl kv
      | "fib" => runFib kv
      | "re" => runRe kv
      | "compile" => cfgPrefix kv ++ runCompile kv
      | "scan" => cfgPrefix kv ++ runScan kv
      | "litseq" => runLitSeq kv
      | "fileseq" => runFileSeq kv
      | _ => " UNMODELLED"
    id ++ body
  | _ => ""

end Driver.Limits
