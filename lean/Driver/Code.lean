/- C04 translation validation driver: decode the REAL condition bytecode (dumped by harness/h_code.c) with the
   opcode table regenerated from exec.h / exec.c (Gen.Opcodes), compare it instruction by instruction with what the
   compile model (Model.CondCompile.compile) emits for the same condition, and run it on the VM model.
   Line:  the `cond` engine's line plus  code=<hex> rel=<off>:<kind><payload>,...
   Output: <id> code=<same|diff@rule:index:real/model|unsupported:why> real=default:<name>=<0|1|?>,...
           ops=<OP:executions:with-UNDEFINED-operand:with-boundary-operand;...>   (the real code run on the VM model)
           static=<OP:occurrences;...>                                            (the real code as emitted)  -/
import YaraModel.Gen.Opcodes
import Driver.Cond
namespace Driver.Code
open YaraModel YaraModel.Cond YaraModel.CondVm YaraModel.CondCompile YaraModel.Gen.VmOps

def leNat (bs : List UInt8) : Nat := bs.foldr (fun b acc => acc * 256 + b.toNat) 0

def toI64 (n : Nat) : Int := C.wrap (n : Int)
def toI32 (n : Nat) : Int := if n ≥ 2147483648 then (n : Int) - 4294967296 else (n : Int)

structure Raw where
  off : Nat
  name : String
  arg : Nat        -- operand bytes, little endian
  deriving Repr

partial def decodeRaw (bytes : Array UInt8) (off : Nat) (acc : List Raw) : Except String (List Raw) :=
  if off ≥ bytes.size then .ok acc.reverse else
  let op := bytes[off]!.toNat
  match Gen.Opcodes.table.find? (fun r => r.1 == op) with
  | some (_, name, some sz) =>
    let arg := leNat ((bytes.extract (off + 1) (off + 1 + sz)).toList)
    if name == "OP_HALT" then .ok (({ off, name, arg } : Raw) :: acc).reverse
    else decodeRaw bytes (off + 1 + sz) ({ off, name, arg } :: acc)
  | _ => .error s!"unknown opcode {op} at {off}"

inductive Rel
  | str (rule k : Nat)
  | pool (bytes : List UInt8)
  | re
  | other
  deriving Repr

def parseRel (tok : String) : Option (Nat × Rel) :=
  match tok.splitOn ":" with
  | [o, p] => do
    let off ← o.toNat?
    if p.startsWith "S" then
      match (p.drop 1).toString.splitOn "." with
      | [r, k] => do pure (off, .str (← r.toNat?) (← k.toNat?))
      | _ => none
    else if p.startsWith "P" then (Driver.unhex (p.drop 1).toString).map fun b => (off, .pool b)
    else if p == "R" then some (off, .re)
    else some (off, .other)
  | _ => none

def cstr (bs : List UInt8) : String := String.ofList ((bs.takeWhile (· != 0)).map fun b => Char.ofNat b.toNat)
def sized (bs : List UInt8) : Bytes := (bs.drop 8).take (leNat (bs.take 4))

/-- one decoded item of a rule's code: a model instruction, a jump to a byte offset, or a regexp push -/
inductive Item
  | ins (i : Instr)
  | jf (target : Nat) | jt (target : Nat) | jtp (target : Nat)
  | rePush
  | modChain (undefined : Bool)        -- OBJ_LOAD "tests" … OBJ_VALUE: a module value (fixed by modules/tests/tests.c)
  deriving Repr

def pureOp (name : String) : Option Instr :=
  match UnOp.all.find? (fun o => o.name == name) with
  | some o => some (.un o)
  | none => (BinOp.all.find? (fun o => o.name == name)).map .bin

/-- raw instructions of one rule (between INIT_RULE and MATCH_RULE) -> items tagged with their byte offset -/
partial def items (rels : List (Nat × Rel)) (exts : List String) : List Raw → List (Nat × Item × List String) → Except String (List (Nat × Item × List String))
  | [], acc => .ok acc.reverse
  | r :: rest, acc =>
    let rel : Option Rel := (rels.find? (fun p => p.1 == r.off + 1)).map (·.2)
    let one (i : Instr) := items rels exts rest ((r.off, .ins i, [r.name]) :: acc)
    match r.name with
    | "OP_PUSH" =>
      match rel with
      | some (.str _ k) => one (.push (encStr k))
      | some (.pool b) => one (.push (encSS (sized b)))
      | some .re => items rels exts rest ((r.off, .rePush, [r.name]) :: acc)
      | some .other => .error "push of unknown pointer"
      | none => one (.push (toI64 r.arg))
    | "OP_PUSH_8" | "OP_PUSH_16" | "OP_PUSH_32" => one (.push (r.arg : Int))
    | "OP_PUSH_U" => one .pushU
    | "OP_POP" => one .pop
    | "OP_INT_TO_DBL" => one (.intToDbl r.arg)
    | "OP_FILESIZE" => one .filesize
    | "OP_ENTRYPOINT" => one .undefVal      -- the buffers are neither PE nor ELF files
    | "OP_PUSH_RULE" => one (.pushRule r.arg)
    | "OP_FOUND" => one .found | "OP_FOUND_AT" => one .foundAt | "OP_FOUND_IN" => one .foundIn
    | "OP_COUNT" => one .count | "OP_COUNT_IN" => one .countIn | "OP_OFFSET" => one .offset | "OP_LENGTH" => one .length
    | "OP_OF" => one (.of_ (r.arg != 0)) | "OP_OF_PERCENT" => one (.ofPercent (r.arg != 0))
    | "OP_OF_FOUND_IN" => one .ofFoundIn | "OP_OF_FOUND_AT" => one .ofFoundAt
    | "OP_MATCHES" => one .matches
    | "OP_CLEAR_M" => one (.clearM r.arg) | "OP_ADD_M" => one (.addM r.arg) | "OP_INCR_M" => one (.incrM r.arg)
    | "OP_PUSH_M" => one (.pushM r.arg) | "OP_POP_M" => one (.popM r.arg)
    | "OP_JFALSE" => items rels exts rest ((r.off, .jf ((r.off : Int) + toI32 r.arg).toNat, [r.name]) :: acc)
    | "OP_JTRUE" => items rels exts rest ((r.off, .jt ((r.off : Int) + toI32 r.arg).toNat, [r.name]) :: acc)
    | "OP_JTRUE_P" => items rels exts rest ((r.off, .jtp ((r.off : Int) + toI32 r.arg).toNat, [r.name]) :: acc)
    | "OP_ITER_START_INT_RANGE" => one .iterStartRange | "OP_ITER_START_INT_ENUM" => one .iterStartEnum
    | "OP_ITER_START_STRING_SET" => one .iterStartStrSet | "OP_ITER_START_TEXT_STRING_SET" => one .iterStartTextSet
    | "OP_ITER_NEXT" => one .iterNext | "OP_ITER_CONDITION" => one .iterCondition | "OP_ITER_END" => one .iterEnd
    | "OP_OBJ_LOAD" =>
      -- an object access chain up to OP_OBJ_VALUE: an external variable, or a (by construction undefined) module value
      let name := match rel with
        | some (.pool b) => cstr b
        | _ => "?"
      -- the chain ends at the OBJ_VALUE that balances this OBJ_LOAD (indices / arguments may be module values themselves)
      let rec split (depth : Nat) (acc : List Raw) : List Raw → List Raw × List Raw
        | [] => (acc.reverse, [])
        | x :: xs =>
          if x.name == "OP_OBJ_LOAD" then split (depth + 1) (x :: acc) xs
          else if x.name == "OP_OBJ_VALUE" then
            if depth == 0 then (acc.reverse, x :: xs) else split (depth - 1) (x :: acc) xs
          else split depth (x :: acc) xs
      let (chain, tail) := split 0 [] rest
      let names := r.name :: (chain.map (·.name)) ++ ["OP_OBJ_VALUE"]
      match tail with
      | _ :: rest' =>
        if exts.contains name then items rels exts rest' ((r.off, .ins (.extVal name), names) :: acc)
        else if name == "tests" then items rels exts rest' ((r.off, .modChain false, names) :: acc)
        else .error s!"object {name}"
      | [] => .error "OBJ_LOAD without OBJ_VALUE"
    | n =>
      match pureOp n with
      | some i => one i
      | none => .error s!"opcode {n} is not in the modelled fragment"

/-- a resolved real instruction: a model instruction, a regexp push, or a module value -/
inductive Real
  | ins (i : Instr) | re | mod
  deriving Repr

def resolve (its : List (Nat × Item × List String)) (endOff : Nat) : Except String (List Real) :=
  let idxOf (target : Nat) : Option Nat :=
    if target == endOff then some its.length else its.findIdx? (fun p => p.1 == target)
  let rec go (k : Nat) : List (Nat × Item × List String) → Except String (List Real)
    | [] => .ok []
    | (_, it, _) :: t => do
      let rest ← go (k + 1) t
      let j (mk : Int → Instr) (target : Nat) : Except String (List Real) :=
        match idxOf target with
        | some i => .ok (.ins (mk ((i : Int) - (k : Int))) :: rest)
        | none => .error s!"jump into the middle of an instruction ({target})"
      match it with
      | .ins i => .ok (.ins i :: rest)
      | .rePush => .ok (.re :: rest)
      | .modChain _ => .ok (.mod :: rest)
      | .jf t => j .jfalse t
      | .jt t => j .jtrue t
      | .jtp t => j .jtrueP t
  go 0 its

/-- split the raw stream into rules: (rule index, raw instructions, byte offset of the MATCH_RULE) -/
partial def splitRules : List Raw → List (Nat × List Raw × Nat) → Except String (List (Nat × List Raw × Nat))
  | [], acc => .ok acc.reverse
  | r :: rest, acc =>
    if r.name == "OP_INIT_RULE" then
      let body := rest.takeWhile (fun x => x.name != "OP_MATCH_RULE")
      match rest.dropWhile (fun x => x.name != "OP_MATCH_RULE") with
      | m :: rest' => splitRules rest' ((r.arg / 4294967296, body, m.off) :: acc)
      | [] => .error "INIT_RULE without MATCH_RULE"
    else if r.name == "OP_IMPORT" || r.name == "OP_HALT" then splitRules rest acc
    else .error s!"{r.name} outside a rule"

/-- module values travel as pseudo-externals whose names start with `m_` (their values are fixed by modules/tests/tests.c) -/
def isModName (n : String) : Bool := n.startsWith "m_"

def sameInstr (real : Real) (model : Instr) : Bool :=
  match real, model with
  | .re, .push v => ptrTag v == 4          -- a regular expression: contents are C03's concern
  | .mod, .undefVal => true
  | .mod, .extVal n => isModName n
  | .ins a, b => a == b
  | _, _ => false

def firstDiff (real : List Real) (model : List Instr) : Option Nat :=
  let rec go (k : Nat) : List Real → List Instr → Option Nat
    | [], [] => none
    | a :: as, b :: bs => if sameInstr a b then go (k + 1) as bs else some k
    | _, _ => some k
  go 0 real model

/-! ### per-opcode execution histogram of the REAL code run on the VM model -/

def boundaryWord (v : Int) : Bool :=
  v == 0 || v == 1 || v == -1 || v == C.INT64_MAX || v == C.INT64_MIN || v == encSS []

/-- the words an instruction consumes (or inspects) from the stack -/
def operandWords (i : Instr) (st : List Int) : List Int :=
  match i with
  | .un _ | .found | .count | .addM _ | .popM _ | .jfalse _ | .jtrue _ | .jtrueP _ | .pop => st.take 1
  | .bin _ | .foundAt | .offset | .length | .matches | .iterStartRange => st.take 2
  | .foundIn | .countIn | .iterCondition | .iterEnd => st.take 3
  | .intToDbl k => (st.drop (k - 1)).take 1
  | .of_ _ | .ofPercent _ => ((popToMarker st []).2).take 1
  | .ofFoundIn => st.take 2 ++ ((popToMarker (st.drop 2) []).2).take 1
  | .ofFoundAt => st.take 1 ++ ((popToMarker (st.drop 1) []).2).take 1
  | .iterStartEnum | .iterStartTextSet | .iterStartStrSet =>
    match st with
    | n :: rest => n :: rest.take n.toNat
    | [] => []
  | _ => []

/-- run, counting per code position: executions, executions with an UNDEFINED operand, with a boundary operand
    (for instructions without operands the produced word is classified instead) -/
partial def traceRun (env : Env) (code : Array Instr) (fuel : Nat) (s : St) (cnt : Array (Nat × Nat × Nat)) :
    Option St × Array (Nat × Nat × Nat) :=
  if fuel == 0 then (none, cnt) else
  match code[s.pc]? with
  | none => (some s, cnt)
  | some i =>
    match step env i s with
    | some s' =>
      let ws := match operandWords i s.stack with
        | [] => s'.stack.take 1
        | l => l
      let (n, u, b) := cnt[s.pc]?.getD (0, 0, 0)
      let cnt := cnt.setIfInBounds s.pc (n + 1, u + (if ws.any isU then 1 else 0), b + (if ws.any boundaryWord then 1 else 0))
      traceRun env code (fuel - 1) s' cnt
    | none => (none, cnt)

def addCounts (acc : List (String × Nat × Nat × Nat)) (name : String) (c : Nat × Nat × Nat) : List (String × Nat × Nat × Nat) :=
  match acc.find? (·.1 == name) with
  | some _ => acc.map fun e => if e.1 == name then (name, e.2.1 + c.1, e.2.2.1 + c.2.1, e.2.2.2 + c.2.2) else e
  | none => acc ++ [(name, c)]

def handle (line : String) : String :=
  match Driver.toks line with
  | [] => ""
  | id :: rest =>
    let c := Driver.Cond.parseCase rest
    if c.bad then s!"{id} BADCASE" else
    let codeTok := rest.find? (·.startsWith "code=")
    let relTok := rest.find? (·.startsWith "rel=")
    match codeTok, relTok with
    | some ct, some rt =>
      match Driver.unhex (ct.drop 5).toString with
      | none => s!"{id} BADCODE"
      | some bytes =>
        let rels := if (rt.drop 4).toString == "-" then [] else ((rt.drop 4).toString.splitOn ",").filterMap parseRel
        let blocks := match c.sizes with
          | some sz => Driver.Cond.mkBlocks c.buf sz
          | none => [(0, c.buf)]
        let exts := c.ext.map (·.1)
        let result : Except String (String × List String × List (String × Nat × Nat × Nat)) := do
          let raws ← decodeRaw bytes.toArray 0 []
          let rules ← splitRules raws []
          if rules.length != c.rules.length then throw s!"{rules.length} rules in the code, {c.rules.length} expected"
          let mut status := "same"
          let mut verdicts : List Bool := []
          let mut shown : List String := []
          let mut hist : List (String × Nat × Nat × Nat) := []
          for (ridx, raw, endOff) in rules do
            match c.rules[ridx]? with
            | none => throw "rule index"
            | some (name, rule) =>
              let its ← items rels exts raw []
              let real ← resolve its endOff
              let env : Env := { strs := rule.strs, blocks, filesize := c.buf.length, ext := c.ext, rules := verdicts, disabled := c.disabled, fops := Driver.Cond.ieee }
              let model := compileRule (ctxOfEnv env) rule.cond
              match firstDiff real model with
              | some k =>
                if status == "same" then
                  status := s!"diff@{name}:{k}:{reprStr (real[k]?)}/{reprStr (model[k]?)}".replace " " "_"
              | none => pure ()
              let runnable := (real.zip model).map fun (a, b) => match a with
                | .ins i => i
                | _ => b
              let (fin, cnt) := traceRun env runnable.toArray 2000000 {} (Array.replicate runnable.length (0, 0, 0))
              for ((_, _, names), c) in its.zip cnt.toList do
                if c.1 > 0 then
                  for nm in names do
                    hist := addCounts hist nm c
              -- OP_INIT_RULE skips the code of a disabled rule: it does not match
              let v := if c.disabled.contains ridx then some false else match fin with
                | some s => verdictOf s
                | none => none
              verdicts := verdicts ++ [v.getD false]
              shown := shown ++ [s!"default:{name}={match v with | some b => String.singleton (Driver.bit b) | none => "?"}"]
          pure (status, shown, hist)
        let static : List (String × Nat × Nat × Nat) := match decodeRaw bytes.toArray 0 [] with
          | .ok raws => raws.foldl (fun acc r => addCounts acc r.name (1, 0, 0)) []
          | .error _ => []
        let showStatic := ";".intercalate (static.map fun e => s!"{e.1}:{e.2.1}")
        match result with
        | .ok (status, shown, hist) =>
          let showHist := ";".intercalate (hist.map fun e => s!"{e.1}:{e.2.1}:{e.2.2.1}:{e.2.2.2}")
          s!"{id} code={status} real={",".intercalate shown} ops={if showHist.isEmpty then "-" else showHist} static={showStatic}"
        | .error e => s!"{id} code=unsupported:{e.replace " " "_"} real=- ops=- static={if showStatic.isEmpty then "-" else showStatic}"
    | _, _ => s!"{id} NOCODE"

end Driver.Code
