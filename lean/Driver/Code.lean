/- C04 translation validation driver: decode the REAL condition bytecode (dumped by harness/h_code.c) with the
   opcode table regenerated from exec.h / exec.c (Gen.Opcodes), compare it instruction by instruction with what the
   compile model (Model.CondCompile.compile) emits for the same condition, and run it on the VM model.
   Line:  the `cond` engine's line plus  code=<hex> rel=<off>:<kind><payload>,...
   Output: <id> code=<same|diff@rule:index:real/model|unsupported:why> real=default:<name>=<0|1|?>,...  -/
import YaraModel.Gen.Opcodes
import Driver.Cond
namespace Driver.Code
open YaraModel YaraModel.Cond YaraModel.CondVm YaraModel.CondCompile YaraModel.Gen.VmOps

def leNat (bs : List UInt8) : Nat := bs.foldr (fun b acc => acc * 256 + b.toNat) 0

def toI64 (n : Nat) : Int := C.wrap (n : Int)
def toI32 (n : Nat) : Int := if n ≥ 2147483648 then (n : Int) - 4294967296 else (n : Int)

structure Raw where
  off : Nat
  name : String
  arg : Nat        -- operand bytes, little endian
  deriving Repr

partial def decodeRaw (bytes : Array UInt8) (off : Nat) (acc : List Raw) : Except String (List Raw) :=
  if off ≥ bytes.size then .ok acc.reverse else
  let op := bytes[off]!.toNat
  match Gen.Opcodes.table.find? (fun r => r.1 == op) with
  | some (_, name, some sz) =>
    let arg := leNat ((bytes.extract (off + 1) (off + 1 + sz)).toList)
    if name == "OP_HALT" then .ok (({ off, name, arg } : Raw) :: acc).reverse
    else decodeRaw bytes (off + 1 + sz) ({ off, name, arg } :: acc)
  | _ => .error s!"unknown opcode {op} at {off}"

inductive Rel
  | str (rule k : Nat)
  | pool (bytes : List UInt8)
  | re
  | other
  deriving Repr

def parseRel (tok : String) : Option (Nat × Rel) :=
  match tok.splitOn ":" with
  | [o, p] => do
    let off ← o.toNat?
    if p.startsWith "S" then
      match (p.drop 1).toString.splitOn "." with
      | [r, k] => do pure (off, .str (← r.toNat?) (← k.toNat?))
      | _ => none
    else if p.startsWith "P" then (Driver.unhex (p.drop 1).toString).map fun b => (off, .pool b)
    else if p == "R" then some (off, .re)
    else some (off, .other)
  | _ => none

def cstr (bs : List UInt8) : String := String.ofList ((bs.takeWhile (· != 0)).map fun b => Char.ofNat b.toNat)
def sized (bs : List UInt8) : Bytes := (bs.drop 8).take (leNat (bs.take 4))

/-- one decoded item of a rule's code: a model instruction, a jump to a byte offset, or a regexp push -/
inductive Item
  | ins (i : Instr)
  | jf (target : Nat) | jt (target : Nat) | jtp (target : Nat)
  | rePush
  deriving Repr

def pureOp (name : String) : Option Instr :=
  match UnOp.all.find? (fun o => o.name == name) with
  | some o => some (.un o)
  | none => (BinOp.all.find? (fun o => o.name == name)).map .bin

/-- raw instructions of one rule (between INIT_RULE and MATCH_RULE) -> items tagged with their byte offset -/
partial def items (rels : List (Nat × Rel)) (exts : List String) : List Raw → List (Nat × Item) → Except String (List (Nat × Item))
  | [], acc => .ok acc.reverse
  | r :: rest, acc =>
    let rel : Option Rel := (rels.find? (fun p => p.1 == r.off + 1)).map (·.2)
    let one (i : Instr) := items rels exts rest ((r.off, .ins i) :: acc)
    match r.name with
    | "OP_PUSH" =>
      match rel with
      | some (.str _ k) => one (.push (encStr k))
      | some (.pool b) => one (.push (encSS (sized b)))
      | some .re => items rels exts rest ((r.off, .rePush) :: acc)
      | some .other => .error "push of unknown pointer"
      | none => one (.push (toI64 r.arg))
    | "OP_PUSH_8" | "OP_PUSH_16" | "OP_PUSH_32" => one (.push (r.arg : Int))
    | "OP_PUSH_U" => one .pushU
    | "OP_POP" => one .pop
    | "OP_INT_TO_DBL" => one (.intToDbl r.arg)
    | "OP_FILESIZE" => one .filesize
    | "OP_PUSH_RULE" => one (.pushRule r.arg)
    | "OP_FOUND" => one .found | "OP_FOUND_AT" => one .foundAt | "OP_FOUND_IN" => one .foundIn
    | "OP_COUNT" => one .count | "OP_COUNT_IN" => one .countIn | "OP_OFFSET" => one .offset | "OP_LENGTH" => one .length
    | "OP_OF" => one (.of_ (r.arg != 0)) | "OP_OF_PERCENT" => one (.ofPercent (r.arg != 0))
    | "OP_OF_FOUND_IN" => one .ofFoundIn | "OP_OF_FOUND_AT" => one .ofFoundAt
    | "OP_MATCHES" => one .matches
    | "OP_CLEAR_M" => one (.clearM r.arg) | "OP_ADD_M" => one (.addM r.arg) | "OP_INCR_M" => one (.incrM r.arg)
    | "OP_PUSH_M" => one (.pushM r.arg) | "OP_POP_M" => one (.popM r.arg)
    | "OP_JFALSE" => items rels exts rest ((r.off, .jf ((r.off : Int) + toI32 r.arg).toNat) :: acc)
    | "OP_JTRUE" => items rels exts rest ((r.off, .jt ((r.off : Int) + toI32 r.arg).toNat) :: acc)
    | "OP_JTRUE_P" => items rels exts rest ((r.off, .jtp ((r.off : Int) + toI32 r.arg).toNat) :: acc)
    | "OP_ITER_START_INT_RANGE" => one .iterStartRange | "OP_ITER_START_INT_ENUM" => one .iterStartEnum
    | "OP_ITER_START_STRING_SET" => one .iterStartStrSet | "OP_ITER_START_TEXT_STRING_SET" => one .iterStartTextSet
    | "OP_ITER_NEXT" => one .iterNext | "OP_ITER_CONDITION" => one .iterCondition | "OP_ITER_END" => one .iterEnd
    | "OP_OBJ_LOAD" =>
      -- an object access chain up to OP_OBJ_VALUE: an external variable, or a (by construction undefined) module value
      let name := match rel with
        | some (.pool b) => cstr b
        | _ => "?"
      let tail := rest.dropWhile (fun x => x.name != "OP_OBJ_VALUE")
      match tail with
      | _ :: rest' =>
        if exts.contains name then items rels exts rest' ((r.off, .ins (.extVal name)) :: acc)
        else if name == "tests" then items rels exts rest' ((r.off, .ins .undefVal) :: acc)
        else .error s!"object {name}"
      | [] => .error "OBJ_LOAD without OBJ_VALUE"
    | n =>
      match pureOp n with
      | some i => one i
      | none => .error s!"opcode {n} is not in the modelled fragment"

def resolve (its : List (Nat × Item)) (endOff : Nat) : Except String (List (Option Instr)) :=
  let idxOf (target : Nat) : Option Nat :=
    if target == endOff then some its.length else its.findIdx? (fun p => p.1 == target)
  let rec go (k : Nat) : List (Nat × Item) → Except String (List (Option Instr))
    | [] => .ok []
    | (_, it) :: t => do
      let rest ← go (k + 1) t
      let j (mk : Int → Instr) (target : Nat) : Except String (List (Option Instr)) :=
        match idxOf target with
        | some i => .ok (some (mk ((i : Int) - (k : Int))) :: rest)
        | none => .error s!"jump into the middle of an instruction ({target})"
      match it with
      | .ins i => .ok (some i :: rest)
      | .rePush => .ok (none :: rest)
      | .jf t => j .jfalse t
      | .jt t => j .jtrue t
      | .jtp t => j .jtrueP t
  go 0 its

/-- split the raw stream into rules: (rule index, raw instructions, byte offset of the MATCH_RULE) -/
partial def splitRules : List Raw → List (Nat × List Raw × Nat) → Except String (List (Nat × List Raw × Nat))
  | [], acc => .ok acc.reverse
  | r :: rest, acc =>
    if r.name == "OP_INIT_RULE" then
      let body := rest.takeWhile (fun x => x.name != "OP_MATCH_RULE")
      match rest.dropWhile (fun x => x.name != "OP_MATCH_RULE") with
      | m :: rest' => splitRules rest' ((r.arg / 4294967296, body, m.off) :: acc)
      | [] => .error "INIT_RULE without MATCH_RULE"
    else if r.name == "OP_IMPORT" || r.name == "OP_HALT" then splitRules rest acc
    else .error s!"{r.name} outside a rule"

def sameInstr (real : Option Instr) (model : Instr) : Bool :=
  match real, model with
  | none, .push v => ptrTag v == 4          -- a regular expression: contents are C03's concern
  | some a, b => a == b
  | _, _ => false

def firstDiff (real : List (Option Instr)) (model : List Instr) : Option Nat :=
  let rec go (k : Nat) : List (Option Instr) → List Instr → Option Nat
    | [], [] => none
    | a :: as, b :: bs => if sameInstr a b then go (k + 1) as bs else some k
    | _, _ => some k
  go 0 real model

def handle (line : String) : String :=
  match Driver.toks line with
  | [] => ""
  | id :: rest =>
    let c := Driver.Cond.parseCase rest
    if c.bad then s!"{id} BADCASE" else
    let codeTok := rest.find? (·.startsWith "code=")
    let relTok := rest.find? (·.startsWith "rel=")
    match codeTok, relTok with
    | some ct, some rt =>
      match Driver.unhex (ct.drop 5).toString with
      | none => s!"{id} BADCODE"
      | some bytes =>
        let rels := if (rt.drop 4).toString == "-" then [] else ((rt.drop 4).toString.splitOn ",").filterMap parseRel
        let blocks := match c.sizes with
          | some sz => Driver.Cond.mkBlocks c.buf sz
          | none => [(0, c.buf)]
        let exts := c.ext.map (·.1)
        let result : Except String (String × List String) := do
          let raws ← decodeRaw bytes.toArray 0 []
          let rules ← splitRules raws []
          if rules.length != c.rules.length then throw s!"{rules.length} rules in the code, {c.rules.length} expected"
          let mut status := "same"
          let mut verdicts : List Bool := []
          let mut shown : List String := []
          for (ridx, raw, endOff) in rules do
            match c.rules[ridx]? with
            | none => throw "rule index"
            | some (name, rule) =>
              let its ← items rels exts raw []
              let real ← resolve its endOff
              let env : Env := { strs := rule.strs, blocks, filesize := c.buf.length, ext := c.ext, rules := verdicts }
              let model := compileRule (ctxOfEnv env) rule.cond
              match firstDiff real model with
              | some k =>
                if status == "same" then
                  status := s!"diff@{name}:{k}:{reprStr (real[k]?)}/{reprStr (model[k]?)}".replace " " "_"
              | none => pure ()
              let runnable := (real.zip model).map fun (a, b) => a.getD b
              let v := match run env runnable.toArray 2000000 {} with
                | some s => verdictOf s
                | none => none
              verdicts := verdicts ++ [v.getD false]
              shown := shown ++ [s!"default:{name}={match v with | some b => String.singleton (Driver.bit b) | none => "?"}"]
          pure (status, shown)
        match result with
        | .ok (status, shown) => s!"{id} code={status} real={",".intercalate shown}"
        | .error e => s!"{id} code=unsupported:{e.replace " " "_"} real=-"
    | _, _ => s!"{id} NOCODE"

end Driver.Code
