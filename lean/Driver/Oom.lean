/- C16 driver: for the functions ported to the allocation monad, predicts per fault position the
   outcome class and the number of blocks left allocated, in the format the check derives from
   harness/h_oom.c:   <id> rc=<OK|INSUFFICIENT_MEMORY> leak=<blocks> [wf=<0|1>]
   line:  <id> <fn> mode=<1|2> k=<k> [n=<count>] [strs=<count>]      (k is 1-based; k=0: no failure) -/
import YaraModel.Model.AllocM
import Driver.Util
namespace Driver.Oom
open YaraModel.AllocM

def kvNat (ts : List String) (k : String) (d : Nat) : Nat :=
  match ts.find? (·.startsWith (k ++ "=")) with
  | some t => ((t.drop (k.length + 1)).toString.toNat?).getD d
  | none => d

def oracle (mode k : Nat) : Nat → Bool := fun i =>
  if k == 0 then false else if mode == 2 then decide (i + 1 ≥ k) else i + 1 == k

def handle (line : String) : String :=
  match Driver.toks line with
  | id :: fn :: rest =>
    let fail := oracle (kvNat rest "mode" 1) (kvNat rest "k" 0)
    let h0 : Heap := ⟨0, []⟩
    let body := match fn with
      | "screate" =>
        -- `n` externals of which `strs` are strings (one more allocation each: the value copy)
        let r := scannerCreate fail (List.replicate (kvNat rest "n" 0) false ++ List.replicate (kvNat rest "strs" 0) true) h0
        match r.1 with
        | none => s!"rc=INSUFFICIENT_MEMORY leak={r.2.live.length}"
        | some s => s!"rc=OK leak={(scannerDestroy s r.2).2.live.length}"
      | "load" =>
        -- as-is port and patched variant (the check accepts either and records which one the code matches)
        let r := loadStream fail (kvNat rest "n" 0) h0
        let f := loadStreamFixed fail (kvNat rest "n" 0) h0
        let lk (x : Option (List Nat) × Heap) : Nat := match x.1 with | none => x.2.live.length | some owned => (freeAll owned x.2).2.live.length
        s!"rc={if r.1.isSome then "OK" else "INSUFFICIENT_MEMORY"} leak={lk r} fixed_leak={lk f}"
      | "rdefs" =>
        let e : Ext := if kvNat rest "twice" 0 == 1 then ⟨.mallocString, some 1000⟩ else ⟨.string, none⟩
        let h : Heap := if kvNat rest "twice" 0 == 1 then ⟨0, [1000]⟩ else h0
        let r := defineString fail e h
        let f := defineStringFixed fail e h
        let rc := if r.1.1 == .ok then "OK" else "INSUFFICIENT_MEMORY"
        let owned := match r.1.2.value with | some b => [b] | none => []
        s!"rc={rc} leak={(freeAll owned r.2).2.live.length} wf={if decide r.1.2.wellFormed then 1 else 0} fixed_wf={if decide f.1.2.wellFormed then 1 else 0}"
      | "hashadd" =>
        let r := hashAdd fail (kvNat rest "ns" 0 == 1) h0
        match r.1 with
        | none => s!"rc=INSUFFICIENT_MEMORY leak={r.2.live.length}"
        | some owned => s!"rc=OK leak={(freeAll owned r.2).2.live.length}"
      | _ => "UNMODELLED"
    id ++ " " ++ body
  | _ => ""

end Driver.Oom
