/- C01 driver: `<id> mods=<flags> s=<hex> buf=<hex>` → `<id> m=<off>:<len>:<key>;…` (spec Text.allMatches) -/
import YaraModel.Spec.Text
import Driver.Util
namespace Driver.Text
open YaraModel.Text

/-- mods token: comma separated: a (ascii) w (wide) n (nocase) f (fullword) x<lo>-<hi> (xor range, decimal) -/
def parseMods (t : String) : Option Mods := do
  let mut m : Mods := { ascii := false, wide := false, nocase := false, fullword := false, xor := none }
  for p in t.splitOn "," do
    if p == "a" then m := { m with ascii := true }
    else if p == "w" then m := { m with wide := true }
    else if p == "n" then m := { m with nocase := true }
    else if p == "f" then m := { m with fullword := true }
    else if p.startsWith "x" then
      match (p.drop 1).toString.splitOn "-" with
      | [lo, hi] =>
        let l ← lo.toNat?
        let h ← hi.toNat?
        m := { m with xor := some (UInt8.ofNat l, UInt8.ofNat h) }
      | _ => none
    else if p == "" then pure ()
    else none
  pure m

def kv (toks : List String) (k : String) : Option String :=
  (toks.find? (·.startsWith (k ++ "="))).map fun t => (t.drop (k.length + 1)).toString

def showOcc (os : List (Nat × List (Nat × UInt8))) : String :=
  if os.isEmpty then "m=-" else
  "m=" ++ ";".intercalate (os.map fun (o, l) => s!"{o}:" ++ "|".intercalate (l.map fun (n, k) => s!"{n}:{k.toNat}"))

def handle (line : String) : String :=
  match Driver.toks line with
  | [] => ""
  | id :: rest =>
    match (kv rest "mods").bind parseMods, (kv rest "s").bind Driver.unhex, (kv rest "buf").bind Driver.unhex with
    | some m, some s, some buf =>
      let mixed := mixedFullword m s buf
      let mx := if mixed.isEmpty then "-" else ",".intercalate (mixed.map toString)
      s!"{id} {showOcc (occurrences m s buf)} any{showOcc (occurrencesAnyKey m s buf)} mixed={mx}"
    | _, _, _ => s!"{id} BADCASE"

end Driver.Text
