/- C01 driver: `<id> mods=<flags> s=<hex> buf=<hex>` → `<id> m=<off>:<len>:<key>;…` (spec Text.allMatches) -/
import YaraModel.Model.TextScan
import Driver.Util
namespace Driver.Text
open YaraModel.Text

/-- mods token: comma separated: a (ascii) w (wide) n (nocase) f (fullword) x<lo>-<hi> (xor range, decimal) -/
def parseMods (t : String) : Option Mods := do
  let mut m : Mods := { ascii := false, wide := false, nocase := false, fullword := false, xor := none }
  for p in t.splitOn "," do
    if p == "a" then m := { m with ascii := true }
    else if p == "w" then m := { m with wide := true }
    else if p == "n" then m := { m with nocase := true }
    else if p == "f" then m := { m with fullword := true }
    else if p.startsWith "x" then
      match (p.drop 1).toString.splitOn "-" with
      | [lo, hi] =>
        let l ← lo.toNat?
        let h ← hi.toNat?
        m := { m with xor := some (UInt8.ofNat l, UInt8.ofNat h) }
      | _ => none
    else if p == "" then pure ()
    else none
  pure m

def kv (toks : List String) (k : String) : Option String :=
  (toks.find? (·.startsWith (k ++ "="))).map fun t => (t.drop (k.length + 1)).toString

def showOcc (os : List (Nat × List (Nat × UInt8))) : String :=
  if os.isEmpty then "m=-" else
  "m=" ++ ";".intercalate (os.map fun (o, l) => s!"{o}:" ++ "|".intercalate (l.map fun (n, k) => s!"{n}:{k.toNat}"))

/-- `cands=off/bt,off/bt,…` in arrival order -/
def parseCands (t : String) : Option (List (Nat × Nat)) :=
  if t == "-" then some [] else
  (t.splitOn ",").mapM fun c =>
    match c.splitOn "/" with
    | [o, b] => do let o' ← o.toNat?; let b' ← b.toNat?; pure (o', b')
    | _ => none

/-- `atoms=hexbytes:bt,…` -/
def parseAtoms (t : String) : Option (List Atom) :=
  if t == "-" then some [] else
  (t.splitOn ",").mapM fun c =>
    match c.splitOn ":" with
    | [h, b] => do let bs ← Driver.unhex h; let b' ← b.toNat?; pure ⟨bs, b'⟩
    | _ => none

def showModel (ms : List Match) : String :=
  if ms.isEmpty then "model=-" else
  "model=" ++ ";".intercalate (ms.map fun m => s!"{m.off}:{m.len}:{m.key.toNat}")

/-- certificate R1: the atoms the real compiler indexed are `atomsOf w m s` for some valid window `w`
    (as sets) — then `atoms_cover` applies to them -/
def atomsWindow (m : Mods) (s : Bytes) (real : List Atom) : Option Nat :=
  (List.range (s.length + 1)).find? fun w =>
    decide (w + min 4 s.length ≤ s.length) &&
    (atomsOf w m s).all (fun a => real.contains a) && real.all (fun a => (atomsOf w m s).contains a)

/-- certificate for the automaton stage: the candidates are exactly the occurrences of the indexed atoms -/
def candsExact (atoms : List Atom) (buf : Bytes) (cands : List (Nat × Nat)) : Bool :=
  let expected := (List.range (buf.length + 1)).flatMap fun o =>
    (atoms.filter fun a => a.bytes.length > 0 && window buf (o + a.backtrack) a.bytes.length == some a.bytes).map
      fun a => (o, a.bytes.length + a.backtrack)
  expected.all (fun e => cands.contains e) && cands.all (fun c => expected.contains c)

def handle (line : String) : String :=
  match Driver.toks line with
  | [] => ""
  | id :: rest =>
    match (kv rest "mods").bind parseMods, (kv rest "s").bind Driver.unhex, (kv rest "buf").bind Driver.unhex with
    | some m, some s, some buf =>
      let mixed := mixedFullword m s buf
      let mx := if mixed.isEmpty then "-" else ",".intercalate (mixed.map toString)
      let base := s!"{id} {showOcc (occurrences m s buf)} any{showOcc (occurrencesAnyKey m s buf)} mixed={mx}"
      match (kv rest "cands").bind parseCands, (kv rest "atoms").bind parseAtoms with
      | some cands, some atoms =>
        let aw := match atomsWindow m s atoms with | some w => toString w | none => "NONE"
        s!"{base} {showModel (pipeline m s buf cands)} atomsw={aw} acexact={if candsExact atoms buf cands then 1 else 0}"
      | _, _ => base
    | _, _, _ => s!"{id} BADCASE"

end Driver.Text
