/- C06 driver: evaluates the GENERATED bounds predicates (Gen/Bounds.lean) and the model of
   pe_rva_to_offset on the case lines of harness/h_bounds.c.
     <id> p <pred> <hex args>  -> <id> <0|1> <ub 0|1>
     <id> rva ...              -> <id> <offset|-1>
     <id> sizes                -> <id> lc=8 fh=8 vp=8 sh=40 maxsec=<MAX_PE_SECTIONS>     -/
import YaraModel.Gen.Bounds
import YaraModel.Model.PeRva
import Driver.Util
namespace Driver.Bounds
open YaraModel.Gen.Bounds YaraModel.PeRva

def hexNat (s : String) : Nat :=
  s.toList.foldl (fun acc c => match Driver.hexVal c with | some v => acc * 16 + v | none => acc) 0

def bv (s : String) : BitVec 64 := BitVec.ofNat 64 (hexNat s)

def b2s (b : Bool) : String := if b then "1" else "0"

def evalPred (name : String) (a : List String) : Option (Bool × Bool) :=
  match name, a.map bv with
  | "fits_in_pe", [x, y, z, w] => some (fits_in_pe x y z w, fits_in_pe_ub x y z w)
  | "struct_fits_in_pe", [x, y, z] => some (struct_fits_in_pe x y z 40#64, fits_in_pe_ub x y z 40#64)
  | "fits_in_dex", [x, y, z, w] => some (fits_in_dex x y z w, fits_in_dex_ub x y z w)
  | "struct_fits_in_dex", [x, y, z] => some (struct_fits_in_dex x y z 112#64, fits_in_dex_ub x y z 112#64)
  | "is_valid_ptr", [x, y, z, w] => some (is_valid_ptr x y z w, is_valid_ptr_ub x y z w)
  | "function_read_in_range", [x, y, z, w] => some (function_read_in_range x y z w, function_read_in_range_ub x y z w)
  | "arena_reloc_reject", [x, y, z, w, v] => some (arena_reloc_reject x y z w v, arena_reloc_reject_ub x y z w v)
  | "dotnet_string_start_ok", [x, y, z, w, v] => some (dotnet_string_start_ok x y z w v, dotnet_string_start_ok_ub x y z w v)
  | "macho_cmd_hdr_outside", [x, y, z] => some (macho_cmd_hdr_outside x y z, macho_cmd_hdr_outside_ub x y z)
  | "macho_cmd_too_big", [x, y, z] => some (macho_cmd_too_big x y z, false)
  | "macho_cmd_too_small", [x] => some (macho_cmd_too_small x, false)
  | "macho_fat_wraps", [x, y] => some (macho_fat_wraps x y, false)
  | "macho_fat_outside", [x, y, z] => some (macho_fat_outside x y z, false)
  | "macho_fat_table_outside", [x, y, z] => some (macho_fat_table_outside x y z, false)
  | "elf_table_wraps", [x, y] => some (elf_table_wraps x y, false)
  | "elf_table_outside", [x, y, z, w] => some (elf_table_outside x y z w, false)
  | "pe_available_before", [x, y, z] => some (pe_available_before x y z, false)
  | "pe_available_after", [x, y, z] => some (pe_available_after x y z, pe_available_after_ub x y z)
  | "pe_available_space", [x, y, z] =>   -- the whole function: 0 when either early return is taken
      some (!(pe_available_before x y z) && !(pe_available_after x y z) && (pe_available_value x y z != 0#64), pe_available_after_ub x y z)
  | "pe_fullname_guard_covers_index", [x] => some (decide (x.toNat < (pe_fullname_guard_size x).toNat), false)
  | "pe_rich_nthdr_reject", [x, y] => some (pe_rich_nthdr_reject x y, false)
  | "pe_exports_table_outside", [x, y, z] => some (pe_exports_table_outside x y z, false)
  | "pe_export_names_outside", [x, y, z] => some (pe_export_names_outside x y z, false)
  | "pe_security_dir_reject", [x, y, z] => some (pe_security_dir_reject x y z, false)
  | "dotnet_blob4_ok", [x, y, z] => some (dotnet_blob4_ok x y z, dotnet_blob4_ok_ub x y z)
  | "dotnet_blob_entry_outside", [x, y, z, w] => some (dotnet_blob_entry_outside x y z w, dotnet_blob_entry_outside_ub x y z w)
  | "dotnet_blob_index_reject", [x, y, z, w] => some (dotnet_blob_index_reject x y z w, dotnet_blob_index_reject_ub x y z w)
  | "dotnet_attr_blob_reject", [x, y, z, w] => some (dotnet_attr_blob_reject x y z w, dotnet_attr_blob_reject_ub x y z w)
  | "dotnet_attr_str_outside", [x, y, z, w] => some (dotnet_attr_str_outside x y z w, dotnet_attr_str_outside_ub x y z w)
  | "elf_str_entry_outside", [x, y] => some (elf_str_entry_outside x y, false)
  | _, _ => none

def parseSects : List String → List Sect
  | a :: b :: c :: d :: rest => ⟨hexNat a, hexNat b, hexNat c, hexNat d⟩ :: parseSects rest
  | _ => []

def handle (line : String) : String :=
  match Driver.toks line with
  | [id, "sizes"] => s!"{id} lc=8 fh=8 vp=8 sh=40 maxsec={MAX_PE_SECTIONS}"
  | id :: "p" :: name :: args =>
    match evalPred name args with
    | some (v, u) => s!"{id} {b2s v} {b2s u}"
    | none => s!"{id} BADOP"
  | id :: "rva" :: ds :: fa :: sa :: nsec :: so :: rva :: _n :: rest =>
    match rvaToOffset (hexNat ds) (hexNat fa) (hexNat sa) (hexNat nsec) (hexNat so) (parseSects rest) (hexNat rva) with
    | some r => s!"{id} {r}"
    | none => s!"{id} -1"
  | id :: _ => s!"{id} BADOP"
  | [] => ""

end Driver.Bounds
