/- C11 driver: one case line (rule set, flags, buffer, callback scripts) -> the model's ordered
   message trace + return code per scan (same format as harness/h_cb.c).

   line:   <id> f=<0..3> x=<n> api=<s|r|d> buf=<hex>[/<hex>…] items=<item>;<item>;… scripts=<script>/<script>…
   item:   i:<ns>:<module>                      import statement in namespace <ns>
           r:<ns>:<n|g|p|gp>:<cond>             rule number j (j = count of earlier rule items), named r<j>
   cond:   atom (('&' | '|') atom)*             left-associative, the harness parenthesises the same way
   atom:   T | F | z<N> (filesize > N) | s<hex> ($s) | n<hex> (not $s) | r<j> (rule j) | x<j> (not rule j)
   buf:    scan number k (k-th script) reads buffer number k mod #buffers
   script: word over c/a/e ("-" = empty): answer to the k-th message, CONTINUE afterwards
   x:      other scan flags the harness passes along (FAST_MODE, NO_TRYCATCH); no effect on the protocol
   f:      bit0 = REPORT_RULES_MATCHING, bit1 = REPORT_RULES_NOT_MATCHING (api=d: set_flags never called)
   output: <id> <msg> … rc=<code> [| <msg> … rc=<code>]      msg: IMP:<m> MOD:<m> M:<ns>.<rule> N:<ns>.<rule> FIN -/
import YaraModel.Model.Callback
import Driver.Util
namespace Driver.Cb
open YaraModel.Cb

def isInfix (p s : List UInt8) : Bool :=
  (List.range (s.length + 1)).any fun i => (s.drop i).take p.length == p

def kv (toks : List String) (k : String) : Option String :=
  (toks.find? (·.startsWith (k ++ "="))).map fun t => (t.drop (k.length + 1)).toString

def parseAtom (buf : List UInt8) (a : String) : Option Cond :=
  match a.toList with
  | ['T'] => some (.lit true)
  | ['F'] => some (.lit false)
  | ['U'] => some (.lit false)     -- `uint8(100000) == 1`: undefined ⇒ does not hold (and/or treat it as false)
  | 'z' :: n => (String.ofList n).toNat?.map fun k => .lit (decide (buf.length > k))
  | 's' :: h => (Driver.unhex (String.ofList h)).map fun p => .str (p != [] && isInfix p buf)
  | 'n' :: h => (Driver.unhex (String.ofList h)).map fun p => .not (.str (p != [] && isInfix p buf))
  | 'r' :: n => (String.ofList n).toNat?.map .rule
  | 'x' :: n => (String.ofList n).toNat?.map fun j => .not (.rule j)
  | _ => none

/-- split "a&b|c" into atoms and operators -/
def splitCond (s : String) : List String × List Char :=
  let rec go : List Char → List Char → List String → List Char → List String × List Char
    | [], cur, atoms, ops => ((String.ofList cur.reverse :: atoms).reverse, ops.reverse)
    | c :: t, cur, atoms, ops =>
      if c = '&' ∨ c = '|' then go t [] (String.ofList cur.reverse :: atoms) (c :: ops)
      else go t (c :: cur) atoms ops
  go s.toList [] [] []

def parseCond (buf : List UInt8) (s : String) : Option Cond :=
  match splitCond s with
  | (a :: as, ops) => do
      let c0 ← parseAtom buf a
      let rec go (acc : Cond) : List String → List Char → Option Cond
        | [], [] => some acc
        | b :: bs, o :: os => do
            let c ← parseAtom buf b
            go (if o = '&' then .and acc c else .or acc c) bs os
        | _, _ => none
      go c0 as ops
  | _ => none

def parseKind : String → Option (Bool × Bool)
  | "n" => some (false, false) | "g" => some (true, false)
  | "p" => some (false, true) | "gp" => some (true, true) | _ => none

structure Prog where
  rules : List Rule
  imports : List String

def parseItems (buf : List UInt8) : List String → Prog → Option Prog
  | [], p => some ⟨p.rules.reverse, p.imports.reverse⟩
  | it :: its, p =>
    match Driver.parts it with
    | ["i", _, m] => parseItems buf its { p with imports := m :: p.imports }
    | ["r", ns, k, c] => do
        let n ← ns.toNat?
        let (g, pr) ← parseKind k
        let cd ← parseCond buf c
        parseItems buf its { p with rules := ⟨n, g, pr, cd⟩ :: p.rules }
    | _ => none

def parseScript (s : String) : Option (List Ret) :=
  if s == "-" then some [] else
  s.toList.mapM fun c => match c with
    | 'c' => some Ret.cont | 'a' => some Ret.abort | 'e' => some Ret.error | _ => none

def nsName : Nat → String
  | 0 => "default" | 1 => "a" | 2 => "b" | n => "ns" ++ toString n

def showMsg (rs : List Rule) : Msg → String
  | .importModule m => "IMP:" ++ m
  | .moduleImported m => "MOD:" ++ m
  | .ruleMatching i => "M:" ++ nsName ((rs[i]?.map (·.ns)).getD 99) ++ ".r" ++ toString i
  | .ruleNotMatching i => "N:" ++ nsName ((rs[i]?.map (·.ns)).getD 99) ++ ".r" ++ toString i
  | .scanFinished => "FIN"

def showRc : Rc → String
  | .success => "rc=OK" | .callbackError => "rc=CALLBACK_ERROR"

def showScan (rs : List Rule) (r : List Msg × Rc) : String :=
  " ".intercalate (r.1.map (showMsg rs) ++ [showRc r.2])

def handle (line : String) : String :=
  match Driver.toks line with
  | [] => ""
  | id :: rest =>
    let res : Option String := do
      let f ← (← kv rest "f").toNat?
      let api ← kv rest "api"
      let bufs ← ((← kv rest "buf").splitOn "/").mapM Driver.unhex
      let its := ((← kv rest "items").splitOn ";").filter (· ≠ "")
      -- scan number k reads buffer number k mod #buffers; atoms are decided per buffer
      let progs ← bufs.mapM fun b => parseItems b its ⟨[], []⟩
      let scripts ← ((← kv rest "scripts").splitOn "/").mapM parseScript
      let fl := if api == "d" then defaultFlags else setFlags (f % 2 == 1) (f / 2 % 2 == 1)
      let outs ← scripts.zipIdx.mapM fun (s, k) => do
        let p ← progs[k % progs.length]?
        pure (showScan p.rules (scan p.rules p.imports fl s))
      pure (" | ".intercalate outs)
    id ++ " " ++ res.getD "BADCASE"

end Driver.Cb
