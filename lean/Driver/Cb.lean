/- C11 driver: one case line (rule set, flags, buffer, callback scripts) -> the model's ordered
   message trace + return code per scan (same format as harness/h_cb.c).

   line:   <id> f=<0..3> x=<n> api=<s|r|d> buf=<hex>[/<hex>…] items=<item>;<item>;… scripts=<script>/<script>…
   item:   i:<ns>:<module>                      import statement in namespace <ns>
           r:<ns>:<n|g|p|gp>:<cond>             rule number j (j = count of earlier rule items), named r<j>
   cond:   atom (('&' | '|') atom)*             left-associative, the harness parenthesises the same way
   atom:   T | F | U | z<N> (filesize > N) | y<N> (filesize < N) | s<hex> ($s) | n<hex> (not $s) | c<N>_<hex> (#s > N) | r<j> (rule j) | x<j> (not rule j)
           every s/n/c atom defines one more hex string of its rule ($s0, $s1, … within the rule; global index =
           definition order over all rules); upper case S/N/C: the string carries the `private` modifier
   L:      YR_MAX_STRING_MATCHES of the library the harness is linked with (default 1000000)
   buf:    scan number k (k-th script) reads buffer number k mod #buffers
   script: word over c/a/e ("-" = empty): answer to the k-th message, CONTINUE afterwards; prefix "b:" / "B:": the scan goes
           through yr_scanner_scan_mem_blocks with a one-block iterator without / with a file_size function (without:
           `filesize` is undefined); "p": a process scan of a helper process at this point of the history (output "PROC" only);
           "F<f>_<x>": yr_scanner_set_flags(report flags f, other flags x) at this point of the history (output "SETF")
   I<k>:   atom usable only as a whole condition: an INTEGER-valued condition (table at `intAtom`)
   x:      other scan flags the harness passes along (FAST_MODE, NO_TRYCATCH); no effect on the protocol
   f:      bit0 = REPORT_RULES_MATCHING, bit1 = REPORT_RULES_NOT_MATCHING (api=d: set_flags never called)
   output: <id> <msg> … rc=<code> [| <msg> … rc=<code>]      msg: TM:<ns>.<rule>.$s<k> IMP:<m> MOD:<m> M:<ns>.<rule> N:<ns>.<rule> FIN -/
import YaraModel.Model.Callback
import Driver.Util
namespace Driver.Cb
open YaraModel.Cb

def isInfix (p s : List UInt8) : Bool :=
  (List.range (s.length + 1)).any fun i => (s.drop i).take p.length == p

def kv (toks : List String) (k : String) : Option String :=
  (toks.find? (·.startsWith (k ++ "="))).map fun t => (t.drop (k.length + 1)).toString

/-- a string of the rule set: pattern, rule it belongs to, its number within the rule -/
structure Str where
  pat : List UInt8
  rule : Nat
  k : Nat

structure Prog where
  rules : List SRule       -- reversed while parsing
  imports : List String    -- reversed while parsing
  strs : List Str          -- reversed while parsing

/-- value of the integer-valued conditions the harness can write (none = undefined):
    I0 `-1` | I1 `3 - filesize` | I2 `~uint8(1)` | I3 `int8(0)` | I4 `filesize - 5` | I5 `0 - filesize` -/
def intAtom (fs : Option Nat) (buf : List UInt8) : Nat → Option Int
  | 0 => some (-1)
  | 1 => fs.map fun s => 3 - (s : Int)
  | 2 => buf[1]?.map fun x => -((x.toNat : Int) + 1)
  | 3 => buf[0]?.map fun x => if x.toNat ≥ 128 then (x.toNat : Int) - 256 else (x.toNat : Int)
  | 4 => fs.map fun s => (s : Int) - 5
  | 5 => fs.map fun s => -(s : Int)
  | _ => none

/-- atoms that define a string get the next string index (`YR_STRING.idx`: definition order) -/
def parseAtom (ev : Option Nat × List UInt8) (ridx : Nat) (strs : List Str) (a : String) : Option (SCond × List Str) :=
  let nloc := (strs.filter (·.rule == ridx)).length
  let idx := strs.length
  match a.toList with
  | ['T'] => some (.lit true, strs)
  | ['F'] => some (.lit false, strs)
  | ['U'] => some (.lit false, strs)     -- `uint8(100000) == 1`: undefined ⇒ does not hold (and/or treat it as false)
  | 'z' :: n => (String.ofList n).toNat?.map fun k => (.lit (fileSizeAtom ev.1 true k), strs)
  | 'I' :: n => (String.ofList n).toNat?.map fun k => (.lit (intCondHolds (intAtom ev.1 ev.2 k)), strs)
  | 'y' :: n => (String.ofList n).toNat?.map fun k => (.lit (fileSizeAtom ev.1 false k), strs)
  | 's' :: h | 'S' :: h => (Driver.unhex (String.ofList h)).map fun p => (.str idx, ⟨p, ridx, nloc⟩ :: strs)
  | 'n' :: h | 'N' :: h => (Driver.unhex (String.ofList h)).map fun p => (.not (.str idx), ⟨p, ridx, nloc⟩ :: strs)
  | 'c' :: t | 'C' :: t =>
    match (String.ofList t).splitOn "_" with
    | [n, h] => do
        let k ← n.toNat?
        let p ← Driver.unhex h
        pure (.cnt idx k, ⟨p, ridx, nloc⟩ :: strs)
    | _ => none
  | 'r' :: n => (String.ofList n).toNat?.map fun j => (.rule j, strs)
  | 'x' :: n => (String.ofList n).toNat?.map fun j => (.not (.rule j), strs)
  | _ => none

/-- split "a&b|c" into atoms and operators -/
def splitCond (s : String) : List String × List Char :=
  let rec go : List Char → List Char → List String → List Char → List String × List Char
    | [], cur, atoms, ops => ((String.ofList cur.reverse :: atoms).reverse, ops.reverse)
    | c :: t, cur, atoms, ops =>
      if c = '&' ∨ c = '|' then go t [] (String.ofList cur.reverse :: atoms) (c :: ops)
      else go t (c :: cur) atoms ops
  go s.toList [] [] []

def parseCond (ev : Option Nat × List UInt8) (ridx : Nat) (strs : List Str) (s : String) : Option (SCond × List Str) :=
  match splitCond s with
  | (a :: as, ops) => do
      let (c0, st0) ← parseAtom ev ridx strs a
      let rec go (acc : SCond) (st : List Str) : List String → List Char → Option (SCond × List Str)
        | [], [] => some (acc, st)
        | b :: bs, o :: os => do
            let (c, st') ← parseAtom ev ridx st b
            go (if o = '&' then .and acc c else .or acc c) st' bs os
        | _, _ => none
      go c0 st0 as ops
  | _ => none

def parseKind : String → Option (Bool × Bool)
  | "n" => some (false, false) | "g" => some (true, false)
  | "p" => some (false, true) | "gp" => some (true, true) | _ => none

def parseItems (ev : Option Nat × List UInt8) : List String → Prog → Option Prog
  | [], p => some ⟨p.rules.reverse, p.imports.reverse, p.strs.reverse⟩
  | it :: its, p =>
    match Driver.parts it with
    | ["i", _, m] => parseItems ev its { p with imports := m :: p.imports }
    | ["r", ns, k, c] => do
        let n ← ns.toNat?
        let (g, pr) ← parseKind k
        let (cd, st) ← parseCond ev p.rules.length p.strs c
        parseItems ev its { p with rules := ⟨n, g, pr, cd⟩ :: p.rules, strs := st }
    | _ => none

/-- occurrences in scan order: the automaton reports an occurrence when it has consumed its last byte
    (end position ascending; the generator keeps the ends of warning-triggering occurrences apart) -/
def events (buf : List UInt8) (strs : List Str) : List Nat :=
  (List.range (buf.length + 1)).flatMap fun e =>
    strs.zipIdx.filterMap fun (st, i) =>
      let l := st.pat.length
      if l ≠ 0 ∧ l ≤ e ∧ (buf.drop (e - l)).take l == st.pat then some i else none

/-- kind of a scan and its callback script: "p" = process scan (a step of the history, not modelled),
    "b:<script>" / "B:<script>" = caller's block iterator without / with a file_size function, else `yr_scanner_scan_mem` -/
def splitKind (s : String) : Char × String :=
  if s == "p" then ('p', "-")
  else if s.startsWith "F" then ('F', (s.drop 1).toString)
  else if s.startsWith "b:" then ('b', (s.drop 2).toString)
  else if s.startsWith "B:" then ('B', (s.drop 2).toString)
  else ('m', s)

def parseScript (s : String) : Option (List Ret) :=
  if s == "-" then some [] else
  s.toList.mapM fun c => match c with
    | 'c' => some Ret.cont | 'a' => some Ret.abort | 'e' => some Ret.error | _ => none

def nsName : Nat → String
  | 0 => "default" | 1 => "a" | 2 => "b" | n => "ns" ++ toString n

def showMsg (rs : List SRule) (strs : List Str) : Msg → String
  | .tooManyMatches s =>
    match strs[s]? with
    | some st => "TM:" ++ nsName ((rs[st.rule]?.map (·.ns)).getD 99) ++ ".r" ++ toString st.rule ++ ".$s" ++ toString st.k
    | none => "TM:?"
  | .importModule m => "IMP:" ++ m
  | .moduleImported m => "MOD:" ++ m
  | .ruleMatching i => "M:" ++ nsName ((rs[i]?.map (·.ns)).getD 99) ++ ".r" ++ toString i
  | .ruleNotMatching i => "N:" ++ nsName ((rs[i]?.map (·.ns)).getD 99) ++ ".r" ++ toString i
  | .scanFinished => "FIN"

def showRc : Rc → String
  | .success => "rc=OK" | .callbackError => "rc=CALLBACK_ERROR" | .tooManyMatches => "rc=TOO_MANY_MATCHES"

def showScan (rs : List SRule) (strs : List Str) (r : List Msg × Rc) : String :=
  " ".intercalate (r.1.map (showMsg rs strs) ++ [showRc r.2])

def handle (line : String) : String :=
  match Driver.toks line with
  | [] => ""
  | id :: rest =>
    let res : Option String := do
      let f ← (← kv rest "f").toNat?
      let api ← kv rest "api"
      let bufs ← ((← kv rest "buf").splitOn "/").mapM Driver.unhex
      let its := ((← kv rest "items").splitOn ";").filter (· ≠ "")
      -- scan number k reads buffer number k mod #buffers; atoms are decided per buffer
      let limit := ((kv rest "L").bind (·.toNat?)).getD 1000000      -- YR_MAX_STRING_MATCHES of the build
      let kinds := ((← kv rest "scripts").splitOn "/").map splitKind
      let scripts ← kinds.mapM fun ks => if ks.1 == 'F' then some [] else parseScript ks.2
      let fl := if api == "d" then defaultFlags else setFlags (f % 2 == 1) (f / 2 % 2 == 1)
      -- the history: scans, process-scan steps and yr_scanner_set_flags calls; the flags in force are those of the LAST call
      let rec go (fl : Flags) (k : Nat) : List ((Char × String) × List Ret) → Option (List String)
        | [] => some []
        | ((kd, raw), s) :: rest => do
          let b ← bufs[k % bufs.length]?
          if kd == 'p' then (← go fl (k + 1) rest) |> fun t => pure ("PROC" :: t)
          else if kd == 'F' then
            let f' := ((raw.splitOn "_").head?.bind (·.toNat?)).getD 0
            let fl' := setFlags (f' % 2 == 1) (f' / 2 % 2 == 1)
            (← go fl' (k + 1) rest) |> fun t => pure ("SETF" :: t)
          else
            -- atoms are decided per scan: by the buffer and by whether the scan has a file size
            let p ← parseItems (scanFileSize (kd != 'b') b.length, b) its ⟨[], [], []⟩
            let t ← go fl (k + 1) rest
            pure (showScan p.rules p.strs (fullScan limit (events b p.strs) p.rules p.imports fl s) :: t)
      let outs ← go fl 0 (kinds.zip scripts)
      pure (" | ".intercalate outs)
    id ++ " " ++ res.getD "BADCASE"

end Driver.Cb
