import Driver.Main
