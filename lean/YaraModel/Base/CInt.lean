/-
  64-bit two's-complement C integer semantics carried on `Int` (core Lean only).
  Values are kept in [-2^63, 2^63); `wrap` is what the hardware does on signed overflow
  (formally UB in C; gcc/clang on x86-64/aarch64 wrap for + - * and the shifts used here).
-/
namespace YaraModel.C

def INT64_MAX : Int := 9223372036854775807
def INT64_MIN : Int := -9223372036854775808
/-- `YR_UNDEFINED` = 0xFFFABADAFABADAFF read as int64 -/
def UNDEF : Int := -1483400188077313

def inRange (x : Int) : Prop := INT64_MIN ≤ x ∧ x ≤ INT64_MAX
instance (x : Int) : Decidable (inRange x) := by unfold inRange; exact inferInstance

def wrap (x : Int) : Int := (x + 9223372036854775808) % 18446744073709551616 - 9223372036854775808

def isUndef (x : Int) : Bool := x == UNDEF
def b2i (b : Bool) : Int := if b then 1 else 0

def add (a b : Int) : Int := wrap (a + b)
def sub (a b : Int) : Int := wrap (a - b)
def mul (a b : Int) : Int := wrap (a * b)
def neg (a : Int) : Int := wrap (-a)
/-- C division truncates toward zero; callers guard `b ≠ 0` and `INT64_MIN / -1` -/
def div (a b : Int) : Int := wrap (Int.tdiv a b)
def mod (a b : Int) : Int := Int.tmod a b
/-- `a << b` for 0 ≤ b < 64 (callers guard the range) -/
def shl (a b : Int) : Int := wrap (a * 2 ^ b.toNat)
/-- arithmetic `a >> b` for 0 ≤ b < 64 -/
def shr (a b : Int) : Int := a / 2 ^ b.toNat
def band (a b : Int) : Int := (BitVec.ofInt 64 a &&& BitVec.ofInt 64 b).toInt
def bor (a b : Int) : Int := (BitVec.ofInt 64 a ||| BitVec.ofInt 64 b).toInt
def bxor (a b : Int) : Int := (BitVec.ofInt 64 a ^^^ BitVec.ofInt 64 b).toInt
def bnot (a : Int) : Int := (~~~ BitVec.ofInt 64 a).toInt
/-- glibc `llabs`: `llabs(INT64_MIN)` overflows back to `INT64_MIN` -/
def llabs (a : Int) : Int := if a < 0 then neg a else a

theorem wrap_of_inRange {x : Int} (h : inRange x) : wrap x = x := by
  unfold inRange INT64_MIN INT64_MAX at h
  unfold wrap; omega

theorem wrap_inRange (x : Int) : inRange (wrap x) := by
  unfold inRange INT64_MIN INT64_MAX wrap; omega

end YaraModel.C
