/-
  C05 — A rule's result does not depend on what else is compiled with it (model level).
  The only component of a compiled rule set that depends on the WHOLE set is the automaton
  (shared prefixes/suffixes, failure links, packed tables, order of the per-state match lists).
  Its contract towards one string is `CandsOK`: it reports exactly the occurrences of that string's atoms —
  in whatever order, however often, for whatever window `w` the atom heuristic picked in that compilation.
  The theorems say: under that contract the per-string result is a function of the string and the buffer only.
-/
import YaraModel.Thm.C01
namespace YaraModel.Text

/-- **Independence of the company** (offsets and admissible attributes): two compilations of the same string —
    alone (`w₁`, `C₁`) or together with arbitrary other rules (`w₂`, `C₂`) — report the same offsets on every
    buffer, each with an admissible length/key, in ascending order. (`h19`, `h20`: see C01.) -/
theorem company_independent (w₁ w₂ : Nat) (m : Mods) (s buf : Bytes) (C₁ C₂ : List (Nat × Nat))
    (hleg : m.legal = true) (hs : s.isEmpty = false)
    (hw₁ : ValidWindow w₁ s) (hw₂ : ValidWindow w₂ s)
    (hC₁ : CandsOK w₁ m s buf C₁) (hC₂ : CandsOK w₂ m s buf C₂)
    (h19 : ∀ o, variantsAt (anyKey m) s buf o = variantsAt m s buf o)
    (h20 : ∀ o, ¬ MixedAt m s buf o) :
    (pipeline m s buf C₁).map (·.off) = (pipeline m s buf C₂).map (·.off) ∧
    (∀ x ∈ pipeline m s buf C₁, (x.len, x.key) ∈ admissibleAt m s buf x.off) ∧
    (∀ x ∈ pipeline m s buf C₂, (x.len, x.key) ∈ admissibleAt m s buf x.off) := by
  obtain ⟨a1, a2, _⟩ := pipeline_exact_partial w₁ m s buf C₁ hleg hs hw₁ hC₁ h19 h20
  obtain ⟨b1, b2, _⟩ := pipeline_exact_partial w₂ m s buf C₂ hleg hs hw₂ hC₂ h19 h20
  exact ⟨a1.trans b1.symm, a2, b2⟩

/-- Adding candidates for OTHER strings' atoms to the shared automaton cannot add or remove a match of this
    string: the reported offsets are those of the specification, which does not mention the automaton. -/
theorem company_monotone (w : Nat) (m : Mods) (s buf : Bytes) (C : List (Nat × Nat))
    (hleg : m.legal = true) (hs : s.isEmpty = false) (hw : ValidWindow w s) (hC : CandsOK w m s buf C)
    (h19 : ∀ o, variantsAt (anyKey m) s buf o = variantsAt m s buf o) (h20 : ∀ o, ¬ MixedAt m s buf o) :
    (pipeline m s buf C).map (·.off) = (occurrences m s buf).map (·.1) :=
  (pipeline_exact_partial w m s buf C hleg hs hw hC h19 h20).1

/-! Non-vacuity: two different windows and candidate orders, same result. -/
example :
    let m : Mods := { ascii := true, wide := false, nocase := false, fullword := false, xor := none }
    let s : Bytes := [0x61, 0x62, 0x63, 0x64, 0x65]
    let buf : Bytes := [0x2e, 0x61, 0x62, 0x63, 0x64, 0x65, 0x61, 0x62, 0x63, 0x64, 0x65]
    pipeline m s buf [(1, 4), (6, 4)] = pipeline m s buf [(6, 5), (1, 5), (6, 5)] := by decide

end YaraModel.Text
