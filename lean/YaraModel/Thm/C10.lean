/-
  C10 — A scanner's results do not depend on its scan history.
  Property theorems only (helpers: Lemmas/ScannerFrame.lean, Lemmas/ScannerHistory.lean).
  Model: Model/Scanner.lean (`scanCall` = yr_scanner_scan_mem_blocks), formulation: Spec/Scanner.lean.
  All statements quantify over EVERY parameter instantiation `P` (rules, conditions, matchers, modules),
  every history (unbounded list of calls with arbitrary iterators: any blocks, any not-ready / stall /
  error behaviour, any callback reactions, any stack size), every clock value.
  `Variant.fixed` = the code with notes/C10-entry-point-reset.diff and notes/C10-abandoned-scan.diff;
  `Variant.current` = yara 4.5.2 as found, for which the property is REFUTED below (F6, F7).
-/
import YaraModel.Lemmas.ScannerHistory
namespace YaraModel.Scan

/-- **`_exit` restores a clean scanner for every outcome** (success, CALLBACK_ABORT / CALLBACK_ERROR at any
    message, timeout, too-many-matches, iterator error, evaluation error, missing callback) — every result
    code except "suspended by a not-ready block". Holds for the current code too. -/
theorem scan_restores_clean (P : Params) (v : Variant) (cb : Nat → CbRet) (stack : Nat) (s : Sc) (it : It) (w : World)
    (hm : s.core.modules = []) (h : (scanCall P v cb stack s it w).rc ≠ .blockNotReady) :
    (scanCall P v cb stack s it w).sc.core.Clean :=
  scanCall_clean P v cb stack s it w hm h

/-- **Pending pieces of chained strings never survive a scan**: whatever the outcome (other than "suspended"), the lists of
    unconfirmed matches (`unconfirmed_matches[]`, heads of `{ .. [-] .. }` / large-jump chains waiting for their tail) are
    empty afterwards, as are the confirmed matches — so `history_independent` covers chained strings: a tail in a later
    scan can never be combined with a head of an earlier one. -/
theorem unconfirmed_never_survive (P : Params) (v : Variant) (cb : Nat → CbRet) (stack : Nat) (s : Sc) (it : It) (w : World)
    (hm : s.core.modules = []) (h : (scanCall P v cb stack s it w).rc ≠ .blockNotReady) :
    (scanCall P v cb stack s it w).sc.core.unconfirmed = [] ∧ (scanCall P v cb stack s it w).sc.core.found = [] :=
  ⟨(scanCall_clean P v cb stack s it w hm h).unconfirmed, (scanCall_clean P v cb stack s it w hm h).found⟩

/-- Along every history the scanner is either clean or holds a suspended scan (with its notebook);
    loaded modules never survive a call. -/
theorem history_invariant (P : Params) (v : Variant) (set : Settings) (w : World) (h : List HOp) (hv : reuseOk v h) :
    let st := runH P v (HSt.init set w) h
    st.sc.core.modules = [] ∧ (st.sc.core.notebook = false → st.sc.core.Clean) ∧
    (st.lastRc = .blockNotReady ↔ st.sc.core.notebook = true) := by
  have := runH_inv P v _ h (HInv.init set w) hv
  refine ⟨this.inv.modules, this.inv.clean, this.susp, fun hn => ?_⟩
  by_cases hl : (runH P v (HSt.init set w) h).lastRc = .blockNotReady
  · exact hl
  · have := this.idle hl; rw [hn] at this; cases this

/-- **Settings survive every scan, whatever its outcome**: after any history (scans of every kind, `yr_scanner_scan_proc`
    with any process memory or failing to attach, suspended / abandoned scans) the scanner's flags, timeout and callback
    are exactly what the last `yr_scanner_set_*` calls made them (`settingsAfter`). Holds for both variants. -/
theorem settings_survive (P : Params) (v : Variant) (set : Settings) (w0 : World) (h : List HOp) :
    (runH P v (HSt.init set w0) h).sc.set = settingsAfter set h :=
  runH_set P v (HSt.init set w0) h

/-- **History independence** (code with the two fixes): after ANY history `h` — scans that succeeded, were
    aborted or failed from the callback, timed out, hit the match limit, failed in verification or evaluation, were
    suspended and resumed, or suspended and abandoned, process scans, changes of flags / timeout between scans —
    a scan `x` (its first call and any number `k` of repetitions while it is suspended) produces, call by call,
    exactly the callback trace and result code it produces on a newly created scanner with the same settings
    (= the settings last given to the scanner, `settings_survive`). -/
theorem history_independent (P : Params) (set : Settings) (w0 : World)
    (h : List HOp) (x : Start) (k : Nat) (hcb : (settingsAfter set h).hasCallback = true) :
    let st := runH P .fixed (HSt.init set w0) h
    tracesH P .fixed st (.start x :: List.replicate k .cont) =
      tracesH P .fixed (HSt.init (settingsAfter set h) st.w) (.start x :: List.replicate k .cont) := by
  intro st
  have hinv : HInv st := runH_inv P .fixed _ h (HInv.init set w0) (reuseOk_fixed h)
  have hset : st.sc.set = settingsAfter set h := runH_set P .fixed _ h
  generalize settingsAfter set h = set' at hcb hset ⊢
  simp only [tracesH]
  have hobs := scanCall_fresh_eq P x.cb x.stack st.sc x.it { st.w with nmsg := 0 }
    (by rw [hset]; exact hcb) hinv.inv (Or.inl (by simp [Start.it]))
  rw [hset] at hobs
  have e := obs_equiv hobs x.cb x.stack st (HSt.init set' st.w)
  have h1 : (stepH P .fixed st (.start x)).2 = (stepH P .fixed (HSt.init set' st.w) (.start x)).2 := by
    simp only [stepH, HSt.init]; rw [e.2]
  have h2 : HSt.Equiv (stepH P .fixed st (.start x)).1 (stepH P .fixed (HSt.init set' st.w) (.start x)).1 := by
    simp only [stepH, HSt.init]; exact e.1
  rw [h1, tracesH_equiv P .fixed _ _ _ h2]

/-- **… also when the caller re-uses its iterator object without resetting `last_error`** (e.g. after a scan in which a block
    was "not ready" during rule evaluation — finding F27 — which returns success but leaves ERROR_BLOCK_NOT_READY there):
    unless a suspended scan is really pending (the last call returned ERROR_BLOCK_NOT_READY), the next scan with that
    iterator, whatever stale `last_error` it carries, gives the trace and result of the same call on a new scanner. Nothing
    of the earlier scan is carried over: no matches, no flags, no skipped blocks. (Code with the fixes; needs
    "resume only when a scan is pending", /repo 434a87f.) -/
theorem history_independent_reused_iterator (P : Params) (set : Settings) (w0 : World)
    (h : List HOp) (x : Start) (k : Nat) (hcb : (settingsAfter set h).hasCallback = true) :
    let st := runH P .fixed (HSt.init set w0) h
    st.lastRc ≠ .blockNotReady →
    tracesH P .fixed st (.reuse x :: List.replicate k .cont) =
      tracesH P .fixed { HSt.init (settingsAfter set h) st.w with it := st.it } (.reuse x :: List.replicate k .cont) := by
  intro st hidle
  have hinv : HInv st := runH_inv P .fixed _ h (HInv.init set w0) (reuseOk_fixed h)
  have hset : st.sc.set = settingsAfter set h := runH_set P .fixed _ h
  generalize settingsAfter set h = set' at hcb hset ⊢
  simp only [tracesH]
  have hobs := scanCall_fresh_eq P x.cb x.stack st.sc { x.it with lastError := st.it.lastError } { st.w with nmsg := 0 }
    (by rw [hset]; exact hcb) hinv.inv (Or.inr (hinv.idle hidle))
  rw [hset] at hobs
  have e := obs_equiv hobs x.cb x.stack st { HSt.init set' st.w with it := st.it }
  have h1 : (stepH P .fixed st (.reuse x)).2 = (stepH P .fixed { HSt.init set' st.w with it := st.it } (.reuse x)).2 := by
    simp only [stepH, HSt.init]; rw [e.2]
  have h2 : HSt.Equiv (stepH P .fixed st (.reuse x)).1 (stepH P .fixed { HSt.init set' st.w with it := st.it } (.reuse x)).1 := by
    simp only [stepH, HSt.init]; exact e.1
  rw [h1, tracesH_equiv P .fixed _ _ _ h2]

/-- A scanner without a callback reports nothing, whatever its history. -/
theorem no_callback_no_trace (P : Params) (v : Variant) (cb : Nat → CbRet) (stack : Nat) (s : Sc) (it : It) (w : World)
    (hcb : s.set.hasCallback = false) :
    (scanCall P v cb stack s it w).msgs = [] ∧ (scanCall P v cb stack s it w).rc = .callbackRequired :=
  scanCall_no_callback P v cb stack s it w hcb

/-- **No notebook is leaked** (code with the fixes): neither by starting a scan over a suspended one nor by
    destroying the scanner after any prefix of any history. -/
theorem no_leak (P : Params) (set : Settings) (w : World) (h : List HOp) (it : It) :
    let st := runH P .fixed (HSt.init set w) h
    callLeaks .fixed st.sc it = 0 ∧ destroyLeaks .fixed st.sc = 0 := by
  simp [callLeaks, destroyLeaks, Variant.fixed]

/-! ### Refutation for the code as found (findings F6, F7) -/

namespace Witness

/-- rule 0: `entrypoint >= 0` (no strings); rule 1: `#s0 >= 2` -/
def P : Params :=
  { rules := [⟨0, false, false, true, []⟩, ⟨0, false, false, true, [0]⟩]
    imports := []
    strRule := fun _ => 1
    maxMatches := 1000
    cands := fun d => if d = 2 then [⟨0, 1, 3⟩] else if d = 3 then [⟨0, 2, 3⟩] else []   -- data 2 / 3: string 0 at offset 1 / 2
    ep := fun _ d _ _ => if d = 0 then some 512 else none      -- data 0: an executable with entry point 512
    singleMatch := fun _ => false, chain := fun _ => none, pruneSlack := 1028
    scanErr := fun _ => none
    cond := fun i v => if i = 0 then .ret v.entryPoint.isSome else .ret (decide ((tget v.found 0).length ≥ 2))
    modParse := fun _ _ => none }

def set : Settings := ⟨true, true, 0, true, false, false⟩
def cont : Nat → CbRet := fun _ => .cont
def exe : Start := ⟨[⟨0, 64, some 0⟩], [], some 64, cont, 16⟩
def text : Start := ⟨[⟨0, 8, some 1⟩], [], some 8, cont, 16⟩
/-- two blocks, the iterator answers "not ready" when asked for the second one -/
def slow : Start := ⟨[⟨0, 4, some 2⟩, ⟨4, 4, some 1⟩], [.ok, .notReady], some 8, cont, 16⟩
def once : Start := ⟨[⟨0, 5, some 3⟩], [], some 5, cont, 16⟩
def w0 : World := ⟨0, 0⟩

end Witness

open Witness in
/-- **F6**: with the code as found, a plain-text buffer scanned after an executable is reported as having
    an entry point (`entrypoint >= 0` matches); on a new scanner it is not. -/
theorem current_code_entry_point_leaks :
    tracesH P .current (runH P .current (HSt.init set w0) [.start exe]) [.start text]
      = [some ([.ruleMatching 0 [], .ruleNotMatching 1 [(0, [])], .scanFinished], .success)] ∧
    tracesH P .current (HSt.init set w0) [.start text]
      = [some ([.ruleNotMatching 0 [], .ruleNotMatching 1 [(0, [])], .scanFinished], .success)] := by
  decide

open Witness in
/-- **F7**: with the code as found, a scan abandoned after ERROR_BLOCK_NOT_READY leaves its matches behind:
    the next scan sees the string twice (`#s0 >= 2` matches, both occurrences reported), a new scanner
    sees it once; one notebook is lost when the next scan starts, and one if the scanner is destroyed
    instead. -/
theorem current_code_abandoned_scan_leaks :
    tracesH P .current (runH P .current (HSt.init set w0) [.start slow]) [.start once]
      = [some ([.ruleNotMatching 0 [], .ruleMatching 1 [(0, [⟨0, 1, 3⟩, ⟨0, 2, 3⟩])], .scanFinished], .success)] ∧
    tracesH P .current (HSt.init set w0) [.start once]
      = [some ([.ruleNotMatching 0 [], .ruleNotMatching 1 [(0, [⟨0, 2, 3⟩])], .scanFinished], .success)] ∧
    callLeaks .current (runH P .current (HSt.init set w0) [.start slow]).sc once.it = 1 ∧
    destroyLeaks .current (runH P .current (HSt.init set w0) [.start slow]).sc = 1 := by
  decide

open Witness in
/-- the same two histories with the fixes: as `history_independent` says -/
example :
    tracesH P .fixed (runH P .fixed (HSt.init set w0) [.start exe]) [.start text] =
      tracesH P .fixed (HSt.init set w0) [.start text] ∧
    tracesH P .fixed (runH P .fixed (HSt.init set w0) [.start slow]) [.start once] =
      tracesH P .fixed (HSt.init set w0) [.start once] := by
  decide

open Witness in
/-- the situation of `history_independent_reused_iterator`, concretely: the iterator answers "not ready" to the second block and
    is re-used, stale `last_error` included, after the scan was abandoned... with the fixes the re-used iterator starts a fresh
    scan of the other data; the 4.5.2 code resumed instead (`Variant.current`): no scan of the first block, stale matches. -/
example :
    let h : List HOp := [.start slow, .start once]          -- abandon the suspended scan, complete another one
    (runH P .fixed (HSt.init set w0) h).lastRc = .success ∧
    tracesH P .fixed (runH P .fixed (HSt.init set w0) [.start slow]) [.start once, .reuse once] =
      [some ([.ruleNotMatching 0 [], .ruleNotMatching 1 [(0, [⟨0, 2, 3⟩])], .scanFinished], .success),
       some ([.ruleNotMatching 0 [], .ruleNotMatching 1 [(0, [⟨0, 2, 3⟩])], .scanFinished], .success)] := by
  decide

open Witness in
/-- non-vacuity of `settings_survive` / `history_independent` with flags and process scans: the user sets
    SCAN_FLAGS_PROCESS_MEMORY, a process scan (here: of memory containing the executable) and a failed attach follow;
    the flag is still set, and clearing it later is what `settingsAfter` says. -/
example :
    let pm : Settings := { set with processMemory := true }
    (runH P .fixed (HSt.init set w0) [.config pm, .proc (some exe), .proc none, .start text]).sc.set = pm ∧
    (runH P .fixed (HSt.init set w0) [.config pm, .proc (some exe), .config set, .start exe]).sc.set = set ∧
    (tracesH P .fixed (HSt.init set w0) [.config pm, .proc (some exe), .proc none]).getLast? = some (some ([], .couldNotAttach)) := by
  decide

open Witness in
/-- non-vacuity of `scan_restores_clean` / `history_invariant`: a history whose scans end in different
    ways; the suspended one really holds state -/
example :
    (runH P .fixed (HSt.init set w0) [.start slow]).lastRc = .blockNotReady ∧
    (runH P .fixed (HSt.init set w0) [.start slow]).sc.core.found = [(0, [⟨0, 1, 3⟩])] ∧
    (runH P .fixed (HSt.init set w0) [.start slow, .cont]).lastRc = .success ∧
    (runH P .fixed (HSt.init set w0) [.start slow, .cont]).sc.core.found = [] := by
  decide

namespace WitnessChain

/-- one rule `$a` with `$a = { AA BB CC DD [-] EE FF 00 11 }`: string 0 is the head piece, string 1 the tail piece -/
def P : Params :=
  { rules := [⟨0, false, false, false, [0, 1]⟩]
    imports := []
    strRule := fun _ => 0
    maxMatches := 1000
    cands := fun d => if d = 0 then [⟨0, 10, 4⟩] else if d = 1 then [⟨1, 40, 4⟩] else if d = 2 then [⟨0, 10, 4⟩, ⟨1, 40, 4⟩] else []
    ep := fun _ _ _ _ => none
    singleMatch := fun _ => false
    chain := fun s => if s = 0 then some ⟨none, 0, 0, false⟩ else if s = 1 then some ⟨some 0, 0, 2147483647, true⟩ else none
    pruneSlack := 1028
    scanErr := fun _ => none
    cond := fun _ v => .ret (!(tget v.found 0).isEmpty)
    modParse := fun _ _ => none }

def set : Settings := ⟨true, true, 0, true, false, false⟩
def cont : Nat → CbRet := fun _ => .cont
def headOnly : Start := ⟨[⟨0, 64, some 0⟩], [], some 64, cont, 16⟩
def tailOnly : Start := ⟨[⟨0, 64, some 1⟩], [], some 64, cont, 16⟩
def both : Start := ⟨[⟨0, 64, some 2⟩], [], some 64, cont, 16⟩
/-- the head-only buffer followed by a block that is not ready: the scan is suspended with the head pending -/
def headThenWait : Start := ⟨[⟨0, 64, some 0⟩, ⟨64, 8, some 3⟩], [.ok, .notReady], some 72, cont, 16⟩

end WitnessChain

open WitnessChain in
/-- chained strings in histories: the whole pattern matches (offset 10, length 34); a head alone is pending only DURING
    its scan (visible while that scan is suspended) and is gone afterwards; a later scan containing only the tail reports
    nothing — on the re-used scanner exactly as on a new one. -/
example :
    tracesH P .fixed (HSt.init set ⟨0, 0⟩) [.start both] = [some ([.ruleMatching 0 [(0, [⟨0, 10, 34⟩]), (1, [])], .scanFinished], .success)] ∧
    (runH P .fixed (HSt.init set ⟨0, 0⟩) [.start headThenWait]).sc.core.unconfirmed = [(0, [⟨0, 10, 4, 0⟩])] ∧
    (runH P .fixed (HSt.init set ⟨0, 0⟩) [.start headOnly]).sc.core.unconfirmed = [] ∧
    tracesH P .fixed (runH P .fixed (HSt.init set ⟨0, 0⟩) [.start headOnly]) [.start tailOnly] =
      [some ([.ruleNotMatching 0 [(0, []), (1, [])], .scanFinished], .success)] ∧
    tracesH P .fixed (runH P .fixed (HSt.init set ⟨0, 0⟩) [.start headThenWait]) [.start tailOnly] =
      tracesH P .fixed (HSt.init set ⟨0, 0⟩) [.start tailOnly] := by
  decide

end YaraModel.Scan
