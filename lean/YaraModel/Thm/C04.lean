/-
  C04 — Rule conditions evaluate per the documented language semantics.
  (property theorems only; helpers are in Lemmas/Cond*.lean)

  (a) undefined-operand propagation of the pure VM opcodes  — over Gen.VmOps, REGENERATED from exec.c
  (b) grammar precedence/associativity = the manual's table — over Gen.Precedence, REGENERATED
  (c) algebra of the specification `Cond.eval`, for all environments
  (d) compile_correct: code emitted by the grammar actions, run on the VM model, computes `eval` — all constructs, doubles
      included, for every choice of the double operations (`FloatOps` is a parameter)
  (e) the string operators: sizedstr.c (Gen.SizedStr, REGENERATED) = the byte-list specification, for all byte lists
  (f) the match-list opcodes: exec.c (Gen.MatchOps, REGENERATED) = what the VM model computes on (offset, length) views
  (g) sets as written: an exact item denotes one identifier, `p*` the identifiers with that prefix (Cond.setDenotes)
  (h) rules disabled through the API: never match, undefined when referenced directly, not matching inside a rule set
  (i) doubles: promotion placement and opcode family, undefined propagation for every FloatOps, compile-time rejections
-/
import YaraModel.Gen.Precedence
import YaraModel.Lemmas.Cond
import YaraModel.Lemmas.CondExecAll
import YaraModel.Lemmas.SizedStr
import YaraModel.Lemmas.MatchOps
namespace YaraModel.Cond
open YaraModel YaraModel.C YaraModel.CondVm YaraModel.CondCompile YaraModel.Gen.VmOps YaraModel.Gen.Precedence

/-! ## (a) undefined operands -/

/-- the operators for which the manual itself says an undefined operand does not make the result undefined -/
def binExempt : BinOp → Bool
  | .OP_AND | .OP_OR => true
  | _ => false

def unExempt : UnOp → Bool
  | .OP_DEFINED => true
  | _ => false

/-- the intN/uintN readers: their C functions get the operand unguarded (see `undef_propagation_readers`) -/
def isReader : UnOp → Bool
  | .OP_INT8 | .OP_INT16 | .OP_INT32 | .OP_UINT8 | .OP_UINT16 | .OP_UINT32
  | .OP_INT8BE | .OP_INT16BE | .OP_INT32BE | .OP_UINT8BE | .OP_UINT16BE | .OP_UINT32BE => true
  | _ => false

/-- **undef_propagation**: every two-operand pure opcode of exec.c other than OP_AND / OP_OR
    yields undefined when an operand is undefined — for all operands and every interpretation `prim` of the
    double / sized-string primitives. -/
theorem undef_propagation (prim : String → List Int → Int) (op : BinOp) (a b : Int)
    (hop : binExempt op = false) (h : isUndef a = true ∨ isUndef b = true) :
    vmBin prim op a b = UNDEF := by
  cases op <;> simp only [vmBin] <;>
    first | contradiction | (simp [binExempt] at hop; done) | (rcases h with h | h <;> simp [h])

example : binExempt .OP_INT_ADD = false ∧ vmBin (fun _ _ => 0) .OP_INT_ADD UNDEF 1 = UNDEF := by decide

/-- One-operand opcodes (`not` included, as the manual says; `defined` excluded; readers below). -/
theorem undef_propagation_unary (prim : String → List Int → Int) (op : UnOp) (a : Int)
    (hop : unExempt op = false) (hr : isReader op = false) (h : isUndef a = true) :
    vmUn prim op a = UNDEF := by
  cases op <;> simp only [vmUn] <;>
    first | (simp [unExempt] at hop; done) | (simp [isReader] at hr; done) | simp [h]

example : vmUn (fun _ _ => 0) .OP_NOT UNDEF = UNDEF := by decide

/-- The intN/uintN readers pass their operand to `function_read` without an undefined check; the result is
    undefined all the same because no memory block of a sane address space contains the offset
    `(size_t) YR_UNDEFINED` = 0xFFFABADAFABADAFF (blocks end at or below 2^63) — proved against the range test
    REGENERATED from the `function_read` macro. -/
theorem undef_propagation_readers (fo : FloatOps) (blocks : List (Nat × Bytes)) (op : UnOp) (hr : isReader op = true)
    (hb : ∀ b ∈ blocks, b.1 + b.2.length ≤ 9223372036854775808) :
    vmUn (prim fo blocks) op UNDEF = UNDEF := by
  have key : ∀ sz sg be, readPrim blocks sz sg be UNDEF = UNDEF := by
    intro sz sg be
    simp only [readPrim, undef_offset, readBlocks_sentinel blocks sz hb]
  cases op <;> simp [isReader] at hr <;> simp only [vmUn]
  · rw [prim_reader (fo := fo) blocks _ 2 true false _ (by decide), key]
  · rw [prim_reader (fo := fo) blocks _ 2 true true _ (by decide), key]
  · rw [prim_reader (fo := fo) blocks _ 4 true false _ (by decide), key]
  · rw [prim_reader (fo := fo) blocks _ 4 true true _ (by decide), key]
  · rw [prim_reader (fo := fo) blocks _ 1 true false _ (by decide), key]
  · rw [prim_reader (fo := fo) blocks _ 1 true true _ (by decide), key]
  · rw [prim_reader (fo := fo) blocks _ 2 false false _ (by decide), key]
  · rw [prim_reader (fo := fo) blocks _ 2 false true _ (by decide), key]
  · rw [prim_reader (fo := fo) blocks _ 4 false false _ (by decide), key]
  · rw [prim_reader (fo := fo) blocks _ 4 false true _ (by decide), key]
  · rw [prim_reader (fo := fo) blocks _ 1 false false _ (by decide), key]
  · rw [prim_reader (fo := fo) blocks _ 1 false true _ (by decide), key]

example : vmUn (prim default [(0, [1, 2, 3, 4])]) .OP_UINT16 1 = 770 ∧ vmUn (prim default [(0, [1, 2, 3, 4])]) .OP_UINT16 3 = UNDEF := by decide

/-- The 12 instantiations of `function_read` apply the byte-order conversion their name announces. -/
theorem reader_table_consistent :
    Gen.ReadFn.unparsed = false ∧ Gen.ReadFn.readers.length = 12 ∧
    Gen.ReadFn.readers.all (fun r =>
      r.2.2.2.2 == (if r.2.1 == 1 then "id" else (if r.2.2.2.1 then "be" else "le") ++ toString (8 * r.2.1))) = true := by
  decide

/-! ## (b) precedence -/

/-- rows of the manual's table that are grammar structure (postfix `[]`, `.`), not `%left/%right` operators -/
def structuralRow (ops : List String) : Bool := ops == [".", "[]"]

/-- **prec_table**: the operator classes of grammar.y (`%left/%right` lines, lowest precedence first) are
    exactly the rows of the manual's precedence table (highest first) — same operators per class, same
    associativity, same order — and the manual numbers its rows 1, 2, 3, ….  Both tables are REGENERATED from
    grammar.y and docs/writingrules.rst on every run; the rule printer of the check uses the manual's table. -/
theorem prec_table :
    unparsed = false ∧
    ((manual.filter fun r => !structuralRow r.2.2).reverse.map fun r => (r.2.1, r.2.2)) = grammar ∧
    manual.map (·.1) = (List.range manual.length).map (· + 1) := by
  decide

example : grammar.length = 12 ∧ manual.length = 13 := by decide

/-! ## (c) algebra of the specification -/

/-- `and` / `or` treat an undefined operand as false (whatever the other operand is). -/
theorem and_or_undefined (env : Env) (l : LEnv) (a b : Expr) (ha : eval env l a = .undef) :
    eval env l (.and a b) = .bool false ∧ eval env l (.and b a) = .bool false ∧
    eval env l (.or a b) = .bool (asBool (eval env l b)) ∧ eval env l (.or b a) = .bool (asBool (eval env l b)) := by
  simp [eval, ha, vAnd, vOr, asBool, truthy]

example : eval ⟨[], [], 0, [], [], [], default⟩ {} (.or (.undefOf .i) .tt) = .bool true := by
  simp [eval, vOr, asBool, truthy]

/-- `not undefined` is undefined; `defined` never is. -/
theorem not_defined_undefined (env : Env) (l : LEnv) (a : Expr) (ha : eval env l a = .undef) :
    eval env l (.not a) = .undef ∧ eval env l (.defined a) = .bool false := by
  simp [eval, ha, vNot, vDefined, truthy, Val.isUndef]

/-- Every other operator yields undefined as soon as one operand is undefined. -/
theorem operators_propagate_undefined (env : Env) (l : LEnv) (a b : Expr) (ha : eval env l a = .undef) :
    (∀ op, eval env l (.arith op a b) = .undef ∧ eval env l (.arith op b a) = .undef) ∧
    (∀ op, eval env l (.cmp op a b) = .undef ∧ eval env l (.cmp op b a) = .undef) ∧
    (∀ op, eval env l (.strop op a b) = .undef ∧ eval env l (.strop op b a) = .undef) ∧
    eval env l (.neg a) = .undef ∧ eval env l (.bnot a) = .undef ∧
    (∀ k, eval env l (.read k a) = .undef) ∧
    (∀ re nc, eval env l (.matches a re nc) = .undef) ∧
    (∀ s, eval env l (.foundAt s a) = .undef ∧ eval env l (.offset s a) = .undef ∧ eval env l (.length s a) = .undef) ∧
    (∀ s, eval env l (.foundIn s a b) = .undef ∧ eval env l (.foundIn s b a) = .undef ∧
          eval env l (.countIn s a b) = .undef ∧ eval env l (.countIn s b a) = .undef) ∧
    (∀ q qe set, eval env l (.ofStrAt q qe set a) = .undef ∧ eval env l (.ofStrIn q qe set a b) = .undef ∧
          eval env l (.ofStrIn q qe set b a) = .undef) ∧
    (∀ set, eval env l (.pctStr a set) = .undef ∧ eval env l (.pctRules a set) = .undef) := by
  refine ⟨?_, ?_, ?_, ?_, ?_, ?_, ?_, ?_, ?_, ?_, ?_⟩
  · intro op; constructor <;> (simp only [eval, ha, vArith]; all_goals (cases eval env l b <;> rfl))
  · intro op; constructor <;> (simp only [eval, ha, vCmp]; all_goals (cases eval env l b <;> rfl))
  · intro op; constructor <;> (simp only [eval, ha, vStrOp]; all_goals (cases eval env l b <;> rfl))
  · simp [eval, ha, vNeg]
  · simp [eval, ha, vBnot]
  · intro k; simp [eval, ha, vRead]
  · intro re nc; simp [eval, ha, vMatches]
  · intro s; simp [eval, ha, vFoundAt, vOffset, vLength]
  · intro s
    refine ⟨?_, ?_, ?_, ?_⟩ <;> (simp only [eval, ha, vFoundIn, vCountIn]; all_goals (cases eval env l b <;> rfl))
  · intro q qe set
    refine ⟨?_, ?_, ?_⟩
    · simp [eval, ha]
    · simp only [eval, ha]
    · simp only [eval, ha]; all_goals (cases eval env l b <;> rfl)
  · intro set; simp [eval, ha, pctHolds]

/-- An undefined condition is false. -/
theorem undefined_condition_is_false (env : Env) (c : Expr) (h : eval env {} c = .undef) :
    ruleVerdict env c = false := by
  simp [ruleVerdict, h, asBool, truthy]

/-- `all of S` ⇔ every string of S is found; `any of S` ⇔ some string is; `none of S` ⇔ no string is;
    `k of S` (k ≠ 0) ⇔ at least k are (counted with multiplicity);
    `p% of S` ⇔ found·100 ≥ p·|S| (exact arithmetic). -/
theorem of_quantifiers (env : Env) (l : LEnv) (qe : Expr) (set : List Nat) :
    (eval env l (.ofStr .all qe set) = .bool true ↔ ∀ n ∈ set, strFound env n = true) ∧
    (eval env l (.ofStr .any qe set) = .bool true ↔ ∃ n ∈ set, strFound env n = true) ∧
    (eval env l (.ofStr .none qe set) = .bool true ↔ ∀ n ∈ set, strFound env n = false) ∧
    (∀ k : Int, k ≠ 0 → eval env l (.ofStr .num (.int k) set) = .bool (decide (k ≤ (set.countP (strFound env) : Int)))) ∧
    (∀ p : Int, eval env l (.pctStr (.int p) set) =
        .bool (decide ((set.countP (strFound env) : Int) * 100 ≥ p * (set.length : Int)))) := by
  refine ⟨?_, ?_, ?_, ?_, ?_⟩
  · simp only [eval, quantOf, quantHolds, Val.bool.injEq, beq_iff_eq]
    exact List.countP_eq_length
  · simp only [eval, quantOf, quantHolds, Val.bool.injEq, decide_eq_true_eq]
    rw [show ((1 : Int) ≤ ((set.countP (strFound env) : Nat) : Int)) ↔ 0 < set.countP (strFound env) by omega]
    exact List.countP_pos_iff
  · simp only [eval, quantOf, quantHolds, Val.bool.injEq, beq_iff_eq]
    rw [List.countP_eq_zero]
    simp
  · intro k hk
    simp [eval, quantOf, quantHolds, hk]
  · intro p
    simp [eval, pctHolds]

example : eval ⟨[[(0, 2)], []], [], 2, [], [], [], default⟩ {} (.ofStr .any (.int 0) [0, 1]) = .bool true := by
  simp [eval, quantOf, quantHolds, strFound]

/-- `for Q i in (a..b) : (body)` over a non-empty range is bounded quantification of the body over a ≤ i ≤ b;
    over an empty range (a > b) it is false for every quantifier. -/
theorem for_range_semantics (env : Env) (l : LEnv) (qe body : Expr) (a b : Int) :
    let holds := fun i : Int => asBool (eval env { l with vars := l.vars ++ [.int i] } body)
    (a ≤ b →
      (eval env l (.forRange .all qe (.int a) (.int b) body) = .bool true ↔ ∀ i, a ≤ i → i ≤ b → holds i = true) ∧
      (eval env l (.forRange .any qe (.int a) (.int b) body) = .bool true ↔ ∃ i, a ≤ i ∧ i ≤ b ∧ holds i = true) ∧
      (eval env l (.forRange .none qe (.int a) (.int b) body) = .bool true ↔ ∀ i, a ≤ i → i ≤ b → holds i = false)) ∧
    (b < a → ∀ q, q ≠ QKind.num → eval env l (.forRange q qe (.int a) (.int b) body) = .bool false) := by
  intro holds
  constructor
  · intro hab
    have hlen : (intRange (.int a) (.int b)).length ≠ 0 := by rw [intRange_length]; omega
    have hne : ((intRange (.int a) (.int b)).length == 0) = false := by simp [hlen]
    refine ⟨?_, ?_, ?_⟩
    · simp only [eval, quantOf, loopHolds, hne, quantHolds, countTrue_map, Val.bool.injEq, beq_iff_eq,
        Bool.false_eq_true, if_false]
      rw [List.countP_eq_length]
      constructor
      · intro h i h1 h2
        exact h (.int i) ((mem_intRange a b _).mpr ⟨i, h1, h2, rfl⟩)
      · intro h v hv
        obtain ⟨i, h1, h2, rfl⟩ := (mem_intRange a b v).mp hv
        exact h i h1 h2
    · simp only [eval, quantOf, loopHolds, hne, quantHolds, countTrue_map, Val.bool.injEq, decide_eq_true_eq,
        Bool.false_eq_true, if_false]
      rw [show ∀ n : Nat, ((1 : Int) ≤ (n : Int)) ↔ 0 < n from fun n => by omega, List.countP_pos_iff]
      constructor
      · rintro ⟨v, hv, hh⟩
        obtain ⟨i, h1, h2, rfl⟩ := (mem_intRange a b v).mp hv
        exact ⟨i, h1, h2, hh⟩
      · rintro ⟨i, h1, h2, hh⟩
        exact ⟨.int i, (mem_intRange a b _).mpr ⟨i, h1, h2, rfl⟩, hh⟩
    · simp only [eval, quantOf, loopHolds, hne, quantHolds, countTrue_map, Val.bool.injEq, beq_iff_eq,
        Bool.false_eq_true, if_false]
      rw [List.countP_eq_zero]
      constructor
      · intro h i h1 h2
        have := h (.int i) ((mem_intRange a b _).mpr ⟨i, h1, h2, rfl⟩)
        simpa using this
      · intro h v hv
        obtain ⟨i, h1, h2, rfl⟩ := (mem_intRange a b v).mp hv
        simp [holds] at h
        simp [h i h1 h2]
  · intro hba q hq
    have hlen : (intRange (.int a) (.int b)).length = 0 := by rw [intRange_length]; omega
    cases q <;> simp_all [eval, quantOf, loopHolds]

/-- Reader bounds: an intN/uintN read at `off` is defined exactly when the datum lies inside one memory block. -/
theorem reader_bounds (blocks : List (Nat × Bytes)) (off n : Nat) :
    (readBytes blocks off n).isSome = true ↔
      ∃ b ∈ blocks, b.1 ≤ off ∧ n ≤ b.2.length ∧ off + n ≤ b.1 + b.2.length := by
  induction blocks with
  | nil => simp [readBytes]
  | cons b rest ih =>
    obtain ⟨base, data⟩ := b
    simp only [readBytes]
    by_cases h : base ≤ off ∧ n ≤ data.length ∧ off + n ≤ base + data.length
    · simp only [h, and_self, if_true, Option.isSome_some, true_iff]
      exact ⟨(base, data), by simp, h⟩
    · simp only [h, if_false, ih, List.mem_cons]
      constructor
      · rintro ⟨b, hb, hh⟩
        exact ⟨b, Or.inr hb, hh⟩
      · rintro ⟨b, hb | hb, hh⟩
        · subst hb; exact absurd hh h
        · exact ⟨b, hb, hh⟩

/-- …and the VM's reader (the range test REGENERATED from the `function_read` macro, with size_t wrap-around)
    reads exactly the specification's bytes whenever no block wraps around the 64-bit address space. -/
theorem reader_model_is_spec (blocks : List (Nat × Bytes)) (off n : Nat)
    (hv : ∀ b ∈ blocks, b.1 + b.2.length < 18446744073709551616) :
    readBlocks blocks off n = readBytes blocks off n :=
  readBlocks_eq_readBytes blocks off n hv

example : readBytes [(0, [1, 2, 3]), (3, [4, 5])] 2 2 = none ∧ readBytes [(0, [1, 2, 3]), (3, [4, 5])] 3 2 = some [4, 5] := by
  decide


/-- `P% of S` (repair of finding F44): what OP_OF_PERCENT computes, `floor(found * 100 / count) >= P` in integer arithmetic,
    is the specification's exact `found / count >= P / 100` — for every count > 0, every found (in particular all
    found <= count) and EVERY integer P (negative, 0, above 100 included); an undefined P gives undefined. -/
theorem pct_model_is_spec (found count : Nat) (hc : count > 0) :
    (∀ p : Int, p ≠ UNDEF → pctResult p found count = b2i (decide ((found : Int) * 100 ≥ p * (count : Int)))) ∧
    (∀ p : Int, p ≠ UNDEF → pctResult p found count = toVm (pctHolds found count (.int p))) ∧
    pctResult UNDEF found count = toVm (pctHolds found count .undef) := by
  have key : ∀ p : Int, p ≠ UNDEF → pctResult p found count = toVm (pctHolds found count (.int p)) :=
    fun p hp => w_pct (.int p) found count (by omega) (Or.inr ⟨p, rfl, hp⟩)
  refine ⟨fun p hp => ?_, key, w_pct .undef found count (by omega) (Or.inl rfl)⟩
  rw [key p hp]
  simp [pctHolds, toVm]

/-- the situation of F44: 29 of 50 strings satisfy `58% of them` (in double precision 29/50*100 = 57.99…), not `59%` -/
example : pctResult 58 29 50 = 1 ∧ pctResult 59 29 50 = 0 ∧ pctResult (-3) 0 7 = 1 ∧ pctResult 101 7 7 = 0 := by decide

/-! ## (e) the string operators: sizedstr.c as regenerated = the specification over byte lists -/

open YaraModel.Gen.SizedStr in
/-- every comparison function of sizedstr.c is inside the translated fragment (a rewrite with strncmp / strstr / a changed
    loop shape leaves it, and this fails) -/
theorem sizedstr_translated : YaraModel.Gen.SizedStr.unparsed = [] := rfl

open YaraModel.Gen.SizedStr in
/-- `contains icontains startswith istartswith endswith iendswith iequals == !=` — for ALL byte lists, including embedded
    NUL bytes, bytes >= 0x80, empty operands and needles longer than the haystack: the C functions exec.c calls
    (OP_CONTAINS .. OP_IEQUALS, OP_STR_EQ, OP_STR_NEQ) compute the specification's `strOp` / `cmpStr` -/
theorem string_ops_model_is_spec (a b : Bytes) :
    ss_contains a b = strOp .contains a b ∧ ss_icontains a b = strOp .icontains a b ∧
    ss_startswith a b = strOp .startswith a b ∧ ss_istartswith a b = strOp .istartswith a b ∧
    ss_endswith a b = strOp .endswith a b ∧ ss_iendswith a b = strOp .iendswith a b ∧
    decide (ss_icompare a b = 0) = strOp .iequals a b ∧
    decide (ss_compare a b = 0) = cmpStr .eq a b ∧ decide (ss_compare a b ≠ 0) = cmpStr .neq a b := by
  have hi : ss_icompare a b = 0 ↔ lowerS a = lowerS b := by
    rw [SizedStr.ss_icompare_eq]
    exact SizedStr.cmpWith_zero _ _ lower (fun x y => by simp) a b
  have hc : ss_compare a b = 0 ↔ a = b := by
    rw [SizedStr.ss_compare_eq]
    have := SizedStr.cmpWith_zero (fun x y => x == y) SizedStr.ucLt id (fun x y => by simp) a b
    simpa using this
  have hs : strCompare a b = 0 ↔ a = b := by
    rw [SizedStr.strCompare_eq_cmpWith]
    have := SizedStr.cmpWith_zero (fun x y => x == y) (fun x y => decide (x < y)) id (fun x y => by simp) a b
    simpa using this
  refine ⟨SizedStr.ss_contains_eq a b, SizedStr.ss_icontains_eq a b, SizedStr.ss_startswith_eq a b, SizedStr.ss_istartswith_eq a b,
    SizedStr.ss_endswith_eq a b, SizedStr.ss_iendswith_eq a b, ?_, ?_, ?_⟩
  · simp only [strOp, hi]
    by_cases h : lowerS a = lowerS b <;> simp [h]
  · simp only [cmpStr, cmpInt]
    rw [Bool.eq_iff_iff]
    simp only [decide_eq_true_eq, beq_iff_eq]
    rw [hc, hs]
  · simp only [cmpStr, cmpInt]
    rw [Bool.eq_iff_iff]
    simp only [decide_eq_true_eq, bne_iff_ne, ne_eq]
    rw [hc, hs]

open YaraModel.Gen.SizedStr in
/-- `< <= > >=` on strings: ss_compare (as regenerated from sizedstr.c after the repair of finding F57, df88bf4: the
    deciding bytes are compared as `uint8_t`) is the specification's unsigned, memcmp-like lexicographic order — for ALL
    byte lists, bytes >= 0x80 and embedded NUL included. -/
theorem string_order_model_is_spec (a b : Bytes) : ss_compare a b = strCompare a b := by
  rw [SizedStr.ss_compare_eq, SizedStr.strCompare_eq_cmpWith]
  apply SizedStr.cmpWith_congr
  intro x _ y _
  exact SizedStr.ucLt_eq x y

/-- regression witness for F57: the comparison by SIGNED char that ss_compare used to compute (frozen as
    `SizedStr.ssCompareSignedOld`) puts "\xff" before "a"; the specification — and today's ss_compare — after it -/
theorem string_order_signed_witness :
    SizedStr.ssCompareSignedOld [0xff] [0x61] = -1 ∧ strCompare [0xff] [0x61] = 1 ∧
    YaraModel.Gen.SizedStr.ss_compare [0xff] [0x61] = 1 := by decide

open YaraModel.Gen.SizedStr in
/-- the string primitives of the VM model (the C expressions of exec.c's string opcodes, as regenerated into Gen.VmOps) are
    the regenerated sizedstr.c functions — so `compile_correct` speaks about them (ordering comparisons included, all byte lists). -/
theorem vm_string_prims_are_sizedstr (a b : Int) :
    primPure "ss_contains(r1.ss,r2.ss)" [a, b] = C.b2i (ss_contains (decSS a) (decSS b)) ∧
    primPure "ss_icontains(r1.ss,r2.ss)" [a, b] = C.b2i (ss_icontains (decSS a) (decSS b)) ∧
    primPure "ss_startswith(r1.ss,r2.ss)" [a, b] = C.b2i (ss_startswith (decSS a) (decSS b)) ∧
    primPure "ss_istartswith(r1.ss,r2.ss)" [a, b] = C.b2i (ss_istartswith (decSS a) (decSS b)) ∧
    primPure "ss_endswith(r1.ss,r2.ss)" [a, b] = C.b2i (ss_endswith (decSS a) (decSS b)) ∧
    primPure "ss_iendswith(r1.ss,r2.ss)" [a, b] = C.b2i (ss_iendswith (decSS a) (decSS b)) ∧
    primPure "(ss_icompare(r1.ss,r2.ss)==0)" [a, b] = C.b2i (decide (ss_icompare (decSS a) (decSS b) = 0)) ∧
    primPure "(ss_compare(r1.ss,r2.ss)==0)" [a, b] = C.b2i (decide (ss_compare (decSS a) (decSS b) = 0)) ∧
    primPure "(ss_compare(r1.ss,r2.ss)!=0)" [a, b] = C.b2i (decide (ss_compare (decSS a) (decSS b) ≠ 0)) ∧
    primPure "(ss_compare(r1.ss,r2.ss)<0)" [a, b] = C.b2i (decide (ss_compare (decSS a) (decSS b) < 0)) ∧
    primPure "(ss_compare(r1.ss,r2.ss)<=0)" [a, b] = C.b2i (decide (ss_compare (decSS a) (decSS b) ≤ 0)) ∧
    primPure "(ss_compare(r1.ss,r2.ss)>0)" [a, b] = C.b2i (decide (ss_compare (decSS a) (decSS b) > 0)) ∧
    primPure "(ss_compare(r1.ss,r2.ss)>=0)" [a, b] = C.b2i (decide (ss_compare (decSS a) (decSS b) ≥ 0)) := by
  obtain ⟨h1, h2, h3, h4, h5, h6, h7, h8, h9⟩ := string_ops_model_is_spec (decSS a) (decSS b)
  have h := string_order_model_is_spec (decSS a) (decSS b)
  exact ⟨by rw [pp_contains, h1], by rw [pp_icontains, h2], by rw [pp_startswith, h3], by rw [pp_istartswith, h4],
    by rw [pp_endswith, h5], by rw [pp_iendswith, h6], by rw [pp_iequals, h7], by rw [pp_eq, h8], by rw [pp_neq, h9],
    by rw [pp_lt, h]; simp [cmpStr, cmpInt], by rw [pp_le, h]; simp [cmpStr, cmpInt],
    by rw [pp_gt, h]; simp [cmpStr, cmpInt], by rw [pp_ge, h]; simp [cmpStr, cmpInt]⟩

/-! ## (f) the match-list opcodes of exec.c as regenerated = the VM model's `step` on the (offset, length) views -/

/-- OP_FOUND, OP_COUNT, OP_FOUND_AT, OP_FOUND_IN, OP_COUNT_IN, OP_OFFSET, OP_LENGTH are inside the translated fragment -/
theorem matchops_translated : YaraModel.Gen.MatchOps.unparsed = [] := rfl

open YaraModel.MatchCore YaraModel.Gen.MatchOps in
/-- For every match list sorted by offset (scan.c inserts in order; C01) whose offsets / lengths are not the sentinel:
    the loops of exec.c — which YR_MATCH field they read (`match_length`, not `data_length`; `base + offset`), the 1-based
    index counting, the inclusive range tests and the early `break`s — compute exactly the values `CondVm.step` pushes
    for `$a`, `#a`, `$a at x`, `$a in (lo..hi)`, `#a in (lo..hi)`, `@a[x]`, `!a[x]` on the list of (offset, length) views,
    for matches of any length and any number of matches. -/
theorem match_ops_model_is_spec (ms : List MatchRec) (x lo hi : Int) (hs : Sorted ms)
    (hd : ∀ m, m ∈ ms → (view m).1 ≠ C.UNDEF ∧ (view m).2 ≠ C.UNDEF) :
    OP_FOUND ms = C.b2i (!(ms.map view).isEmpty) ∧
    OP_COUNT ms = ((ms.map view).length : Int) ∧
    OP_FOUND_AT ms x = (if isU x then C.UNDEF else C.b2i ((ms.map view).any fun m => m.1 == x)) ∧
    OP_FOUND_IN ms lo hi = (if isU lo || isU hi then C.UNDEF else C.b2i ((ms.map view).any (inRange lo hi))) ∧
    OP_COUNT_IN ms lo hi = (if isU lo || isU hi then C.UNDEF else (((ms.map view).countP (inRange lo hi) : Nat) : Int)) ∧
    OP_OFFSET ms x = (if isU x then C.UNDEF else nthOff (ms.map view) x) ∧
    OP_LENGTH ms x = (if isU x then C.UNDEF else nthLen (ms.map view) x) :=
  ⟨found_eq ms, count_eq ms, found_at_eq ms x hs, found_in_eq ms lo hi hs, count_in_eq ms lo hi hs,
   offset_eq ms x (fun m hm => (hd m hm).1), length_eq ms x (fun m hm => (hd m hm).2)⟩

open YaraModel.MatchCore YaraModel.Gen.MatchOps in
/-- non-vacuity, and the situation of seeded defect C04-m1: a 700-byte match keeps its length although only 512 bytes
    of match data are stored -/
example : OP_LENGTH [⟨0, 3, 700, 512⟩, ⟨0, 900, 2, 2⟩] 1 = 700 ∧ OP_OFFSET [⟨0, 3, 700, 512⟩, ⟨0, 900, 2, 2⟩] 2 = 900 ∧
    OP_COUNT_IN [⟨0, 3, 700, 512⟩, ⟨0, 900, 2, 2⟩] 3 899 = 1 ∧ Sorted [⟨0, 3, 700, 512⟩, ⟨0, 900, 2, 2⟩] := by
  refine ⟨by decide, by decide, by decide, ?_⟩
  simp [Sorted, view, C.add, C.wrap]

/-! ## (g) sets as written: which strings / rules an item denotes -/

/-- an item without `*` denotes exactly the strings (rules) whose identifier IS the item: `($a)` never contains `$ab` -/
theorem exact_item_denotes_exactly (names : List String) (ident : String) (j : Nat) :
    j ∈ (SetItem.exact ident).denotes names ↔ j < names.length ∧ names.getD j "" = ident := by
  simp [SetItem.denotes]

/-- an item `p*` denotes exactly the identifiers that start with `p` -/
theorem wild_item_denotes_prefixed (names : List String) (pfx : String) (j : Nat) :
    j ∈ (SetItem.wild pfx).denotes names ↔ j < names.length ∧ pfx.toList.isPrefixOf (names.getD j "").toList = true := by
  simp [SetItem.denotes]

/-- the situation of seeded defect C04-m8: with strings `$a`, `$ab`, `$a1` the set `($a)` is `$a` alone, `($a*)` all three,
    `($a, $a*)` has `$a` twice (it is pushed twice), `them` all three; likewise for rules `ra`, `rab` -/
example : setDenotes ["$a", "$ab", "$a1"] [.exact "$a"] = [0] ∧ setDenotes ["$a", "$ab", "$a1"] [.wild "$a"] = [0, 1, 2] ∧
    setDenotes ["$ab", "$a", "$a1"] [.exact "$a", .wild "$a"] = [1, 0, 1, 2] ∧ setDenotes ["$a", "$ab", "$a1"] [.them] = [0, 1, 2] ∧
    setDenotes ["rab", "ra"] [.exact "ra"] = [1] ∧ setDenotes ["rab", "ra"] [.wild "ra"] = [0, 1] := by decide

/-! ## (h) rules switched off through the API (yr_rule_disable) -/

private theorem evalRulesD_prefix (blocks : List (Nat × Bytes)) (filesize : Int) (ext : List (String × Val)) (dis : List Nat) (fo : FloatOps) :
    ∀ (rs : List Rule) (acc : List Bool) (k : Nat), k < acc.length →
      (evalRulesD blocks filesize ext dis fo rs acc).getD k false = acc.getD k false := by
  intro rs
  induction rs with
  | nil => intro acc k _; rfl
  | cons r rs ih =>
    intro acc k hk
    simp only [evalRulesD]
    rw [ih _ k (by simp; omega)]
    simp only [List.getD_eq_getElem?_getD]
    rw [List.getElem?_append_left hk]

private theorem disabled_rule_never_matches_aux (blocks : List (Nat × Bytes)) (filesize : Int) (ext : List (String × Val)) (dis : List Nat) (fo : FloatOps) :
    ∀ (rs : List Rule) (acc : List Bool) (k : Nat), dis.contains k = true → acc.length ≤ k →
      (evalRulesD blocks filesize ext dis fo rs acc).getD k false = false := by
  intro rs
  induction rs with
  | nil =>
    intro acc k _ hk
    simp only [evalRulesD, List.getD_eq_getElem?_getD]
    rw [List.getElem?_eq_none (by omega)]; rfl
  | cons r rs ih =>
    intro acc k hd hk
    simp only [evalRulesD]
    by_cases he : k = acc.length
    · subst he
      rw [evalRulesD_prefix _ _ _ _ _ rs _ acc.length (by simp)]
      have hm : acc.length ∈ dis := by simpa using hd
      simp [hm]
    · exact ih _ k hd (by simp; omega)
/-- a disabled rule never matches, whatever its condition -/
theorem disabled_rule_never_matches (blocks : List (Nat × Bytes)) (filesize : Int) (ext : List (String × Val)) (dis : List Nat)
    (fo : FloatOps) (rs : List Rule) (k : Nat) (hd : dis.contains k = true) :
    (evalRulesD blocks filesize ext dis fo rs []).getD k false = false :=
  disabled_rule_never_matches_aux blocks filesize ext dis fo rs [] k hd (Nat.zero_le _)

/-- what the other rules see of a disabled rule: a direct reference is undefined (docs/capi.rst); inside a rule set it
    counts as not matching — `all of (r)` is false, `none of (r)` true, `N of (..)` / `P% of (..)` count the others — and
    with no rule disabled (and the placeholder double operations `evalRules` is defined with) `evalRulesD` is `evalRules` -/
theorem disabled_rule_semantics (env : Env) (l : LEnv) (k : Nat) (hd : env.disabled.contains k = true) :
    eval env l (.ruleRef k) = .undef ∧ env.ruleMatched k = false ∧
    eval env l (.ofRules .all (.int 0) [k]) = .bool false ∧ eval env l (.ofRules .none (.int 0) [k]) = .bool true ∧
    (∀ set, (k :: set).countP env.ruleMatched = set.countP env.ruleMatched) := by
  have hmem : k ∈ env.disabled := by simpa using hd
  have hm : env.ruleMatched k = false := by simp [Env.ruleMatched, hmem]
  refine ⟨by simp [eval, hmem], hm, ?_, ?_, ?_⟩
  · simp [eval, hm, quantOf, quantHolds]
  · simp [eval, hm, quantOf, quantHolds]
  · intro set; simp [List.countP_cons, hm]

theorem evalRulesD_nil_is_evalRules (blocks : List (Nat × Bytes)) (filesize : Int) (ext : List (String × Val)) :
    ∀ (rs : List Rule) (acc : List Bool),
      evalRulesD blocks filesize ext [] FloatOps.trivial rs acc = evalRules blocks filesize ext rs acc := by
  intro rs
  induction rs with
  | nil => intro acc; rfl
  | cons r rs ih => intro acc; simp [evalRulesD, evalRules, ih]

/-! ## (i) doubles: where the compiler promotes, which opcode family it selects, what it rejects -/

/-- yr_parser_reduce_operation: an integer operand next to a double one is promoted in place by OP_INT_TO_DBL — the left
    operand sits at stack depth 2, the right one at depth 1 — and nothing is inserted when the types agree; the opcode
    family is INT only for two integers, STR for strings, DBL otherwise -/
theorem promotion_placement :
    conv .int .flt = [.intToDbl 2] ∧ conv .flt .int = [.intToDbl 1] ∧ conv .int .int = [] ∧ conv .flt .flt = [] ∧
    conv .str .str = [] ∧
    numTy .int .int = .int ∧ numTy .int .flt = .flt ∧ numTy .flt .int = .flt ∧ numTy .flt .flt = .flt ∧ numTy .str .str = .str ∧
    (∀ op, arithOp .flt op = match op with
      | .add => .OP_DBL_ADD | .sub => .OP_DBL_SUB | .mul => .OP_DBL_MUL | .div => .OP_DBL_DIV
      | .mod => .OP_MOD | .band => .OP_BITWISE_AND | .bor => .OP_BITWISE_OR | .bxor => .OP_BITWISE_XOR
      | .shl => .OP_SHL | .shr => .OP_SHR) := by
  refine ⟨rfl, rfl, rfl, rfl, rfl, rfl, rfl, rfl, rfl, rfl, ?_⟩
  intro op; cases op <;> rfl

/-- OP_INT_TO_DBL and the double opcodes propagate undefined, for every `FloatOps`: an undefined operand (in either
    position, promoted or not) makes `+ - * \`, unary minus and all six comparisons undefined -/
theorem undef_propagation_doubles (fo : FloatOps) (blocks : List (Nat × Bytes)) (w : Int) :
    promoteW fo UNDEF = UNDEF ∧
    vmUn (prim fo blocks) .OP_DBL_MINUS UNDEF = UNDEF ∧
    (∀ op, isFltOp op = true → vmBin (prim fo blocks) (arithOp .flt op) UNDEF w = UNDEF ∧
                                vmBin (prim fo blocks) (arithOp .flt op) w UNDEF = UNDEF) ∧
    (∀ op, vmBin (prim fo blocks) (cmpOp .flt op) UNDEF w = UNDEF ∧ vmBin (prim fo blocks) (cmpOp .flt op) w UNDEF = UNDEF) := by
  refine ⟨by simp [promoteW, isU, isUndef_UNDEF], by simp [vmUn, isUndef_UNDEF], ?_, ?_⟩
  · intro op hop
    cases op <;> simp [isFltOp] at hop <;> simp [arithOp, vmBin, isUndef_UNDEF]
  · intro op
    cases op <;> simp [cmpOp, vmBin, isUndef_UNDEF]

/-- where a double is a compile-time "wrong type" error it is outside `WF`: `%`, the bitwise operators and shifts, `~`,
    offsets (`at`, `in`, `@a[..]`, `!a[..]`, `intN(..)`), `for` bounds, quantifiers and percentages -/
theorem doubles_rejected (env : Env) (c : Ctx) (l : LEnv) (a b body : Expr) (s : SRef) (q : QKind) (set : List Nat) (k : RdKind)
    (ha : tyOf c a = .flt) :
    (∀ op, isFltOp op = false → ¬ WF env c l (.arith op a b) ∧ ¬ WF env c l (.arith op b a)) ∧
    ¬ WF env c l (.bnot a) ∧ ¬ WF env c l (.foundAt s a) ∧ ¬ WF env c l (.foundIn s a b) ∧ ¬ WF env c l (.foundIn s b a) ∧
    ¬ WF env c l (.offset s a) ∧ ¬ WF env c l (.length s a) ∧ ¬ WF env c l (.read k a) ∧ ¬ WF env c l (.countIn s a b) ∧
    ¬ WF env c l (.forRange q b a b body) ∧ ¬ WF env c l (.forRange q b b a body) ∧
    ¬ WF env c l (.ofStr .num a set) ∧ ¬ WF env c l (.pctStr a set) ∧ ¬ WF env c l (.forEnum q b [a] body) := by
  refine ⟨?_, ?_, ?_, ?_, ?_, ?_, ?_, ?_, ?_, ?_, ?_, ?_, ?_, ?_⟩
  · intro op hop
    constructor <;> (intro h; simp only [WF] at h; simp [ha, hop] at h)
  all_goals (intro h; simp only [WF, WFList] at h; simp [ha] at h)

/-! ## (d) compile_correct -/

/- **compile_correct** — what is and what is not covered.

   `compile_correct_partial` below covers EVERY construct of the condition language: all operators on integers, strings,
   booleans and DOUBLES (mixed int / double arithmetic and comparisons with the OP_INT_TO_DBL promotion, unary minus),
   string queries, the `of` family including `P% of`, `for..in` over ranges and enumerations, `for..of`, arbitrary nesting
   (up to the 4 loop levels the compiler allows).

   Doubles without IEEE: a double is carried as its 64-bit pattern and what `+ - * \ unary- < <= > >= == !=` and
   `(double) i` do with patterns is a PARAMETER (`Cond.FloatOps`, the field `Env.fops`), the same for the specification
   `eval` and for the VM model (`primDbl`, OP_INT_TO_DBL); the theorem holds for every environment, hence for every
   `FloatOps`, and no law is required of the operations.  What it carries is the compiler's logic: which operand gets
   OP_INT_TO_DBL and at which stack depth, which opcode family (INT / DBL / STR) is chosen from the operand types,
   undefined propagation through the double opcodes; `%`, the bitwise operators and shifts on a double, doubles as loop
   bounds, enumeration items, offsets, indices or quantifiers are outside `WF` because the compiler rejects them
   ("wrong type").  IEEE double operations themselves are parameters (the C compiler's `double` and the specification's
   are the same primitive); the driver instantiates them with Lean `Float` for the correspondence runs.

   The clauses of `WF` that remain are not restrictions of the fragment but the exact conditions under which libyara's
   code is correct: they exclude the situations of findings F14 (an integer — or the 64-bit pattern of a double, or of a
   promoted integer — equal to the sentinel) and F42 (undefined quantifier); this is why the name keeps `_partial`.
   (F45, F43, F44, F57, F68 are repaired in /repo and the model follows the repaired code.) -/

/-- **compile_correct** (all constructs, doubles included): for every environment — in particular for every choice
    `env.fops` of the double operations — whose memory blocks lie in
    the lower half of the address space and every condition satisfying `WF` (well-typed as the compiler types it;
    none of the situations of findings F14/F42), running the code that `compile` emits — the
    mirror of grammar.y's actions: typed opcode selection with OP_INT_TO_DBL promotion, OP_STR_TO_BOOL, short-circuit jumps with their fix-ups,
    end-of-list markers, the loop template with 3 internal + 1 user variable per nesting level and the
    ITER_NEXT / ITER_CONDITION / ITER_END protocol — on the VM model, whose pure opcodes are `Gen.VmOps` as
    REGENERATED from exec.c, terminates and yields exactly the verdict of the specification `eval` on the true match
    sets.  Proved by structural recursion on the condition (`exec_all`), loops by induction on the remaining items. -/
theorem compile_correct_partial (env : Env) (henv : EnvOk env) (cond : Expr)
    (hwf : WF env (ctxOfEnv env) {} cond) :
    ∃ fuel, modelVerdict env cond fuel = some (ruleVerdict env cond) := by
  let c := ctxOfEnv env
  obtain ⟨w, hrun, htw⟩ := (exec_all env henv (compileRule c cond) cond c {} hwf).boolpos (wf_typed env c {} cond hwf)
  have hinv : MemInv c {} ({} : St).mem := by
    refine ⟨rfl, ?_, ?_⟩
    · intro k hk
      exact absurd (by simp [c, ctxOfEnv]) hk
    · intro n hn
      simp at hn
  obtain ⟨mem', ext, ⟨n, hn⟩, _⟩ := hrun 0 [] _ [] (CodeAt.whole _) hinv rfl
  refine ⟨n + 1, ?_⟩
  have hr := run_of_runN env (compileRule c cond) n {} _ hn (by simp [compileRule])
  simp only [modelVerdict]
  rw [hr]
  simp only [verdictOf, List.append_nil, ruleVerdict]
  rw [← tw_truth htw]

/-- non-vacuity (loop-free): a string query, a comparison and a short-circuit `and` -/
example : let env : Env := ⟨[[(0, 2), (5, 2)]], [(0, [97, 98, 0, 0, 0, 97, 98])], 7, [], [], [], default⟩
    let cond := Expr.and (.found (.id 0)) (.cmp .lt (.count (.id 0)) (.int 3))
    EnvOk env ∧ WF env (ctxOfEnv env) {} cond ∧ ruleVerdict env cond = true := by
  refine ⟨?_, ?_, ?_⟩
  · intro b hb
    simp at hb
    subst hb
    decide
  · simp [WF, promoOk, SRefOk, tyOf, UNDEF]
  · simp [ruleVerdict, eval, Env.matchesOf, vCmp, cmpInt, vAnd, asBool, truthy]

/-- non-vacuity (nested loops): `for any i in (2..2) : (for all of ($a,$b) : (@[i] == 5 or not $))` on a buffer where
    `$a` matches at 0 and 5 and `$b` does not match -/
example : let env : Env := ⟨[[(0, 2), (5, 2)], []], [(0, [97, 98, 0, 0, 0, 97, 98])], 7, [], [], [], default⟩
    -- for any i in (2..2) : ( for all of ($a, $b) : ( @[i] == 5 or not $ ) )
    let cond := Expr.forRange .any (.int 0) (.int 2) (.int 2)
      (.forOf .all (.int 0) [0, 1] (.or (.cmp .eq (.offset .cur (.var 0)) (.int 5)) (.not (.found .cur))))
    EnvOk env ∧ WF env (ctxOfEnv env) {} cond ∧ ruleVerdict env cond = true := by
  refine ⟨?_, ?_, ?_⟩
  · intro b hb
    simp at hb
    subst hb
    decide
  · simp [WF, promoOk, SRefOk, tyOf, UNDEF, INT64_MIN, INT64_MAX, intRange, eval, ctxOfEnv, ValOk, vCmp, vOffset, nth,
      Env.matchesOf, vOr, vNot, loopHolds, quantOf, quantHolds, cmpInt]
  · simp [ruleVerdict, eval, Env.matchesOf, vCmp, cmpInt, vOr, vNot, asBool, truthy, intRange, loopHolds, quantOf, quantHolds,
      countTrue, vOffset, nth]

/-- non-vacuity (integer-valued loop body, the situation of the repaired finding F43):
    `for all i in (1..1) : (#a)` with three matches of `$a` — the body's value 3 counts once -/
example : let env : Env := ⟨[[(0, 2), (2, 2), (6, 2)]], [(0, [97, 98, 97, 98, 0, 0, 97, 98])], 8, [], [], [], default⟩
    let cond := Expr.forRange .all (.int 0) (.int 1) (.int 1) (.count (.id 0))
    EnvOk env ∧ WF env (ctxOfEnv env) {} cond ∧ ruleVerdict env cond = true := by
  refine ⟨?_, ?_, ?_⟩
  · intro b hb
    simp at hb
    subst hb
    decide
  · simp [WF, promoOk, SRefOk, tyOf, UNDEF, INT64_MIN, INT64_MAX, intRange, eval, ctxOfEnv]
  · simp [ruleVerdict, eval, Env.matchesOf, asBool, truthy, intRange, loopHolds, quantOf, quantHolds, countTrue]

/-- non-vacuity (range ending at INT64_MAX, the situation of the repaired finding F45):
    `for all i in (9223372036854775807..9223372036854775807) : (i > 0)` is true -/
example : let env : Env := ⟨[], [], 0, [], [], [], default⟩
    let cond := Expr.forRange .all (.int 0) (.int 9223372036854775807) (.int 9223372036854775807)
      (.cmp .gt (.var 0) (.int 0))
    EnvOk env ∧ WF env (ctxOfEnv env) {} cond ∧ ruleVerdict env cond = true := by
  refine ⟨?_, ?_, ?_⟩
  · intro b hb
    simp at hb
  · simp [WF, promoOk, tyOf, UNDEF, INT64_MIN, INT64_MAX, intRange, eval, ctxOfEnv, ValOk]
  · simp [ruleVerdict, eval, asBool, truthy, intRange, loopHolds, quantOf, quantHolds, countTrue, vCmp, cmpInt]

/-- non-vacuity (`P% of`, inside compile_correct since the repair of F44): `50% of ($a, $b)` with only `$a` found -/
example : let env : Env := ⟨[[(0, 2)], []], [(0, [97, 98])], 2, [], [], [], default⟩
    let cond := Expr.pctStr (.int 50) [0, 1]
    EnvOk env ∧ WF env (ctxOfEnv env) {} cond ∧ ruleVerdict env cond = true := by
  refine ⟨?_, ?_, ?_⟩
  · intro b hb
    simp at hb
    subst hb
    decide
  · simp [WF, promoOk, tyOf, UNDEF, INT64_MIN, INT64_MAX]
  · simp [ruleVerdict, eval, pctHolds, asBool, truthy, strFound, Env.matchesOf]

/-- non-vacuity (a disabled rule inside a rule set, the situation of the repaired finding F68): rule 0 would match but is
    disabled; `all of (r0)` compiles to `PUSH_U (all); PUSH_U (end marker); PUSH_RULE 0; PUSH 0; OR; OF` and is false, a direct reference is undefined -/
example : let env : Env := ⟨[], [], 0, [], [true], [0], default⟩
    let cond := Expr.ofRules .all (.int 0) [0]
    EnvOk env ∧ WF env (ctxOfEnv env) {} cond ∧ ruleVerdict env cond = false ∧ eval env {} (.ruleRef 0) = .undef ∧
    compile (ctxOfEnv env) cond = [.pushU, .pushU, .pushRule 0, .push 0, .bin .OP_OR, .of_ true] := by
  refine ⟨?_, ?_, ?_, ?_, ?_⟩
  · intro b hb
    simp at hb
  · simp [WF]
  · simp [ruleVerdict, eval, Env.ruleMatched, quantOf, quantHolds, asBool, truthy]
  · simp [eval]
  · simp [compile, quantCode, ruleMember]

/-- **compile_correct_floats**: the same, with the quantification over the double operations made explicit — for EVERY
    `FloatOps` (no law assumed), conditions over doubles and integers compile to code that computes the specification -/
theorem compile_correct_floats (fo : FloatOps) (env : Env) (henv : EnvOk env) (cond : Expr)
    (hwf : WF { env with fops := fo } (ctxOfEnv env) {} cond) :
    ∃ fuel, modelVerdict { env with fops := fo } cond fuel = some (ruleVerdict { env with fops := fo } cond) :=
  compile_correct_partial { env with fops := fo } henv cond hwf

/-- a small concrete `FloatOps`: fixed point with 3 binary digits (pattern = 8 * value); `==` is exact equality -/
def fixed8 : FloatOps :=
  { ofInt := fun i => 8 * i, add := fun a b => a + b, sub := fun a b => a - b, mul := fun a b => a * b / 8,
    div := fun a b => if b = 0 then 0 else 8 * a / b, neg := fun a => -a,
    lt := fun a b => decide (a < b), le := fun a b => decide (a ≤ b), gt := fun a b => decide (a > b), ge := fun a b => decide (a ≥ b),
    nearZero := fun x => decide (x = 0), farZero := fun x => decide (x ≠ 0) }

/-- non-vacuity (mixed int / double condition, instance `fixed8`): `2 * 1.5 + filesize > 9.5 and -(1 \ 4.0) != 0 - 0.25`
    on a 7-byte file — 2 is promoted at depth 2 (`2 * 1.5`), filesize at depth 1 (`3.0 + filesize`), the comparison
    `10.0 > 9.5` needs no promotion; the negated quotient equals `0 - 0.25`, so the second conjunct is false -/
example : let env : Env := ⟨[], [], 7, [], [], [], fixed8⟩
    let c1 := Expr.cmp .gt (.arith .add (.arith .mul (.int 2) (.flt 12)) .filesize) (.flt 76)
    let c2 := Expr.cmp .neq (.neg (.arith .div (.int 1) (.flt 32))) (.arith .sub (.int 0) (.flt 2))
    EnvOk env ∧ WF env (ctxOfEnv env) {} (.and c1 c2) ∧ ruleVerdict env c1 = true ∧ ruleVerdict env (.and c1 c2) = false ∧
    compile (ctxOfEnv env) c1 =
      [.push 2, .push 12, .intToDbl 2, .bin .OP_DBL_MUL, .filesize, .intToDbl 1, .bin .OP_DBL_ADD, .push 76, .bin .OP_DBL_GT] := by
  refine ⟨?_, ?_, ?_, ?_, ?_⟩
  · intro b hb
    simp at hb
  · simp [WF, promoOk, isFltOp, tyOf, ValOk, UNDEF, eval, vArith, arithFlt, vNeg, fixed8]
  · simp [ruleVerdict, eval, vArith, arithFlt, vCmp, cmpFlt, asBool, truthy, fixed8]
  · simp [ruleVerdict, eval, vArith, arithFlt, vNeg, vCmp, cmpFlt, vAnd, asBool, truthy, fixed8]
  · simp [compile, tyOf, conv, numTy, arithOp, cmpOp, isUndef, UNDEF]

end YaraModel.Cond
