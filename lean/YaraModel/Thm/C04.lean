/-
  C04 — Rule conditions evaluate per the documented language semantics.
  (property theorems only; helpers are in Lemmas/Cond*.lean)
-/
import YaraModel.Gen.Precedence
namespace YaraModel.Cond
open YaraModel.Gen.Precedence

/-- rows of the manual's table that are grammar structure (postfix `[]`, `.`), not `%left/%right` operators -/
def structuralRow (ops : List String) : Bool := ops == [".", "[]"]

/-- **prec_table**: the operator classes of grammar.y (`%left/%right` lines, lowest precedence first) are
    exactly the rows of the manual's precedence table (highest first) — same operators per class, same
    associativity, same order — and the manual numbers its rows 1, 2, 3, ….  Both tables are REGENERATED from
    grammar.y and docs/writingrules.rst on every run; the rule printer of the check uses the manual's table. -/
theorem prec_table :
    unparsed = false ∧
    ((manual.filter fun r => !structuralRow r.2.2).reverse.map fun r => (r.2.1, r.2.2)) = grammar ∧
    manual.map (·.1) = (List.range manual.length).map (· + 1) := by
  decide

/-- non-vacuity: the tables are not empty and contain the operators the generator uses -/
example : grammar.length = 12 ∧ manual.length = 13 := by decide

end YaraModel.Cond
