/-
  C15 — Exceeding engine limits yields the documented error, not a crash or hang.
  Property theorems only (helpers: Lemmas/Limits.lean, Lemmas/LimitsRe.lean).

  Every statement holds for EVERY value of the limit (`MAX`, `cap`, `M`, `N` are universally
  quantified), for every input sequence (all candidate/event sequences, all push/pop programs,
  all loop structures, all include chains, all create/release schedules, all instruction counts)
  and for every guard implementation `G` that is `Sound`. `gen_guards_sound` shows that the guards
  regenerated from the C source (`Gen/Limits.lean`: comparison operators and constants) are sound,
  `spec_guards_sound` the same for the specification guards the driver uses as oracle;
  `gen_consistent` states the relations between the constants that the C code relies on.
-/
import YaraModel.Lemmas.LimitsRe
namespace YaraModel.Limits
open YaraModel.Gen.Limits

/-! ### the generated constants -/

/-- Relations between the constants of limits.h & co. that the code relies on; also: the
    translator found every construct it looks for, and the lexer's identifier bound is the
    documented one. -/
theorem gen_consistent :
    unparsedItems = [] ∧ negotiationParsed = true ∧ disabledTestParsed = true ∧
    reMaxSplitId ≤ reSplitIdTypeMax ∧ maxAtomLength ≤ 255 ∧ 1 ≤ maxAtomLength ∧
    vmMemSize = maxLoopNesting * (maxLoopVars + internalLoopVars) ∧
    1 ≤ maxLoopNesting ∧ 1 ≤ maxIncludeDepth ∧ 1 ≤ maxStringMatches ∧ 1 ≤ reMaxSplitId ∧ 1 ≤ reMaxFibers ∧
    1 ≤ vmTimeoutCycle ∧ 1 ≤ blockTimeoutStride ∧ reMaxRange ≤ 32767 ∧
    identLimit = docIdentMax ∧ docIdentMax = specIdentMax ∧ kbDiv = kbMul ∧ mbDiv = mbMul := by decide

/-! ### the guards of the C source -/

/-- **The guards regenerated from the C source mean what the limits require** (on the reachable
    range): `count == MAX`, `sp < capacity`, `loop_index + 1 == MAX`, `ptr == MAX`, `n > max`,
    `strlen > 128` (the documented identifier length), the KB/MB overflow tests, `next_split_id == MAX`,
    `fiber_count == MAX`, `++cycle == N`, `elapsed > timeout`. This is the only theorem that looks at
    the generated operators; it is the one that breaks when a guard is weakened in the source. -/
theorem gen_guards_sound : Guards.gen.Sound where
  cap := by intro c M h; simp [Guards.gen, matchCapCmp, Cmp.eval] <;> omega
  push := by intro sp cap h; simp [Guards.gen, pushCmp, Cmp.eval] <;> omega
  loop := by intro d M h; simp [Guards.gen, loopNestCmp, Cmp.eval] <;> omega
  incl := by intro p M h; simp [Guards.gen, includeDepthCmp, Cmp.eval] <;> omega
  strings := by intro n M; simp [Guards.gen, stringsPerRuleCmp, Cmp.eval] <;> omega
  ident := by intro n; simp [Guards.gen, identCmp, identLimit, specIdentMax, Cmp.eval] <;> omega
  kb := by intro n; simp [Guards.gen, kbCmp, kbDiv, Cmp.eval, int64Max] <;> omega
  mb := by intro n; simp [Guards.gen, mbCmp, mbDiv, Cmp.eval, int64Max] <;> omega
  kbMulEq := by decide
  mbMulEq := by decide
  split := by intro n M h; simp [Guards.gen, splitIdCmp, Cmp.eval] <;> omega
  fiber := by intro n M h; simp [Guards.gen, fiberCmp, Cmp.eval] <;> omega
  cycle := by intro c N h; simp [Guards.gen, vmCycleCmp, Cmp.eval] <;> omega
  vmExp := by intro e t; simp [Guards.gen, vmTimeoutCmp, Cmp.eval] <;> omega
  blockExp := by intro e t; simp [Guards.gen, blockTimeoutCmp, Cmp.eval] <;> omega
  size := by
    intro i d hi
    have h6 : i = 0 ∨ i = 1 ∨ i = 2 ∨ i = 3 ∨ i = 4 ∨ i = 5 := by omega
    rcases h6 with h | h | h | h | h | h <;> subst h <;>
      simp [Guards.gen, reSizeGuards, Cmp.eval, sizeBound, sizeBackward] <;> omega

/-- The specification guards (used by the driver as the oracle of the correspondence run) are sound. -/
theorem spec_guards_sound : Guards.spec.Sound where
  cap := by intro c M h; simp [Guards.spec]; omega
  push := by intro sp cap h; simp [Guards.spec]
  loop := by intro d M h; simp [Guards.spec]; omega
  incl := by intro p M h; simp [Guards.spec]; omega
  strings := by intro n M; simp [Guards.spec]
  ident := by intro n; simp [Guards.spec]
  kb := by intro n; simp [Guards.spec]
  mb := by intro n; simp [Guards.spec]
  kbMulEq := rfl
  mbMulEq := rfl
  split := by intro n M h; simp [Guards.spec]; omega
  fiber := by intro n M h; simp [Guards.spec]; omega
  cycle := by intro c N h; simp [Guards.spec]; omega
  vmExp := by intro e t; simp [Guards.spec]
  blockExp := by intro e t; simp [Guards.spec]
  size := by intro i d _; simp [Guards.spec]

/-! ### timeout conversion and iterator guards (translated from the source) -/

/-- **Seconds → nanoseconds is exact**: for every `int` number of seconds `0 ≤ t ≤ INT_MAX` the value that
    `yr_scanner_set_timeout` (as translated from scanner.c, with C's integer conversions and wrap-around) stores in
    the 64-bit `timeout` field is `t * 10^9` — no intermediate 32-bit product, no sign extension, no wrap. -/
theorem timeout_conversion_exact (t : Int) (h0 : 0 ≤ t) (h1 : t ≤ 2147483647) :
    timeoutField timeoutExpr t = some (specTimeoutNs t) := by
  have e32 : (2 : Int) ^ 32 = 4294967296 := by decide
  have e64 : (2 : Int) ^ 64 = 18446744073709551616 := by decide
  have m32 : t % 4294967296 = t := Int.emod_eq_of_lt h0 (by omega)
  have m64 : t % 18446744073709551616 = t := Int.emod_eq_of_lt h0 (by omega)
  have p64 : t * 1000000000 % 18446744073709551616 = t * 1000000000 := Int.emod_eq_of_lt (by omega) (by omega)
  have hs : ¬ (t ≥ 4294967296 / 2) := by omega
  have hs' : ¬ (2147483648 ≤ t) := by omega
  simp [timeoutField, timeoutExpr, CExpr.eval, CExpr.eval.arith, CTy.common, CTy.wrap, CTy.bits, CTy.signed, specTimeoutNs, e32, e64,
    m32, m64, p64, hs']

example : timeoutField timeoutExpr 3 = some 3000000000 ∧ timeoutField timeoutExpr 2147483647 = some 2147483647000000000 := by decide

/-- what the 32-bit variant (`(uint64_t)(t > 0 ? t * 1000000000 : 0)`) would store for 3 s: the model exhibits the wrap -/
example : timeoutField (.cast .u64 (.cond (.gt .var (.lit 0 .i32)) (.mul .var (.lit 1000000000 .i32)) (.lit 0 .i32))) 3
    = some 18446744072414584320 := by decide

/-- **One guard, several writes**: an iterator `next` function whose guard asks for `guardK + 1 ≥ maxPushes` free slots
    writes only inside the stack whenever it proceeds — for every stack pointer and capacity. -/
theorem iter_push_in_bounds (e : IterFn) (hc : e.guardCmp = .ge) (hk : e.maxPushes ≤ e.guardK + 1) (sp cap : Nat)
    (hp : e.proceeds sp cap = true) : e.inBounds sp cap := by
  simp [IterFn.proceeds, hc, Cmp.eval] at hp
  simp [IterFn.inBounds]; omega

/-- … and the guard is not stricter than needed: with `maxPushes = guardK + 1` it refuses exactly when the slots do
    not fit (so ERROR_EXEC_STACK_OVERFLOW is raised exactly when the capacity would be exceeded). -/
theorem iter_guard_exact (e : IterFn) (hc : e.guardCmp = .ge) (hk : e.maxPushes = e.guardK + 1) (sp cap : Nat) :
    e.proceeds sp cap = true ↔ e.inBounds sp cap := by
  simp [IterFn.proceeds, IterFn.inBounds, hc, Cmp.eval]; omega

/-- **Every iterator of exec.c satisfies the hypotheses** (table regenerated from the source: guard constant, operator
    and the maximum number of `stack->items[stack->sp++]` writes on any path of each `iter_*_next`). -/
theorem gen_iter_table_sound : iterTable ≠ [] ∧ ∀ e ∈ iterTable, e.guardCmp = .ge ∧ e.maxPushes = e.guardK + 1 := by decide

example : (⟨"iter_dict_next", 1, .ge, 3⟩ : IterFn).proceeds 1 3 = true ∧ ¬ (⟨"iter_dict_next", 1, .ge, 3⟩ : IterFn).inBounds 1 3 := by decide

/-- **Accepted ⇒ the stored offset is the real distance**: whenever the size guard of a site of `_yr_re_emit` lets the
    emission proceed, the 16-bit offset written into the split/jump instruction (`(int16_t) distance`, negative for the
    backward jumps of `e+`/`e*`) equals the real distance — for every site and every distance. With `gen_guards_sound`
    this holds for the guards as they are written in re.c (comparison and bound regenerated from the source). -/
theorem jump_offset_representable {G : Guards} (hG : G.Sound) (i d : Nat) (hi : i < 6) (hacc : G.sizeErr i d = false) :
    storedOffset i d = if sizeBackward i then -(d : Int) else (d : Int) := by
  have hb : ¬ d > sizeBound i := fun h => by have := (hG.size i d hi).2 h; simp [this] at hacc
  unfold storedOffset wrap16
  by_cases hbk : sizeBackward i = true
  · simp only [hbk, ↓reduceIte]
    have : d ≤ 32768 := by simp [sizeBound, hbk] at hb; omega
    split <;> omega
  · simp only [hbk, ↓reduceIte]
    have : d ≤ 32767 := by simp [sizeBound, hbk] at hb; omega
    split <;> omega

/-- … and the guards reject nothing that fits: TOO_LARGE exactly when the distance is not representable. -/
theorem size_guard_exact {G : Guards} (hG : G.Sound) (i d : Nat) (hi : i < 6) :
    G.sizeErr i d = true ↔ storedOffset i d ≠ (if sizeBackward i then -(d : Int) else (d : Int)) ∨ d > 65535 := by
  rw [hG.size i d hi]
  unfold storedOffset wrap16 sizeBound
  by_cases hbk : sizeBackward i = true <;> simp only [hbk, ↓reduceIte, Bool.false_eq_true] <;> (split <;> omega)

/-- what the forward guard of the ALT split would let through if it compared with `-(INT16_MIN)`: distance 32768 is
    stored as -32768 -/
example : storedOffset 3 32768 = -32768 ∧ storedOffset 3 32767 = 32767 ∧ storedOffset 0 32768 = -32768 := by decide

/-- **A new scan starts with every string un-muted**: clearing `YR_BITMASK_SIZE(num_strings)` words covers every
    string index, so a TOO_MANY_MATCHES/CONTINUE of an earlier scan never carries over (whatever the index). -/
theorem clean_disabled_covers_strings (numStrings : Nat) (d : Nat → Bool) (i : Nat) (hi : i < numStrings) :
    cleanDisabled numStrings d i = false := by
  unfold cleanDisabled bitmaskWords
  have : i < 64 * (numStrings / 64 + 1) := by omega
  simp [this]

/-- sizing the memset by a smaller count (e.g. the number of rules) leaves strings muted. Witness: 1 rule, string 64. -/
example : cleanDisabled 1 (fun _ => true) 64 = true ∧ cleanDisabled 1 (fun _ => true) 63 = false := by decide

/-- the source sizes that memset by the number of strings -/
theorem gen_clean_sized_by_strings : cleanDisabledSizedBy = "num_strings" := by decide

/-- **Configuration values survive the set/get round trip**: for a key whose setter and getter use the union member and
    pointer type of the key's own width (32 or 64 bits), every value of that type is read back unchanged, whatever the slot
    held before. -/
theorem cfg_round_trip (k : CfgKey) (w : Nat) (hw : w = 32 ∨ w = 64)
    (hs : k.setMember = w ∧ k.setCast = w ∧ k.getMember = w ∧ k.getCast = w) (old v : Nat) (hv : v < 2 ^ w) :
    cfgRoundTrip k old v = v := by
  obtain ⟨h1, h2, h3, h4⟩ := hs
  unfold cfgRoundTrip cfgRead cfgWrite
  rw [h1, h2, h3, h4]
  rcases hw with rfl | rfl
  · simp only [show ¬ (32 ≥ 64) by omega, ↓reduceIte]
    have e : (2 : Nat) ^ 32 = 4294967296 := by decide
    rw [e] at hv ⊢
    omega
  · simp only [show (64 ≥ 64) by omega, ↓reduceIte]
    have e : (2 : Nat) ^ 64 = 18446744073709551616 := by decide
    rw [e] at hv ⊢
    omega

/-- **Every configuration key of libyara.c is accessed with its own width** (switches of yr_set_configuration /
    yr_get_configuration and the typed wrappers, regenerated from the source): with `cfg_round_trip`,
    `get (set k v) = v` for every key and every value of the key's type. -/
theorem gen_cfg_keys_sound : cfgKeys ≠ [] ∧ ∀ k ∈ cfgKeys, (cfgWidth k = 32 ∨ cfgWidth k = 64) ∧ k.typedGet = cfgWidth k ∧
    k.setMember = cfgWidth k ∧ k.setCast = cfgWidth k ∧ k.getMember = cfgWidth k ∧ k.getCast = cfgWidth k := by decide

/-- reading a 64-bit key through the 32-bit member returns the value modulo 2^32 (4 GiB + 4 KiB becomes 4 KiB, 4 GiB becomes 0) -/
example : cfgRoundTrip ⟨"k", 3, 64, 64, 32, 64, 64, 64⟩ 0 (4294967296 + 4096) = 4096 ∧
          cfgRoundTrip ⟨"k", 3, 64, 64, 32, 64, 64, 64⟩ 0 4294967296 = 0 ∧
          cfgRoundTrip ⟨"k", 3, 64, 64, 64, 64, 64, 64⟩ 7 (4294967296 + 4096) = 4294967296 + 4096 := by decide

/-! ### integer literals and the thread's errno -/

/-- every integer-literal rule of lexer.l (decimal, hex, octal) clears `errno` before the `strtoll` it tests -/
theorem gen_literal_rules_reset_errno :
    litRules.length = 3 ∧ (∀ x ∈ [8, 10, 16], (x, true) ∈ litRules) ∧ ∀ r ∈ litRules, r.2 = true := by decide

/-- **Literal acceptance is history-free**: with the reset in place, whatever `errno` earlier code left behind (a rejected
    literal of an earlier compilation on this thread, an underflowing float literal earlier in the same source), a literal
    is rejected iff its value exceeds INT64_MAX — in particular INT64_MAX itself is accepted in every base. -/
theorem literal_history_free (e : Bool) (n : Nat) :
    (lexInt true e n).1 = (if n > int64Max then .error .intOverflow else .ok n) := by
  unfold lexInt strtollC
  by_cases h : n > int64Max <;> simp [h]

theorem literal_seq_history_free (e : Bool) (ls : List (Nat × Nat)) (hr : ∀ l ∈ ls, l.1 = 8 ∨ l.1 = 10 ∨ l.1 = 16) :
    lexIntSeq litRules e ls = ls.map fun l => if l.2 > int64Max then .error .intOverflow else .ok l.2 := by
  induction ls generalizing e with
  | nil => rfl
  | cons l rest ih =>
    have hres : resetsOf litRules l.1 = true := by
      rcases hr l (by simp) with h | h | h <;> rw [h] <;> decide
    show (lexInt (resetsOf litRules l.1) e l.2).1 :: lexIntSeq litRules (lexInt (resetsOf litRules l.1) e l.2).2 rest = _
    rw [hres, literal_history_free, ih _ (fun x hx => hr x (by simp [hx]))]
    rfl

/-- what the reset prevents: after an overflow, INT64_MAX in a rule without the reset is rejected -/
example : (lexIntSeq [(10, true), (16, true), (8, false)] false [(10, int64Max + 1), (8, int64Max)]) =
    [.error .intOverflow, .error .intOverflow] := by decide

/-! ### several rule files through one compiler -/

theorem gen_add_file_pops_own_name : addFilePopsOwnName = true := by decide

/-- `yr_compiler_add_file` leaves the include stack as it found it … -/
theorem add_file_restores_stack (G : Guards) (MAX : Nat) (stack : List String) (name : String) (chain st : List String)
    (h : addFile G MAX addFilePopsOwnName stack name chain = .ok st) : st = stack := by
  rw [gen_add_file_pops_own_name] at h
  unfold addFile at h
  split at h
  · cases h
  · split at h
    · cases h
    · simpa using h.symm

/-- … so **every file of a sequence meets the include-depth limit exactly as if it were the compiler's first file**:
    the outcomes of a sequence are those of the single files on an empty stack, up to the first error. -/
theorem file_seq_independent (G : Guards) (MAX : Nat) (fs : List (String × List String)) :
    addFileSeq G MAX addFilePopsOwnName [] fs =
      addFileSeq G MAX addFilePopsOwnName [] (fs.take 1) ++
        (match fs with
         | [] => []
         | f :: rest => if (addFile G MAX addFilePopsOwnName [] f.1 f.2).isOk then addFileSeq G MAX addFilePopsOwnName [] rest else []) := by
  cases fs with
  | nil => rfl
  | cons f rest =>
    obtain ⟨name, chain⟩ := f
    cases hf : addFile G MAX addFilePopsOwnName [] name chain with
    | error e => simp [addFileSeq, hf, Except.isOk, Except.toBool]
    | ok st =>
      have := add_file_restores_stack G MAX [] name chain st hf
      subst this
      simp [addFileSeq, hf, Except.isOk, Except.toBool]

/-- what the matching pop prevents: with the name left on the stack the third plain file of a compiler with `MAX = 2` is rejected -/
example : addFileSeq Guards.spec 2 false [] [("a", []), ("b", []), ("c", [])] = [none, none, some .includeDepth] ∧
    addFileSeq Guards.spec 2 true [] [("a", []), ("b", []), ("c", [])] = [none, none, none] := by decide

/-- the strings-per-rule count of `countStrings` is over ALL strings of the rule — referenced, anonymous and unreferenced `$_…`
    alike: the translated loop body has no way round `strings_in_rule++` -/
theorem gen_spr_counts_every_string : sprCountsEveryString = true := by decide

/-! ### resumed scans -/

/-- **One scan, one deadline**: the stopwatch is not restarted when a suspended scan is resumed, so the time compared with
    the timeout is the time since the scan's first call — a scan whose single waits are all shorter than the timeout still
    times out once their sum exceeds it. -/
theorem resume_deadline_from_first_call (ws : List Nat) (timeout : Nat) :
    seenElapsed stopwatchRestartsOnResume ws = ws.sum ∧
    (Guards.spec.blockExpired (seenElapsed stopwatchRestartsOnResume ws) timeout = true ↔ ws.sum > timeout) := by
  have e : stopwatchRestartsOnResume = false := by decide
  simp [seenElapsed, e, Guards.spec]

example : seenElapsed true [300, 300, 300, 300, 300] = 300 ∧ seenElapsed false [300, 300, 300, 300, 300] = 1500 := by decide

variable {G : Guards} (hG : G.Sound)
include hG
set_option linter.unusedSectionVars false

/-! ### matches per string -/

/-- **Cap on one list**: the count never exceeds `MAX`; at `MAX` the list is returned unchanged
    with TOO_MANY_MATCHES (even for an offset already present); below `MAX` the call succeeds. -/
theorem insertMatch_cap (MAX : Nat) (m : Match) (rep : Bool) (l : MList) (h : l.count ≤ MAX) :
    (addMatch G MAX m rep l).1.count ≤ MAX ∧
    (l.count = MAX → addMatch G MAX m rep l = (l, some .tooManyMatches)) ∧
    (l.count < MAX → (addMatch G MAX m rep l).2 = none) := by
  refine ⟨addMatch_count_le hG MAX m rep l h, ?_, ?_⟩
  · intro he
    unfold addMatch
    rw [if_pos ((hG.cap _ _ h).2 he)]
  · intro hlt
    unfold addMatch
    have : ¬ G.capReached l.count MAX = true := fun hp => by have := (hG.cap _ _ h).1 hp; omega
    rw [if_neg this]

/-- A successful insertion keeps the list strictly ordered, keeps `count` equal to the number of
    nodes, and the stored offsets are exactly the old ones plus the new one. -/
theorem insertMatch_list (MAX : Nat) (m : Match) (rep : Bool) (l : MList)
    (hd : Desc l.items) (hc : l.count = l.items.length) (hok : (addMatch G MAX m rep l).2 = none) :
    Desc (addMatch G MAX m rep l).1.items ∧
    (addMatch G MAX m rep l).1.count = (addMatch G MAX m rep l).1.items.length ∧
    ∀ o, o ∈ (addMatch G MAX m rep l).1.items.map (·.off) ↔ o = m.off ∨ o ∈ l.items.map (·.off) := by
  unfold addMatch at hok ⊢
  split
  · rename_i hcap; simp [hcap] at hok
  · refine ⟨insertDesc_desc m rep l.items hd, ?_, insertDesc_offsets m rep l.items⟩
    simp only [insertDesc_length]
    split <;> omega

example : (addMatch Guards.spec 2 ⟨5, 1⟩ false ⟨2, [⟨9, 1⟩, ⟨3, 1⟩]⟩) = (⟨2, [⟨9, 1⟩, ⟨3, 1⟩]⟩, some .tooManyMatches) ∧
          (addMatch Guards.spec 3 ⟨5, 1⟩ false ⟨2, [⟨9, 1⟩, ⟨3, 1⟩]⟩) = (⟨3, [⟨9, 1⟩, ⟨5, 1⟩, ⟨3, 1⟩]⟩, none) := by decide

/-- **Counts stay bounded over a whole scan**, for every candidate sequence, every callback
    behaviour, also in a scan that is aborted. -/
theorem scan_counts_bounded (MAX : Nat) (cont : Nat → Bool) (evs : List Ev) (j : Nat) :
    ((scanEvents G MAX cont SState.init evs).1.lists j).count ≤ MAX :=
  (scanEvents_weak hG MAX cont evs SState.init (SInv_init hG MAX)).1 j

/-- **The warning callback is issued at most once per string and scan** (documented in capi.rst). -/
theorem too_many_called_once (MAX : Nat) (cont : Nat → Bool) (evs : List Ev) :
    (scanEvents G MAX cont SState.init evs).1.warned.Nodup :=
  (scanEvents_weak hG MAX cont evs SState.init (SInv_init hG MAX)).2

/-- After CALLBACK_CONTINUE the string is muted: a muted string's list never changes again. -/
theorem muted_string_unchanged (MAX : Nat) (cont : Nat → Bool) (evs : List Ev) (s : SState) (j : Nat)
    (hm : s.disabled j = true) :
    (scanEvents G MAX cont s evs).1.lists j = s.lists j ∧ (scanEvents G MAX cont s evs).1.disabled j = true := by
  induction evs generalizing s with
  | nil => exact ⟨rfl, hm⟩
  | cons e es ih =>
    have hstep : (verifyStep G MAX cont s e).1.lists j = s.lists j ∧ (verifyStep G MAX cont s e).1.disabled j = true := by
      by_cases hj : e.sid = j
      · subst hj; unfold verifyStep; rw [if_pos hm]; exact ⟨rfl, hm⟩
      · have := verifyStep_other hG MAX cont s e j hj; exact ⟨this.1, by rw [this.2]; exact hm⟩
    simp only [scanEvents]
    split
    · rename_i s' heq
      rw [heq] at hstep
      have := ih s' hstep.2
      exact ⟨by rw [this.1]; exact hstep.1, this.2⟩
    · rename_i s' err heq
      rw [heq] at hstep
      exact hstep

/-- **Frame property**: in a scan that completes, the matches (and mute bit) of string `j` are
    exactly those of a scan that sees only `j`'s candidates — a limit hit by another string never
    changes `j`'s results. Holds for arbitrary start states agreeing on `j`. -/
theorem scan_frame (MAX : Nat) (cont : Nat → Bool) (evs : List Ev) (j : Nat) (s t : SState)
    (hl : s.lists j = t.lists j) (hd : s.disabled j = t.disabled j)
    (hok : (scanEvents G MAX cont s evs).2 = none) :
    (scanEvents G MAX cont s evs).1.lists j = (scanEvents G MAX cont t (evs.filter (·.sid = j))).1.lists j ∧
    (scanEvents G MAX cont t (evs.filter (·.sid = j))).2 = none := by
  induction evs generalizing s t with
  | nil => exact ⟨hl, rfl⟩
  | cons e es ih =>
    simp only [scanEvents] at hok
    by_cases hj : e.sid = j
    · have hf : (e :: es).filter (·.sid = j) = e :: es.filter (·.sid = j) := by simp [List.filter, hj]
      rw [hf]
      have hsame := verifyStep_same hG MAX cont s t e (by rw [hj]; exact hl) (by rw [hj]; exact hd)
      rw [hj] at hsame
      simp only [scanEvents]
      cases hs : verifyStep G MAX cont s e with
      | mk s' r =>
        cases ht : verifyStep G MAX cont t e with
        | mk t' r' =>
          rw [hs, ht] at hsame
          rw [hs] at hok
          obtain ⟨h1, h2, h3⟩ := hsame
          simp only at h1 h2 h3
          subst h3
          cases r with
          | none => simp only at hok ⊢; exact ih s' t' h1 h2 hok
          | some err => simp at hok
    · have hf : (e :: es).filter (·.sid = j) = es.filter (·.sid = j) := by simp [List.filter, hj]
      rw [hf]
      have hoth := verifyStep_other hG MAX cont s e j hj
      simp only [scanEvents]
      cases hs : verifyStep G MAX cont s e with
      | mk s' r =>
        rw [hs] at hoth hok
        cases r with
        | none =>
          simp only at hok ⊢
          exact ih s' t (by rw [hoth.1]; exact hl) (by rw [hoth.2]; exact hd) hok
        | some err => simp at hok

/-- Non-vacuity: string 0 hits a cap of 2 and is muted, string 1's list equals its solo scan. -/
example :
    let evs : List Ev := [⟨0, ⟨0, 1⟩⟩, ⟨1, ⟨1, 1⟩⟩, ⟨0, ⟨2, 1⟩⟩, ⟨0, ⟨4, 1⟩⟩, ⟨1, ⟨5, 1⟩⟩, ⟨0, ⟨6, 1⟩⟩]
    let r := scanEvents Guards.spec 2 (fun _ => true) SState.init evs
    r.2 = none ∧ r.1.warned = [0] ∧ (r.1.lists 0).count = 2 ∧ r.1.lists 1 = ⟨2, [⟨5, 1⟩, ⟨1, 1⟩]⟩ ∧
    (scanEvents Guards.spec 2 (fun _ => true) SState.init (evs.filter (·.sid = 1))).1.lists 1 = r.1.lists 1 := by decide

/-! ### evaluation stack -/

/-- **VM stack**: for every capacity and every push/pop program started with `sp ≤ cap`,
    ERROR_EXEC_STACK_OVERFLOW is raised exactly when the program would need more than `cap`
    slots, and otherwise the stack pointer never leaves `[0, cap]`. -/
theorem vm_stack_bound (cap : Nat) (ops : List StkOp) (sp : Nat) (h : sp ≤ cap) :
    (vmRun G cap sp ops = none ↔ peak sp ops > cap) ∧
    (∀ sp', vmRun G cap sp ops = some sp' → sp' ≤ cap ∧ peak sp ops ≤ cap) := by
  refine ⟨vmRun_none_iff hG cap ops sp h, ?_⟩
  intro sp' hr
  refine ⟨vmRun_some_le hG cap ops sp sp' h hr, ?_⟩
  have := vmRun_none_iff hG cap ops sp h
  rw [hr] at this
  simp at this
  omega

example : vmRun Guards.spec 2 0 [.push, .push, .pop, .push] = some 2 ∧ vmRun Guards.spec 2 0 [.push, .push, .push] = none ∧
          peak 0 [.push, .push, .push] = 3 := by decide

/-! ### compile-time counters -/

/-- **Loop nesting**: for every `for`-structure (sequence of loop entries/exits), the compiler
    reports LOOP_NESTING_LIMIT_EXCEEDED exactly when some point is nested deeper than `MAX`. -/
theorem loop_nesting_limit (MAX : Nat) (evs : List LoopEv) :
    loopRun G MAX 0 evs = none ↔ loopPeak 0 evs > MAX :=
  loopRun_none_iff hG MAX evs 0 (Nat.zero_le _)

/-- `n` loops nested inside each other are accepted iff `n ≤ MAX`. -/
theorem nested_loops_accepted_iff (MAX n : Nat) :
    (loopRun G MAX 0 (List.replicate n .enter ++ List.replicate n .exit)).isSome ↔ n ≤ MAX := by
  have h := loop_nesting_limit hG MAX (List.replicate n .enter ++ List.replicate n .exit)
  rw [loopPeak_nested hG n 0] at h
  cases hr : loopRun G MAX 0 (List.replicate n .enter ++ List.replicate n .exit) with
  | none => simp; have := h.1 hr; omega
  | some d => simp; rw [hr] at h; simp at h; omega

example : (loopRun Guards.spec 4 0 (List.replicate 4 .enter ++ List.replicate 4 .exit)).isSome ∧
          loopRun Guards.spec 4 0 (List.replicate 5 .enter ++ List.replicate 5 .exit) = none := by decide

/-- **Include depth**: a chain of distinct file names on top of a stack of `k ≤ MAX` names is
    accepted iff `k + length ≤ MAX`; otherwise the error is "depth exceeded"; the stack never
    grows beyond `MAX` entries (the size of `file_name_stack`). -/
theorem include_depth_limit (MAX : Nat) (names stack : List String) (hlen : stack.length ≤ MAX)
    (hnd : names.Nodup) (hdisj : ∀ n ∈ names, ¬ n ∈ stack) :
    ((∃ st, pushChain G MAX stack names = .ok st ∧ st.length = stack.length + names.length) ↔
        stack.length + names.length ≤ MAX) ∧
    (stack.length + names.length > MAX → pushChain G MAX stack names = .error .includeDepth) ∧
    (∀ st, pushChain G MAX stack names = .ok st → st.length ≤ MAX) :=
  ⟨pushChain_ok_iff hG MAX names stack hlen hnd hdisj, pushChain_error_depth hG MAX names stack hlen hnd hdisj,
   fun st h => pushChain_len_le hG MAX names stack st hlen h⟩

/-- A name already on the stack is reported as circular reference, whatever the depth. -/
theorem include_circular_first (MAX : Nat) (stack : List String) (n : String) (h : n ∈ stack) :
    pushFile G MAX stack n = .error .includeCircular := by
  unfold pushFile
  have : stack.contains n = true := by simpa using h
  rw [if_pos this]

example : pushChain Guards.spec 2 [] ["a", "b"] = .ok ["b", "a"] ∧ pushChain Guards.spec 2 [] ["a", "b", "c"] = .error .includeDepth ∧
          pushChain Guards.spec 2 [] ["a", "a"] = .error .includeCircular := by decide

/-- **Strings per rule**: a rule whose strings amount to `n` `YR_STRING`s is rejected iff `n > M`. -/
theorem strings_per_rule_limit (M n : Nat) : countStrings G M 0 n = none ↔ n > M := by
  have := countStrings_none_iff hG M n 0 (Nat.zero_le _)
  simpa using this

example : countStrings Guards.spec 3 0 3 = some 3 ∧ countStrings Guards.spec 3 0 4 = none ∧ countStrings Guards.spec 0 0 1 = none := by decide

/-- **Identifier length**: "identifier too long" exactly above the documented maximum (128). -/
theorem identifier_length_limit (n : Nat) : G.identTooLong n = true ↔ n > specIdentMax :=
  hG.ident n

/-- **Integer literals**: a literal is accepted iff its mathematical value fits `int64`, and then
    the value is exact (no silent wrap-around in the KB/MB multiplication). -/
theorem int_literal_range (n : Nat) (suf : Suffix) (v : Nat) :
    intLiteral G n suf = .ok v ↔
      (n * (match suf with | .none => 1 | .kb => 1024 | .mb => 1048576) ≤ int64Max ∧
       v = n * (match suf with | .none => 1 | .kb => 1024 | .mb => 1048576)) := by
  unfold intLiteral
  cases suf with
  | none =>
    simp only [Nat.mul_one]
    split
    · constructor
      · intro h; cases h
      · intro h; omega
    · constructor
      · intro h; cases h; exact ⟨by omega, rfl⟩
      · intro h; rw [h.2]
  | kb =>
    simp only [hG.kbMulEq]
    split
    · constructor
      · intro h; cases h
      · intro h; simp [int64Max] at *; omega
    · split
      · rename_i hk
        constructor
        · intro h; cases h
        · intro h; have := (hG.kb n).1 hk; omega
      · rename_i hk
        have : ¬ n * 1024 > int64Max := fun hx => hk ((hG.kb n).2 hx)
        constructor
        · intro h; cases h; exact ⟨by omega, rfl⟩
        · intro h; rw [h.2]
  | mb =>
    simp only [hG.mbMulEq]
    split
    · constructor
      · intro h; cases h
      · intro h; simp [int64Max] at *; omega
    · split
      · rename_i hk
        constructor
        · intro h; cases h
        · intro h; have := (hG.mb n).1 hk; omega
      · rename_i hk
        have : ¬ n * 1048576 > int64Max := fun hx => hk ((hG.mb n).2 hx)
        constructor
        · intro h; cases h; exact ⟨by omega, rfl⟩
        · intro h; rw [h.2]

example : intLiteral Guards.spec 9007199254740991 .kb = .ok 9223372036854774784 ∧
          intLiteral Guards.spec 9007199254740992 .kb = .error .intOverflow ∧
          intLiteral Guards.spec 9223372036854775808 .none = .error .intOverflow := by decide

/-! ### regular expressions -/

/-- **Split ids**: for every expression of the modelled fragment and every limit, the emitter
    assigns ids `0 … splits r − 1`; it fails with TOO_COMPLEX only if `splits r > MAX`, always fails
    if `splits r > MAX`, and a successful emission used at most `MAX` ids (so every id is `< MAX`,
    the size of `splits_executed[]` in the executor). -/
theorem emit_split_limit (MAX : Nat) (r : Re) :
    (emitCode G MAX r = .error .reTooComplex → splits r > MAX) ∧
    (splits r > MAX → ∃ e, emitCode G MAX r = .error e) ∧
    (∀ c, emitCode G MAX r = .ok c → c.split = splits r ∧ splits r ≤ MAX) := by
  have h := emit_spec hG MAX r ⟨0, 0⟩ (Nat.zero_le _)
  unfold emitCode
  cases hr : emit G MAX r ⟨0, 0⟩ with
  | ok c =>
    rw [hr] at h
    have h' : c.split = 0 + splits r ∧ c.split ≤ MAX := h
    refine ⟨(by intro x; cases x), ?_, ?_⟩
    · intro hb; omega
    · intro c' hc'; cases hc'; simp; omega
  | error e =>
    rw [hr] at h
    refine ⟨?_, fun _ => ⟨e, rfl⟩, by intro c hc; cases hc⟩
    intro he
    cases he
    have h' : 0 + splits r > MAX := h
    omega

/-- `abcd` followed by `n` optional atoms (`x?` = `{0,1}`): accepted iff `n ≤ MAX` (sizes stay small). -/
example : (emitCode Guards.spec 3 (.cat .lit (.cat (.range 0 1 .lit) (.cat (.range 0 1 .lit) (.range 0 1 .lit))))) = .ok ⟨3, 21⟩ ∧
          (emitCode Guards.spec 2 (.cat .lit (.cat (.range 0 1 .lit) (.cat (.range 0 1 .lit) (.range 0 1 .lit))))) = .error .reTooComplex ∧
          splits (.range 2 4 (.alt .lit .lit)) = 4 := by decide

/-- **Fibers**: for every create/release schedule the pool never allocates more than `MAX`
    fibers, allocated = free + live, and a creation fails (TOO_MANY_RE_FIBERS) exactly when the
    free list is empty and `MAX` fibers are live. -/
theorem fiber_limit (MAX : Nat) (ops : List FibOp) :
    PoolInv MAX (fibRun G MAX ⟨0, 0, 0⟩ ops).1 ∧
    ∀ p, PoolInv MAX p → ((fibStep G MAX p .create).2 = some .tooManyFibers ↔ (p.free = 0 ∧ p.live = MAX)) := by
  refine ⟨fibRun_inv hG MAX ops ⟨0, 0, 0⟩ ⟨Nat.zero_le _, rfl⟩, ?_⟩
  intro p hp
  simp only [fibStep]
  split
  · rename_i hf; simp; omega
  · rename_i hf
    split
    · rename_i hfull
      have := (hG.fiber _ _ hp.bound).1 hfull
      have := hp.conserve
      simp; omega
    · rename_i hfull
      have hne : p.allocated ≠ MAX := fun e => hfull ((hG.fiber _ _ hp.bound).2 e)
      have := hp.conserve
      simp; omega

/-- **A scan that hits the fiber limit leaves the scanner usable**: every `yr_re_exec` (whatever it needs, whether it
    fails or not) returns with no fiber live and the pool invariant intact; it fails exactly when it needs more
    than `MAX` fibers at once. Hence, for every sequence of scans with one scanner, each scan's outcome depends only
    on its own need — a hostile scan never changes the result of the scans that follow. -/
theorem fiber_limit_scanner_reusable (MAX need : Nat) (p : Pool) (hp : PoolInv MAX p) (h0 : p.live = 0) :
    PoolInv MAX (reExec G MAX need p).1 ∧ (reExec G MAX need p).1.live = 0 ∧
    ((reExec G MAX need p).2 = some .tooManyFibers ↔ need > MAX) ∧ ((reExec G MAX need p).2 = none ↔ need ≤ MAX) := by
  suffices H : ∀ (need : Nat) (p : Pool), PoolInv MAX p →
      PoolInv MAX (reExec G MAX need p).1 ∧ (reExec G MAX need p).1.live = 0 ∧
      ((reExec G MAX need p).2 = some .tooManyFibers ↔ p.live + need > MAX) ∧ ((reExec G MAX need p).2 = none ↔ p.live + need ≤ MAX) by
    have := H need p hp
    rw [h0] at this
    simpa using this
  intro need
  induction need with
  | zero =>
    intro p hp
    have hb := hp.bound; have hc := hp.conserve
    have hinv : PoolInv MAX (releaseAll p) := ⟨hb, by show p.allocated = p.free + p.live + 0; omega⟩
    refine ⟨hinv, rfl, ?_, ?_⟩
    · show (none : Option Err) = some .tooManyFibers ↔ p.live + 0 > MAX
      constructor
      · intro h; cases h
      · intro h; omega
    · show (none : Option Err) = none ↔ p.live + 0 ≤ MAX
      constructor
      · intro _; omega
      · intro _; rfl
  | succ n ih =>
    intro p hp
    have hb := hp.bound; have hc := hp.conserve
    simp only [reExec]
    by_cases hfree : p.free > 0
    · have e : fibStep G MAX p .create = (⟨p.allocated, p.free - 1, p.live + 1⟩, none) := by simp [fibStep, hfree]
      rw [e]
      have hp' : PoolInv MAX ⟨p.allocated, p.free - 1, p.live + 1⟩ := ⟨hb, by show p.allocated = p.free - 1 + (p.live + 1); omega⟩
      have := ih _ hp'
      refine ⟨this.1, this.2.1, ?_, ?_⟩
      · rw [this.2.2.1]; show p.live + 1 + n > MAX ↔ p.live + (n + 1) > MAX; omega
      · rw [this.2.2.2]; show p.live + 1 + n ≤ MAX ↔ p.live + (n + 1) ≤ MAX; omega
    · by_cases hfull : G.fiberFull p.allocated MAX = true
      · have e : fibStep G MAX p .create = (p, some .tooManyFibers) := by simp [fibStep, hfree, hfull]
        rw [e]
        have hmax := (hG.fiber _ _ hb).1 hfull
        have hinv : PoolInv MAX (releaseAll p) := ⟨hb, by show p.allocated = p.free + p.live + 0; omega⟩
        refine ⟨hinv, rfl, ?_, ?_⟩
        · show some Err.tooManyFibers = some .tooManyFibers ↔ p.live + (n + 1) > MAX
          constructor
          · intro _; omega
          · intro _; rfl
        · show some Err.tooManyFibers = none ↔ p.live + (n + 1) ≤ MAX
          constructor
          · intro h; cases h
          · intro h; omega
      · have e : fibStep G MAX p .create = (⟨p.allocated + 1, p.free, p.live + 1⟩, none) := by simp [fibStep, hfree, hfull]
        rw [e]
        have hne : p.allocated ≠ MAX := fun e => hfull ((hG.fiber _ _ hb).2 e)
        have hp' : PoolInv MAX ⟨p.allocated + 1, p.free, p.live + 1⟩ :=
          ⟨by show p.allocated + 1 ≤ MAX; omega, by show p.allocated + 1 = p.free + (p.live + 1); omega⟩
        have := ih _ hp'
        refine ⟨this.1, this.2.1, ?_, ?_⟩
        · rw [this.2.2.1]; show p.live + 1 + n > MAX ↔ p.live + (n + 1) > MAX; omega
        · rw [this.2.2.2]; show p.live + 1 + n ≤ MAX ↔ p.live + (n + 1) ≤ MAX; omega

example : reExecSeq Guards.spec 4 ⟨0, 0, 0⟩ [2, 9, 2, 4, 5] = [none, some .tooManyFibers, none, none, some .tooManyFibers] := by decide

example : (fibRun Guards.spec 2 ⟨0, 0, 0⟩ [.create, .create, .create, .release, .create]).2 =
          [none, none, some .tooManyFibers, none, none] := by decide

/-! ### timeouts -/

/-- **Timeout cadence of the VM**: with a timeout set, after `k` instructions the clock has been
    read exactly `⌊(cycle + k) / N⌋` times — so between two consecutive clock reads the VM executes
    exactly `N` instructions, and any `N` consecutive instructions contain a read. -/
theorem timeout_cadence (N : Nat) (hN : N ≥ 1) (cycle k : Nat) (h : cycle < N) :
    vmReads G N cycle k = (cycle + k) / N ∧ vmReads G N cycle N ≥ 1 := by
  refine ⟨vmReads_eq hG N hN k cycle h, ?_⟩
  rw [vmReads_eq hG N hN N cycle h]
  have : N ≤ cycle + N := by omega
  exact (Nat.le_div_iff_mul_le (by omega)).2 (by omega)

theorem vmReadsProg_nil_writers (N : Nat) (prog : List String) (cycle : Nat) :
    vmReadsProg G N [] cycle prog = vmReads G N cycle prog.length := by
  induction prog generalizing cycle with
  | nil => rfl
  | cons op rest ih => simp [vmReadsProg, vmReads, ih]

/-- **Timeout cadence across rule boundaries**: no opcode of the translated interpreter writes the counter
    (`vmCycleWriters = []`), so for ANY executed instruction sequence — however it is cut into rules
    (`OP_INIT_RULE … OP_MATCH_RULE`) — the clock is read exactly `⌊(cycle + length) / N⌋` times: at most `N`
    instructions run between two deadline checks, also when every single rule is shorter than `N`. -/
theorem timeout_cadence_across_rules (N : Nat) (hN : N ≥ 1) (cycle : Nat) (h : cycle < N) (prog : List String) :
    vmReadsProg G N vmCycleWriters cycle prog = (cycle + prog.length) / N ∧
    (prog.length ≥ N → vmReadsProg G N vmCycleWriters cycle prog ≥ 1) := by
  have e : vmCycleWriters = [] := by decide
  rw [e, vmReadsProg_nil_writers hG]
  refine ⟨vmReads_eq hG N hN prog.length cycle h, fun hl => ?_⟩
  rw [vmReads_eq hG N hN prog.length cycle h]
  exact (Nat.le_div_iff_mul_le (by omega)).2 (by omega)

/-- **Timeout cadence of the block scanner**: any window of `k` consecutive bytes contains at
    least `⌊k / S⌋` clock reads (one per `S` bytes), wherever the window starts. -/
theorem block_timeout_cadence (S : Nat) (hS : S ≥ 1) (a k : Nat) : blockReads S a k ≥ k / S :=
  blockReads_ge hG S hS k a

/-- what the theorem excludes: with a counter restarted by `OP_INIT_RULE`, rules shorter than `N` never read the clock -/
example : vmReadsProg Guards.spec 10 ["OP_INIT_RULE"] 0
    ((List.replicate 6 ("OP_INIT_RULE" :: List.replicate 4 "OP_PUSH")).flatten) = 0 ∧
    vmReadsProg Guards.spec 10 [] 0 ((List.replicate 6 ("OP_INIT_RULE" :: List.replicate 4 "OP_PUSH")).flatten) = 3 := by decide

/-- Once the clock has passed the deadline, the next clock read reports the timeout
    (the comparisons are strict `>`: a scan is never cut short before the deadline). -/
theorem timeout_detected (elapsed timeout : Nat) :
    (G.vmExpired elapsed timeout = true ↔ elapsed > timeout) ∧ (G.blockExpired elapsed timeout = true ↔ elapsed > timeout) :=
  ⟨hG.vmExp elapsed timeout, hG.blockExp elapsed timeout⟩

example : vmReads Guards.spec 10 0 25 = 2 ∧ vmReads Guards.spec 10 9 1 = 1 ∧ blockReads 8 1 8 = 1 ∧ blockReads 8 0 17 = 3 := by decide


end YaraModel.Limits
