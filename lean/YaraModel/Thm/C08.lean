/-
  C08 — Saved rules behave identically once loaded.
  Property theorems only (helpers: Lemmas/Arena*.lean).  Model: Model/Arena.lean (arena.c
  yr_arena_save_stream / yr_arena_load_stream).  `WF a` is the protocol under which the compiler
  uses the arena (every stored pointer is registered and points into used bytes); that the real
  compiler obeys it is what the correspondence harness samples.
-/
import YaraModel.Lemmas.ArenaRoundTrip
import YaraModel.Lemmas.ArenaChunks
import YaraModel.Lemmas.ArenaExample
namespace YaraModel.Arena
open YaraModel.Gen.ArenaLayout

/-- **The original stays usable**: after yr_arena_save_stream has converted every registered pointer
    to a reference, written the buffers and converted back, the arena is exactly what it was. -/
theorem save_restores {a : Arena} (h : WF a) : afterSave a = a := afterSave_eq h

/-- None of the asserts of yr_arena_save_stream (`assert(found)`, the asserts of
    yr_arena_ref_to_ptr) fires on a well-formed arena; the call writes `save a` and leaves `a`. -/
theorem save_no_assert {a : Arena} (h : WF a) : saveFull a = .ok (save a, a) := by
  unfold saveFull
  rw [if_pos ⟨saveOk_of_wf h, restoreOk_of_wf h⟩, afterSave_eq h]

/-- **The bytes written depend only on the rules**, never on process addresses, buffer capacities
    or the history of reallocations: they are a function of the abstract arena. -/
theorem save_address_free {a a' : Arena} (h : abs a = abs a') : save a = save a' := by
  have e : ∀ x : Arena, save x = saveOfAbs (abs x) := by
    intro x
    unfold save saveOfAbs abs
    have hl : (bodies (toRefs x)).length = x.bufs.length := by rw [toRefs_eq]; simp [bodies]
    simp only [hl, bodies_toRefs_lengths]
  rw [e, e, h]

/-- **Round trip.** For every well-formed arena (buffers below 2 GiB), every loader configuration and every
    allocator that hands out non-null, non-overlapping blocks, loading the saved image succeeds and
    yields an arena with the same abstract content: same bytes, every registered pointer denoting the
    same (buffer, offset), same relocation list — whatever the new addresses are. -/
theorem load_save (cfg : LoaderCfg) {a : Arena} (h : WF a) (hs2 : ∀ b ∈ a.bufs, b.data.length ≤ 2 ^ 31)
    (alloc : Nat → Nat) (hA : RangesOk (loadedBufs alloc 0 (bodies (toRefs a)))) (hnz : ∀ i, alloc i ≠ 0) :
    ∃ a', load cfg alloc (save a) = .ok a' ∧ abs a' = abs a := by
  have ⟨h1, h2⟩ := load_save_core cfg h hs2 alloc hA hnz
  refine ⟨loadedArena alloc a, ?_, h2⟩
  have := h1 a.relocs h.slots.1 (fun r hr => hr)
  rw [save_split]
  exact this

/-- **save (load (save r)) = save r**: re-saving the loaded rules writes the same bytes. -/
theorem resave_identical (cfg : LoaderCfg) {a : Arena} (h : WF a) (hs2 : ∀ b ∈ a.bufs, b.data.length ≤ 2 ^ 31)
    (alloc : Nat → Nat) (hA : RangesOk (loadedBufs alloc 0 (bodies (toRefs a)))) (hnz : ∀ i, alloc i ≠ 0) :
    ∃ a', load cfg alloc (save a) = .ok a' ∧ save a' = save a := by
  obtain ⟨a', h1, h2⟩ := load_save cfg h hs2 alloc hA hnz
  exact ⟨a', h1, save_address_free h2⟩

/-- **Any chunking.** A stream obeying the fread contract that delivers its content in chunks of
    arbitrary sizes (`cs`; empty chunks allowed) is, for the loader, indistinguishable from the
    concatenation: same result, same error, for every content (valid image or not). -/
theorem load_chunked (cfg : LoaderCfg) (alloc : Nat → Nat) (cs : List Bytes) :
    loadVia cfg alloc cs = load cfg alloc cs.flatten :=
  loadVia_eq cfg alloc cs

/-- … in particular a saved image delivered one byte at a time -/
example : loadVia loaderCfg exAlloc ((save exArena).map (fun b => [b])) = load loaderCfg exAlloc (save exArena) := by
  rw [load_chunked]; congr 1

/-- the hypotheses of the round trip are satisfiable: the example arena, loaded at 1 MiB-spaced addresses -/
example : ∃ a', load loaderCfg exAlloc (save exArena) = .ok a' ∧ abs a' = abs exArena :=
  load_save loaderCfg exArena_wf (by decide) exAlloc
    ⟨by decide, by decide, by decide⟩ (by intro i; unfold exAlloc; omega)

/-- the hypotheses are satisfiable (three buffers, two registered pointers, one of them non-null) -/
example : afterSave exArena = exArena ∧ saveFull exArena = .ok (save exArena, exArena) :=
  ⟨save_restores exArena_wf, save_no_assert exArena_wf⟩

end YaraModel.Arena
