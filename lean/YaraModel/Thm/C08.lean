/-
  C08 — Saved rules behave identically once loaded.
  Property theorems only (helpers: Lemmas/Arena*.lean).  Model: Model/Arena.lean (arena.c
  yr_arena_save_stream / yr_arena_load_stream).  `WF a` is the protocol under which the compiler
  uses the arena (every stored pointer is registered and points into used bytes); that the real
  compiler obeys it is what the correspondence harness samples.
-/
import YaraModel.Lemmas.ArenaRoundTrip
import YaraModel.Lemmas.ArenaChunks
import YaraModel.Lemmas.ArenaExample
import YaraModel.Lemmas.ArenaExec
namespace YaraModel.Arena
open YaraModel.Gen.ArenaLayout

/-- **The original stays usable**: after yr_arena_save_stream has converted every registered pointer
    to a reference, written the buffers and converted back, the arena is exactly what it was. -/
theorem save_restores {a : Arena} (h : WF a) : afterSave a = a := afterSave_eq h

/-- None of the asserts of yr_arena_save_stream (`assert(found)`, the asserts of
    yr_arena_ref_to_ptr) fires on a well-formed arena; the call writes `save a` and leaves `a`. -/
theorem save_no_assert {a : Arena} (h : WF a) : saveFull a = .ok (save a, a) := by
  unfold saveFull
  rw [if_pos ⟨saveOk_of_wf h, restoreOk_of_wf h⟩, afterSave_eq h]

/-- **The bytes written depend only on the rules**, never on process addresses, buffer capacities
    or the history of reallocations: they are a function of the abstract arena. -/
theorem save_address_free {a a' : Arena} (h : abs a = abs a') : save a = save a' := by
  have e : ∀ x : Arena, save x = saveOfAbs (abs x) := by
    intro x
    unfold save saveOfAbs abs
    have hl : (bodies (toRefs x)).length = x.bufs.length := by rw [toRefs_eq]; simp [bodies]
    simp only [hl, bodies_toRefs_lengths]
  rw [e, e, h]

/-- **Round trip.** For every well-formed arena (buffers below 2 GiB), every loader configuration and every
    allocator that hands out non-null, non-overlapping blocks, loading the saved image succeeds and
    yields an arena with the same abstract content: same bytes, every registered pointer denoting the
    same (buffer, offset), same relocation list — whatever the new addresses are. -/
theorem load_save (cfg : LoaderCfg) {a : Arena} (h : WF a) (hs2 : ∀ b ∈ a.bufs, b.data.length ≤ 2 ^ 31)
    (alloc : Nat → Nat) (hA : RangesOk (loadedBufs alloc 0 (bodies (toRefs a)))) (hnz : ∀ i, alloc i ≠ 0) :
    ∃ a', load cfg alloc (save a) = .ok a' ∧ abs a' = abs a := by
  have ⟨h1, h2⟩ := load_save_core cfg h hs2 alloc hA hnz
  refine ⟨loadedArena alloc a, ?_, h2⟩
  have := h1 a.relocs h.slots.1 (fun r hr => hr)
  rw [save_split]
  exact this

/-- **save (load (save r)) = save r**: re-saving the loaded rules writes the same bytes. -/
theorem resave_identical (cfg : LoaderCfg) {a : Arena} (h : WF a) (hs2 : ∀ b ∈ a.bufs, b.data.length ≤ 2 ^ 31)
    (alloc : Nat → Nat) (hA : RangesOk (loadedBufs alloc 0 (bodies (toRefs a)))) (hnz : ∀ i, alloc i ≠ 0) :
    ∃ a', load cfg alloc (save a) = .ok a' ∧ save a' = save a := by
  obtain ⟨a', h1, h2⟩ := load_save cfg h hs2 alloc hA hnz
  exact ⟨a', h1, save_address_free h2⟩

/-- **Any chunking.** A stream obeying the fread contract that delivers its content in chunks of
    arbitrary sizes (`cs`; empty chunks allowed) is, for the loader, indistinguishable from the
    concatenation: same result, same error, for every content (valid image or not). -/
theorem load_chunked (cfg : LoaderCfg) (alloc : Nat → Nat) (cs : List Bytes) :
    loadVia cfg alloc cs = load cfg alloc cs.flatten :=
  loadVia_eq cfg alloc cs

/-- … in particular a saved image delivered one byte at a time -/
example : loadVia loaderCfg exAlloc ((save exArena).map (fun b => [b])) = load loaderCfg exAlloc (save exArena) := by
  rw [load_chunked]; congr 1

/-- **Round trip for every arena reachable through the API.** Start from any arena obeying the protocol, run any
    sequence of client operations inside the protocol (`arun` defined = `OpsOK`; result `x'`, buffers of at most
    2 GiB) under any configuration and any admissible realloc schedule: the arena `a` reached is such that saving
    it fires no assert and leaves it as it was, and loading the image — under every loader configuration and every
    allocator handing out non-null, non-overlapping blocks — succeeds and gives an arena with the same abstract
    content as `a` (which is `x'`: what the address-free machine computed), hence the same bytes when saved again. -/
theorem load_save_run (cfg : Cfg) (bases : List Nat) (ops : List Op) {a₀ a : Arena} (h₀ : WF a₀) (hi : 0 < a₀.init)
    {x' : AArena} {outs outs' : List Out} (hspec : arun (abs a₀) ops = some (x', outs))
    (hs2 : ∀ d ∈ x'.1, d.length ≤ 2 ^ 31) (had : AdmRun cfg bases a₀ ops)
    (hr : runOut cfg bases a₀ ops = .ok (a, outs'))
    (lcfg : LoaderCfg) (alloc : Nat → Nat) (hA : RangesOk (loadedBufs alloc 0 x'.1)) (hnz : ∀ i, alloc i ≠ 0) :
    saveFull a = .ok (save a, a) ∧
      ∃ a', load lcfg alloc (save a) = .ok a' ∧ abs a' = x' ∧ abs a' = abs a ∧ save a' = save a := by
  rcases runOut_sim cfg ops bases a₀ x' outs h₀ hi hspec had with ⟨b, e, w, ab⟩ | e
  · rw [e] at hr
    simp only [Except.ok.injEq, Prod.mk.injEq] at hr
    obtain ⟨rfl, _⟩ := hr
    have hbod : bodies (toRefs b) = x'.1 := congrArg Prod.fst ab
    have hs2' : ∀ c ∈ b.bufs, c.data.length ≤ 2 ^ 31 := by
      intro c hc
      have : c.data.length ∈ (bodies b).map (·.length) := by
        simp only [bodies, List.map_map, List.mem_map, Function.comp]
        exact ⟨c, hc, rfl⟩
      rw [← bodies_toRefs_lengths, hbod, List.mem_map] at this
      obtain ⟨d, hd, hl⟩ := this
      rw [← hl]; exact hs2 d hd
    obtain ⟨a', h1, h2⟩ := load_save lcfg w hs2' alloc (by rw [hbod]; exact hA) hnz
    exact ⟨save_no_assert w, a', h1, by rw [h2, ab], h2, save_address_free h2⟩
  · rw [e] at hr; cases hr

/-- … in particular for everything built from `yr_arena_create(n, init)`: no well-formedness assumption is left,
    only the protocol on the operation sequence (decidable) and the allocators' contracts. -/
theorem load_save_reachable (n : Nat) (hn : n ≤ maxBuffers) (init : Nat) (hi : 0 < init) (cfg : Cfg) (bases : List Nat)
    (ops : List Op) {a : Arena} {x' : AArena} {outs outs' : List Out} (hspec : arun (aCreate n) ops = some (x', outs))
    (hs2 : ∀ d ∈ x'.1, d.length ≤ 2 ^ 31) (had : AdmRun cfg bases (create n init) ops)
    (hr : runOut cfg bases (create n init) ops = .ok (a, outs'))
    (lcfg : LoaderCfg) (alloc : Nat → Nat) (hA : RangesOk (loadedBufs alloc 0 x'.1)) (hnz : ∀ i, alloc i ≠ 0) :
    saveFull a = .ok (save a, a) ∧
      ∃ a', load lcfg alloc (save a) = .ok a' ∧ abs a' = x' ∧ abs a' = abs a ∧ save a' = save a :=
  load_save_run cfg bases ops (wf_create init hn) hi (by rw [abs_create]; exact hspec) hs2 had hr lcfg alloc hA hnz

/-- the hypotheses are satisfiable: the 17-operation session `exOps` (every kind of operation, growth between
    storing a pointer and reading it back) run with initial size 1 and loaded at 1 MiB-spaced addresses -/
example : ∃ a a' outs, runOut {} exBases₁ (create 2 1) exOps = .ok (a, outs) ∧
    load loaderCfg exAlloc (save a) = .ok a' ∧ abs a' = abs a ∧ a.relocs.length = 5 := by
  have had : AdmRun {} exBases₁ (create 2 1) exOps := admRun_of_check _ _ _ _ (by decide +kernel)
  have c : (match arun (aCreate 2) exOps with
      | some (x, _) => decide ((∀ d ∈ x.1, d.length ≤ 2 ^ 31) ∧ RangesOk (loadedBufs exAlloc 0 x.1) ∧ x.2.length = 5)
      | none => false) = true := by decide +kernel
  cases hspec : arun (aCreate 2) exOps with
  | none => rw [hspec] at c; cases c
  | some p =>
    obtain ⟨x', outs⟩ := p
    rw [hspec] at c
    simp only [decide_eq_true_eq] at c
    rcases runOut_sim {} exOps exBases₁ (create 2 1) x' outs (wf_create 1 (by decide)) (by decide)
      (by rw [abs_create]; exact hspec) had with ⟨a, hr, _, ha⟩ | herr
    · obtain ⟨_, a', h1, _, h3, _⟩ := load_save_reachable 2 (by decide) 1 (by decide) {} exBases₁ exOps hspec c.1 had hr
        loaderCfg exAlloc c.2.1 (by intro i; unfold exAlloc; omega)
      refine ⟨a, a', outs, hr, h1, h3, ?_⟩
      have : a.relocs = x'.2 := congrArg Prod.snd ha
      rw [this]; exact c.2.2
    · exact absurd herr (by
        have e : (match runOut {} exBases₁ (create 2 1) exOps with | .ok _ => true | .error _ => false) = true := by decide +kernel
        intro h; rw [h] at e; cases e)

/-- the hypotheses of the round trip are satisfiable: the example arena, loaded at 1 MiB-spaced addresses -/
example : ∃ a', load loaderCfg exAlloc (save exArena) = .ok a' ∧ abs a' = abs exArena :=
  load_save loaderCfg exArena_wf (by decide) exAlloc
    ⟨by decide, by decide, by decide⟩ (by intro i; unfold exAlloc; omega)

/-- the hypotheses are satisfiable (three buffers, two registered pointers, one of them non-null) -/
example : afterSave exArena = exArena ∧ saveFull exArena = .ok (save exArena, exArena) :=
  ⟨save_restores exArena_wf, save_no_assert exArena_wf⟩

end YaraModel.Arena
