/-
  C18 — Command-line results are independent of thread count and rule form.
  Property theorems only (helpers: Lemmas/Queue*.lean, Lemmas/CliOutput.lean).

  Part 1 (D11): the work queue of cli/yara.c.  Every theorem quantifies over EVERY interleaving
  (`Reachable` = any sequence of atomic actions of the producer and the n consumers), every input
  list, every thread count `1 ≤ n ≤ threadLimit`, and every configuration `c` satisfying `Cfg.WF`
  (any capacity ≥ 1, any number of finish posts ≥ the thread limit).  `cli_cfg_wf` instantiates them
  with the constants the translator reads from cli/yara.c on every run.
-/
import YaraModel.Lemmas.QueueProgress
import YaraModel.Lemmas.CliOutput
import YaraModel.Gen.Cli
namespace YaraModel.Queue
variable {α : Type}

/-- The constants found in the sources form a well-formed protocol configuration
    (moduli = array length, capacity < array length, as many finish posts as admissible threads). -/
theorem cli_cfg_wf : YaraModel.Gen.Cli.cfg.WF := by decide

/-- **No loss, no duplication.**  In every reachable state the paths scanned so far, together with
    the paths in flight (dequeued, not yet scanned) and the paths still in the ring, are exactly
    (as a multiset) the paths enqueued so far, which are a prefix of the walker's input;
    so `delivered ⊆ put ⊆ input` as multisets.  At termination `delivered` is a permutation of
    the whole input: every file is scanned exactly once. -/
theorem queue_no_loss_no_dup {c : Cfg} {n : Nat} {input : List α} {s : State α} (hc : c.WF) (hn : 1 ≤ n)
    (hr : Reachable c n input s) :
    (s.delivered ++ (s.cs.filterMap held ++ s.q)).Perm s.put ∧ s.put <+: input ∧
    (Final s → s.delivered.Perm input) := by
  have h := inv_reachable hc hr
  refine ⟨?_, ?_, ?_⟩
  · rw [h.putEq, ← List.append_assoc]
    exact List.Perm.append_right _ h.takenPerm.symm
  · exact ⟨cur s.ppc ++ s.todo, by rw [← List.append_assoc]; exact h.inputEq⟩
  · intro hf
    have h0 : 0 < s.cs.length := by rw [h.len]; omega
    have hi0 : s.cs[0]? = some s.cs[0] := List.getElem?_eq_getElem h0
    have hex : s.cs[0] = CPc.exited := hf.2 _ (List.getElem_mem h0)
    have hq := (h.seenEmpty 0 _ hi0 (by rw [hex]; rfl)).1
    have htodo := h.finTodo (by rw [hf.1]; rfl)
    have hheld : s.cs.filterMap held = [] := by
      rw [List.filterMap_eq_nil_iff]
      intro x hx; rw [hf.2 x hx]; rfl
    have hput : s.put = input := by
      have := h.inputEq; rw [hf.1, htodo] at this; simpa [cur] using this
    have ht := h.takenPerm
    rw [hheld, List.append_nil] at ht
    rw [← hput, h.putEq, hq, List.append_nil]
    exact ht.symm

example : ∃ s : State Nat, Reachable YaraModel.Gen.Cli.cfg 2 [7, 8, 9] s ∧ s.delivered = [7] :=
  ⟨_, .step (.step (.step (.step (.step (.step (.step (.step (.step (.step (.step (.step (.step (.step .init
      ⟨.pWait, rfl⟩) ⟨.pLock, rfl⟩) ⟨.pWrite, rfl⟩) ⟨.pAdvTail, rfl⟩) ⟨.pUnlock, rfl⟩) ⟨.pPost, rfl⟩)
      ⟨.cWait 1, rfl⟩) ⟨.cLock 1, rfl⟩) ⟨.cTest 1, rfl⟩) ⟨.cRead 1, rfl⟩) ⟨.cAdvHead 1, rfl⟩) ⟨.cUnlock 1, rfl⟩)
      ⟨.cPost 1, rfl⟩) ⟨.cReturn 1, rfl⟩, rfl⟩

/-- **Bounds.**  `queue_head`, `queue_tail` stay inside `file_queue[]`, and the number of queued
    elements as the C code sees it, `(tail - head) mod slots`, is the length of the abstract FIFO and
    never exceeds `MAX_QUEUED_FILES` (even counting a slot the producer has reserved). -/
theorem queue_bounds {c : Cfg} {n : Nat} {input : List α} {s : State α} (hc : c.WF)
    (hr : Reachable c n input s) :
    s.head < c.slots ∧ s.tail < c.slots ∧ size c s = s.q.length ∧ size c s + pHold s.ppc ≤ c.unusedInit := by
  have h := inv_reachable hc hr
  have hR : 0 < c.slots := by have := hc.cap_lt; omega
  have hq := q_lt_slots hc h
  have hsz : size c s = s.q.length := by
    unfold size
    rw [h.tail_eq]
    have hh := h.head_lt
    by_cases hlt : s.head + s.q.length < c.slots
    · rw [Nat.mod_eq_of_lt hlt]
      have : s.head + s.q.length + c.slots - s.head = s.q.length + c.slots := by omega
      rw [this, Nat.add_mod_right, Nat.mod_eq_of_lt hq]
    · have e : (s.head + s.q.length) % c.slots = s.head + s.q.length - c.slots := by
        rw [Nat.mod_eq_sub_mod (by omega), Nat.mod_eq_of_lt (by omega)]
      rw [e]
      have : s.head + s.q.length - c.slots + c.slots - s.head = s.q.length := by omega
      rw [this, Nat.mod_eq_of_lt hq]
  refine ⟨h.head_lt, ?_, hsz, ?_⟩
  · rw [h.tail_eq]; exact Nat.mod_lt _ hR
  · rw [hsz]; exact h.qlen

/-- **The ring holds the FIFO.**  Slot `(head + k) mod slots` holds the `k`-th queued path: no live
    slot is ever overwritten, and paths are dequeued in the order they were enqueued. -/
theorem ring_is_fifo {c : Cfg} {n : Nat} {input : List α} {s : State α} (hc : c.WF)
    (hr : Reachable c n input s) (k : Nat) (hk : k < s.q.length) :
    s.ring ((s.head + k) % c.slots) = some s.q[k] ∧ s.put = s.taken ++ s.q :=
  ⟨(inv_reachable hc hr).ringq k hk, (inv_reachable hc hr).putEq⟩

/-- **Semaphore / size invariant.**
    `used_slots + (consumers holding a token) + (producer element not yet posted) = size + finish posts done`,
    `unused_slots + size + (slot reserved by the producer) + (dequeued, not yet posted) = MAX_QUEUED_FILES + (posts after an empty wake-up)`. -/
theorem semaphore_invariant {c : Cfg} {n : Nat} {input : List α} {s : State α} (hc : c.WF)
    (hr : Reachable c n input s) :
    s.used + wsum au s.cs + pPend s.ppc = s.q.length + posted c s.ppc ∧
    s.unused + s.q.length + pHold s.ppc + wsum owes s.cs = c.unusedInit + wsum ex s.cs :=
  ⟨(inv_reachable hc hr).usedEq, (inv_reachable hc hr).unusedEq⟩

/-- **Mutual exclusion** on `queue_mutex`: the producer and a consumer, or two different consumers,
    are never inside the critical section together. -/
theorem mutex_exclusive {c : Cfg} {n : Nat} {input : List α} {s : State α} (hc : c.WF)
    (hr : Reachable c n input s) (i j : Nat) (pi pj : CPc α) (hi : s.cs[i]? = some pi) (hj : s.cs[j]? = some pj)
    (ci : cCrit pi = true) :
    pCrit s.ppc = false ∧ (cCrit pj = true → i = j) := by
  have h := inv_reachable hc hr
  have hl := (h.lockC i pi hi).1 ci
  constructor
  · cases hp : pCrit s.ppc with
    | false => rfl
    | true => have := h.lockP.1 hp; rw [hl] at this; cases this
  · intro cj
    have := (h.lockC j pj hj).1 cj
    rw [hl] at this
    simpa using this

/-- **An empty wake-up happens only after `file_queue_finish` started, on an empty queue**: a consumer
    leaves its loop only when nothing is left to scan. -/
theorem empty_wakeup_only_at_end {c : Cfg} {n : Nat} {input : List α} {s : State α} (hc : c.WF)
    (hr : Reachable c n input s) (i : Nat) (pc : CPc α) (hi : s.cs[i]? = some pc) (hz : isZ pc = true) :
    s.q = [] ∧ s.todo = [] ∧ pFin s.ppc = true := by
  have h := inv_reachable hc hr
  have := h.seenEmpty i pc hi hz
  exact ⟨this.1, h.finTodo this.2, this.2⟩

/-- **Deadlock freedom.**  In every reachable state that is not final (producer returned from
    `file_queue_finish`, every scanning thread left its loop) some thread can take a step. -/
theorem no_stuck {c : Cfg} {n : Nat} {input : List α} {s : State α} (hc : c.WF) (hn : 1 ≤ n) (hnl : n ≤ c.threadLimit)
    (hr : Reachable c n input s) (hf : ¬ Final s) : Enabled c s :=
  enabled_of_inv hc hn hnl (inv_reachable hc hr) hf

example : ¬ Final (init YaraModel.Gen.Cli.cfg 3 [1, 2]) := by simp [Final, init]

/-- **Every step decreases the measure** `mu` (remaining producer steps + 10·paths not yet dequeued +
    consumer ranks): there is no livelock, with or without fairness. -/
theorem step_decreases_measure {c : Cfg} {n : Nat} {input : List α} {s s' : State α} (hc : c.WF)
    (hr : Reachable c n input s) (hs : Step c s s') : mu c s' < mu c s := by
  obtain ⟨a, ha⟩ := hs
  exact mu_decreases (inv_reachable hc hr) a ha

/-- A run of `k` steps from a reachable state has `k ≤ mu`; in particular from the initial state
    at most `mu (init …)` atomic actions happen in any schedule. -/
theorem run_length_bounded {c : Cfg} {n : Nat} {input : List α} {k : Nat} {s s' : State α} (hc : c.WF)
    (hr : Reachable c n input s) (hs : StepsN c k s s') : k + mu c s' ≤ mu c s :=
  stepsN_measure hc hr hs

/-- **No infinite run** exists (so under any scheduler that keeps running enabled threads — weak
    fairness is more than enough — the system stops, and by `no_stuck` it stops in a final state). -/
theorem no_infinite_run {c : Cfg} {n : Nat} {input : List α} (hc : c.WF) (f : Nat → State α)
    (h0 : Reachable c n input (f 0)) (hstep : ∀ k, Step c (f k) (f (k + 1))) : False := by
  have hk : ∀ k, Reachable c n input (f k) ∧ k + mu c (f k) ≤ mu c (f 0) := by
    intro k
    induction k with
    | zero => exact ⟨h0, by omega⟩
    | succ k ih =>
      have := step_decreases_measure hc ih.1 (hstep k)
      exact ⟨Reachable.step ih.1 (hstep k), by omega⟩
  have := (hk (mu c (f 0) + 1)).2
  omega

/-- **Termination.**  From every reachable state the run can be completed, and every maximal run
    (one that cannot be extended) ends in a final state after at most `mu` steps. -/
theorem terminates {c : Cfg} {n : Nat} {input : List α} {s : State α} (hc : c.WF) (hn : 1 ≤ n) (hnl : n ≤ c.threadLimit)
    (hr : Reachable c n input s) :
    (∃ k s', StepsN c k s s' ∧ Final s') ∧
    (∀ k s', StepsN c k s s' → ¬ Enabled c s' → Final s' ∧ k ≤ mu c s) := by
  refine ⟨reaches_final_aux hc hn hnl (mu c s) s hr (Nat.le_refl _), ?_⟩
  intro k s' hs hne
  have hr' := reachable_stepsN hr hs
  have hb := stepsN_measure hc hr hs
  refine ⟨?_, by omega⟩
  apply Classical.byContradiction
  intro hf
  exact hne (no_stuck hc hn hnl hr' hf)

/-- the hypotheses of `terminates` / the `Final` clause of `queue_no_loss_no_dup` are satisfiable: a complete run
    (put, get, 32 finish posts, empty wake-up, exit) for the generated constants ends final with the path delivered -/
example : ∃ s : State Nat, Reachable YaraModel.Gen.Cli.cfg 1 [5] s ∧ Final s ∧ s.delivered = [5] := by
  have key : (runActs YaraModel.Gen.Cli.cfg (init YaraModel.Gen.Cli.cfg 1 [5]) (demoSched YaraModel.Gen.Cli.cfg)).map
      (fun s => (s.ppc, s.cs, s.delivered)) = some (.done, [.exited], [5]) := by decide
  cases h : runActs YaraModel.Gen.Cli.cfg (init YaraModel.Gen.Cli.cfg 1 [5]) (demoSched YaraModel.Gen.Cli.cfg) with
  | none => rw [h] at key; cases key
  | some s =>
    rw [h] at key
    simp only [Option.map_some, Option.some.injEq, Prod.mk.injEq] at key
    obtain ⟨h1, h2, h3⟩ := key
    exact ⟨s, runActs_reachable _ .init h, ⟨h1, by rw [h2]; simp⟩, h3⟩

/-- The theorems above, for the constants of the code as it is (any `1 ≤ n ≤ YR_MAX_THREADS`). -/
theorem cli_queue_correct {n : Nat} {input : List α} {s : State α} (hn : 1 ≤ n) (hnl : n ≤ YaraModel.Gen.Cli.cfg.threadLimit)
    (hr : Reachable YaraModel.Gen.Cli.cfg n input s) :
    (Final s → s.delivered.Perm input) ∧ (¬ Final s → Enabled YaraModel.Gen.Cli.cfg s) ∧
    size YaraModel.Gen.Cli.cfg s ≤ YaraModel.Gen.Cli.cfg.unusedInit :=
  ⟨(queue_no_loss_no_dup cli_cfg_wf hn hr).2.2, no_stuck cli_cfg_wf hn hnl hr,
   by have := (queue_bounds cli_cfg_wf hr).2.2.2; omega⟩

end YaraModel.Queue

/-!
  Part 2: the output mutex.  Model/CliOutput.lean: every thread prints a sequence of blocks
  (lock output_mutex; one printf per chunk; unlock) and possibly chunks outside the mutex.
-/
namespace YaraModel.CliOut
variable {χ : Type}

/-- **Output printed under `output_mutex` is contiguous.**  If every print of every thread happens inside a
    lock/unlock block, then in every reachable state (any interleaving, any number of threads, any programs)
    the chunks of each block `k` of each thread `i` are adjacent in the output stream, in program order:
    the lines of one file's match output are never interleaved with another thread's output. -/
theorem output_atomic {progs : List (List (Item χ))} {s : St χ} (hn : NoLoose progs) (hr : Reachable progs s)
    (i k : Nat) : Contig i k s.out :=
  (inv_reachable hn hr).C i k

/-- …and the mutex is held exactly by the thread that is inside a block. -/
theorem output_mutex_exclusive {progs : List (List (Item χ))} {s : St χ} (hn : NoLoose progs) (hr : Reachable progs s)
    (i j : Nat) (ti tj : Th χ) (hi : s.ths[i]? = some ti) (hj : s.ths[j]? = some tj)
    (ii : ti.inside.isSome = true) (ij : tj.inside.isSome = true) : i = j := by
  have h := inv_reachable hn hr
  have a := (h.L i ti hi).1 ii
  have b := (h.L j tj hj).1 ij
  rw [a] at b; simpa using b

example : NoLoose [[Item.block ["r ", "f1\n", "0x0:$a\n"]], [Item.block ["r ", "f2\n"], Item.block ["q ", "f2\n"]]] := by
  intro p hp it hit
  simp at hp
  rcases hp with rfl | rfl <;> simp at hit
  · exact ⟨_, hit⟩
  · rcases hit with rfl | rfl <;> exact ⟨_, rfl⟩

/-- **A print outside the mutex can tear a block** (the `console.log` callback of cli/yara.c prints without
    taking `output_mutex`): with thread 0 printing one block of two chunks and thread 1 printing one chunk
    outside the mutex there is a reachable state whose output has the loose chunk between the two chunks
    of the block.  This is finding F24. -/
theorem unlocked_print_can_tear (a1 a2 b : χ) :
    ∃ s : St χ, Reachable [[Item.block [a1, a2]], [Item.loose b]] s ∧ ¬ Contig 0 0 s.out := by
  refine ⟨_, .step (.print 0) (.step (.loose 1) (.step (.print 0) (.step (.lock 0) .init rfl) rfl) rfl) rfl, ?_⟩
  rintro ⟨l1, seg, l2, ho, hseg, hl1, hl2⟩
  simp only [init, List.map, List.nil_append, List.cons_append] at ho
  have t0 : tagIs 0 0 (⟨0, some 0, a1⟩ : Entry χ) := ⟨rfl, rfl⟩
  have t2 : tagIs 0 0 (⟨0, some 0, a2⟩ : Entry χ) := ⟨rfl, rfl⟩
  have t1 : ¬ tagIs 0 0 (⟨1, none, b⟩ : Entry χ) := fun h => by cases h.2
  cases l1 with
  | cons e l1' =>
    simp only [List.cons_append, List.cons.injEq] at ho
    exact hl1 e (by simp) (ho.1 ▸ t0)
  | nil =>
    simp only [List.nil_append] at ho
    cases seg with
    | nil =>
      simp only [List.nil_append] at ho
      exact hl2 _ (by rw [← ho]; simp) t0
    | cons e seg' =>
      simp only [List.cons_append, List.cons.injEq] at ho
      cases seg' with
      | nil =>
        simp only [List.nil_append] at ho
        exact hl2 _ (by rw [← ho.2]; simp) t2
      | cons e' seg'' =>
        simp only [List.cons_append, List.cons.injEq] at ho
        exact t1 (ho.2.1 ▸ hseg e' (by simp))

end YaraModel.CliOut
