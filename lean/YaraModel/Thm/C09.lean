/-
  C09 — Concurrent scans that share one rule set are race-free and deterministic.  PARTIAL claim:
  proved here, for ALL schedules (every interleaving of every thread's actions, any number of threads, any scripts),
  is the model of Model/Concurrent.lean: per-thread results equal the sequential results (non-interference by the
  frame property), the rules never change, and the signal-handler use-count protocol of exception.h keeps
  "handler installed ⟺ count > 0" and restores the previous handler when the count returns to 0.
  The frame hypothesis itself ("a scan only reads YR_RULES and writes only its own scanner") and data-race freedom in
  the C memory model are checked on the real code by vf/checks/c09.py (read-only mapped rule arenas, trace comparison,
  ThreadSanitizer) — sampled. Property theorems only.
-/
import YaraModel.Lemmas.Concurrent
namespace YaraModel.C09
open YaraModel.Concurrent

variable {ρ σ : Type}

/-- **Non-interference**: after ANY schedule, the scanner state of every thread is exactly what the actions it has
    executed so far produce when run alone on the same rules — nothing another thread did is visible in it. -/
theorem noninterference (prog : Nat → List (Act ρ σ)) (rules : ρ) (h0 : Handler) (st0 : Nat → σ) (sched : List Nat) (t : Nat) :
    (run prog (init rules h0 st0) sched).st t =
      seqRun rules (prog t) ((run prog (init rules h0 st0) sched).pc t) (st0 t) := by
  have H := run_inv prog (Local prog st0) (fun g u hg => step_local prog st0 g u hg) (init rules h0 st0) sched
    (by intro u; simp only [init]; cases prog u <;> rfl)
  have := H t
  rw [run_rules] at this
  exact this

/-- Each thread executes exactly its own script, in order: its program counter is the number of times it was
    scheduled, capped by the script length (no lost or duplicated action under any interleaving). -/
theorem progress_is_own_schedule_count (prog : Nat → List (Act ρ σ)) (rules : ρ) (h0 : Handler) (st0 : Nat → σ)
    (sched : List Nat) (t : Nat) :
    (run prog (init rules h0 st0) sched).pc t = min (sched.count t) (prog t).length := by
  suffices H : ∀ (g : G ρ σ), g.pc t ≤ (prog t).length →
      (run prog g sched).pc t = min (g.pc t + sched.count t) (prog t).length by
    have := H (init rules h0 st0) (by simp [init])
    simpa [init] using this
  induction sched with
  | nil => intro g hg; simp [run]; omega
  | cons u us ih =>
    intro g hg
    simp only [run, List.foldl_cons]
    by_cases hu : t = u
    · subst hu
      have hpc : (step prog g t).pc t = min (g.pc t + 1) (prog t).length := by
        cases hs : (prog t)[g.pc t]? with
        | none =>
          have hle : (prog t).length ≤ g.pc t := by simpa using hs
          have : (step prog g t).pc t = g.pc t := by unfold step; rw [hs]
          omega
        | some a =>
          have hlt : g.pc t < (prog t).length := (List.getElem?_eq_some_iff.mp hs).1
          have : (step prog g t).pc t = g.pc t + 1 := by
            unfold step; rw [hs]
            cases a with
            | work f => simp [upd]
            | enter => simp [upd]
            | leave => simp only; split <;> simp [upd]
          omega
      have := ih (step prog g t) (by rw [hpc]; omega)
      simp only [run] at this
      rw [this, hpc, List.count_cons_self]
      omega
    · have hf := (step_frame prog g u t hu).2
      have := ih (step prog g u) (by rw [hf]; exact hg)
      simp only [run] at this
      rw [this, hf, List.count_cons_of_ne (Ne.symm hu)]

/-- **Determinism**: two schedules that let thread `t` run the same number of actions leave it in the same state;
    in particular every complete schedule gives the single-threaded result. -/
theorem deterministic_result (prog : Nat → List (Act ρ σ)) (rules : ρ) (h0 : Handler) (st0 : Nat → σ)
    (s1 s2 : List Nat) (t : Nat) (h : s1.count t = s2.count t) :
    (run prog (init rules h0 st0) s1).st t = (run prog (init rules h0 st0) s2).st t := by
  rw [noninterference, noninterference, progress_is_own_schedule_count, progress_is_own_schedule_count, h]

/-- The shared rule set is never modified. -/
theorem rules_immutable (prog : Nat → List (Act ρ σ)) (rules : ρ) (h0 : Handler) (st0 : Nat → σ) (sched : List Nat) :
    (run prog (init rules h0 st0) sched).rules = rules := by
  rw [run_rules]; rfl

/-- **Handler protocol** (exception.h): under every interleaving of enter/leave, the use count equals the number of
    threads inside YR_TRYCATCH, and YARA's handler is installed exactly while the count is positive
    (`hu`: what the application had installed is not YARA's own handler). -/
theorem handler_installed_iff_count_pos (prog : Nat → List (Act ρ σ)) (rules : ρ) (uid : Nat) (st0 : Nat → σ) (sched : List Nat) :
    let g := run prog (init rules (.user uid) st0) sched
    (g.cur = .yara ↔ 0 < g.count) ∧ g.count = g.inside.length := by
  have H := run_inv prog (HInv (.user uid)) (fun g t hg => step_hinv prog (.user uid) g t hg) (init rules (.user uid) st0) sched
    ⟨by simp [init], by intro h; simp [init] at h, by intro _; rfl⟩
  refine ⟨⟨?_, fun h => (H.pos h).1⟩, H.cnt⟩
  intro hy
  by_cases hc : (run prog (init rules (.user uid) st0) sched).count = 0
  · have := H.zero hc; rw [this] at hy; cases hy
  · exact Nat.pos_of_ne_zero hc

/-- …and whenever the count is back to 0 the handler that was installed before the first scan is in place again. -/
theorem old_handler_restored_at_zero (prog : Nat → List (Act ρ σ)) (rules : ρ) (h0 : Handler) (st0 : Nat → σ) (sched : List Nat)
    (hz : (run prog (init rules h0 st0) sched).count = 0) :
    (run prog (init rules h0 st0) sched).cur = h0 := by
  have H := run_inv prog (HInv h0) (fun g t hg => step_hinv prog h0 g t hg) (init rules h0 st0) sched
    ⟨by simp [init], by intro h; simp [init] at h, by intro _; rfl⟩
  exact H.zero hz

/-- non-trivial instance: two threads, interleaved enters/leaves and work; thread 1's result is its sequential one -/
example :
    let prog : Nat → List (Act Nat Nat) := fun t =>
      if t = 0 then [.enter, .work (fun r s => s + r), .leave]
      else if t = 1 then [.enter, .work (fun r s => s * r), .work (fun _ s => s + 1), .leave] else []
    let g := run prog (init 7 (.user 3) (fun _ => 2)) [0, 1, 1, 0, 0, 1, 1]
    g.st 0 = 9 ∧ g.st 1 = 15 ∧ g.count = 0 ∧ g.cur = .user 3 := by decide

example :
    let prog : Nat → List (Act Nat Nat) := fun t => if t < 2 then [.enter, .work (fun r s => s + r), .leave] else []
    let g := run prog (init 7 (.user 3) (fun _ => 2)) [0, 1, 0]
    g.cur = .yara ∧ g.count = 2 := by decide

/-- **Library lifetime** (yr_initialize / yr_finalize): for every interleaving of the users' init/finalize calls, the
    process-wide resources (TLS keys of the try/catch trampolines, modules, heap) exist exactly while somebody holds a
    reference, and the reference count equals the number of holders — so no user's finalize can tear the library down
    under another user's scans. -/
theorem library_alive_iff_referenced (evs : List LibEv) :
    ((lrun evs).alive = true ↔ 0 < (lrun evs).count) ∧ (lrun evs).count = (lrun evs).users.length := by
  have H : LInv (lrun evs) := lrun_inv evs {} ⟨rfl, by simp⟩
  exact ⟨H.alive, H.cnt⟩

/-- a user that still holds its reference finds the library alive, whatever the others did in between -/
theorem holder_sees_library_alive (evs : List LibEv) (u : Nat) (h : u ∈ (lrun evs).users) : (lrun evs).alive = true := by
  have H : LInv (lrun evs) := lrun_inv evs {} ⟨rfl, by simp⟩
  have : 0 < (lrun evs).users.length := List.length_pos_of_mem h
  have hc := H.cnt
  exact H.alive.mpr (by omega)

example : (lrun [.init 0, .init 1, .fin 1]).alive = true ∧ (lrun [.init 0, .init 1, .fin 1, .fin 0]).alive = false ∧
    (lrun [.init 0, .fin 0, .fin 0]).finErrors = 1 := by decide

end YaraModel.C09
