import YaraModel.Spec.Text
namespace YaraModel.Text
theorem window_length (buf : Bytes) (o n : Nat) (w : Bytes) (h : window buf o n = some w) : w.length = n := by
  unfold window at h
  split at h
  · simp at h; rw [← h]; simp; omega
  · cases h
end YaraModel.Text
