/-
  C01 — Text-string matches are exactly the documented occurrences. Property theorems only
  (helpers: Lemmas/Text*.lean). Specification: Spec/Text.lean. Model of the engine: Model/TextScan.lean.
-/
import YaraModel.Lemmas.TextCover
namespace YaraModel.Text

theorem mem_ite_singleton {α : Type} {c : Bool} {x v : α} (h : v ∈ (if c = true then [x] else [])) : c = true ∧ v = x := by
  cases c <;> simp_all

/-- **Nothing can be missed by the index**: for EVERY string, EVERY legal modifier set and xor range, EVERY
    window the quality heuristic may choose (`ValidWindow w s`), EVERY buffer and offset: if the string occurs
    at `o` in any documented variant, then one of the atoms inserted in the automaton occurs at exactly the
    place (`o + backtrack`) from which the scanner computes the candidate offset `o`. -/
theorem atoms_cover (w : Nat) (m : Mods) (s buf : Bytes) (o : Nat) (hw : ValidWindow w s) (hleg : m.legal = true)
    (v : Nat × UInt8 × Bool) (hv : v ∈ variantsAt m s buf o) :
    ∃ a ∈ atomsOf w m s, atomAt a buf o := by
  have hwl := validWindow_le hw
  have hA : ∀ (hp : (match m.xor with | none => true | some r => inRange r 0) = true) (ha : m.ascii = true)
      (hocc : occursAt m.nocase s buf o = true), ∃ a ∈ atomsOf w m s, atomAt a buf o := by
    intro hp ha hocc
    obtain ⟨e', hwin, heq⟩ := occursAt_window hocc
    exact cover_enc (m := m) s e' w (by simpa [baseAtom, sub4] using base_mem_l0 (w := w) (s := s) ha) hwl hwin
      (plain_rel hleg heq hp)
  have hB : ∀ (hp : (match m.xor with | none => true | some r => inRange r 0) = true) (hwd : m.wide = true)
      (hocc : occursAt m.nocase (widen s) buf o = true), ∃ a ∈ atomsOf w m s, atomAt a buf o := by
    intro hp hwd hocc
    obtain ⟨e', hwin, heq⟩ := occursAt_window hocc
    exact cover_enc (m := m) (widen s) e' (2 * w)
      (by rw [← wideOf_base]; exact wide_mem_l0 hwd) (by rw [widen_length]; omega) hwin (plain_rel hleg heq hp)
  unfold variantsAt at hv
  split at hv
  · cases hv
  · simp only [List.mem_append] at hv
    rcases hv with (hv | hv) | hv
    · obtain ⟨hc, _⟩ := mem_ite_singleton hv
      simp only [Bool.and_eq_true] at hc
      exact hA hc.1.2 hc.1.1 hc.2
    · obtain ⟨hc, _⟩ := mem_ite_singleton hv
      simp only [Bool.and_eq_true] at hc
      exact hB hc.1.2 hc.1.1 hc.2
    · cases hx : m.xor with
      | none => simp [hx] at hv
      | some r =>
        simp only [hx, List.mem_append] at hv
        rcases hv with hv | hv
        · cases ha : m.ascii with
          | false => simp [ha] at hv
          | true =>
            simp only [ha, if_true, List.mem_map, Option.mem_toList, Option.filter_eq_some_iff] at hv
            obtain ⟨k, ⟨hk, hr⟩, _⟩ := hv
            simp only [Bool.and_eq_true] at hr
            exact cover_enc (m := m) s (s.map (· ^^^ k)) w (by simpa [baseAtom, sub4] using base_mem_l0 (w := w) (s := s) ha) hwl
              (xorKeyAt_some hk) (xor_rel hleg hx hr.1)
        · cases hwd : m.wide with
          | false => simp [hwd] at hv
          | true =>
            simp only [hwd, if_true, List.mem_map, Option.mem_toList, Option.filter_eq_some_iff] at hv
            obtain ⟨k, ⟨hk, hr⟩, _⟩ := hv
            simp only [Bool.and_eq_true] at hr
            exact cover_enc (m := m) (widen s) ((widen s).map (· ^^^ k)) (2 * w)
              (by rw [← wideOf_base]; exact wide_mem_l0 hwd) (by rw [widen_length]; omega)
              (xorKeyAt_some hk) (xor_rel hleg hx hr.1)

end YaraModel.Text
