/-
  C01 — Text-string matches are exactly the documented occurrences. Property theorems only
  (helpers: Lemmas/Text*.lean). Specification: Spec/Text.lean. Model of the engine: Model/TextScan.lean.
-/
import YaraModel.Lemmas.TextFinal
import YaraModel.Lemmas.Base64
namespace YaraModel.Text

/-- **Nothing can be missed by the index**: for EVERY string, EVERY legal modifier set and xor range, EVERY
    window the quality heuristic may choose (`ValidWindow w s`), EVERY buffer and offset: if the string occurs
    at `o` in any documented variant, then one of the atoms inserted in the automaton occurs at exactly the
    place (`o + backtrack`) from which the scanner computes the candidate offset `o`. -/
theorem atoms_cover (w : Nat) (m : Mods) (s buf : Bytes) (o : Nat) (hw : ValidWindow w s) (hleg : m.legal = true)
    (v : Nat × UInt8 × Bool) (hv : v ∈ variantsAt m s buf o) :
    ∃ a ∈ atomsOf w m s, atomAt a buf o := by
  have hwl := validWindow_le hw
  have hA : ∀ (hp : (match m.xor with | none => true | some r => inRange r 0) = true) (ha : m.ascii = true)
      (hocc : occursAt m.nocase s buf o = true), ∃ a ∈ atomsOf w m s, atomAt a buf o := by
    intro hp ha hocc
    obtain ⟨e', hwin, heq⟩ := occursAt_window hocc
    exact cover_enc (m := m) s e' w (by simpa [baseAtom, sub4] using base_mem_l0 (w := w) (s := s) ha) hwl hwin
      (plain_rel hleg heq hp)
  have hB : ∀ (hp : (match m.xor with | none => true | some r => inRange r 0) = true) (hwd : m.wide = true)
      (hocc : occursAt m.nocase (widen s) buf o = true), ∃ a ∈ atomsOf w m s, atomAt a buf o := by
    intro hp hwd hocc
    obtain ⟨e', hwin, heq⟩ := occursAt_window hocc
    exact cover_enc (m := m) (widen s) e' (2 * w)
      (by rw [← wideOf_base]; exact wide_mem_l0 hwd) (by rw [widen_length]; omega) hwin (plain_rel hleg heq hp)
  unfold variantsAt at hv
  split at hv
  · cases hv
  · simp only [List.mem_append] at hv
    rcases hv with (hv | hv) | hv
    · obtain ⟨hc, _⟩ := mem_ite_singleton hv
      simp only [Bool.and_eq_true] at hc
      exact hA hc.1.2 hc.1.1 hc.2
    · obtain ⟨hc, _⟩ := mem_ite_singleton hv
      simp only [Bool.and_eq_true] at hc
      exact hB hc.1.2 hc.1.1 hc.2
    · cases hx : m.xor with
      | none => simp [hx] at hv
      | some r =>
        simp only [hx, List.mem_append] at hv
        rcases hv with hv | hv
        · cases ha : m.ascii with
          | false => simp [ha] at hv
          | true =>
            simp only [ha, if_true, List.mem_map, Option.mem_toList, Option.filter_eq_some_iff] at hv
            obtain ⟨k, ⟨hk, hr⟩, _⟩ := hv
            simp only [Bool.and_eq_true] at hr
            exact cover_enc (m := m) s (s.map (· ^^^ k)) w (by simpa [baseAtom, sub4] using base_mem_l0 (w := w) (s := s) ha) hwl
              (xorKeyAt_some hk) (xor_rel hleg hx hr.1)
        · cases hwd : m.wide with
          | false => simp [hwd] at hv
          | true =>
            simp only [hwd, if_true, List.mem_map, Option.mem_toList, Option.filter_eq_some_iff] at hv
            obtain ⟨k, ⟨hk, hr⟩, _⟩ := hv
            simp only [Bool.and_eq_true] at hr
            exact cover_enc (m := m) (widen s) ((widen s).map (· ^^^ k)) (2 * w)
              (by rw [← wideOf_base]; exact wide_mem_l0 hwd) (by rw [widen_length]; omega)
              (xorKeyAt_some hk) (xor_rel hleg hx hr.1)


/-- **The reported list is exactly the documented occurrences** (partial: two hypotheses, see below).
    For EVERY non-empty string, EVERY legal modifier set / xor range, EVERY atom window `w` (every quality
    table), EVERY buffer, and EVERY candidate list `C` — in ANY arrival order, with ANY repetitions — that
    contains exactly the occurrences of the indexed atoms (`CandsOK`, the automaton stage's contract, checked
    on the real tables per case), the modelled engine (verification of each candidate as
    `_yr_scan_verify_literal_match` does it, `fullword` test, ordered de-duplicating insertion) reports
      * exactly the offsets at which the string occurs under the documented semantics (`occurrences`),
        in ascending order, each once,
      * each with an admissible (true) length and xor key.
    Hypotheses `h19`, `h20` exclude precisely the two situations in which the faithful model — like the
    code — deviates from the specification (known findings F19: an occurrence under a key outside the
    declared range exists somewhere; F20: at some offset one encoding passes `fullword` and the other fails).
    FULL statement (without `h19 h20`) is FALSE for the current code; witnesses are in corpus/C01. -/
theorem pipeline_exact_partial (w : Nat) (m : Mods) (s buf : Bytes) (C : List (Nat × Nat))
    (hleg : m.legal = true) (hs : s.isEmpty = false) (hw : ValidWindow w s) (hC : CandsOK w m s buf C)
    (h19 : ∀ o, variantsAt (anyKey m) s buf o = variantsAt m s buf o)
    (h20 : ∀ o, ¬ MixedAt m s buf o) :
    (pipeline m s buf C).map (·.off) = (occurrences m s buf).map (·.1) ∧
    (∀ x ∈ pipeline m s buf C, (x.len, x.key) ∈ admissibleAt m s buf x.off) ∧
    Asc (pipeline m s buf C) := by
  rw [pipeline_eq_pipeG]
  let V : Nat × Nat → Option Match := fun c => verifyCandidate m s c.2 buf c.1
  have hVoff : ∀ c x, V c = some x → x.off = c.1 := fun c x h => verify_off h
  obtain ⟨hasc, hoffs, hmem⟩ := pipeG_spec V hVoff C [] (by simp [Asc])
  have hsound : ∀ c ∈ C, ∀ x, V c = some x → x.off = c.1 ∧ (x.len, x.key) ∈ admissibleAt m s buf c.1 := by
    intro c hc x hx
    obtain ⟨h1, h2, h3⟩ := verify_sound w m s buf c.2 c.1 x hleg hs hw (hC.exact c hc) hx
    refine ⟨h1, ?_⟩
    rw [h19] at h2
    refine mem_admissible.mpr ⟨_, h2, ?_, rfl⟩
    cases hfw : m.fullword with
    | false => exact Or.inl rfl
    | true => exact Or.inr (h3 hfw)
  refine ⟨?_, ?_, hasc⟩
  · apply sorted_ext
    · unfold Asc at hasc
      exact List.pairwise_map.mpr hasc
    · rw [occurrences_offs]
      exact List.Pairwise.filter _ List.pairwise_lt_range
    · intro o
      rw [hoffs o, occurrences_offs]
      simp only [List.map_nil, List.not_mem_nil, false_or, List.mem_filter, List.mem_range]
      constructor
      · rintro ⟨c, hc, rfl, hsome⟩
        obtain ⟨x, hx⟩ := Option.isSome_iff_exists.mp hsome
        have := (hsound c hc x hx).2
        have hne : admissibleAt m s buf c.1 ≠ [] := List.ne_nil_of_mem this
        refine ⟨by have := admissible_inbounds hne; omega, ?_⟩
        simpa [List.isEmpty_iff] using hne
      · rintro ⟨_, hne⟩
        have hne' : admissibleAt m s buf o ≠ [] := by simpa [List.isEmpty_iff] using hne
        obtain ⟨p, hp⟩ := List.exists_mem_of_ne_nil _ hne'
        obtain ⟨v, hv, _, _⟩ := mem_admissible.mp hp
        obtain ⟨a, ha, hat⟩ := atoms_cover w m s buf o hw hleg v hv
        have hcm := hC.complete a ha o hat
        refine ⟨_, hcm, rfl, ?_⟩
        exact verify_complete w m s buf _ o hleg hw ⟨a, ha, hat, rfl⟩ (h19 o) (h20 o) hne'
  · intro x hx
    rcases hmem x hx with h | ⟨c, hc, hv⟩
    · simp at h
    · have := hsound c hc x hv
      rw [this.1]; exact this.2

/-- `h19` holds outright when there is no xor modifier or the range is the full `xor` / `xor(0-255)`. -/
theorem no_out_of_range_key_of_full (m : Mods) (s buf : Bytes) (h : m.xor = none ∨ m.xor = some (0, 255)) :
    ∀ o, variantsAt (anyKey m) s buf o = variantsAt m s buf o := by
  intro o
  have : anyKey m = m := by
    cases m with
    | mk a w n f x =>
      simp only [anyKey]
      rcases h with h | h <;> simp only at h <;> subst h <;> rfl
  rw [this]

/-- `h20` holds outright without `fullword`. -/
theorem no_mixed_of_not_fullword (m : Mods) (s buf : Bytes) (h : m.fullword = false) : ∀ o, ¬ MixedAt m s buf o := by
  intro o hm
  rw [hm.1] at h; cases h

/-- The property for the common case, with no semantic hypothesis left: no `fullword`, and either no xor or
    the full key range. -/
theorem pipeline_exact (w : Nat) (m : Mods) (s buf : Bytes) (C : List (Nat × Nat))
    (hleg : m.legal = true) (hs : s.isEmpty = false) (hw : ValidWindow w s) (hC : CandsOK w m s buf C)
    (hx : m.xor = none ∨ m.xor = some (0, 255)) (hf : m.fullword = false) :
    (pipeline m s buf C).map (·.off) = (occurrences m s buf).map (·.1) ∧
    (∀ x ∈ pipeline m s buf C, (x.len, x.key) ∈ admissibleAt m s buf x.off) ∧
    Asc (pipeline m s buf C) :=
  pipeline_exact_partial w m s buf C hleg hs hw hC (no_out_of_range_key_of_full m s buf hx)
    (no_mixed_of_not_fullword m s buf hf)

/-! Non-vacuity: a concrete non-trivial instance of the hypotheses and of the conclusion. -/
example :
    let m : Mods := { ascii := true, wide := true, nocase := false, fullword := false, xor := some (0, 255) }
    let s : Bytes := [0x61, 0x62, 0x63, 0x64, 0x65]
    let buf : Bytes := [0x60, 0x63, 0x62, 0x65, 0x64, 0x2e, 0x61, 0x00, 0x62, 0x00, 0x63, 0x00, 0x64, 0x00, 0x65, 0x00]
    m.legal = true ∧ (1 + min 4 s.length ≤ s.length) ∧
    occurrences m s buf = [(0, [(5, 1)]), (6, [(10, 0)])] ∧
    (pipeline m s buf [(6, 4 + 2), (0, 4 + 1)]).map (·.off) = [0, 6] := by decide

end YaraModel.Text

namespace YaraModel.B64
open YaraModel.Text

/-- **The three permutations are complete**: whatever precedes and follows the plaintext `s` inside a text that
    is then base64-encoded (any 64-symbol alphabet), the permutation for `|pre| mod 3` occurs in the encoding,
    at character index `4·(|pre| / 3)` plus the number of leading characters that depend on `pre`.
    (For a one-byte string preceded by 3k+1 bytes no character is determined by the string alone — the
    compiler drops that permutation, and so does the hypothesis.) -/
theorem b64_alignment (A pre s post : Bytes) (hs : s ≠ []) (h1 : ¬ (pre.length % 3 = 1 ∧ s.length = 1)) :
    let i := pre.length % 3
    ((encode A (pre ++ s ++ post)).drop (4 * (pre.length / 3) + (if i = 0 then 0 else i + 1))).take
      (permutation A s i).length = permutation A s i := by
  intro i
  -- peel the full triples of `pre`
  let q := pre.length / 3
  have hsplit : pre = pre.take (3 * q) ++ pre.drop (3 * q) := (List.take_append_drop _ _).symm
  have hlen1 : (pre.take (3 * q)).length = 3 * q := by simp; omega
  have hlen2 : (pre.drop (3 * q)).length = i := by simp [i, q]; omega
  have hdrop : (encode A (pre ++ s ++ post)).drop (4 * q) = encode A (pre.drop (3 * q) ++ s ++ post) := by
    conv => lhs; rw [hsplit]
    rw [List.append_assoc, List.append_assoc]
    rw [encode_drop_triples A q _ _ hlen1]
    simp [List.append_assoc]
  have hdd : (encode A (pre ++ s ++ post)).drop (4 * (pre.length / 3) + (if i = 0 then 0 else i + 1)) =
      (encode A (pre.drop (3 * q) ++ s ++ post)).drop (if i = 0 then 0 else i + 1) := by
    rw [← hdrop, List.drop_drop]
  rw [hdd]
  generalize hr : pre.drop (3 * q) = r at hlen2 hdd ⊢
  have hi3 : i < 3 := Nat.mod_lt _ (by omega)
  match r, hlen2 with
  | [], h0 =>
    have hi0 : i = 0 := by simpa using h0.symm
    simp only [hi0, if_true, List.drop_zero, List.nil_append]
    rw [permutation_zero]
    rw [List.length_take, Nat.min_eq_left (Nat.sub_le _ _)]
    exact kept0 A s post
  | [x], h1' =>
    have hi1 : i = 1 := by simpa using h1'.symm
    have hslen : s.length ≠ 1 := fun h => h1 ⟨hi1, h⟩
    match s, hs, hslen with
    | b :: c :: s2, _, _ =>
      show ((encode A ([x] ++ (b :: c :: s2) ++ post)).drop (if i = 0 then 0 else i + 1)).take (permutation A (b :: c :: s2) i).length = permutation A (b :: c :: s2) i
      rw [hi1, permutation_one]
      simp only [List.cons_append, List.nil_append, encode]
      simp only [show (if (1 : Nat) = 0 then 0 else 1 + 1) = 2 from rfl, List.drop_succ_cons, List.drop_zero, List.length_cons,
        List.take_succ_cons]
      rw [List.length_take, Nat.min_eq_left (Nat.sub_le _ _)]
      rw [kept0 A s2 post]
    | [b], _, h => exact absurd rfl h
  | [x, y], h2 =>
    have hi2 : i = 2 := by simpa using h2.symm
    match s, hs with
    | c :: s1, _ =>
      show ((encode A ([x, y] ++ (c :: s1) ++ post)).drop (if i = 0 then 0 else i + 1)).take (permutation A (c :: s1) i).length = permutation A (c :: s1) i
      rw [hi2, permutation_two]
      simp only [List.cons_append, List.nil_append, encode]
      simp only [show (if (2 : Nat) = 0 then 0 else 2 + 1) = 3 from rfl, List.drop_succ_cons, List.drop_zero, List.length_cons,
        List.take_succ_cons]
      rw [List.length_take, Nat.min_eq_left (Nat.sub_le _ _)]
      rw [kept0 A s1 post]
  | _ :: _ :: _ :: _, h3 => simp at h3; omega


/-! Non-vacuity: the manual's example — "This program cannot" inside a longer text, one byte before it. -/
example :
    let s := "This program cannot".toUTF8.toList
    let text := "XThis program cannot be run".toUTF8.toList
    permutation stdAlphabet s 1 = "RoaXMgcHJvZ3JhbSBjYW5ub3".toUTF8.toList ∧
    ((encode stdAlphabet text).drop 2).take 24 = "RoaXMgcHJvZ3JhbSBjYW5ub3".toUTF8.toList := by decide +kernel

end YaraModel.B64
