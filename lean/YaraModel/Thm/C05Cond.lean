/-
  C05 — A rule's result does not depend on what else is compiled with it: CONDITION level (property theorems only).
  Thm/C05.lean settles the string level (the shared automaton's contract makes each string's match list a function of the
  string and the buffer).  Here: given those match lists, the verdict of a rule is the same in every rule set that
  contains the rule and the rules it refers to — whatever other rules are defined before, between or after them.
  The condition language and `evalRules` are those of Spec/Cond.lean (tied to exec.c by C04's correspondence).
-/
import YaraModel.Lemmas.CondDeps
namespace YaraModel.Cond

/-- **Independence of the company, condition level.**  `small` is a rule set in which every rule refers only to earlier
    rules (the compiler admits nothing else); `big` is ANY rule set that contains the rules of `small` in the same order
    at positions `pos 0 < pos 1 < …` (identifiers re-resolved to the new positions), among arbitrary other rules with
    arbitrary strings and conditions.  For every memory-block layout, file size and set of external values, each rule
    of `small` gets in `big` the verdict it gets in `small`. -/
theorem verdict_company_independent (blocks : List (Nat × Bytes)) (filesize : Int) (ext : List (String × Val))
    (pos : Nat → Nat) (small big : List Rule) (E : Embeds pos small big) (B : BackRefs small) :
    ∀ i, i < small.length →
      (evalRules blocks filesize ext big []).getD (pos i) false = (evalRules blocks filesize ext small []).getD i false := by
  intro i
  induction i using Nat.strongRecOn with
  | _ i ih =>
    intro hi
    have hpi := E.inside i hi
    have h1 := evalRules_getD blocks filesize ext small [] i hi
    have h2 := evalRules_getD blocks filesize ext big [] (pos i) hpi
    simp only [List.length_nil, Nat.zero_add] at h1 h2
    rw [h1, h2, E.same i hi hpi]
    simp only [ruleVerdict]
    congr 1
    refine eval_rename
      (env := { strs := small[i].strs, blocks, filesize, ext, rules := List.take i (evalRules blocks filesize ext small []) })
      (env' := { strs := small[i].strs, blocks, filesize, ext,
                 rules := List.take (pos i) (evalRules blocks filesize ext big []) })
      ⟨rfl, rfl, rfl, rfl, rfl, rfl, rfl⟩ pos _ _ ?_
    intro k hk
    have hki : k < i := B i hi k hk
    have hpk : pos k < pos i := E.mono k i hki hi
    show ((evalRules blocks filesize ext big []).take (pos i)).getD (pos k) false =
      ((evalRules blocks filesize ext small []).take i).getD k false
    rw [getD_take_lt _ _ hpk, getD_take_lt _ _ hki]
    exact ih k hki (by omega)

/-- Special case: a rule that names no other rule has the verdict it has when compiled ALONE, wherever it stands. -/
theorem verdict_alone (blocks : List (Nat × Bytes)) (filesize : Int) (ext : List (String × Val))
    (r : Rule) (hr : ruleRefs r.cond = []) (before after : List Rule) :
    (evalRules blocks filesize ext (before ++ r :: after) []).getD before.length false =
      (evalRules blocks filesize ext [r] []).getD 0 false := by
  have hb : before.length < (before ++ r :: after).length := by simp
  have h1 := evalRules_getD blocks filesize ext (before ++ r :: after) [] before.length hb
  have h2 := evalRules_getD blocks filesize ext [r] [] 0 (by simp)
  simp only [List.length_nil, Nat.zero_add, List.getElem_cons_zero] at h1 h2
  rw [h1, h2]
  have e : (before ++ r :: after)[before.length] = r := by simp
  rw [e]
  simp only [ruleVerdict]
  congr 1
  have := eval_rename (env := { strs := r.strs, blocks, filesize, ext, rules := List.take 0 (evalRules blocks filesize ext [r] []) })
    (env' := { strs := r.strs, blocks, filesize, ext,
               rules := List.take before.length (evalRules blocks filesize ext (before ++ r :: after) []) })
    ⟨rfl, rfl, rfl, rfl, rfl, rfl, rfl⟩ id r.cond {} (by rw [hr]; intro k hk; cases hk)
  rw [← this]
  congr 1
  exact (renameRules_id r.cond).symm

/-! Non-vacuity: `r0: #s0 > 0`, `r1: r0 and filesize > 10`; in the big set two unrelated rules (one true, one referring to
    r0 negatively) are put before and between them: same verdicts at the new positions. -/
example :
    let r0 : Rule := { strs := [[(3, 2)]], cond := .cmp .gt (.count (.id 0)) (.int 0) }
    let r1 : Rule := { strs := [], cond := .and (.ruleRef 0) (.cmp .gt .filesize (.int 10)) }
    let x : Rule := { strs := [], cond := .tt }
    let y : Rule := { strs := [], cond := .not (.ruleRef 1) }
    let pos : Nat → Nat := fun i => if i = 0 then 1 else 3
    evalRules [] 20 [] [r0, r1] [] = [true, true] ∧
    evalRules [] 20 [] [x, r0, y, { r1 with cond := renameRules pos r1.cond }] [] = [true, true, false, true] := by
  decide

end YaraModel.Cond
