/-
  Aho-Corasick tables — the C field WIDTHS cover what the builder can produce (used by C05, C01).
  The Lean model of the construction (Model/AcBuild.lean) keeps slots as unbounded naturals and table entries as UInt32, and
  Thm/AcBuild.lean proves the packed lookup correct under the builder's own limit (`build` = `none` when
  `assert(*slot + 257 < YR_AC_MAX_TRANSITION_TABLE_SIZE)` fails). That transfers to the code only if no C variable a slot passes
  through truncates it. `Gen/AcLayout.lean` is regenerated from the sources on every run (translators/aclayout.py: struct
  YR_AC_STATE / YR_AC_AUTOMATON / YR_RULES, typedef YR_AC_TRANSITION, the locals of ahocorasick.c, the macros); the theorems below
  are `decide` obligations over it: they stop checking when a field is narrowed or a constant changed.
  Note (stated, not proved away): the size limit in the code is ONLY that assert — with -DNDEBUG there is no limit check at all
  and `slot << 9` would silently overflow the 32-bit entry beyond 2^23 slots.
-/
import YaraModel.Gen.AcLayout
import YaraModel.Model.AcBuild
namespace YaraModel.AC.Build
open YaraModel.Gen.AcLayout

/-- every declaration and constant the tie relies on was found in the sources -/
theorem layout_parsed : parsed = true := by decide

/-- **Slots are never truncated**: every slot and every entry index `slot + input + 1` the builder stores is below
    YR_AC_MAX_TRANSITION_TABLE_SIZE (its limit check: `slot + 257 < MAX`, `input + 1 ≤ 256`), and each C variable they are kept
    in — `YR_AC_STATE.t_table_slot`, the `slot` local / out-parameter, `tables_size` (which may exceed the last slot by one
    growth step) — can hold every such value. -/
theorem slot_fields_cover_table :
    sizeGuardMargin = 257 ∧ maxTransitionTableSize ≤ 2 ^ slotFieldBits ∧ maxTransitionTableSize ≤ 2 ^ slotLocalBits ∧
    maxTransitionTableSize + growStep ≤ 2 ^ tablesSizeBits := by decide

/-- **Table entries hold every target and every owner offset**: a transition-table element has `transitionBits` bits,
    `slotOffsetBits` of them for the owner offset (0 … 256) and the rest for the target slot (< MAX). -/
theorem transition_entry_covers :
    256 < 2 ^ slotOffsetBits ∧ maxTransitionTableSize ≤ 2 ^ (transitionBits - slotOffsetBits) := by decide

/-- input is a byte, depth holds every atom length, match-table elements are 32-bit (the `atoms.length < 2^32` hypothesis of
    `build_sound`) in the rules structure and in the builder -/
theorem small_fields_cover : 2 ^ inputFieldBits = 256 ∧ maxAtomLength < 2 ^ depthFieldBits ∧ matchTableBits = 32 ∧ matchLocalBits = 32 := by
  decide

/-- **The constants of the model are the constants of the code**: `mkTransition` shifts by 9 and the tables are `UInt32`
    (`YR_AC_SLOT_OFFSET_BITS`, `YR_AC_TRANSITION`), `findSlot` clears `ok` at `slot + 257 ≥ 0x800000` and grows by 257 when
    `slot > size − 257`, `initRoot` starts with 512 entries. -/
theorem model_constants :
    slotOffsetBits = 9 ∧ transitionBits = 32 ∧ maxTransitionTableSize = 0x800000 ∧ sizeGuardMargin = 257 ∧ growStep = 257 ∧
    growGuardMargin = 257 ∧ initialTablesSize = 512 ∧ (initRoot empty).t.size = initialTablesSize := by
  refine ⟨by decide, by decide, by decide, by decide, by decide, by decide, by decide, ?_⟩
  simp [initRoot, empty, Auto.st, initialTablesSize]

end YaraModel.AC.Build
