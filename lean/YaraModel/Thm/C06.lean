/-
  C06 — Scanning arbitrary bytes with any module is memory-safe and terminates.
  PARTIAL claim: what is proved here is the *logic meant to guarantee* memory safety —
  every bounds predicate regenerated from the C text (Gen/Bounds.lean, translator T5) implies
  an in-range access for ALL 64-bit values, with no hypothesis other than validity of the
  allocation (`base + size < 2^64`, i.e. the buffer does not wrap around the address space),
  the result range of `pe_rva_to_offset`, and the iteration bounds of the capped loops.
  Whether every dereference in the parsers is preceded by such a predicate is NOT modelled;
  that part is only sampled by the sanitizer campaign (vf/checks/c06.py).
  Property theorems only.
-/
import YaraModel.Gen.Bounds
import YaraModel.Gen.Guards
import YaraModel.Lemmas.Bounds
set_option linter.unusedSimpArgs false
namespace YaraModel.C06
open YaraModel.Gen.Bounds YaraModel.PeRva YaraModel.Gen.Guards

/-- The access `[ptr, ptr+n)` lies inside the allocation `[base, base+size)`, as natural numbers (no wrap). -/
def InRange (base size ptr n : BitVec 64) : Prop :=
  base.toNat ≤ ptr.toNat ∧ ptr.toNat + n.toNat ≤ base.toNat + size.toNat

/-- `fits_in_pe` (pe_utils.h; ≈60 call sites in pe.c, ≈40 in dotnet.c) is sound for all 64-bit values. -/
theorem fits_in_pe_sound (data sz p n : BitVec 64) (hv : data.toNat + sz.toNat < 2 ^ 64)
    (h : fits_in_pe data sz p n = true) : InRange data sz p n := by
  simp only [fits_in_pe, Bool.and_eq_true, decide_eq_true_eq, BitVec.le_def, BitVec.toNat_add,
    BitVec.toNat_sub] at h
  unfold InRange
  omega

example : fits_in_pe 0x7f0000001000#64 0x400#64 0x7f00000013f8#64 8#64 = true := by decide

theorem struct_fits_in_pe_sound (data sz p n : BitVec 64) (hv : data.toNat + sz.toNat < 2 ^ 64)
    (h : struct_fits_in_pe data sz p n = true) : InRange data sz p n :=
  fits_in_pe_sound data sz p n hv h

/-- `fits_in_dex` (dex.h). -/
theorem fits_in_dex_sound (data sz p n : BitVec 64) (hv : data.toNat + sz.toNat < 2 ^ 64)
    (h : fits_in_dex data sz p n = true) : InRange data sz p n := by
  simp only [fits_in_dex, Bool.and_eq_true, decide_eq_true_eq, BitVec.le_def, BitVec.toNat_add,
    BitVec.toNat_sub] at h
  unfold InRange
  omega

example : fits_in_dex 0x1000#64 0x70#64 0x1000#64 0x70#64 = true := by decide

theorem struct_fits_in_dex_sound (data sz p n : BitVec 64) (hv : data.toNat + sz.toNat < 2 ^ 64)
    (h : struct_fits_in_dex data sz p n = true) : InRange data sz p n :=
  fits_in_dex_sound data sz p n hv h

/-- `function_read` range test (exec.c: `uint8(off)`, `int32be(off)` … on a memory block with
    virtual base `base`): the `tsize` bytes read lie inside the block. -/
theorem function_read_in_range_sound (base sz off n : BitVec 64) (hv : base.toNat + sz.toNat < 2 ^ 64)
    (h : function_read_in_range base sz off n = true) : InRange base sz off n := by
  simp only [function_read_in_range, Bool.and_eq_true, decide_eq_true_eq, BitVec.le_def,
    BitVec.toNat_add, BitVec.toNat_sub] at h
  unfold InRange
  omega

example : function_read_in_range 0x400000#64 0x10#64 0x40000c#64 4#64 = true := by decide

/-- **`is_valid_ptr`** (elf.c; all users of IS_VALID_PTR and the symbol / string table tests): full-strength soundness of the
    GENERATED definition (the text of /repo on this run), for all 64-bit values, under allocation validity only.
    (Fixed by /repo 6105253; the 4.5.2 text `ptr + ptr_size <= base + size` is unsound, see the regression example below.) -/
theorem is_valid_ptr_sound (b sz p n : BitVec 64) (hv : b.toNat + sz.toNat < 2 ^ 64)
    (h : is_valid_ptr b sz p n = true) : InRange b sz p n := by
  simp only [is_valid_ptr, Bool.and_eq_true, decide_eq_true_eq, BitVec.le_def, BitVec.toNat_add, BitVec.toNat_sub] at h
  unfold InRange
  omega

example : is_valid_ptr 0x1000#64 0x1000#64 0x1ff0#64 16#64 = true := by decide
/-- regression example (F10, fixed): the tuple that the frozen 4.5.2 text accepted is rejected by the current text -/
example : is_valid_ptr_v452 0x1000#64 0x1000#64 0xFFFFFFFFFFFFFFF8#64 16#64 = true ∧
    is_valid_ptr 0x1000#64 0x1000#64 0xFFFFFFFFFFFFFFF8#64 16#64 = false := by decide

/-- arena.c relocation test at load time (generated from the current text, which tests `used < sizeof(void*)` itself):
    an *accepted* relocation entry addresses 8 bytes inside the buffer — for ALL values, no side hypothesis.
    The proof only uses the Nat meaning of the disjuncts, not their grouping into `if`s. -/
theorem arena_reloc_accept_sound (id nb off used bd : BitVec 64)
    (h : arena_reloc_reject id nb off used bd = false) :
    id.toNat < nb.toNat ∧ off.toNat + 8 ≤ used.toNat ∧ bd.toNat ≠ 0 := by
  simp only [arena_reloc_reject, Bool.or_eq_false_iff, decide_eq_false_iff_not, BitVec.le_def,
    BitVec.lt_def, BitVec.toNat_sub, beq_eq_false_iff_ne, ne_eq, BitVec.toNat_eq] at h
  have h8 : (8#64).toNat = 8 := by decide
  have h0 : (0#64).toNat = 0 := by decide
  omega

example : arena_reloc_reject 0#64 1#64 8#64 16#64 1#64 = false := by decide
/-- regression example (F9 family, fixed): the frozen 4.5.2 test accepted offset 0xFFFFFF00 in a 4-byte buffer -/
example : arena_reloc_reject_v452 0#64 1#64 0xFFFFFF00#64 4#64 1#64 = false ∧
    arena_reloc_reject 0#64 1#64 0xFFFFFF00#64 4#64 1#64 = true := by decide

/-- Mach-O fat archive entry (macho.c): an entry that passes both tests lies inside the file, for all values. -/
theorem macho_fat_entry_sound (sz off asz : BitVec 64)
    (h1 : macho_fat_wraps off asz = false) (h2 : macho_fat_outside sz off asz = false) :
    off.toNat + asz.toNat ≤ sz.toNat := by
  simp only [macho_fat_wraps, macho_fat_outside, decide_eq_false_iff_not, BitVec.lt_def, BitVec.toNat_add] at h1 h2
  omega

example : macho_fat_wraps 0x1000#64 0x2000#64 = false ∧ macho_fat_outside 0x3000#64 0x1000#64 0x2000#64 = false := by decide

/-- Mach-O fat arch table: `count` entries of `fat_arch_sz ∈ {20, 32}` bytes after the 8-byte header
    lie inside the file (count is a uint32, so the product cannot wrap). -/
theorem macho_fat_table_sound (sz count esz : BitVec 64) (hc : count.toNat < 2 ^ 32) (he : esz.toNat ≤ 32)
    (h : macho_fat_table_outside sz count esz = false) :
    8 + count.toNat * esz.toNat ≤ sz.toNat := by
  simp only [macho_fat_table_outside, decide_eq_false_iff_not, BitVec.lt_def, BitVec.toNat_add,
    BitVec.toNat_mul] at h
  have h8 : (8#64).toNat = 8 := by decide
  have : count.toNat * esz.toNat < 2 ^ 37 := by
    calc count.toNat * esz.toNat ≤ count.toNat * 32 := Nat.mul_le_mul_left _ he
      _ < 2 ^ 37 := by omega
  omega

/-- ELF program/section table (elf.c `elf_rva_to_offset_*`): a table that passes both tests lies
    inside the file, for all values. -/
theorem elf_table_sound (esz off tsz cnt : BitVec 64)
    (h1 : elf_table_wraps off tsz = false) (h2 : elf_table_outside esz off tsz cnt = false) :
    off.toNat + tsz.toNat ≤ esz.toNat ∧ 0 < off.toNat := by
  have h := of_decide_eq_false h1
  rw [BitVec.lt_def, BitVec.toNat_sub, BitVec.toNat_allOnes] at h
  simp only [elf_table_outside, Bool.or_eq_false_iff, decide_eq_false_iff_not,
    BitVec.lt_def, BitVec.toNat_add, beq_eq_false_iff_ne] at h2
  have h0 : off.toNat ≠ (0#64).toNat := fun e => h2.1.1.1 (BitVec.eq_of_toNat_eq e)
  have hz : (0#64).toNat = 0 := by decide
  have h3 := h2.1.1.2
  have h4 := h2.1.2
  clear h2 h1
  omega

example : elf_table_wraps 0x40#64 0x1c0#64 = false ∧ elf_table_outside 0x1000#64 0x40#64 0x1c0#64 8#64 = false := by decide

/-- .NET string heap access (dotnet.c `pe_get_dotnet_string`): the start byte is inside the file. -/
theorem dotnet_string_start_sound (data sz st idx hs : BitVec 64) (hv : data.toNat + sz.toNat < 2 ^ 64)
    (h : dotnet_string_start_ok data sz st idx hs = true) : InRange data sz st 1#64 := by
  simp only [dotnet_string_start_ok, Bool.and_eq_true, decide_eq_true_eq, BitVec.le_def, BitVec.lt_def,
    BitVec.toNat_add] at h
  have h1 : (1#64).toNat = 1 := by decide
  unfold InRange
  omega

/-- pe.c `available_space`: when neither early return is taken, the pointer is inside the file and the returned
    count is exactly the number of bytes from it to the end of the file. -/
theorem pe_available_space_sound (data sz p : BitVec 64) (hv : data.toNat + sz.toNat < 2 ^ 64)
    (h1 : pe_available_before data sz p = false) (h2 : pe_available_after data sz p = false) :
    data.toNat ≤ p.toNat ∧ p.toNat + (pe_available_value data sz p).toNat = data.toNat + sz.toNat := by
  simp only [pe_available_before, pe_available_after, pe_available_value, decide_eq_false_iff_not, BitVec.le_def,
    BitVec.lt_def, BitVec.toNat_add, BitVec.toNat_sub] at h1 h2 ⊢
  omega

example : pe_available_before 0x1000#64 0x100#64 0x10f0#64 = false ∧ pe_available_after 0x1000#64 0x100#64 0x10f0#64 = false ∧
    pe_available_value 0x1000#64 0x100#64 0x10f0#64 = 0x10#64 := by decide

/-- pe.c export tables: `n * sizeof(DWORD) > data_size - offset` rejected ⇒ the n-entry table at `offset` lies in the file
    (`offset` is a result of pe_rva_to_offset, hence `≤ data_size`; `n` is a uint32 so the product cannot wrap). -/
theorem pe_exports_table_sound (sz off n : BitVec 64) (ho : off.toNat ≤ sz.toNat) (hn : n.toNat < 2 ^ 32)
    (h : pe_exports_table_outside sz off n = false) : off.toNat + 4 * n.toNat ≤ sz.toNat := by
  have h4 : (4#64).toNat = 4 := by decide
  simp only [pe_exports_table_outside, decide_eq_false_iff_not, BitVec.lt_def, BitVec.toNat_sub, BitVec.toNat_mul, h4] at h
  omega

theorem pe_export_names_sound (sz off n : BitVec 64) (ho : off.toNat ≤ sz.toNat) (hn : n.toNat < 2 ^ 32)
    (h : pe_export_names_outside sz off n = false) : off.toNat + 4 * n.toNat ≤ sz.toNat := by
  have h4 : (4#64).toNat = 4 := by decide
  simp only [pe_export_names_outside, decide_eq_false_iff_not, BitVec.lt_def, BitVec.toNat_sub, BitVec.toNat_mul, h4] at h
  omega

example : pe_exports_table_outside 0x1000#64 0xff0#64 4#64 = false ∧ pe_exports_table_outside 0x1000#64 0xff0#64 5#64 = true := by decide

/-- pe.c Rich-header search (F60, fixed by 05c674d): the test before `p = pe->data + nthdr_offset - 4; … *p` now implies, for
    ALL 64-bit values and with no further hypothesis, that the 4-byte read `[nthdr_offset - 4, nthdr_offset)` lies inside the file.
    (4.5.2 accepted `nthdr_offset ≤ data_size + 4`; the frozen text and its witness are kept below as a regression example.) -/
theorem pe_rich_nthdr_sound (sz off : BitVec 64)
    (h : pe_rich_nthdr_reject sz off = false) : 4 ≤ off.toNat ∧ (off.toNat - 4) + 4 ≤ sz.toNat := by
  simp only [pe_rich_nthdr_reject, Bool.or_eq_false_iff, decide_eq_false_iff_not, BitVec.lt_def] at h
  have h4 : (4#64).toNat = 4 := by decide
  omega

/-- pe.c security directory (F61, fixed by e5d373e): `VirtualAddress + Size` is added in 64 bits; for all 32-bit field values
    (`va`, `n` < 2^32, which is what `yr_le32toh` yields) and every file size the accepted directory lies inside the file. -/
theorem pe_security_dir_sound (sz va n : BitVec 64) (hva : va.toNat < 2 ^ 32) (hn : n.toNat < 2 ^ 32)
    (h : pe_security_dir_reject sz va n = false) : 0 < va.toNat ∧ va.toNat + n.toNat ≤ sz.toNat := by
  simp only [pe_security_dir_reject, Bool.or_eq_false_iff, decide_eq_false_iff_not, BitVec.lt_def, BitVec.toNat_add,
    beq_eq_false_iff_ne, ne_eq, BitVec.toNat_eq] at h
  have h0 : (0#64).toNat = 0 := by decide
  omega

/-- dotnet.c blob tests. `blob_offset`/`offset` are pointers formed from file fields, lengths are 32-bit; the additions
    on the left cannot wrap when the buffer does not end within 4 GiB of the top of the address space (`hv`), and the
    pointer is known to be ≥ `data` from the preceding `fits_in_pe` (`hp`). PARTIAL w.r.t. plain allocation validity.
    (Conclusions are the access ranges `[p, p+n) ⊆ buffer`, i.e. `≤`: a `>=`/`>` variation of the C test that keeps the access inside is not an alarm.) -/
theorem dotnet_blob4_sound_partial (data sz p : BitVec 64) (hv : data.toNat + sz.toNat + 2 ^ 32 ≤ 2 ^ 64) (hp : p.toNat ≤ data.toNat + sz.toNat)
    (h : dotnet_blob4_ok data sz p = true) : p.toNat + 4 ≤ data.toNat + sz.toNat := by
  simp only [dotnet_blob4_ok, decide_eq_true_eq, BitVec.lt_def, BitVec.toNat_add] at h
  have h4 : (4#64).toNat = 4 := by decide
  omega

theorem dotnet_blob_entry_sound_partial (data sz p n : BitVec 64) (hv : data.toNat + sz.toNat + 2 ^ 32 ≤ 2 ^ 64)
    (hp : p.toNat ≤ data.toNat + sz.toNat) (hn : n.toNat < 2 ^ 32)
    (h : dotnet_blob_entry_outside data sz p n = false) : p.toNat + n.toNat ≤ data.toNat + sz.toNat := by
  simp only [dotnet_blob_entry_outside, decide_eq_false_iff_not, BitVec.le_def, BitVec.toNat_add] at h
  omega

theorem dotnet_attr_blob_sound_partial (data sz p n : BitVec 64) (hv : data.toNat + sz.toNat + 2 ^ 32 ≤ 2 ^ 64)
    (hp : p.toNat ≤ data.toNat + sz.toNat) (hn : n.toNat < 2 ^ 32)
    (h : dotnet_attr_blob_reject data sz p n = false) : 3 ≤ n.toNat ∧ p.toNat + n.toNat ≤ data.toNat + sz.toNat := by
  simp only [dotnet_attr_blob_reject, Bool.or_eq_false_iff, decide_eq_false_iff_not, BitVec.le_def, BitVec.lt_def, BitVec.toNat_add] at h
  have h3 : (3#64).toNat = 3 := by decide
  omega

theorem dotnet_attr_str_sound_partial (data sz p n : BitVec 64) (hv : data.toNat + sz.toNat + 2 ^ 32 ≤ 2 ^ 64)
    (hp : p.toNat ≤ data.toNat + sz.toNat) (hn : n.toNat < 256)
    (h : dotnet_attr_str_outside data sz p n = false) : p.toNat + n.toNat ≤ data.toNat + sz.toNat := by
  simp only [dotnet_attr_str_outside, decide_eq_false_iff_not, BitVec.lt_def, BitVec.toNat_add] at h
  omega

/-- the index test accepts only pointers strictly inside the file (upper side; all values) -/
theorem dotnet_blob_index_sound (data sz p i : BitVec 64) (hv : data.toNat + sz.toNat < 2 ^ 64)
    (h : dotnet_blob_index_reject data sz p i = false) : i.toNat ≠ 0 ∧ p.toNat < data.toNat + sz.toNat := by
  simp only [dotnet_blob_index_reject, Bool.or_eq_false_iff, decide_eq_false_iff_not, BitVec.le_def, BitVec.toNat_add,
    beq_eq_false_iff_ne, ne_eq, BitVec.toNat_eq] at h
  have h0 : (0#64).toNat = 0 := by decide
  omega

example : dotnet_blob_entry_outside 0x1000#64 0x100#64 0x1080#64 0x7f#64 = false ∧
    dotnet_blob_entry_outside 0x1000#64 0x100#64 0x1080#64 0x80#64 = true := by decide

/-- elf.c `str_table_entry`: an entry pointer that passes both tests is strictly below the table limit, and not below the
    table base when `str_entry = base + index` with a non-negative 31-bit index does not wrap. -/
theorem elf_str_entry_sound (base lim idx : BitVec 64) (hv : base.toNat + 2 ^ 31 ≤ 2 ^ 64) (hi : idx.toNat < 2 ^ 31)
    (h1 : elf_str_table_empty base lim = false) (h2 : elf_str_entry_outside (base + idx) lim = false) :
    base.toNat ≤ (base + idx).toNat ∧ (base + idx).toNat < lim.toNat := by
  simp only [elf_str_table_empty, elf_str_entry_outside, decide_eq_false_iff_not, BitVec.le_def, BitVec.toNat_add] at h1 h2 ⊢
  omega

/-- pe.c `pe_get_section_full_name` (COFF long section names): the loop reads `string[len]` under the guard
    `fits_in_pe(pe, string, <generated size>)`; the guarded size covers the index that is read, so with `fits_in_pe_sound` the byte
    `string + len` lies inside the file, for all values (`len` cannot reach 2^64-1: it counts bytes of the file). -/
theorem pe_fullname_read_in_guard (data sz str len : BitVec 64) (hv : data.toNat + sz.toNat < 2 ^ 64) (hl : len.toNat < 2 ^ 64 - 1)
    (h : fits_in_pe data sz str (pe_fullname_guard_size len) = true) :
    data.toNat ≤ str.toNat ∧ str.toNat + len.toNat < data.toNat + sz.toNat := by
  have hr := fits_in_pe_sound data sz str (pe_fullname_guard_size len) hv h
  have hs : (pe_fullname_guard_size len).toNat = len.toNat + 1 := by
    simp only [pe_fullname_guard_size, BitVec.toNat_add]
    have h1 : (1#64).toNat = 1 := by decide
    omega
  unfold InRange at hr
  omega

/-- **Guard/read pairs** (translators/guards.py, regenerated from pe.c, pe_utils.c, dotnet.c, elf.c and the packed layouts of pe.h, dotnet.h, elf.h on
    every run): for EVERY extracted site `struct_fits_in_pe(pe, p, T)` / `IS_VALID_PTR(elf, elf_size, p)` the furthest byte read through `p` in the same
    function (`p->field`, `p[k].field`, `(p + k)->field`, with the layout of p's DECLARED type) lies within the size that was guarded. -/
theorem struct_guard_reads_in_guard : ∀ s ∈ structGuards, s.readExtent ≤ s.guardSize ∧ s.guardSize < 2 ^ 16 := by decide

/-- …hence, when the guard `fits_in_pe(pe, p, sizeof(T))` passed, every one of those reads is inside the file — for all 64-bit values of the pointer,
    the buffer address and its size, under allocation validity only. -/
theorem struct_guard_read_in_file (s : Site) (hs : s ∈ structGuards) (data sz p : BitVec 64) (hv : data.toNat + sz.toNat < 2 ^ 64)
    (h : fits_in_pe data sz p (BitVec.ofNat 64 s.guardSize) = true) : InRange data sz p (BitVec.ofNat 64 s.readExtent) := by
  have hb := struct_guard_reads_in_guard s hs
  have hr := fits_in_pe_sound data sz p (BitVec.ofNat 64 s.guardSize) hv h
  unfold InRange at hr ⊢
  simp only [BitVec.toNat_ofNat] at hr ⊢
  have e1 : s.guardSize % 2 ^ 64 = s.guardSize := Nat.mod_eq_of_lt (by omega)
  have e2 : s.readExtent % 2 ^ 64 = s.readExtent := Nat.mod_eq_of_lt (by omega)
  omega

/-- the same for the ELF sites, whose guard is `is_valid_ptr(elf, elf_size, p, sizeof(*p))` -/
theorem elf_guard_read_in_file (s : Site) (hs : s ∈ structGuards) (base sz p : BitVec 64) (hv : base.toNat + sz.toNat < 2 ^ 64)
    (h : is_valid_ptr base sz p (BitVec.ofNat 64 s.guardSize) = true) : InRange base sz p (BitVec.ofNat 64 s.readExtent) := by
  have hb := struct_guard_reads_in_guard s hs
  have hr := is_valid_ptr_sound base sz p (BitVec.ofNat 64 s.guardSize) hv h
  unfold InRange at hr ⊢
  simp only [BitVec.toNat_ofNat] at hr ⊢
  have e1 : s.guardSize % 2 ^ 64 = s.guardSize := Nat.mod_eq_of_lt (by omega)
  have e2 : s.readExtent % 2 ^ 64 = s.readExtent := Nat.mod_eq_of_lt (by omega)
  omega

/-- the table is not vacuous -/
example : 20 ≤ structGuards.length ∧ structGuards.any (fun s => s.readExtent == s.guardSize) = true := by decide

/-- pe.c string walks `remaining = <generated bound>; strnlen((char*)(pe->data + offset), remaining)` (export / DLL names): the walk cannot leave the
    file (`offset` is a result of pe_rva_to_offset, hence `≤ data_size`). -/
theorem pe_strnlen_walk_in_file (sz off : BitVec 64) (ho : off.toNat ≤ sz.toNat) :
    ∀ b ∈ pe_strnlen_bounds sz off, off.toNat + b.toNat ≤ sz.toNat := by
  intro b hb
  simp only [pe_strnlen_bounds, List.mem_cons, List.mem_nil_iff, or_false] at hb
  rcases hb with rfl
  simp only [BitVec.toNat_sub]
  omega

example : (pe_strnlen_bounds 100#64 40#64) = [60#64] := by decide

/-- Mach-O load-command walk: every command handled by the loop has its 8-byte header and its whole
    `cmdsize` extent inside the file, makes progress ≥ 8, for all `cmdsize` streams and all fuel.
    Hypotheses: `parsed ≤ size` initially (the caller checked `size ≥ sizeof(header)`), and
    `data + size + 8 ≤ 2^64` — PARTIAL w.r.t. plain allocation validity: `command + 8` in the first
    test may wrap when the buffer ends within 8 bytes of the top of the address space. -/
theorem macho_cmd_loop_in_bounds_partial (data size : BitVec 64) (hv : data.toNat + size.toNat + 8 ≤ 2 ^ 64)
    (fuel : Nat) (parsed : BitVec 64) (cs : List (BitVec 64)) (hp : parsed.toNat ≤ size.toNat) :
    ∀ oc ∈ cmdLoop data size fuel parsed cs,
      oc.1.toNat + 8 ≤ size.toNat ∧ oc.1.toNat + oc.2.toNat ≤ size.toNat ∧ 8 ≤ oc.2.toNat := by
  induction fuel generalizing parsed cs with
  | zero => intro oc h; simp [cmdLoop] at h
  | succ f ih =>
    cases cs with
    | nil => intro oc h; simp [cmdLoop] at h
    | cons c cs =>
      intro oc h
      simp only [cmdLoop] at h
      split at h
      · simp at h
      · split at h
        · simp at h
        · split at h
          · simp at h
          · rename_i h1 h2 h3
            simp only [macho_cmd_hdr_outside, macho_cmd_too_big, macho_cmd_too_small, decide_eq_true_eq,
              BitVec.lt_def, BitVec.toNat_add, BitVec.toNat_sub] at h1 h2 h3
            have h8 : (8#64).toNat = 8 := by decide
            have hc := c.isLt
            have hq := parsed.isLt
            rcases List.mem_cons.mp h with rfl | hin
            · simp only
              omega
            · refine ih (parsed + c) cs ?_ oc hin
              simp only [BitVec.toNat_add]
              omega

/-- Termination measure of the same walk: at most `(size - parsed) / 8` commands are handled
    whatever the `ncmds` cap and the file contents are. -/
theorem macho_cmd_loop_progress (data size : BitVec 64) (fuel : Nat) (parsed : BitVec 64)
    (cs : List (BitVec 64)) (hp : parsed.toNat ≤ size.toNat) :
    8 * (cmdLoop data size fuel parsed cs).length ≤ size.toNat - parsed.toNat ∧
    (cmdLoop data size fuel parsed cs).length ≤ fuel := by
  induction fuel generalizing parsed cs with
  | zero => simp [cmdLoop]
  | succ f ih =>
    cases cs with
    | nil => simp [cmdLoop]
    | cons c cs =>
      simp only [cmdLoop]
      split
      · simp
      · split
        · simp
        · split
          · simp
          · rename_i h1 h2 h3
            simp only [macho_cmd_too_big, macho_cmd_too_small, decide_eq_true_eq,
              BitVec.lt_def, BitVec.toNat_sub] at h2 h3
            have h8 : (8#64).toNat = 8 := by decide
            have hc := c.isLt
            have hq := parsed.isLt
            have hs := size.isLt
            have hle : (parsed + c).toNat ≤ size.toNat := by simp only [BitVec.toNat_add]; omega
            have := ih (parsed + c) cs hle
            have e : (parsed + c).toNat = parsed.toNat + c.toNat := by simp only [BitVec.toNat_add]; omega
            simp only [List.length_cons]
            omega

/-- `pe_rva_to_offset`: a defined result is a valid file offset (`< data_size`), for every section
    table, every alignment, every rva. -/
theorem rva_to_offset_bounded (dataSize fa sa nsec secOff : Nat) (secs : List Sect) (rva r : Nat)
    (h : rvaToOffset dataSize fa sa nsec secOff secs rva = some r) : r < dataSize := by
  unfold rvaToOffset at h
  split at h
  · cases h
  · unfold finish at h
    split at h <;> exact finishCore_bounded _ _ _ _ _ _ h

example : rvaToOffset 0x1000 0x200 0x1000 1 0x178 [⟨0x1000, 0x200, 0x400, 0x200⟩] 0x1010 = some 0x410 := by decide

/-- …and its section walk runs at most `min(NumberOfSections, MAX_PE_SECTIONS)` ≤ 96 times. -/
theorem rva_to_offset_iterations (dataSize fa sa nsec secOff : Nat) (secs : List Sect) (rva : Nat) :
    rvaIterations dataSize fa sa nsec secOff secs rva ≤ MAX_PE_SECTIONS := by
  unfold rvaIterations
  split
  · exact Nat.zero_le _
  · rename_i a n h
    have := sectLoop_iterations _ _ _ _ _ _ _ _ _ _ _ h
    have : min nsec MAX_PE_SECTIONS ≤ MAX_PE_SECTIONS := Nat.min_le_right _ _
    omega

/-- Iteration cap: a loop `for (i = 0; i < cap; i++) { if (!progress) break; … }` runs its body at most
    `cap` times whatever the body does (used with the generated caps `MAX_PE_SECTIONS`, `MAX_PE_IMPORTS`,
    `MAX_PE_EXPORTS`, `MAX_RESOURCES`, `MAX_METHOD_COUNT`, …). -/
theorem capped_loop_iterations_le {σ : Type} (body : σ → Option σ) (cap : Nat) (s : σ) :
    (cappedLoop body cap s).2 ≤ cap := by
  induction cap generalizing s with
  | zero => simp [cappedLoop]
  | succ n ih =>
    simp only [cappedLoop]
    split
    · simp
    · rename_i s' _
      have := ih s'
      simp only
      omega

example : (cappedLoop (fun (n : Nat) => if n < 1000000 then some (n + 1) else none) MAX_PE_SECTIONS 0).2 = 96 := by decide

end YaraModel.C06
