/-
  C06 — Scanning arbitrary bytes with any module is memory-safe and terminates.
  PARTIAL claim: what is proved here is the *logic meant to guarantee* memory safety —
  every bounds predicate regenerated from the C text (Gen/Bounds.lean, translator T5) implies
  an in-range access for ALL 64-bit values, with no hypothesis other than validity of the
  allocation (`base + size < 2^64`, i.e. the buffer does not wrap around the address space),
  the result range of `pe_rva_to_offset`, and the iteration bounds of the capped loops.
  Whether every dereference in the parsers is preceded by such a predicate is NOT modelled;
  that part is only sampled by the sanitizer campaign (vf/checks/c06.py).
  Property theorems only.
-/
import YaraModel.Gen.Bounds
import YaraModel.Lemmas.Bounds
set_option linter.unusedSimpArgs false
namespace YaraModel.C06
open YaraModel.Gen.Bounds YaraModel.PeRva

/-- The access `[ptr, ptr+n)` lies inside the allocation `[base, base+size)`, as natural numbers (no wrap). -/
def InRange (base size ptr n : BitVec 64) : Prop :=
  base.toNat ≤ ptr.toNat ∧ ptr.toNat + n.toNat ≤ base.toNat + size.toNat

/-- `fits_in_pe` (pe_utils.h; ≈60 call sites in pe.c, ≈40 in dotnet.c) is sound for all 64-bit values. -/
theorem fits_in_pe_sound (data sz p n : BitVec 64) (hv : data.toNat + sz.toNat < 2 ^ 64)
    (h : fits_in_pe data sz p n = true) : InRange data sz p n := by
  simp only [fits_in_pe, Bool.and_eq_true, decide_eq_true_eq, BitVec.le_def, BitVec.toNat_add,
    BitVec.toNat_sub] at h
  unfold InRange
  omega

example : fits_in_pe 0x7f0000001000#64 0x400#64 0x7f00000013f8#64 8#64 = true := by decide

theorem struct_fits_in_pe_sound (data sz p n : BitVec 64) (hv : data.toNat + sz.toNat < 2 ^ 64)
    (h : struct_fits_in_pe data sz p n = true) : InRange data sz p n :=
  fits_in_pe_sound data sz p n hv h

/-- `fits_in_dex` (dex.h). -/
theorem fits_in_dex_sound (data sz p n : BitVec 64) (hv : data.toNat + sz.toNat < 2 ^ 64)
    (h : fits_in_dex data sz p n = true) : InRange data sz p n := by
  simp only [fits_in_dex, Bool.and_eq_true, decide_eq_true_eq, BitVec.le_def, BitVec.toNat_add,
    BitVec.toNat_sub] at h
  unfold InRange
  omega

example : fits_in_dex 0x1000#64 0x70#64 0x1000#64 0x70#64 = true := by decide

theorem struct_fits_in_dex_sound (data sz p n : BitVec 64) (hv : data.toNat + sz.toNat < 2 ^ 64)
    (h : struct_fits_in_dex data sz p n = true) : InRange data sz p n :=
  fits_in_dex_sound data sz p n hv h

/-- `function_read` range test (exec.c: `uint8(off)`, `int32be(off)` … on a memory block with
    virtual base `base`): the `tsize` bytes read lie inside the block. -/
theorem function_read_in_range_sound (base sz off n : BitVec 64) (hv : base.toNat + sz.toNat < 2 ^ 64)
    (h : function_read_in_range base sz off n = true) : InRange base sz off n := by
  simp only [function_read_in_range, Bool.and_eq_true, decide_eq_true_eq, BitVec.le_def,
    BitVec.toNat_add, BitVec.toNat_sub] at h
  unfold InRange
  omega

example : function_read_in_range 0x400000#64 0x10#64 0x40000c#64 4#64 = true := by decide

/-- **F10.** The full-strength statement is FALSE for `is_valid_ptr` as written in yara 4.5.2 (elf.c:309-310, frozen copy
    `Lemmas/Bounds.is_valid_ptr_v452`; the live text is `Gen.Bounds.is_valid_ptr` and is searched for such tuples on every
    run by vf/checks/c06.py): `ptr + ptr_size` wraps around for `ptr` near 2^64 (`ptr` is `elf_raw + <64-bit file offset>`).
    Witness: a valid 4 KiB buffer at 0x1000, ptr = 2^64-8, ptr_size = 16 is accepted. -/
theorem is_valid_ptr_v452_unsound_witness :
    ∃ b sz p n : BitVec 64, b.toNat + sz.toNat < 2 ^ 64 ∧ is_valid_ptr_v452 b sz p n = true ∧ ¬ InRange b sz p n :=
  ⟨0x1000#64, 0x1000#64, 0xFFFFFFFFFFFFFFF8#64, 16#64, by decide, by decide, by unfold InRange; decide⟩

/-- What does hold: `is_valid_ptr` is sound when `ptr + ptr_size` does not wrap (extra hypothesis `hp`).
    Full statement (false for the 4.5.2 text, see witness): the same without `hp`. -/
theorem is_valid_ptr_sound_partial (b sz p n : BitVec 64) (hv : b.toNat + sz.toNat < 2 ^ 64)
    (hp : p.toNat + n.toNat < 2 ^ 64)
    (h : is_valid_ptr b sz p n = true) : InRange b sz p n := by
  -- (simp set covers both the 4.5.2 text and the subtraction form of notes/C06-is_valid_ptr.diff)
  simp only [is_valid_ptr, Bool.and_eq_true, decide_eq_true_eq, BitVec.le_def, BitVec.toNat_add, BitVec.toNat_sub] at h
  unfold InRange
  omega

example : is_valid_ptr 0x1000#64 0x1000#64 0x1ff0#64 16#64 = true := by decide

/-- The repaired test proposed in notes/C06-is_valid_ptr.diff (by subtraction) is sound without `hp`. -/
theorem is_valid_ptr_fixed_sound (b sz p n : BitVec 64) (hv : b.toNat + sz.toNat < 2 ^ 64)
    (h : (decide (b ≤ p) && decide (n ≤ sz) && decide (p - b ≤ sz - n)) = true) : InRange b sz p n := by
  simp only [Bool.and_eq_true, decide_eq_true_eq, BitVec.le_def, BitVec.toNat_sub] at h
  unfold InRange
  omega

/-- arena.c relocation test at load time: an *accepted* relocation entry addresses 8 bytes inside the buffer.
    PARTIAL: stated with `used ≥ 8`, which the 4.5.2 text needs (`b->used - sizeof(void*)` wraps below that, F9 family,
    witness below); texts that test `used < sizeof(void*)` themselves satisfy the hypothesis-free statement as well
    (`arena_reloc_accept_sound_v2`, proved over a frozen copy of that form). The proof only uses the Nat meaning of the
    disjuncts, not their order, so regrouping the test into several `if`s does not break it. -/
theorem arena_reloc_accept_sound_partial (id nb off used bd : BitVec 64) (hu : 8 ≤ used.toNat)
    (h : arena_reloc_reject id nb off used bd = false) :
    id.toNat < nb.toNat ∧ off.toNat + 8 ≤ used.toNat ∧ bd.toNat ≠ 0 := by
  simp only [arena_reloc_reject, Bool.or_eq_false_iff, decide_eq_false_iff_not, BitVec.le_def,
    BitVec.lt_def, BitVec.toNat_sub, beq_eq_false_iff_ne, ne_eq, BitVec.toNat_eq] at h
  have h8 : (8#64).toNat = 8 := by decide
  have h0 : (0#64).toNat = 0 := by decide
  omega

/-- the stricter form (explicit `used < sizeof(void*)` test) is sound for ALL values, no side hypothesis -/
theorem arena_reloc_accept_sound_v2 (id nb off used bd : BitVec 64)
    (h : arena_reloc_reject_v2 id nb off used bd = false) :
    id.toNat < nb.toNat ∧ off.toNat + 8 ≤ used.toNat ∧ bd.toNat ≠ 0 := by
  simp only [arena_reloc_reject_v2, Bool.or_eq_false_iff, decide_eq_false_iff_not, BitVec.le_def,
    BitVec.lt_def, BitVec.toNat_sub, beq_eq_false_iff_ne, ne_eq, BitVec.toNat_eq] at h
  have h8 : (8#64).toNat = 8 := by decide
  have h0 : (0#64).toNat = 0 := by decide
  omega

theorem arena_reloc_v452_unsound_witness :
    ∃ id nb off used bd : BitVec 64, arena_reloc_reject_v452 id nb off used bd = false ∧ ¬ off.toNat + 8 ≤ used.toNat :=
  ⟨0#64, 1#64, 0xFFFFFF00#64, 4#64, 1#64, by decide, by decide⟩

/-- Mach-O fat archive entry (macho.c): an entry that passes both tests lies inside the file, for all values. -/
theorem macho_fat_entry_sound (sz off asz : BitVec 64)
    (h1 : macho_fat_wraps off asz = false) (h2 : macho_fat_outside sz off asz = false) :
    off.toNat + asz.toNat ≤ sz.toNat := by
  simp only [macho_fat_wraps, macho_fat_outside, decide_eq_false_iff_not, BitVec.lt_def, BitVec.toNat_add] at h1 h2
  omega

example : macho_fat_wraps 0x1000#64 0x2000#64 = false ∧ macho_fat_outside 0x3000#64 0x1000#64 0x2000#64 = false := by decide

/-- Mach-O fat arch table: `count` entries of `fat_arch_sz ∈ {20, 32}` bytes after the 8-byte header
    lie inside the file (count is a uint32, so the product cannot wrap). -/
theorem macho_fat_table_sound (sz count esz : BitVec 64) (hc : count.toNat < 2 ^ 32) (he : esz.toNat ≤ 32)
    (h : macho_fat_table_outside sz count esz = false) :
    8 + count.toNat * esz.toNat ≤ sz.toNat := by
  simp only [macho_fat_table_outside, decide_eq_false_iff_not, BitVec.lt_def, BitVec.toNat_add,
    BitVec.toNat_mul] at h
  have h8 : (8#64).toNat = 8 := by decide
  have : count.toNat * esz.toNat < 2 ^ 37 := by
    calc count.toNat * esz.toNat ≤ count.toNat * 32 := Nat.mul_le_mul_left _ he
      _ < 2 ^ 37 := by omega
  omega

/-- ELF program/section table (elf.c `elf_rva_to_offset_*`): a table that passes both tests lies
    inside the file, for all values. -/
theorem elf_table_sound (esz off tsz cnt : BitVec 64)
    (h1 : elf_table_wraps off tsz = false) (h2 : elf_table_outside esz off tsz cnt = false) :
    off.toNat + tsz.toNat ≤ esz.toNat ∧ 0 < off.toNat := by
  have h := of_decide_eq_false h1
  rw [BitVec.lt_def, BitVec.toNat_sub, BitVec.toNat_allOnes] at h
  simp only [elf_table_outside, Bool.or_eq_false_iff, decide_eq_false_iff_not,
    BitVec.lt_def, BitVec.toNat_add, beq_eq_false_iff_ne] at h2
  have h0 : off.toNat ≠ (0#64).toNat := fun e => h2.1.1.1 (BitVec.eq_of_toNat_eq e)
  have hz : (0#64).toNat = 0 := by decide
  have h3 := h2.1.1.2
  have h4 := h2.1.2
  clear h2 h1
  omega

example : elf_table_wraps 0x40#64 0x1c0#64 = false ∧ elf_table_outside 0x1000#64 0x40#64 0x1c0#64 8#64 = false := by decide

/-- .NET string heap access (dotnet.c `pe_get_dotnet_string`): the start byte is inside the file. -/
theorem dotnet_string_start_sound (data sz st idx hs : BitVec 64) (hv : data.toNat + sz.toNat < 2 ^ 64)
    (h : dotnet_string_start_ok data sz st idx hs = true) : InRange data sz st 1#64 := by
  simp only [dotnet_string_start_ok, Bool.and_eq_true, decide_eq_true_eq, BitVec.le_def, BitVec.lt_def,
    BitVec.toNat_add] at h
  have h1 : (1#64).toNat = 1 := by decide
  unfold InRange
  omega

/-- Mach-O load-command walk: every command handled by the loop has its 8-byte header and its whole
    `cmdsize` extent inside the file, makes progress ≥ 8, for all `cmdsize` streams and all fuel.
    Hypotheses: `parsed ≤ size` initially (the caller checked `size ≥ sizeof(header)`), and
    `data + size + 8 ≤ 2^64` — PARTIAL w.r.t. plain allocation validity: `command + 8` in the first
    test may wrap when the buffer ends within 8 bytes of the top of the address space. -/
theorem macho_cmd_loop_in_bounds_partial (data size : BitVec 64) (hv : data.toNat + size.toNat + 8 ≤ 2 ^ 64)
    (fuel : Nat) (parsed : BitVec 64) (cs : List (BitVec 64)) (hp : parsed.toNat ≤ size.toNat) :
    ∀ oc ∈ cmdLoop data size fuel parsed cs,
      oc.1.toNat + 8 ≤ size.toNat ∧ oc.1.toNat + oc.2.toNat ≤ size.toNat ∧ 8 ≤ oc.2.toNat := by
  induction fuel generalizing parsed cs with
  | zero => intro oc h; simp [cmdLoop] at h
  | succ f ih =>
    cases cs with
    | nil => intro oc h; simp [cmdLoop] at h
    | cons c cs =>
      intro oc h
      simp only [cmdLoop] at h
      split at h
      · simp at h
      · split at h
        · simp at h
        · split at h
          · simp at h
          · rename_i h1 h2 h3
            simp only [macho_cmd_hdr_outside, macho_cmd_too_big, macho_cmd_too_small, decide_eq_true_eq,
              BitVec.lt_def, BitVec.toNat_add, BitVec.toNat_sub] at h1 h2 h3
            have h8 : (8#64).toNat = 8 := by decide
            have hc := c.isLt
            have hq := parsed.isLt
            rcases List.mem_cons.mp h with rfl | hin
            · simp only
              omega
            · refine ih (parsed + c) cs ?_ oc hin
              simp only [BitVec.toNat_add]
              omega

/-- Termination measure of the same walk: at most `(size - parsed) / 8` commands are handled
    whatever the `ncmds` cap and the file contents are. -/
theorem macho_cmd_loop_progress (data size : BitVec 64) (fuel : Nat) (parsed : BitVec 64)
    (cs : List (BitVec 64)) (hp : parsed.toNat ≤ size.toNat) :
    8 * (cmdLoop data size fuel parsed cs).length ≤ size.toNat - parsed.toNat ∧
    (cmdLoop data size fuel parsed cs).length ≤ fuel := by
  induction fuel generalizing parsed cs with
  | zero => simp [cmdLoop]
  | succ f ih =>
    cases cs with
    | nil => simp [cmdLoop]
    | cons c cs =>
      simp only [cmdLoop]
      split
      · simp
      · split
        · simp
        · split
          · simp
          · rename_i h1 h2 h3
            simp only [macho_cmd_too_big, macho_cmd_too_small, decide_eq_true_eq,
              BitVec.lt_def, BitVec.toNat_sub] at h2 h3
            have h8 : (8#64).toNat = 8 := by decide
            have hc := c.isLt
            have hq := parsed.isLt
            have hs := size.isLt
            have hle : (parsed + c).toNat ≤ size.toNat := by simp only [BitVec.toNat_add]; omega
            have := ih (parsed + c) cs hle
            have e : (parsed + c).toNat = parsed.toNat + c.toNat := by simp only [BitVec.toNat_add]; omega
            simp only [List.length_cons]
            omega

/-- `pe_rva_to_offset`: a defined result is a valid file offset (`< data_size`), for every section
    table, every alignment, every rva. -/
theorem rva_to_offset_bounded (dataSize fa sa nsec secOff : Nat) (secs : List Sect) (rva r : Nat)
    (h : rvaToOffset dataSize fa sa nsec secOff secs rva = some r) : r < dataSize := by
  unfold rvaToOffset at h
  split at h
  · cases h
  · unfold finish at h
    split at h <;> exact finishCore_bounded _ _ _ _ _ _ h

example : rvaToOffset 0x1000 0x200 0x1000 1 0x178 [⟨0x1000, 0x200, 0x400, 0x200⟩] 0x1010 = some 0x410 := by decide

/-- …and its section walk runs at most `min(NumberOfSections, MAX_PE_SECTIONS)` ≤ 96 times. -/
theorem rva_to_offset_iterations (dataSize fa sa nsec secOff : Nat) (secs : List Sect) (rva : Nat) :
    rvaIterations dataSize fa sa nsec secOff secs rva ≤ MAX_PE_SECTIONS := by
  unfold rvaIterations
  split
  · exact Nat.zero_le _
  · rename_i a n h
    have := sectLoop_iterations _ _ _ _ _ _ _ _ _ _ _ h
    have : min nsec MAX_PE_SECTIONS ≤ MAX_PE_SECTIONS := Nat.min_le_right _ _
    omega

/-- Iteration cap: a loop `for (i = 0; i < cap; i++) { if (!progress) break; … }` runs its body at most
    `cap` times whatever the body does (used with the generated caps `MAX_PE_SECTIONS`, `MAX_PE_IMPORTS`,
    `MAX_PE_EXPORTS`, `MAX_RESOURCES`, `MAX_METHOD_COUNT`, …). -/
theorem capped_loop_iterations_le {σ : Type} (body : σ → Option σ) (cap : Nat) (s : σ) :
    (cappedLoop body cap s).2 ≤ cap := by
  induction cap generalizing s with
  | zero => simp [cappedLoop]
  | succ n ih =>
    simp only [cappedLoop]
    split
    · simp
    · rename_i s' _
      have := ih s'
      simp only
      omega

example : (cappedLoop (fun (n : Nat) => if n < 1000000 then some (n + 1) else none) MAX_PE_SECTIONS 0).2 = 96 := by decide

end YaraModel.C06
