/-
  C11 — The scan callback protocol is exact.
  Property theorems only; helper lemmas are in Lemmas/Callback*.lean.
  Every statement is about `scan`, the C-shaped model of Model/Callback.lean, and quantifies over
  EVERY rule list (any number of rules / namespaces, global / private / global+private / plain,
  any condition over literals, strings and rule identifiers), EVERY import list, EVERY flag pair and
  EVERY callback script (list of answers; CONTINUE once exhausted).
  `tr[k]? = some m` reads "the k-th message of the trace is m"; `answer script k` is the
  callback's answer to it.
-/
import YaraModel.Lemmas.CallbackLimit
namespace YaraModel.Cb

/-- **Refinement.** The model of the code (module table, two bit sets, skipped rules, loop with
    two exits) produces exactly the trace and return code of the protocol specification. -/
theorem scan_eq_spec (rs : List Rule) (imports : List String) (fl : Flags) (script : List Ret) :
    scan rs imports fl script = specScan rs imports fl script :=
  scan_eq_specScan rs imports fl script

/-- Whatever the callback answers, the trace is an initial segment of
    "module messages, rule messages, finished": nothing else, nothing twice, nothing out of order. -/
theorem trace_prefix_of_protocol (rs : List Rule) (imports : List String) (fl : Flags) (script : List Ret) :
    (scan rs imports fl script).1 <+: moduleMsgs imports ++ ruleMsgs rs fl ++ [.scanFinished] :=
  scan_prefix rs imports fl script

/-- **Each non-private rule exactly once, in definition order** (1/3): in a scan that is not
    stopped the rule messages are exactly `ruleMsgs`; in any scan they are an initial segment of it. -/
theorem each_nonprivate_once_in_order (rs : List Rule) (imports : List String) (fl : Flags) (script : List Ret) :
    (scan rs imports fl script).1.filter Msg.isRule <+: ruleMsgs rs fl ∧
    (NotStopped (scan rs imports fl script).1 script →
      (scan rs imports fl script).1.filter Msg.isRule = ruleMsgs rs fl) := by
  constructor
  · rw [← protocol_filter_rule rs imports fl]
    exact (scan_prefix rs imports fl script).filter _
  · intro h
    rw [(scan_complete rs imports fl script h).1, protocol_filter_rule]

/-- (2/3) `ruleMsgs` lists rules with strictly increasing index: definition order, no rule twice. -/
theorem ruleMsgs_definition_order (rs : List Rule) (fl : Flags) :
    ((ruleMsgs rs fl).map Msg.ruleIdx).Pairwise (· < ·) :=
  List.Pairwise.sublist (ruleMsgs_idx_sublist rs fl) (List.pairwise_lt_range' 1)

/-- (3/3) `ruleMsgs` contains precisely: every non-private rule, as matching or as not matching,
    filtered only by the two report flags. -/
theorem ruleMsgs_content (rs : List Rule) (fl : Flags) (i : Nat) :
    (Msg.ruleMatching i ∈ ruleMsgs rs fl ↔
      ∃ r, rs[i]? = some r ∧ r.isPrivate = false ∧ fl.matching = true ∧ specMatching rs i r = true) ∧
    (Msg.ruleNotMatching i ∈ ruleMsgs rs fl ↔
      ∃ r, rs[i]? = some r ∧ r.isPrivate = false ∧ fl.notMatching = true ∧ specMatching rs i r = false) := by
  constructor
  · rw [mem_ruleMsgs]
    constructor
    · rintro ⟨r, j, hj, hm⟩
      have h := ruleMsg_some hm
      have hij : i = j := by simpa [Msg.ruleIdx] using h.2.1
      subst hij
      rcases h.2.2 with ⟨_, h2, h3⟩ | ⟨h1, _, _⟩
      · exact ⟨r, hj, h.1, h2, h3⟩
      · cases h1
    · rintro ⟨r, hr, hp, hf, hs⟩
      exact ⟨r, i, hr, by simp [ruleMsg, hp, hf, hs]⟩
  · rw [mem_ruleMsgs]
    constructor
    · rintro ⟨r, j, hj, hm⟩
      have h := ruleMsg_some hm
      have hij : i = j := by simpa [Msg.ruleIdx] using h.2.1
      subst hij
      rcases h.2.2 with ⟨h1, _, _⟩ | ⟨_, h2, h3⟩
      · cases h1
      · exact ⟨r, hj, h.1, h2, h3⟩
    · rintro ⟨r, hr, hp, hf, hs⟩
      exact ⟨r, i, hr, by simp [ruleMsg, hp, hf, hs]⟩

/-- **Private rules are never reported**, whatever the flags and the callback do. -/
theorem private_never (rs : List Rule) (imports : List String) (fl : Flags) (script : List Ret)
    (m : Msg) (hm : m ∈ (scan rs imports fl script).1) (hr : m.isRule = true) :
    ∃ r, rs[m.ruleIdx]? = some r ∧ r.isPrivate = false := by
  obtain ⟨r, i, hi, h⟩ := mem_ruleMsgs.1 (mem_scan_rule rs imports fl script m hm hr)
  have := ruleMsg_some h
  exact ⟨r, by rw [this.2.1]; exact hi, this.1⟩

/-- **A single finished message comes last iff the scan is not stopped**: the finished message is
    in the trace exactly when no answer ended the scan; then the trace is the complete protocol, ends
    with the only finished message, and the return code is success. -/
theorem finished_last_iff_not_aborted (rs : List Rule) (imports : List String) (fl : Flags) (script : List Ret) :
    (Msg.scanFinished ∈ (scan rs imports fl script).1 ↔ NotStopped (scan rs imports fl script).1 script) ∧
    (NotStopped (scan rs imports fl script).1 script →
      ∃ body, (scan rs imports fl script).1 = body ++ [.scanFinished] ∧ Msg.scanFinished ∉ body ∧
        body = moduleMsgs imports ++ ruleMsgs rs fl ∧ (scan rs imports fl script).2 = .success) := by
  refine ⟨finished_mem_iff rs imports fl script, fun h => ?_⟩
  have hc := scan_complete rs imports fl script h
  exact ⟨_, by rw [hc.1]; rfl, finished_not_mem_body rs imports fl, rfl, hc.2⟩

/-- **Flag filtering**: a matching (not-matching) message needs REPORT_RULES_MATCHING
    (REPORT_RULES_NOT_MATCHING); giving neither flag means both. -/
theorem flags_filter (rs : List Rule) (imports : List String) (fl : Flags) (script : List Ret) (i : Nat) :
    (Msg.ruleMatching i ∈ (scan rs imports fl script).1 → fl.matching = true) ∧
    (Msg.ruleNotMatching i ∈ (scan rs imports fl script).1 → fl.notMatching = true) ∧
    setFlags false false = ⟨true, true⟩ ∧ (∀ m n, (m || n) = true → setFlags m n = ⟨m, n⟩) := by
  refine ⟨fun h => ?_, fun h => ?_, rfl, ?_⟩
  · obtain ⟨_, _, _, hf, _⟩ := (ruleMsgs_content rs fl i).1.1 (mem_scan_rule rs imports fl script _ h rfl)
    exact hf
  · obtain ⟨_, _, _, hf, _⟩ := (ruleMsgs_content rs fl i).2.1 (mem_scan_rule rs imports fl script _ h rfl)
    exact hf
  · intro m n h
    cases m <;> cases n <;> simp_all [setFlags]

/-- **Reported as matching iff the own condition holds and every global rule of the namespace
    holds** — for every rule message that reaches the callback (aborted scans included). -/
theorem matching_iff_cond_and_globals (rs : List Rule) (imports : List String) (fl : Flags) (script : List Ret) (i : Nat) :
    (Msg.ruleMatching i ∈ (scan rs imports fl script).1 →
      ∃ r, rs[i]? = some r ∧ condHolds rs i = true ∧
        ∀ (j : Nat) (g : Rule), rs[j]? = some g → g.isGlobal = true → g.ns = r.ns → condHolds rs j = true) ∧
    (Msg.ruleNotMatching i ∈ (scan rs imports fl script).1 →
      ∃ r, rs[i]? = some r ∧
        ¬ (condHolds rs i = true ∧
           ∀ (j : Nat) (g : Rule), rs[j]? = some g → g.isGlobal = true → g.ns = r.ns → condHolds rs j = true)) := by
  constructor
  · intro h
    obtain ⟨r, hr, _, _, hs⟩ := (ruleMsgs_content rs fl i).1.1 (mem_scan_rule rs imports fl script _ h rfl)
    simp only [specMatching, Bool.and_eq_true] at hs
    exact ⟨r, hr, hs.1, (globalsHold_iff rs r.ns).1 hs.2⟩
  · intro h
    obtain ⟨r, hr, _, _, hs⟩ := (ruleMsgs_content rs fl i).2.1 (mem_scan_rule rs imports fl script _ h rfl)
    refine ⟨r, hr, fun hc => ?_⟩
    have : specMatching rs i r = true := by
      simp only [specMatching, Bool.and_eq_true]
      exact ⟨hc.1, (globalsHold_iff rs r.ns).2 hc.2⟩
    rw [hs] at this; cases this

/-- What "its condition holds" means: when identifiers denote earlier rules (the only thing the
    compiler accepts), `condHolds` is THE assignment under which every rule's truth value is the
    value of its condition with identifiers read as the truth values of the rules they name. -/
theorem condHolds_is_the_fixpoint (rs : List Rule) (h : BackRefs rs) :
    (∀ (i : Nat) (r : Rule), rs[i]? = some r → condHolds rs i = r.cond.holds (condHolds rs)) ∧
    (∀ t : Nat → Bool, (∀ (i : Nat) (r : Rule), rs[i]? = some r → t i = r.cond.holds t) →
      ∀ i, i < rs.length → t i = condHolds rs i) :=
  ⟨condHolds_fixpoint_aux rs h, fun t ht i hi => condHolds_unique_aux rs h t ht i hi⟩

/-- **Abort on a rule message**: it is the last message (no further rule message, no finished
    message) and the scan returns success. -/
theorem abort_stops_rc_success (rs : List Rule) (imports : List String) (fl : Flags) (script : List Ret)
    (k : Nat) (m : Msg) (hm : (scan rs imports fl script).1[k]? = some m) (hr : m.isRule = true)
    (ha : answer script k = .abort) :
    (scan rs imports fl script).1.length = k + 1 ∧ (scan rs imports fl script).2 = .success :=
  scan_stop rs imports fl script k m .success hm (by rw [ha, verdict_rule hr])

/-- **Error on a rule message**: it is the last message and the scan returns callback-error. -/
theorem error_stops_rc_callback_error (rs : List Rule) (imports : List String) (fl : Flags) (script : List Ret)
    (k : Nat) (m : Msg) (hm : (scan rs imports fl script).1[k]? = some m) (hr : m.isRule = true)
    (ha : answer script k = .error) :
    (scan rs imports fl script).1.length = k + 1 ∧ (scan rs imports fl script).2 = .callbackError :=
  scan_stop rs imports fl script k m .callbackError hm (by rw [ha, verdict_rule hr])

/-- **Error on a module message** (import or imported) fails the scan with callback-error;
    no rule is reported and no finished message is sent. -/
theorem module_msg_error_fails_scan (rs : List Rule) (imports : List String) (fl : Flags) (script : List Ret)
    (k : Nat) (m : Msg) (hm : (scan rs imports fl script).1[k]? = some m) (hmod : m.isModule = true)
    (ha : answer script k = .error) :
    (scan rs imports fl script).1.length = k + 1 ∧ (scan rs imports fl script).2 = .callbackError ∧
    ∀ m' ∈ (scan rs imports fl script).1, m'.isModule = true := by
  have hv : verdict m (answer script k) = some .callbackError := by
    cases m <;> simp_all [verdict, Msg.isRule, Msg.isModule]
  obtain ⟨hl, hrc⟩ := scan_stop rs imports fl script k m .callbackError hm hv
  refine ⟨hl, hrc, ?_⟩
  -- the trace is a prefix of the protocol of length k+1 whose last element is a module message
  have hp := scan_prefix rs imports fl script
  have hpm := hp.filter Msg.isModule
  rw [protocol_filter_module] at hpm
  intro m' hm'
  -- all module messages precede all other messages in the protocol
  obtain ⟨j, hj⟩ := List.mem_iff_getElem?.1 hm'
  have hjl : j < (scan rs imports fl script).1.length := (List.getElem?_eq_some_iff.1 hj).1
  have hkM : k < (moduleMsgs imports).length := by
    -- m sits at position k of the protocol and is a module message
    have hk : (protocol rs imports fl)[k]? = some m := by
      have := List.prefix_iff_getElem?.1 hp k (by omega)
      rw [this]; congr 1
      exact (List.getElem?_eq_some_iff.1 hm).2
    by_cases hlt : k < (moduleMsgs imports).length
    · exact hlt
    · exfalso
      have hk' : (ruleMsgs rs fl ++ [Msg.scanFinished])[k - (moduleMsgs imports).length]? = some m := by
        rw [protocol, List.append_assoc, List.getElem?_append_right (by omega)] at hk
        exact hk
      have hmem := List.mem_iff_getElem?.2 ⟨_, hk'⟩
      rcases List.mem_append.1 hmem with h | h
      · rw [isRule_not_isModule (ruleMsgs_isRule h)] at hmod; cases hmod
      · simp at h; subst h; simp [Msg.isModule] at hmod
  have hj' : (protocol rs imports fl)[j]? = some m' := by
    have := List.prefix_iff_getElem?.1 hp j hjl
    rw [this]; congr 1
    exact (List.getElem?_eq_some_iff.1 hj).2
  rw [protocol, List.append_assoc, List.getElem?_append_left (by omega)] at hj'
  exact moduleMsgs_isModule (List.mem_iff_getElem?.2 ⟨j, hj'⟩)

/-- **One import and one imported message per imported module**: the module messages of any scan
    are an initial segment of `moduleMsgs` (import then imported, per distinct module, in order of
    first import); they are all of it as soon as the scan got past the module phase; and in
    `moduleMsgs` each imported module has exactly one message of each kind, other modules none. -/
theorem import_imported_once_per_module (rs : List Rule) (imports : List String) (fl : Flags) (script : List Ret) :
    (scan rs imports fl script).1.filter Msg.isModule <+: moduleMsgs imports ∧
    ((∃ m ∈ (scan rs imports fl script).1, m.isModule = false) →
      (scan rs imports fl script).1.filter Msg.isModule = moduleMsgs imports) ∧
    (∀ mod : String,
      (moduleMsgs imports).count (.importModule mod) = (if mod ∈ imports then 1 else 0) ∧
      (moduleMsgs imports).count (.moduleImported mod) = (if mod ∈ imports then 1 else 0)) := by
  have hp := scan_prefix rs imports fl script
  refine ⟨?_, ?_, ?_⟩
  · rw [← protocol_filter_module rs imports fl]; exact hp.filter _
  · rintro ⟨m, hm, hnm⟩
    have hp' : (scan rs imports fl script).1 <+: moduleMsgs imports ++ (ruleMsgs rs fl ++ [.scanFinished]) := by
      simpa [protocol] using hp
    have hM : moduleMsgs imports <+: moduleMsgs imports ++ (ruleMsgs rs fl ++ [.scanFinished]) :=
      List.prefix_append _ _
    rcases List.prefix_or_prefix_of_prefix hp' hM with h | h
    · have := moduleMsgs_isModule (h.subset hm)
      rw [hnm] at this; cases this
    · obtain ⟨t, ht⟩ := h
      rw [← ht] at hp' ⊢
      have ht' : t <+: ruleMsgs rs fl ++ [.scanFinished] := (List.prefix_append_right_inj _).1 hp'
      have hft : t.filter Msg.isModule = [] := by
        rw [List.filter_eq_nil_iff]
        intro a ha
        rcases List.mem_append.1 (ht'.subset ha) with h | h
        · simp [isRule_not_isModule (ruleMsgs_isRule h)]
        · simp at h; subst h; simp [Msg.isModule]
      rw [List.filter_append, hft, List.append_nil, List.filter_eq_self]
      intro a ha; exact moduleMsgs_isModule ha
  · intro mod
    have h := count_import_pairs (distinctModules imports) mod
    rw [count_distinctModules] at h
    exact h

/-! ### The too-many-matches warning (matching phase, `fullScan`)

  `limit` is `YR_MAX_STRING_MATCHES` (any value), `events` is ANY sequence of occurrences (string index
  per occurrence, in scan order), the rule list is ANY list of rules whose conditions refer to strings by
  index (`$s`, `#s > n`), the script is ANY list of answers. -/

/-- **Refinement, matching phase included**: per-string counters, the list-is-full test, the disabled
    bit set and the early exit produce exactly: the warnings of `tooManyMsgs`, then the protocol of a scan
    in which every string has `min occurrences limit` matches, delivered under the stop rules. -/
theorem fullScan_eq_spec (limit : Nat) (events : List Nat) (rs : List SRule) (imports : List String)
    (fl : Flags) (script : List Ret) :
    fullScan limit events rs imports fl script = specFullScan limit events rs imports fl script :=
  fullScan_eq_specFullScan limit events rs imports fl script

/-- **Exactly once per overflowing string, carrying that string**: the warnings of any scan are an
    initial segment of `tooManyMsgs`, all of it as soon as anything else was delivered; and `tooManyMsgs`
    holds the warning for string `s` once if `s` occurs more than `limit` times, not at all otherwise. -/
theorem too_many_matches_once_per_string (limit : Nat) (events : List Nat) (rs : List SRule)
    (imports : List String) (fl : Flags) (script : List Ret) :
    (fullScan limit events rs imports fl script).1.filter Msg.isTooMany <+: tooManyMsgs limit events ∧
    ((∃ m ∈ (fullScan limit events rs imports fl script).1, m.isTooMany = false) →
      (fullScan limit events rs imports fl script).1.filter Msg.isTooMany = tooManyMsgs limit events) ∧
    (∀ s : Nat, (tooManyMsgs limit events).count (.tooManyMatches s) = if limit < events.count s then 1 else 0) := by
  have hp : (fullScan limit events rs imports fl script).1 <+: fullProtocol limit events rs imports fl := by
    rw [fullScan_trace]; exact play_prefix _ _
  refine ⟨?_, ?_, count_tooManyMsgs limit events⟩
  · rw [← fullProtocol_filter_tooMany limit events rs imports fl]; exact hp.filter _
  · rintro ⟨m, hm, hnm⟩
    have hT : tooManyMsgs limit events <+: fullProtocol limit events rs imports fl := List.prefix_append _ _
    rcases List.prefix_or_prefix_of_prefix hp hT with h | h
    · have := tooManyMsgsFrom_isTooMany limit [] events m (h.subset hm)
      rw [hnm] at this; cases this
    · obtain ⟨t, ht⟩ := h
      rw [← ht] at hp ⊢
      have ht' : t <+: protocol (rs.map (SRule.resolve (specCount limit events))) imports fl :=
        (List.prefix_append_right_inj _).1 hp
      have hft : t.filter Msg.isTooMany = [] := by
        rw [List.filter_eq_nil_iff]
        intro a ha
        simp [protocol_not_tooMany (ht'.subset ha)]
      rw [List.filter_append, hft, List.append_nil, List.filter_eq_self]
      intro a ha; exact tooManyMsgsFrom_isTooMany limit [] events a ha

/-- **ABORT or ERROR in answer to the warning halts the scan**: the warning is the last message (no
    module, rule or finished message) and the scan returns too-many-matches. -/
theorem too_many_matches_abort_error_halt (limit : Nat) (events : List Nat) (rs : List SRule)
    (imports : List String) (fl : Flags) (script : List Ret) (k s : Nat)
    (hm : (fullScan limit events rs imports fl script).1[k]? = some (.tooManyMatches s))
    (ha : answer script k ≠ .cont) :
    (fullScan limit events rs imports fl script).1.length = k + 1 ∧
    (fullScan limit events rs imports fl script).2 = .tooManyMatches := by
  apply fullScan_stop limit events rs imports fl script k _ _ hm
  rw [verdict_tooMany]
  cases hk : answer script k <;> simp_all

/-- **After CONTINUE only that string stops matching**: when every warning is answered with CONTINUE
    all warnings are delivered, and what follows is exactly the scan (module, rule and finished messages,
    return code — all theorems above apply to it) of the same rules in which string `s` has
    `specCount limit events s` matches, with the callback's remaining answers; `specCount` is the number
    of occurrences for every string within the limit and `limit` for the others. -/
theorem continue_disables_only_that_string (limit : Nat) (events : List Nat) (rs : List SRule)
    (imports : List String) (fl : Flags) (script : List Ret)
    (hcont : ∀ k, k < (tooManyMsgs limit events).length → answer script k = .cont) :
    fullScan limit events rs imports fl script =
      (tooManyMsgs limit events ++
         (scan (rs.map (SRule.resolve (specCount limit events))) imports fl
            (script.drop (tooManyMsgs limit events).length)).1,
       (scan (rs.map (SRule.resolve (specCount limit events))) imports fl
            (script.drop (tooManyMsgs limit events).length)).2) ∧
    (∀ s : Nat, events.count s ≤ limit → specCount limit events s = events.count s) ∧
    (∀ s : Nat, limit < events.count s → specCount limit events s = limit) := by
  refine ⟨fullScan_of_continue limit events rs imports fl script hcont, ?_, ?_⟩ <;>
    (intro s h; simp only [specCount]; omega)

/-- **The warning does not change which other messages are sent**: if no count comparison in the
    rules can see the cap (`#s > n` only with `n < limit` or on strings within the limit; `$s` never can),
    the messages after the warnings and the return code are those of the scan with no limit at all. -/
theorem warning_changes_nothing_else (limit : Nat) (hl : 0 < limit) (events : List Nat) (rs : List SRule)
    (imports : List String) (fl : Flags) (script : List Ret)
    (hfree : ∀ r ∈ rs, r.cond.limitFree limit (fun s => events.count s))
    (hcont : ∀ k, k < (tooManyMsgs limit events).length → answer script k = .cont) :
    fullScan limit events rs imports fl script =
      (tooManyMsgs limit events ++
         (scan (rs.map (SRule.resolve (fun s => events.count s))) imports fl
            (script.drop (tooManyMsgs limit events).length)).1,
       (scan (rs.map (SRule.resolve (fun s => events.count s))) imports fl
            (script.drop (tooManyMsgs limit events).length)).2) := by
  have hmap : rs.map (SRule.resolve (specCount limit events)) = rs.map (SRule.resolve (fun s => events.count s)) := by
    apply List.map_congr_left
    intro r hr
    simp only [SRule.resolve]
    congr 1
    exact resolve_limitFree limit hl (fun s => events.count s) r.cond (hfree r hr)
  rw [fullScan_of_continue limit events rs imports fl script hcont, hmap]

/-- No string over the limit: no warning, and the scan is the ordinary scan. -/
theorem no_warning_within_limit (limit : Nat) (events : List Nat) (rs : List SRule)
    (imports : List String) (fl : Flags) (script : List Ret) :
    (tooManyMsgs limit events = [] ↔ ∀ s : Nat, events.count s ≤ limit) ∧
    ((∀ s : Nat, events.count s ≤ limit) →
      fullScan limit events rs imports fl script =
        scan (rs.map (SRule.resolve (fun s => events.count s))) imports fl script) := by
  refine ⟨tooManyMsgs_eq_nil_iff limit events, fun h => ?_⟩
  have hnil := (tooManyMsgs_eq_nil_iff limit events).2 h
  have hc : specCount limit events = fun s => events.count s := by
    funext s; simp only [specCount]; have := h s; omega
  have := fullScan_of_continue limit events rs imports fl script (by rw [hnil]; intro k hk; cases hk)
  rw [this, hnil, hc]
  simp

/-! ### Non-vacuity: concrete instances of the hypotheses above -/

/-- three namespaces-worth of shapes: a false global+private rule in namespace 0, a true global rule
    in namespace 1, a private rule, plain rules referring to earlier rules, a skipped string rule -/
def exampleRules : List Rule :=
  [⟨0, true, true, .lit false⟩, ⟨0, false, false, .lit true⟩, ⟨1, true, false, .or (.str true) (.lit false)⟩,
   ⟨1, false, true, .lit true⟩, ⟨1, false, false, .and (.rule 3) (.not (.str false))⟩, ⟨1, false, false, .str false⟩]

example : BackRefs exampleRules := by
  intro i r h
  match i, h with
  | 0, h | 1, h | 2, h | 3, h | 4, h | 5, h => simp [exampleRules] at h; subst h; simp [Cond.refsBelow]
  | n + 6, h => simp [exampleRules] at h

-- an undisturbed scan: NotStopped holds, finished comes last
example : scan exampleRules ["pe", "math", "pe"] ⟨true, true⟩ [] =
    ([.importModule "pe", .moduleImported "pe", .importModule "math", .moduleImported "math",
      .ruleNotMatching 1, .ruleMatching 2, .ruleMatching 4, .ruleNotMatching 5, .scanFinished], .success) := by decide

-- abort on a rule message (k = 5), abort on a module message is ignored (k = 0)
example : scan exampleRules ["pe", "math", "pe"] ⟨true, true⟩ [.abort, .cont, .cont, .cont, .cont, .abort] =
    ([.importModule "pe", .moduleImported "pe", .importModule "math", .moduleImported "math",
      .ruleNotMatching 1, .ruleMatching 2], .success) := by decide

-- error on a rule message, only matching rules reported
example : scan exampleRules ["pe"] ⟨true, false⟩ [.cont, .cont, .cont, .error] =
    ([.importModule "pe", .moduleImported "pe", .ruleMatching 2, .ruleMatching 4], .callbackError) := by decide

-- error on a module message (k = 1, the imported message)
example : scan exampleRules ["pe", "math"] ⟨true, true⟩ [.cont, .error] =
    ([.importModule "pe", .moduleImported "pe"], .callbackError) := by decide

/-- strings 0,1 belong to rule 0, string 2 to rule 1 (index ≠ rule index), string 3 to rule 2 -/
def exampleSRules : List SRule :=
  [⟨0, false, false, .or (.str 1) (.str 0)⟩, ⟨0, false, false, .and (.str 2) (.not (.cnt 2 3))⟩,
   ⟨1, true, true, .str 3⟩]

-- limit 3; string 2 occurs five times, string 1 once after the overflow: one warning, answered CONTINUE
example : fullScan 3 [2, 2, 0, 2, 2, 2, 1] exampleSRules ["pe"] ⟨true, true⟩ [] =
    ([.tooManyMatches 2, .importModule "pe", .moduleImported "pe", .ruleMatching 0, .ruleMatching 1,
      .scanFinished], .success) := by decide

-- the same with ABORT / with ERROR in answer to the warning
example : fullScan 3 [2, 2, 0, 2, 2, 2, 1] exampleSRules ["pe"] ⟨true, true⟩ [.abort] =
    ([.tooManyMatches 2], .tooManyMatches) := by decide
example : fullScan 3 [2, 2, 0, 2, 2, 2, 1] exampleSRules ["pe"] ⟨true, true⟩ [.error] =
    ([.tooManyMatches 2], .tooManyMatches) := by decide

-- two overflowing strings, the second warning answered with ABORT (k = 1)
example : fullScan 2 [2, 0, 2, 0, 0, 2, 0] exampleSRules [] ⟨true, true⟩ [.cont, .abort] =
    ([.tooManyMatches 0, .tooManyMatches 2], .tooManyMatches) := by decide

-- hypotheses of `warning_changes_nothing_else` are satisfiable with an overflowing string present
example : (∀ r ∈ exampleSRules, r.cond.limitFree 4 (fun s => [2, 2, 0, 2, 2, 2, 1].count s)) ∧
    tooManyMsgs 4 [2, 2, 0, 2, 2, 2, 1] = [.tooManyMatches 2] := by
  refine ⟨?_, by decide⟩
  intro r hr
  simp only [exampleSRules, List.mem_cons, List.not_mem_nil, or_false] at hr
  rcases hr with h | h | h <;> subst h <;> simp [SCond.limitFree]

end YaraModel.Cb
