/-
  C20 — External variables are typed, scoped and isolated.
  Property theorems only; helper lemmas are in Lemmas/Externals*.lean.
  Every statement quantifies over EVERY operation history (no bound on length),
  every scanner id and every identifier.
-/
import YaraModel.Lemmas.ExternalsRefine
namespace YaraModel.Ext

/-- The forward run used by the driver is the history semantics. -/
theorem runSt_eq_runRev (ops : List Op) : runSt init ops = runRev ops.reverse := by
  suffices h : ∀ (past ops : List Op), runSt (runRev past) ops = runRev (ops.reverse ++ past) by
    have := h [] ops
    simpa [runRev] using this
  intro past ops
  induction ops generalizing past with
  | nil => rfl
  | cons op ops ih =>
    simp only [runSt, List.foldl_cons, List.reverse_cons, List.append_assoc, List.singleton_append]
    exact ih (op :: past)

/-- **Most specific value** (scanner level): after any history, the value scanner `k`
    sees for `n` is its own latest accepted definition, otherwise the rule-set value in
    force when it was created, otherwise the compile-time value (`specS` unfolds to
    `specR` at the creation point, which unfolds to `specC` at compilation). -/
theorem scanner_sees_most_specific (past : List Op) (k : Nat) (n : String) :
    (((runRev past).scanners k).bind (lookup · n)).map tv = specS past k n :=
  (refines_all past).scanners k n

/-- Rules-level scans (which create their scanner at scan time) see the rule-set value. -/
theorem rules_scan_sees_rules_value (past : List Op) (n : String) :
    ((runRev past).rules.bind (lookup · n)).map tv = specR past n :=
  (refines_all past).rules n

/-- What a scan observes is exactly the scanner's table. -/
theorem scan_observes (s : St) (k : Nat) (vs : List Var) :
    (step s (.scan k)).2 = .obs vs ↔ s.scanners k = some vs := by
  simp only [step]; split <;> simp_all

/-- **Rejected definitions change nothing**: any operation answered with an error code
    (duplicate, unknown identifier, incompatible type) leaves the whole state untouched. -/
theorem reject_changes_nothing (s : St) (op : Op) (e : Err) (h : (step s op).2 = .err e) :
    (step s op).1 = s := by
  cases op <;> simp only [step] at h ⊢ <;> (repeat' split) <;> simp_all

/-- **Scanner isolation**: a definition on scanner `k` changes neither the compiler table,
    nor the shared rule set, nor any other scanner. -/
theorem scanner_isolated (s : St) (k : Nat) (ty : Ty) (n : String) (v : Val) :
    let s' := (step s (.sdef k ty n v)).1
    s'.comp = s.comp ∧ s'.rules = s.rules ∧ ∀ j, j ≠ k → s'.scanners j = s.scanners j := by
  simp only [step]
  (repeat' split) <;> simp_all

/-- **Snapshot at creation**: a rule-set-level definition never changes an existing scanner. -/
theorem snapshot_at_creation (s : St) (ty : Ty) (n : String) (v : Val) :
    (step s (.rdef ty n v)).1.scanners = s.scanners := by
  simp only [step]
  (repeat' split) <;> rfl

/-- Scans do not change anything (so a scan can be repeated / interleaved freely). -/
theorem scan_pure (s : St) (k : Nat) : (step s (.scan k)).1 = s ∧ (step s .rscan).1 = s := by
  simp only [step]; constructor <;> split <;> rfl

/-- Result code of a scanner-level definition, in terms of the specification. -/
theorem sdef_result (past : List Op) (k : Nat) (ty : Ty) (n : String) (v : Val)
    (hk : ((runRev past).scanners k).isSome) :
    (step (runRev past) (.sdef k ty n v)).2 =
      match specS past k n with
      | none => .err .invalidArgument
      | some (t, _) => if objTy t = objTy ty then .ok else .err .invalidType := by
  have h := scanner_sees_most_specific past k n
  cases hs : (runRev past).scanners k with
  | none => rw [hs] at hk; cases hk
  | some vs =>
    rw [hs] at h
    simp only [Option.bind_some] at h
    simp only [step, hs]
    cases hl : lookup vs n with
    | none => rw [hl] at h; simp at h; simp [← h]
    | some x =>
      rw [hl] at h; simp [tv] at h; rw [← h]
      simp only; split <;> rfl

/-- Result code of a rule-set-level definition, in terms of the specification. -/
theorem rdef_result (past : List Op) (ty : Ty) (n : String) (v : Val) (hc : compiled past = true) :
    (step (runRev past) (.rdef ty n v)).2 =
      match specR past n with
      | none => .err .invalidArgument
      | some (t, _) => if t = ty then .ok else .err .invalidType := by
  have h := rules_scan_sees_rules_value past n
  have hsome := (refines_all past).rulesSome
  rw [hc] at hsome
  cases hr : (runRev past).rules with
  | none => rw [hr] at hsome; cases hsome
  | some rs =>
    rw [hr] at h
    simp only [Option.bind_some] at h
    simp only [step, hr]
    cases hl : lookup rs n with
    | none => rw [hl] at h; simp at h; simp [← h]
    | some x =>
      rw [hl] at h; simp [tv] at h; rw [← h]
      simp only; split <;> rfl

/-! Non-vacuity: a concrete history exercising all three levels. -/
example :
    let past : List Op := [.sdef 0 .int "x" (.int 7), .rdef .int "x" (.int 2), .screate 1, .screate 0,
                           .rdef .int "x" (.int 5), .compile, .cdef .int "x" (.int 4)]
    specS past 0 "x" = some (.int, .int 7) ∧ specS past 1 "x" = some (.int, .int 5) ∧
    specR past "x" = some (.int, .int 2) ∧ specC past "x" = some (.int, .int 4) := by decide

end YaraModel.Ext
