/-
  C20 — External variables are typed, scoped and isolated.
  Property theorems only; helper lemmas are in Lemmas/Externals*.lean.
  Every statement quantifies over EVERY operation history (no bound on length),
  every scanner id and every identifier.
-/
import YaraModel.Lemmas.ExternalsRefine
import YaraModel.Spec.ExtCli
namespace YaraModel.Ext

/-- The forward run used by the driver is the history semantics. -/
theorem runSt_eq_runRev (ops : List Op) : runSt init ops = runRev ops.reverse := by
  suffices h : ∀ (past ops : List Op), runSt (runRev past) ops = runRev (ops.reverse ++ past) by
    have := h [] ops
    simpa [runRev] using this
  intro past ops
  induction ops generalizing past with
  | nil => rfl
  | cons op ops ih =>
    simp only [runSt, List.foldl_cons, List.reverse_cons, List.append_assoc, List.singleton_append]
    exact ih (op :: past)

/-- **Most specific value** (scanner level): after any history, the value scanner `k`
    sees for `n` is its own latest accepted definition, otherwise the rule-set value in
    force when it was created, otherwise the compile-time value (`specS` unfolds to
    `specR` at the creation point, which unfolds to `specC` at compilation). -/
theorem scanner_sees_most_specific (past : List Op) (k : Nat) (n : String) :
    (((runRev past).scanners k).bind (lookup · n)).map tv = specS past k n :=
  (refines_all past).scanners k n

/-- Rules-level scans (which create their scanner at scan time) see the rule-set value. -/
theorem rules_scan_sees_rules_value (past : List Op) (n : String) :
    ((runRev past).rules.bind (lookup · n)).map tv = specR past n :=
  (refines_all past).rules n

/-- What a scan observes is exactly the scanner's table. -/
theorem scan_observes (s : St) (k : Nat) (vs : List Var) :
    (step s (.scan k)).2 = .obs vs ↔ s.scanners k = some vs := by
  simp only [step]; split <;> simp_all

/-- **Rejected definitions change nothing**: any operation answered with an error code
    (duplicate, unknown identifier, incompatible type) leaves the whole state untouched. -/
theorem reject_changes_nothing (s : St) (op : Op) (e : Err) (h : (step s op).2 = .err e) :
    (step s op).1 = s := by
  cases op <;> simp only [step] at h ⊢ <;> (repeat' split) <;> simp_all

/-- **Scanner isolation**: a definition on scanner `k` changes neither the compiler table,
    nor the shared rule set, nor any other scanner. -/
theorem scanner_isolated (s : St) (k : Nat) (ty : Ty) (n : String) (v : Val) :
    let s' := (step s (.sdef k ty n v)).1
    s'.comp = s.comp ∧ s'.rules = s.rules ∧ ∀ j, j ≠ k → s'.scanners j = s.scanners j := by
  simp only [step]
  (repeat' split) <;> simp_all

/-- **Snapshot at creation**: a rule-set-level definition never changes an existing scanner. -/
theorem snapshot_at_creation (s : St) (ty : Ty) (n : String) (v : Val) :
    (step s (.rdef ty n v)).1.scanners = s.scanners := by
  simp only [step]
  (repeat' split) <;> rfl

/-- Scans do not change anything (so a scan can be repeated / interleaved freely). -/
theorem scan_pure (s : St) (k : Nat) : (step s (.scan k)).1 = s ∧ (step s .rscan).1 = s := by
  simp only [step]; constructor <;> split <;> rfl

/-- Result code of a scanner-level definition, in terms of the specification. -/
theorem sdef_result (past : List Op) (k : Nat) (ty : Ty) (n : String) (v : Val)
    (hk : ((runRev past).scanners k).isSome) :
    (step (runRev past) (.sdef k ty n v)).2 =
      match specS past k n with
      | none => .err .invalidArgument
      | some (t, _) => if objTy t = objTy ty then .ok else .err .invalidType := by
  have h := scanner_sees_most_specific past k n
  cases hs : (runRev past).scanners k with
  | none => rw [hs] at hk; cases hk
  | some vs =>
    rw [hs] at h
    simp only [Option.bind_some] at h
    simp only [step, hs]
    cases hl : lookup vs n with
    | none => rw [hl] at h; simp at h; simp [← h]
    | some x =>
      rw [hl] at h; simp [tv] at h; rw [← h]
      simp only; split <;> rfl

/-- Result code of a rule-set-level definition, in terms of the specification. -/
theorem rdef_result (past : List Op) (ty : Ty) (n : String) (v : Val) (hc : compiled past = true) :
    (step (runRev past) (.rdef ty n v)).2 =
      match specR past n with
      | none => .err .invalidArgument
      | some (t, _) => if t = ty then .ok else .err .invalidType := by
  have h := rules_scan_sees_rules_value past n
  have hsome := (refines_all past).rulesSome
  rw [hc] at hsome
  cases hr : (runRev past).rules with
  | none => rw [hr] at hsome; cases hsome
  | some rs =>
    rw [hr] at h
    simp only [Option.bind_some] at h
    simp only [step, hr]
    cases hl : lookup rs n with
    | none => rw [hl] at h; simp at h; simp [← h]
    | some x =>
      rw [hl] at h; simp [tv] at h; rw [← h]
      simp only; split <;> rfl

/-! Non-vacuity: a concrete history exercising all three levels. -/
example :
    let past : List Op := [.sdef 0 .int "x" (.int 7), .rdef .int "x" (.int 2), .screate 1, .screate 0,
                           .rdef .int "x" (.int 5), .compile, .cdef .int "x" (.int 4)]
    specS past 0 "x" = some (.int, .int 7) ∧ specS past 1 "x" = some (.int, .int 5) ∧
    specR past "x" = some (.int, .int 2) ∧ specC past "x" = some (.int, .int 4) := by decide

end YaraModel.Ext

/-! ### command-line typing of `-d name=value` (cli/common.c), specification `Spec/ExtCli.lean` -/
namespace YaraModel.ExtCli

/-- a run of digits is an integer with its decimal value (any length: no 32-bit truncation) -/
theorem classify_digits (ds : List Char) (hne : ds ≠ []) (hd : ds.all isDigit = true) (h0 : ds.head? ≠ some '-') :
    classify ds = .int (digitsVal ds) := by
  have hsm : stripMinus ds = (false, ds) := by
    cases ds with
    | nil => rfl
    | cons c t =>
      by_cases hc : c = '-'
      · subst hc; simp at h0
      · simp [stripMinus, hc]
  have hnf : isFloat ds = false := by
    simp only [isFloat, hsm]
    have : (ds.filter (· == '.')).length = 0 := by
      rw [List.length_eq_zero_iff, List.filter_eq_nil_iff]
      intro c hc
      have := (List.all_eq_true.mp hd) c hc
      simp only [isDigit, Bool.and_eq_true, decide_eq_true_eq] at this
      intro h; simp at h; subst h; revert this; decide
    simp [this]
  have hi : isInteger ds = true := by
    simp only [isInteger, hsm]
    simp [hne, hd]
  simp [classify, hnf, hi, hsm]

/-- a value with two or more dots is never a float -/
theorem two_dots_not_float (v : List Char) (h : ((stripMinus v).2.filter (· == '.')).length ≥ 2) : isFloat v = false := by
  simp only [isFloat]
  have : ((stripMinus v).2.filter (· == '.')).length ≠ 1 := by omega
  simp [this]

/-- a value containing a character other than digits, '.', and a leading '-' is a string unless it is `true`/`false` -/
theorem classify_other (v : List Char) (c : Char) (hc : c ∈ (stripMinus v).2) (hnd : isDigit c = false) (hdot : c ≠ '.')
    (ht : v ≠ "true".toList) (hf : v ≠ "false".toList) : classify v = .str v := by
  have h1 : isFloat v = false := by
    simp only [isFloat]
    have : (stripMinus v).2.all (fun c => isDigit c || c == '.') = false := by
      rw [List.all_eq_false]
      exact ⟨c, hc, by simp [hnd, hdot]⟩
    simp [this]
  have h2 : isInteger v = false := by
    simp only [isInteger]
    have : (stripMinus v).2.all isDigit = false := by
      rw [List.all_eq_false]; exact ⟨c, hc, by simp [hnd]⟩
    simp [this]
  have ht' : ¬ v = ['t', 'r', 'u', 'e'] := ht
  have hf' : ¬ v = ['f', 'a', 'l', 's', 'e'] := hf
  simp [classify, h1, h2, ht', hf']

example : classify "5000000000".toList = .int 5000000000 ∧ classify "1.2.3".toList = .str "1.2.3".toList ∧
    classify "-2.5".toList = .flt true 25 1 ∧ classify "true".toList = .bool true := by decide

end YaraModel.ExtCli
