/-
  C02 — hex-string matches are exactly the documented occurrences.  Property theorems only
  (helpers: Lemmas/Re.lean, ReEval.lean, ReAlgebra.lean, ReChain.lean).
-/
import YaraModel.Lemmas.ReAlgebra
namespace YaraModel.C02
open YaraModel.Re

/-- The specification is self-consistent: the set-of-end-positions semantics (what the compiled driver evaluates in
    the correspondence runs) coincides with the independent relational semantics, for every node kind. -/
theorem ends_iff_Matches (fl : Flags) (buf : Bytes) (r : Re) (p q : Nat) :
    q ∈ r.ends fl buf p ↔ Re.Matches fl buf r p q :=
  Re.ends_iff_Matches fl buf r p q

/-- The driver's fast set evaluator answers exactly the specification at every offset inside the buffer. -/
theorem driver_evaluates_spec (fl : Flags) (buf : Bytes) (r : Re) (o : Nat) (ho : o ≤ buf.size) (q : Nat) :
    q ∈ r.endsSet fl buf [o] ↔ Re.Matches fl buf r o q := by
  rw [endsSet_single fl buf r o ho q]; exact Re.ends_iff_Matches fl buf r o q

/-- `split_sem`: a pattern `pre [n-m] post` (hex strings: byte mode, dot-all) matches `[p,q)` exactly when `pre` matches
    some `[p,e)`, `post` matches some `[s,q)` and the gap `s - e` lies in `[n,m]` (inside the data).  This is the
    re-joining rule of chained strings: `ending_offset + chain_gap_min ≤ match_offset ≤ ending_offset + chain_gap_max`
    (scan.c `_yr_scan_verify_chained_string_match`), for ALL patterns, bounds and buffers. -/
theorem split_sem (fl : Flags) (hd : fl.dotall = true) (hw : fl.wide = false) (buf : Bytes) (pre post : Re)
    (n m : Nat) (g : Bool) (p q : Nat) :
    Re.Matches fl buf (.cat pre (.cat (.rangeAny n m g) post)) p q ↔
      ∃ e s, Re.Matches fl buf pre p e ∧ Re.Matches fl buf post s q ∧ e + n ≤ s ∧ s ≤ e + m ∧ (s = e ∨ s ≤ buf.size) := by
  rw [cat_iff]
  constructor
  · rintro ⟨e, h1, h2⟩
    rw [cat_iff] at h2
    obtain ⟨s, hj, h3⟩ := h2
    obtain ⟨k, a1, a2, rfl, a3⟩ := (rangeAny_iff hd hw n m g e s).1 hj
    exact ⟨e, e + k, h1, h3, by omega, by omega, by omega⟩
  · rintro ⟨e, s, h1, h3, a1, a2, a3⟩
    refine ⟨e, h1, ?_⟩
    rw [cat_iff]
    exact ⟨s, (rangeAny_iff hd hw n m g e s).2 ⟨s - e, by omega, by omega, by omega, by omega⟩, h3⟩

/-- instance: `01 [1-2] 03` on `01 AA 03 03` from offset 0 ends at 3 (gap 1) and at 4 (gap 2) -/
example : (Re.cat (.lit 1) (.cat (.rangeAny 1 2 false) (.lit 3))).ends { dotall := true } #[1, 0xAA, 3, 3] 0 = [3, 4] := by decide

/-- `decompose` (soundness): whatever is verified around an atom — the part before it, read backwards, the atom and the
    part after it, read forwards — is a match of the whole pattern; the atom may sit at any depth (one-hole context
    through concatenations, alternation branches and `+` bodies). -/
theorem decompose_sound (fl : Flags) (buf : Bytes) (c : Ctx) (atom : Re) (p q : Nat)
    (h : c.Through fl buf atom p q) : Re.Matches fl buf (c.fill atom) p q :=
  through_sound c atom p q h

/-- `decompose` (completeness): if one atom is chosen on every way through the pattern (the AND/OR atom tree: both
    branches of an alternation contribute, one side of a concatenation suffices), every match of the whole pattern is
    found from one of the atoms: forward from the atom + exhaustive backward from the atom = whole-pattern match. -/
theorem decompose (fl : Flags) (buf : Bytes) (r : Re) (atoms : List (Ctx × Re)) (hc : Cover r atoms) (p q : Nat) :
    Re.Matches fl buf r p q ↔ ∃ c a, (c, a) ∈ atoms ∧ c.Through fl buf a p q := by
  constructor
  · exact cover_complete hc p q
  · rintro ⟨c, a, hin, ht⟩
    have := through_sound c a p q ht
    rwa [cover_fill hc c a hin] at this

/-- instance: in `41 ( 42 43 | 44 ) 45` the atoms `42 43` and `44` (one per branch) cover the pattern -/
example : Cover (.cat (.lit 0x41) (.cat (.alt (.cat (.lit 0x42) (.lit 0x43)) (.lit 0x44)) (.lit 0x45)))
    [(.catR (.lit 0x41) (.catL (.altL .hole (.lit 0x44)) (.lit 0x45)), .cat (.lit 0x42) (.lit 0x43)),
     (.catR (.lit 0x41) (.catL (.altR (.cat (.lit 0x42) (.lit 0x43)) .hole) (.lit 0x45)), .lit 0x44)] :=
  .catR (.catL (.alt (.leaf _) (.leaf _)))

end YaraModel.C02
