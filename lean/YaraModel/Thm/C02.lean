/-
  C02 — hex-string matches are exactly the documented occurrences.  Property theorems only
  (helpers: Lemmas/Re*.lean).
-/
import YaraModel.Lemmas.Re
namespace YaraModel.C02
open YaraModel.Re

/-- The specification is self-consistent (see C03.ends_iff_Matches); restated for the hex fragment's use. -/
theorem ends_iff_Matches (fl : Flags) (buf : Bytes) (r : Re) (p q : Nat) :
    q ∈ r.ends fl buf p ↔ Re.Matches fl buf r p q :=
  Re.ends_iff_Matches fl buf r p q

end YaraModel.C02
