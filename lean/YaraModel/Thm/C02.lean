/-
  C02 — hex-string matches are exactly the documented occurrences.  Property theorems only
  (helpers: Lemmas/Re.lean, ReEval.lean, ReAlgebra.lean, ReChain.lean).
-/
import YaraModel.Lemmas.ReAlgebra
import YaraModel.Lemmas.ReChain
import YaraModel.Lemmas.ReEmit
import YaraModel.Lemmas.ReAtomPos
import YaraModel.Lemmas.ReAtomEntry
import YaraModel.Lemmas.ReScan
import YaraModel.Lemmas.ReSplit
import YaraModel.Lemmas.ReCompleteHex
import YaraModel.Lemmas.ReScanComplete
import YaraModel.Lemmas.ReHexGram
namespace YaraModel.C02
open YaraModel.Re

/-- The specification is self-consistent: the set-of-end-positions semantics (what the compiled driver evaluates in
    the correspondence runs) coincides with the independent relational semantics, for every node kind. -/
theorem ends_iff_Matches (fl : Flags) (buf : Bytes) (r : Re) (p q : Nat) :
    q ∈ r.ends fl buf p ↔ Re.Matches fl buf r p q :=
  Re.ends_iff_Matches fl buf r p q

/-- The driver's fast set evaluator answers exactly the specification at every offset inside the buffer. -/
theorem driver_evaluates_spec (fl : Flags) (buf : Bytes) (r : Re) (o : Nat) (ho : o ≤ buf.size) (q : Nat) :
    q ∈ r.endsSet fl buf [o] ↔ Re.Matches fl buf r o q := by
  rw [endsSet_single fl buf r o ho q]; exact Re.ends_iff_Matches fl buf r o q

/-- `split_sem`: a pattern `pre [n-m] post` (hex strings: byte mode, dot-all) matches `[p,q)` exactly when `pre` matches
    some `[p,e)`, `post` matches some `[s,q)` and the gap `s - e` lies in `[n,m]` (inside the data).  This is the
    re-joining rule of chained strings: `ending_offset + chain_gap_min ≤ match_offset ≤ ending_offset + chain_gap_max`
    (scan.c `_yr_scan_verify_chained_string_match`), for ALL patterns, bounds and buffers. -/
theorem split_sem (fl : Flags) (hd : fl.dotall = true) (hw : fl.wide = false) (buf : Bytes) (pre post : Re)
    (n m : Nat) (g : Bool) (p q : Nat) :
    Re.Matches fl buf (.cat pre (.cat (.rangeAny n m g) post)) p q ↔
      ∃ e s, Re.Matches fl buf pre p e ∧ Re.Matches fl buf post s q ∧ e + n ≤ s ∧ s ≤ e + m ∧ (s = e ∨ s ≤ buf.size) := by
  rw [cat_iff]
  constructor
  · rintro ⟨e, h1, h2⟩
    rw [cat_iff] at h2
    obtain ⟨s, hj, h3⟩ := h2
    obtain ⟨k, a1, a2, rfl, a3⟩ := (rangeAny_iff hd hw n m g e s).1 hj
    exact ⟨e, e + k, h1, h3, by omega, by omega, by omega⟩
  · rintro ⟨e, s, h1, h3, a1, a2, a3⟩
    refine ⟨e, h1, ?_⟩
    rw [cat_iff]
    exact ⟨s, (rangeAny_iff hd hw n m g e s).2 ⟨s - e, by omega, by omega, by omega, by omega⟩, h3⟩

/-- instance: `01 [1-2] 03` on `01 AA 03 03` from offset 0 ends at 3 (gap 1) and at 4 (gap 2) -/
example : (Re.cat (.lit 1) (.cat (.rangeAny 1 2 false) (.lit 3))).ends { dotall := true } #[1, 0xAA, 3, 3] 0 = [3, 4] := by decide

/-- `decompose` (soundness): whatever is verified around an atom — the part before it, read backwards, the atom and the
    part after it, read forwards — is a match of the whole pattern; the atom may sit at any depth (one-hole context
    through concatenations, alternation branches and `+` bodies). -/
theorem decompose_sound (fl : Flags) (buf : Bytes) (c : Ctx) (atom : Re) (p q : Nat)
    (h : c.Through fl buf atom p q) : Re.Matches fl buf (c.fill atom) p q :=
  through_sound c atom p q h

/-- `decompose` (completeness): if one atom is chosen on every way through the pattern (the AND/OR atom tree: both
    branches of an alternation contribute, one side of a concatenation suffices), every match of the whole pattern is
    found from one of the atoms: forward from the atom + exhaustive backward from the atom = whole-pattern match. -/
theorem decompose (fl : Flags) (buf : Bytes) (r : Re) (atoms : List (Ctx × Re)) (hc : Cover r atoms) (p q : Nat) :
    Re.Matches fl buf r p q ↔ ∃ c a, (c, a) ∈ atoms ∧ c.Through fl buf a p q := by
  constructor
  · exact cover_complete hc p q
  · rintro ⟨c, a, hin, ht⟩
    have := through_sound c a p q ht
    rwa [cover_fill hc c a hin] at this

/-- instance: in `41 ( 42 43 | 44 ) 45` the atoms `42 43` and `44` (one per branch) cover the pattern -/
example : Cover (.cat (.lit 0x41) (.cat (.alt (.cat (.lit 0x42) (.lit 0x43)) (.lit 0x44)) (.lit 0x45)))
    [(.catR (.lit 0x41) (.catL (.altL .hole (.lit 0x44)) (.lit 0x45)), .cat (.lit 0x42) (.lit 0x43)),
     (.catR (.lit 0x41) (.catL (.altR (.cat (.lit 0x42) (.lit 0x43)) .hole) (.lit 0x45)), .lit 0x44)] :=
  .catR (.catL (.alt (.leaf _) (.leaf _)))


open YaraModel.ReChain in
/-- `chain_sound`: whatever the chain bookkeeping of scan.c confirms for a two-piece chain `head <- tail` is a real pair:
    a verified head match and a verified tail match at a distance inside `[chain_gap_min, chain_gap_max]`, and the reported
    length spans both — for EVERY arrival order of the candidates (no hypothesis). -/
theorem chain_sound (g : Gap) (evs : List Ev) (hp : ∀ e, e ∈ evs → e.piece ≤ 1) (c : Nat × Nat)
    (hc : c ∈ (run [g] evs).confirmed) :
    ∃ h t, h ∈ evs ∧ t ∈ evs ∧ h.piece = 0 ∧ t.piece = 1 ∧ h.off = c.1 ∧ gapOk g (um h) t.off = true ∧
      c.2 = t.off - h.off + t.len :=
  chain2_sound g evs hp c hc

open YaraModel.ReChain in
/-- `chain_exact_partial` (two pieces; the general statement is for k pieces with `updLen` propagating through the middle
    pieces): every head match that has a tail match at a legal distance IS confirmed, provided
      H1  a tail match starts at most `window` = YR_RE_SCAN_LIMIT + YR_MAX_ATOM_LENGTH = 1028 bytes before the tail
          matches that arrived earlier,
      H2  a head offset is verified with one length only,
      H3  a head arrives before the tails it connects to.
    H1 and H3 hold for the real candidate stream: candidates arrive in the order of their atoms' END, an atom is at
    most YR_MAX_ATOM_LENGTH long and the backward matcher runs over at most YR_RE_SCAN_LIMIT bytes, so a later
    candidate starts at most 1028 bytes before an earlier one.  (Before fix 81c4ffe the pruning had no window and H1
    had to be "tails arrive in start order", which alternatives / variable prefixes break: finding F13.)  H2 is what
    finding C02-chain-single-length violates (forward verification keeps one length per offset). -/
theorem chain_exact_partial (g : Gap) (evs : List Ev) (hp : ∀ e, e ∈ evs → e.piece ≤ 1)
    (hH2 : ∀ a b, a ∈ evs → b ∈ evs → a.piece = 0 → b.piece = 0 → a.off = b.off → a.len = b.len)
    (hH1 : evs.Pairwise (fun a b => a.piece = 1 → b.piece = 1 → a.off ≤ b.off + window))
    (hH3 : evs.Pairwise (fun a b => a.piece = 1 → b.piece = 0 → gapOk g (um b) a.off = false))
    (h t : Ev) (hh : h ∈ evs) (ht : t ∈ evs) (hh0 : h.piece = 0) (ht1 : t.piece = 1) (hg : gapOk g (um h) t.off = true) :
    ∃ l, (h.off, l) ∈ (run [g] evs).confirmed :=
  chain2_complete g evs hp hH2 hH1 hH3 h t hh ht hh0 ht1 hg

open YaraModel.ReChain in
/-- the hypotheses are satisfiable and the conclusion non-trivial: `01 02 03 04 [0-300] TAIL`, head at 0, tail at 304 -/
example : (run [{ gmin := 0, gmax := 300 }] [⟨0, 0, 4⟩, ⟨1, 304, 9⟩]).confirmed = [(0, 313)] := by decide

open YaraModel.ReChain in
/-- the former F13 in the model: the same head and tail, but another alternative of the tail piece (atom `AA BB CC DD` at
    305) is verified first — out of start order, inside the window: the head survives the pruning and is confirmed by the
    second candidate.  This is the behaviour of the fixed scanner on
    `{ 01 02 03 04 [0-300] ( AA BB CC DD | 11 ?? ?? ?? ?? 66 77 88 99 ) }`. -/
example : (run [{ gmin := 0, gmax := 300 }] [⟨0, 0, 4⟩, ⟨1, 305, 4⟩, ⟨1, 304, 9⟩]).confirmed = [(0, 313)] := by decide

open YaraModel.ReChain in
/-- H1 is needed: a tail candidate more than `window` bytes out of order (impossible in the real stream) loses the head -/
example : (run [{ gmin := 0, gmax := 300 }] [⟨0, 0, 4⟩, ⟨1, 1400, 4⟩, ⟨1, 304, 9⟩]).confirmed = [] := by decide

open YaraModel.ReChain in
/-- C02-chain-single-length in the model: the head `01 [0-1] 02` matches at 0 with lengths 2 and 3 (H2 fails), only the
    first one is kept, the tail at 3+201 finds no partner -/
example : (run [{ gmin := 201, gmax := 201 }] [⟨0, 0, 2⟩, ⟨0, 0, 3⟩, ⟨1, 204, 1⟩]).confirmed = [] := by decide

open YaraModel.ReChain in
/-- `chain_matches_spec_partial`: chaining end to end.  If the verified head matches are exactly the matches of `pre`, the
    verified tail matches exactly the matches of `post` (inside the data), and H1–H3 hold, then an offset is confirmed
    for the chained string exactly when the UNSPLIT pattern `pre [n-m] post` matches there (split_sem ∘ chain bookkeeping). -/
theorem chain_matches_spec_partial (fl : Flags) (hd : fl.dotall = true) (hw : fl.wide = false) (buf : Bytes) (pre post : Re)
    (n m : Nat) (gr : Bool) (evs : List Ev) (hp : ∀ e, e ∈ evs → e.piece ≤ 1)
    (hheads : ∀ o L, (∃ h, h ∈ evs ∧ h.piece = 0 ∧ h.off = o ∧ h.len = L) ↔ Re.Matches fl buf pre o (o + L))
    (htails : ∀ o L, (∃ t, t ∈ evs ∧ t.piece = 1 ∧ t.off = o ∧ t.len = L) ↔ (Re.Matches fl buf post o (o + L) ∧ o ≤ buf.size))
    (hH2 : ∀ a b, a ∈ evs → b ∈ evs → a.piece = 0 → b.piece = 0 → a.off = b.off → a.len = b.len)
    (hH1 : evs.Pairwise (fun a b => a.piece = 1 → b.piece = 1 → a.off ≤ b.off + window))
    (hH3 : evs.Pairwise (fun a b => a.piece = 1 → b.piece = 0 → gapOk { gmin := n, gmax := m } (um b) a.off = false))
    (o : Nat) :
    (∃ l, (o, l) ∈ (run [{ gmin := n, gmax := m }] evs).confirmed) ↔
      ∃ q, Re.Matches fl buf (.cat pre (.cat (.rangeAny n m gr) post)) o q ∧ (∃ s, s ≤ buf.size ∧ Re.Matches fl buf post s q) := by
  constructor
  · rintro ⟨l, hl⟩
    obtain ⟨h, t, hh, ht, hh0, ht1, hoff, hg, _⟩ := chain2_sound _ evs hp (o, l) hl
    simp only at hoff
    have hm1 := (hheads h.off h.len).1 ⟨h, hh, hh0, rfl, rfl⟩
    have hm2 := (htails t.off t.len).1 ⟨t, ht, ht1, rfl, rfl⟩
    rw [gapOk_iff] at hg
    simp only [um] at hg
    refine ⟨t.off + t.len, ?_, t.off, hm2.2, hm2.1⟩
    rw [split_sem fl hd hw]
    rw [← hoff]
    exact ⟨h.off + h.len, t.off, hm1, hm2.1, by omega, by omega, .inr hm2.2⟩
  · rintro ⟨q, hm, s, hs, hpost⟩
    rw [split_sem fl hd hw] at hm
    obtain ⟨e, s', h1, h2, a1, a2, _⟩ := hm
    -- the tail match used by the concatenation may differ from (s, q); use the one of the concatenation when inside the data
    have hbe := Matches.bounds h1
    have hbq := Matches.bounds h2
    by_cases hs' : s' ≤ buf.size
    · obtain ⟨h, hh, hh0, hho, hhl⟩ := (hheads o (e - o)).2 (by rw [show o + (e - o) = e by omega]; exact h1)
      obtain ⟨t, ht, ht1, hto, htl⟩ := (htails s' (q - s')).2 ⟨by rw [show s' + (q - s') = q by omega]; exact h2, hs'⟩
      have hg : gapOk { gmin := n, gmax := m } (um h) t.off = true := by
        rw [gapOk_iff]
        simp only [um]
        omega
      obtain ⟨l, hl⟩ := chain2_complete _ evs hp hH2 hH1 hH3 h t hh ht hh0 ht1 hg
      exact ⟨l, by rw [← hho]; exact hl⟩
    · -- s' beyond the data forces an empty gap and s' = e ≤ max o |buf|; then e > |buf| means pre matched past the data: o > |buf|
      exfalso
      rename_i hcase
      rcases hcase with rfl | hle
      · have : s' ≤ max o buf.size := hbe.2
        have hq1 : s' ≤ q := hbq.1
        have hq2 : q ≤ max s buf.size := (Matches.bounds hpost).2
        omega
      · exact hs' hle


open YaraModel.ReVm YaraModel.ReEmit in
/-- `vm_sound`: soundness of the bytecode VM on the emitted code of hex strings — with NO fragment restriction: `HexAst r`
    is the set of ASTs hex_grammar.y builds (bytes, `??` and nibble masks, `~` negations, jumps `[n]` `[n-m]`,
    concatenation, alternatives nested to any depth; a jump above 200 is split off as a chain link, the rest are REPEAT_ANY
    instructions with 16-bit operands).  For ALL hex patterns whose code stays below the emitter's int16 jump range, ALL
    buffers and start positions, any nocase / dot-all flags, exhaustive or first-match mode: every length the Lean model of
    `yr_re_exec` (validated against the C function on the real bytecode by the correspondence run) reports on the code
    produced by the Lean model of `_yr_re_emit` (validated byte-for-byte against `yr_re_ast_emit_code`) is a length the
    specification admits at that position.  The proof goes through an abstract machine with the three states of a
    REPEAT_ANY fiber (arriving / waiting for a character / just consumed) and a continuation language per machine state; it
    is the instance for hex ASTs of the theorem for ALL well-formed expressions (Thm/C03 `vm_sound`).
    Backward code: `vm_sound_backward` below.  Separate statements: runs entering the code at an atom's instruction
    (`verify_from_atom_sound`), the converse inclusion (`vm_complete_hex`: every admissible length is reported in
    exhaustive mode); not proved: the fast matcher `yr_re_fast_exec`. -/
theorem vm_sound (r : Re) (hx : HexAst r) (hsz : (emit false r 0).1.length < 32000) (buf : Bytes) (start : Nat) (hst : start ≤ buf.size)
    (fl : VmFlags) (hw : fl.wide = false) (hb : fl.backwards = false) (hsc : fl.scan = false) (fuel : Nat) (m : Int) (c : List Nat)
    (h : exec { code := (emitCode false r).toArray, entry := 0, buf := buf, start := start, fl := fl, syncFuel := fuel } = .done m c) :
    (∀ L, L ∈ c → Re.Matches (specFlags fl) buf r start (start + L)) ∧
    (0 ≤ m → Re.Matches (specFlags fl) buf r start (start + m.toNat)) :=
  vm_sound_wf r hx.wf hsz buf start hst fl hw hb hsc fuel m c h

open YaraModel.ReVm YaraModel.ReEmit in
/-- `vm_sound_backward`: the same for the BACKWARD code of a hex pattern (the bytes before the atom): run with
    RE_FLAGS_BACKWARDS from `start`, every reported length L satisfies L ≤ start and the pattern matches buf[start - L, start).
    For ALL hex ASTs, buffers and start positions (instance of Thm/C03 `vm_sound_backward`). -/
theorem vm_sound_backward (r : Re) (hx : HexAst r) (hsz : (emit true r 0).1.length < 32000) (buf : Bytes) (start : Nat) (hst : start ≤ buf.size)
    (fl : VmFlags) (hb : fl.backwards = true) (hsc : fl.scan = false) (fuel : Nat) (m : Int) (c : List Nat)
    (h : exec { code := (emitCode true r).toArray, entry := 0, buf := buf, start := start, fl := fl, syncFuel := fuel } = .done m c) :
    (∀ L, L ∈ c → L ≤ start ∧ Re.Matches (specFlagsG fl) buf r (start - L) start) ∧
    (0 ≤ m → m.toNat ≤ start ∧ Re.Matches (specFlagsG fl) buf r (start - m.toNat) start) :=
  vm_sound_bwd r hx.wf hsz buf start hst fl hb hsc fuel m c h

open YaraModel.ReEmit in
/-- instance: `41 ( 42 | ?3 44 ) [1-2] ~45` is a hex AST -/
example : HexAst (.cat (.lit 0x41) (.cat (.alt (.lit 0x42) (.cat (.masked 0x03 0x0F) (.lit 0x44))) (.cat (.rangeAny 1 2 false) (.notLit 0x45)))) :=
  .seq (.byte _) (.seq (.alt (.byte _) (.seq (.mask _ _) (.byte _))) (.seq (.jump 1 2 (by decide) (by decide)) (.notByte _)))

open YaraModel.ReVm YaraModel.ReEmit in
/-- instance: `41 ( 42 | ?3 44 ) [1-2] ~45` on `41 13 44 00 00 46`: the VM run on the emitted code reports lengths 6 and 5 -/
example : exec { code := (emitCode false (.cat (.lit 0x41) (.cat (.alt (.lit 0x42) (.cat (.masked 0x03 0x0F) (.lit 0x44))) (.cat (.rangeAny 1 2 false) (.notLit 0x45))))).toArray, entry := 0, buf := #[0x41, 0x13, 0x44, 0x00, 0x00, 0x46], start := 0, fl := { exhaustive := true, dotall := true } } = .done 6 [5, 6] := by decide

open YaraModel.ReVm YaraModel.ReEmit in
/-- `vm_complete_hex`: VM COMPLETENESS for hex patterns, forward code — the converse of `vm_sound`.  `HexG r`: the
    hex ASTs in which the FIRST branch of every alternative begins with a byte-like token (byte, `??`, nibble mask, `~`) or
    a jump that may skip a byte, recursively through nested alternatives — every AST the hex grammar produces
    (`tokens : token | token token | token token_sequence token`: a branch begins and ends with a byte or a nested alternative;
    proved over an inductive description of the grammar: `hexGrammar_builds_HexG`, and CHECKED on the AST of every generated
    string: `hexG_tie_sound`).
    For ALL such patterns, buffers, start positions o = `start` and every match [o, o + L) of the pattern
    (`Re.Matches .. r start (start + L)`) with L within the scan window (RE_SCAN_LIMIT: L ≤ 1024): the exhaustive forward run of
    the executable model of `yr_re_exec` (Model/ReVm.lean `exec`: the fiber list with its de-duplication, `_yr_re_fiber_sync`
    with its executed-split set, the per-position pass) on `emitCode false r` reports the length L.
    How errors are excluded: the hypothesis `exec .. = .done m c` — the run returned a result, i.e. NO error path was taken:
    the fiber list never exceeded the limit (the model's `outOfFuel` outcome = ERROR_TOO_MANY_RE_FIBERS and the fuel bounds
    of sync / pass / loop); no stack-depth error exists for hex code (no REPEAT_START).  Further hypotheses: code below 32000
    bytes (int16 offsets), at most 256 alternatives (`(emit false r 0).2` = number of split ids; yara refuses more than
    RE_MAX_SPLIT_ID = 128), byte mode, not scan mode, RE_FLAGS_EXHAUSTIVE.
    Invariant of the proof (Lemmas/ReComplete.lean, ReCompleteHex.lean): `AccN` — from a stopped fiber there is a path of
    consuming steps to MATCH through fibers that every later top-level sync call is bound to produce; the pass keeps the
    successors of every accepted fiber (de-duplication only drops EQUAL fibers), so the path survives every position.  The
    executed-split set never kills a fiber of the path: split ids are numbered in emission order, hex code only branches
    forwards, and the first branch of an alternative stops inside its own code (`sync_fresh`).
    Scope: `HexG`, not every `HexAst` (the coarser predicate of the soundness theorems).  NOT covered are alternatives whose
    first branch begins with a degenerate jump `[0-0]` (then the second branch may be killed at a split that the first one
    already executed — the fibers are duplicates, but the proof of that is the general visited-set argument); the grammar
    cannot build them (`hexGrammar_builds_HexG`) and the check verifies that on every generated string (`hexG_tie_sound`).
    Also not covered: matches longer than the 1024-byte window (not reported by design), wide mode (hex strings are never
    wide), non-exhaustive mode and runs entering at an atom's instruction (`verify_from_atom_complete`). -/
theorem vm_complete_hex (r : Re) (hg : HexG r) (hsz : (emit false r 0).1.length < 32000) (hid : (emit false r 0).2 ≤ 256)
    (buf : Bytes) (start : Nat) (hst : start ≤ buf.size)
    (fl : VmFlags) (hw : fl.wide = false) (hb : fl.backwards = false) (hsc : fl.scan = false) (hx : fl.exhaustive = true)
    (fuel : Nat) (m : Int) (c : List Nat)
    (h : exec { code := (emitCode false r).toArray, entry := 0, buf := buf, start := start, fl := fl, syncFuel := fuel } = .done m c)
    (L : Nat) (hL : L ≤ 1024) (hm : Re.Matches (specFlags fl) buf r start (start + L)) : L ∈ c :=
  vm_complete_fwd r hg hsz hid buf start hst fl hw hb hsc hx fuel m c h L hL hm

open YaraModel.ReVm YaraModel.ReEmit in
/-- `vm_complete_hex_backward`: the mirrored statement for the BACKWARD code (the bytes before the atom): run with
    RE_FLAGS_BACKWARDS from `start`, every match [start - L, start) of the pattern with L ≤ 1024 has its length reported by the
    exhaustive run on `emitCode true r` that returns without error.  `HexG (rev r)`: the mirrored pattern has the grammar's
    shape (the first branch of every alternative of `r` ENDS with a byte-like token).  Same proof through the
    direction-generic path lemma `acc_hex` (the backward code of `r` is the forward code of `rev r`). -/
theorem vm_complete_hex_backward (r : Re) (hg : HexG (rev r)) (hsz : (emit true r 0).1.length < 32000)
    (hid : (emit true r 0).2 ≤ 256) (buf : Bytes) (start : Nat) (hst : start ≤ buf.size)
    (fl : VmFlags) (hw : fl.wide = false) (hb : fl.backwards = true) (hsc : fl.scan = false) (hx : fl.exhaustive = true)
    (fuel : Nat) (m : Int) (c : List Nat)
    (h : exec { code := (emitCode true r).toArray, entry := 0, buf := buf, start := start, fl := fl, syncFuel := fuel } = .done m c)
    (L : Nat) (hL : L ≤ 1024) (hLs : L ≤ start) (hm : Re.Matches (specFlags fl) buf r (start - L) start) : L ∈ c :=
  vm_complete_bwd r hg hsz hid buf start hst fl hw hb hsc hx fuel m c h L hL hLs hm

open YaraModel.ReEmit in
/-- instance: `41 ( 42 | ?3 44 ) [1-2] ~45` has the grammar's shape, and so has its mirror image -/
example : HexG (.cat (.lit 0x41) (.cat (.alt (.lit 0x42) (.cat (.masked 0x03 0x0F) (.lit 0x44))) (.cat (.rangeAny 1 2 false) (.notLit 0x45)))) ∧
    HexG (rev (.cat (.lit 0x41) (.cat (.alt (.lit 0x42) (.cat (.masked 0x03 0x0F) (.lit 0x44))) (.cat (.rangeAny 1 2 false) (.notLit 0x45))))) :=
  ⟨.seq (.byte _) (.seq (.alt (.byte _) (.seq (.mask _ _) (.byte _)) (.byte _)) (.seq (.jump 1 2 (by decide) (by decide)) (.notByte _))),
   .seq (.seq (.seq (.notByte _) (.jump 1 2 (by decide) (by decide))) (.alt (.byte _) (.seq (.byte _) (.mask _ _)) (.byte _))) (.byte _)⟩

open YaraModel.ReVm YaraModel.ReEmit in
/-- the hypotheses of `vm_complete_hex` are satisfiable together, non-trivially: `41 ( 42 | ?3 44 ) [1-2] ~45` on
    `41 13 44 00 00 46` — the run returns `.done 6 [5, 6]` (no error), the pattern matches [0, 5) through the second branch
    of the alternative and a one-byte jump, and the theorem yields 5 ∈ [5, 6] -/
example : 5 ∈ [5, 6] :=
  vm_complete_hex (.cat (.lit 0x41) (.cat (.alt (.lit 0x42) (.cat (.masked 0x03 0x0F) (.lit 0x44))) (.cat (.rangeAny 1 2 false) (.notLit 0x45))))
    (.seq (.byte _) (.seq (.alt (.byte _) (.seq (.mask _ _) (.byte _)) (.byte _)) (.seq (.jump 1 2 (by decide) (by decide)) (.notByte _))))
    (by decide) (by decide) #[0x41, 0x13, 0x44, 0x00, 0x00, 0x46] 0 (by decide) { exhaustive := true, dotall := true } rfl rfl rfl rfl
    100000 6 [5, 6] (by decide) 5 (by decide) ((Re.ends_iff_Matches _ _ _ _ _).1 (by decide))

open YaraModel.ReAtoms YaraModel.ReEmit in
/-- `reAtoms_cover`: the atoms extracted for a hex string cover its matches, at the positions verification starts from.
    `atomsOf q m r` is the model of what `yr_ac_add_string` receives for the string (walk with the sliding window, trim,
    OR / AND tree, choice, wildcard expansion, wide / nocase variants, or the zero-length atom) for an ARBITRARY quality
    function `q`, i.e. every choice the heuristic could make.  For ALL hex ASTs (nibble / byte / `??` masks), buffers and
    matches [p, q') of the pattern: one of these byte sequences occurs LITERALLY in the buffer at a position `s` inside the
    match such that — for the node `y` the atom begins at, with `c.fill y = r` —
      * the forward code position the model records for the atom (`fwdRef`, compared with the real automaton entries) is the
        entry point `holePos c 0` of `verify_from_atom_sound`, and the backward one (`bwdRef`) is `bwdPos y c 0` behind the
        forward code and its MATCH;
      * the part of the pattern before `y` matches buf[p, s), `y` matches at s, and the rest matches up to q'
    (or the string has the zero-length atom).  With VM completeness from the atom (`verify_from_atom_complete`) this
    yields: every match is verified from its atom (`hex_scan_complete_partial`). -/
theorem reAtoms_cover (q : Atom → Int) (m : Mods) (fl : Flags) (buf : Bytes) (hw1 : fl.wide = true → m.wide = true)
    (hw0 : fl.wide = false → (m.wide = false ∨ m.ascii = true)) (hn : m.nocase = fl.nocase) (r : Re) (hh : HexAst r) (hmk : MaskOK r)
    (p q' : Nat) (hm : Re.Matches fl buf r p q') :
    ∃ x ∈ atomsOf q m r, ∃ s, p ≤ s ∧ s + x.1.length ≤ q' ∧ BytesAt buf x.1 s ∧
      (x.1 = [] ∨ ∃ c y, AtomLeaf y ∧ c.fill y = r ∧ fwdRef r x.2 = some (holePos c 0) ∧
        bwdRef r x.2 = some (bwdPos y c 0 + ReAtoms.clen false r + 1) ∧
        c.Before fl buf y p s ∧ ∃ e, Re.Matches fl buf y s e ∧ c.After fl buf y e q') :=
  flat_cover q m fl buf hw1 hw0 hn r (HexAst.flat hh) hh.wf hmk hm

open YaraModel.ReAtoms in
/-- instance: `10 ?? 41 42 43 ?? 20 30` — the heuristic of atoms.c picks the interior window `41 42 43` (leaf 2) -/
example : (chosen quality (.cat (.lit 0x10) (.cat .any (.cat (.lit 0x41) (.cat (.lit 0x42) (.cat (.lit 0x43) (.cat .any (.cat (.lit 0x20) (.lit 0x30))))))))).map (fun a => a.map (·.byte)) = [[0x41, 0x42, 0x43]] := by decide

open YaraModel.ReVm YaraModel.ReEmit in
/-- `verify_from_atom_sound`: the verification step of the scanner (`_yr_scan_verify_re_match`) is sound for hex strings, for
    EVERY candidate offset — however the automaton found it (soundness of the chain atoms → automaton → scan → verification
    therefore needs nothing about atoms or the automaton).  Let `x` be a byte / masked byte / `??` node of a hex pattern
    (`HexAst (c.fill x)`: the node lies under concatenations and alternatives — every atom position of a hex string); the
    FORWARD code is entered at the node's instruction (`holePos c 0`, the atom's forward_code_ref) and the BACKWARD code
    just behind the node's backward instruction (`bwdPos x c 0`, its backward_code_ref — both positions are compared with
    the real automaton entries on every generated string).  If the forward run from offset `o` reports `lf` and the
    backward run from `o` reports `lb`, then lb ≤ o and the WHOLE pattern matches buf[o - lb, o + lf).  For ALL hex
    ASTs, nodes, buffers, offsets, byte or wide flags.
    Not yet proved: the converse (every match is found from the atom of `reAtoms_cover_partial`: needs VM completeness), and
    the model of the callback that combines the two runs and feeds the match list. -/
theorem verify_from_atom_sound (c : Ctx) (x : Re) (hx : AtomLeaf x) (hh : HexAst (c.fill x))
    (hszf : (emit false (c.fill x) 0).1.length < 32000) (hszb : (emit true (c.fill x) 0).1.length < 32000)
    (buf : Bytes) (o : Nat) (ho : o ≤ buf.size) (flf flb : VmFlags) (hf1 : flf.backwards = false) (hf2 : flf.scan = false)
    (hb1 : flb.backwards = true) (hb2 : flb.scan = false) (hsame : specFlagsG flf = specFlagsG flb)
    (fuel1 fuel2 : Nat) (m1 m2 : Int) (c1 c2 : List Nat)
    (hfw : exec { code := (emitCode false (c.fill x)).toArray, entry := holePos c 0, buf := buf, start := o, fl := flf, syncFuel := fuel1 } = .done m1 c1)
    (hbw : exec { code := (emitCode true (c.fill x)).toArray, entry := bwdPos x c 0, buf := buf, start := o, fl := flb, syncFuel := fuel2 } = .done m2 c2)
    (lf lb : Nat) (hlf : lf ∈ c1) (hlb : lb ∈ c2) :
    lb ≤ o ∧ Re.Matches (specFlagsG flf) buf (c.fill x) (o - lb) (o + lf) :=
  YaraModel.ReEmit.verify_from_atom_sound c (hexAst_ctx hh) x hx hszf hszb buf o ho flf flb hf1 hf2 hb1 hb2 hsame fuel1 fuel2 m1 m2 c1 c2 hfw hbw lf lb hlf hlb

open YaraModel.ReEmit in
/-- instance: in `10 ?? 41 42 43 ?? 20 30` the atom `41 42 43` begins at the third node: forward code position 3, backward
    code position 11 (+ 15 bytes of forward code = the 26 the real automaton entry shows) -/
example : holePos (.catR (.lit 0x10) (.catR .any (.catL .hole (.cat (.lit 0x42) (.cat (.lit 0x43) (.cat .any (.cat (.lit 0x20) (.lit 0x30)))))))) 0 = 3 ∧
    bwdPos (.lit 0x41) (.catR (.lit 0x10) (.catR .any (.catL .hole (.cat (.lit 0x42) (.cat (.lit 0x43) (.cat .any (.cat (.lit 0x20) (.lit 0x30)))))))) 0 = 11 := by decide

open YaraModel.ReVm YaraModel.ReEmit YaraModel.ReScan in
/-- `hex_scan_sound`: the scan of one hex string in one block is sound, end of the chain candidates → verification → match
    callback → match list (Model/ReScan.lean: `_yr_scan_verify_re_match` with the forward run from the entry's forward code and
    the exhaustive backward run from its backward code, `_yr_scan_match_callback`, `_yr_scan_add_match_to_list`).  For ALL hex
    ASTs, buffers, flags and ANY list of candidates whose automaton entries point to the code positions of atom nodes of
    the pattern (`CandOK`: what `reAtoms_cover` shows the atoms model records, compared with the real entries by the checks)
    or are the zero-length atom — no hypothesis on HOW the automaton found them: every (offset, length) in the resulting
    match list is a match of the pattern, buf[offset, offset+length).
    The converse (every match has its offset in the list, given the automaton contract) is `hex_scan_complete_partial`.
    Not proved: the automaton contract itself; the fast matcher `yr_re_fast_exec`; chains of more than two pieces. -/
theorem hex_scan_sound (r : Re) (hh : HexAst r) (hszf : (emit false r 0).1.length < 32000) (hszb : (emit true r 0).1.length < 32000)
    (buf : Bytes) (fl : VmFlags) (fuel : Nat) (cands : List Cand) (hc : ∀ c ∈ cands, CandOK r c ∧ c.off ≤ buf.size) :
    ∀ x ∈ scanHex r buf fl fuel cands, Re.Matches (specFlagsG fl) buf r x.1 (x.1 + x.2) :=
  scanHex_sound r hh.wf hszf hszb buf fl fuel cands hc

open YaraModel.ReScan in
/-- instance: `41 ?? 43` over `x A b C A - C`; the atom `41` (leaf 0: forward entry 0, backward entry 5 = behind the node in the
    backward code `43 ?? 41`) is reported at offsets 1 and 4: the match list is [(1,3), (4,3)] -/
example : scanHex (.cat (.lit 0x41) (.cat .any (.lit 0x43))) #[0x78, 0x41, 0x62, 0x43, 0x41, 0x2d, 0x43] {} 100000
    [⟨0, some 5, 1⟩, ⟨0, some 5, 4⟩] = [(1, 3), (4, 3)] := by decide

open YaraModel.ReEmit YaraModel.ReHexG YaraModel.ReAtoms in
/-- `hexGrammar_builds_HexG`: the hypotheses `HexG r`, `HexG (rev r)`, `MaskOK r` of the completeness theorems hold for
    everything hex_grammar.y can build.  `Gram k r` (Lemmas/ReHexGram.lean) is an inductive description of the ASTs of the
    grammar symbols k = token / `tokens` / rest of a token sequence / `alternatives` / piece of a chained string:
      token        : byte | ~byte | nibble-masked byte | ~masked | ?? | '(' alternatives ')'
      tokens       : token | token (token | jump)* token          — a jump ONLY occurs between tokens, never first or last
      alternatives : tokens | alternatives '|' tokens              — so every alternative begins and ends with a token
      piece        : tokens and jumps, no two jumps adjacent        — the root concatenation cut at its chaining points
    with jumps non-greedy, ordered bounds, upper bound below 65536 (inside parentheses the grammar enforces ≤ 200; every
    larger top-level jump between two siblings is a chaining point and is cut out; consecutive jumps are merged into one by
    the grammar, so no jump directly follows a chaining point).
    For ALL ASTs of every symbol: the AST and its mirror image lie in `HexG`, and its masks are nibble masks.
    (`[0-0]` jumps are legal but only between tokens, so no alternative begins or ends with one.) -/
theorem hexGrammar_builds_HexG (k : Kind) (r : Re) (h : Gram k r) : HexG r ∧ HexG (rev r) ∧ MaskOK r :=
  ⟨(gram_hexG h).1, (gram_hexG h).2.1, (gram_hexG h).2.2.1⟩

open YaraModel.ReEmit YaraModel.ReHexG YaraModel.ReAtoms in
/-- `hexG_tie_sound`: what the C02 run evaluates on the AST the REAL hex parser built for every generated and corpus
    string (driver `rehexg` on every piece of `chainSplit`, vf/checks/re_common.py `check_hexg`; evidence `hexg_checked` /
    `hexg_false`; a string whose piece fails is reported as a violation with the string): the decision procedure
    `gram .piece` is sound for the description `Gram`, hence for the hypotheses of `vm_complete_hex` /
    `hex_scan_complete_partial`; and the decidable `hexG` IS `HexG` (so `hexg_false = 0` means: no generated string left
    the fragment).  Before the fix F73 of /repo one family of legal hex strings lay outside the description
    (a jump with an upper bound ≥ 65536 directly after a chaining point, truncated to 16 bits by the emitter — found by this
    tie, notes/C02-jump-after-chaining-point-truncated.diff); hex_grammar.y now merges consecutive jumps, the description
    forbids adjacent jumps, and the generator of the check produces consecutive jumps. -/
theorem hexG_tie_sound (r : Re) : (gram .piece r = true → HexG r ∧ HexG (rev r) ∧ MaskOK r) ∧ (hexG r = true ↔ HexG r) ∧
    (hexG (mirror r) = true ↔ HexG (rev r)) ∧ (maskOK r = true → MaskOK r) :=
  ⟨fun h => hexGrammar_builds_HexG .piece r (gram_sound r .piece h), hexG_iff r, by rw [mirror_eq_rev]; exact hexG_iff _, maskOK_sound⟩

open YaraModel.ReHexG in
/-- instances: `41 ( 42 [0-0] 43 | ?3 44 ) [1-2] ~45` is a `tokens`; a piece may begin with a jump; an alternative may not -/
example : gram .toks (.cat (.lit 0x41) (.cat (.alt (.cat (.lit 0x42) (.cat (.rangeAny 0 0 false) (.lit 0x43))) (.cat (.masked 0x03 0x0F) (.lit 0x44))) (.cat (.rangeAny 1 2 false) (.notLit 0x45)))) = true ∧
    gram .piece (.cat (.rangeAny 0 0 false) (.lit 0x42)) = true ∧
    gram .piece (.cat (.rangeAny 1 2 false) (.cat (.rangeAny 3 4 false) (.lit 0x42))) = false ∧
    gram .toks (.alt (.cat (.rangeAny 0 0 false) (.lit 0x41)) (.lit 0x42)) = false ∧
    hexG (.alt (.cat (.rangeAny 0 0 false) (.lit 0x41)) (.lit 0x42)) = false := by decide

open YaraModel.ReVm YaraModel.ReEmit in
/-- `verify_from_atom_complete`: the converse of `verify_from_atom_sound` — the verification step finds every match
    that runs through the atom.  Let `x` be a byte / masked byte / `??` node of a grammar-shaped hex pattern `c.fill x`
    (`HexG` of the pattern and of its mirror image), `o` any offset; if the part before `x` matches buf[o - lb, o), `x` matches
    at `o` and the rest matches up to o + lf (lb, lf ≤ 1024: the scan window), then
      * the FORWARD run entered at the node's instruction (`holePos c 0`) that ends without error has a result ≥ 0 —
        in ANY mode (the scanner runs it non-exhaustively) — and reports lf when it is exhaustive;
      * the exhaustive BACKWARD run entered behind the node's backward instruction (`bwdPos x c 0`) reports lb.
    Scope: `HexG` (everything the grammar builds, see `vm_complete_hex`), byte mode. -/
theorem verify_from_atom_complete (c : Ctx) (x : Re) (hx : AtomLeaf x) (hg : HexG (c.fill x)) (hgr : HexG (rev (c.fill x)))
    (hszf : (emit false (c.fill x) 0).1.length < 32000) (hidf : (emit false (c.fill x) 0).2 ≤ 256)
    (hszb : (emit true (c.fill x) 0).1.length < 32000) (hidb : (emit true (c.fill x) 0).2 ≤ 256)
    (buf : Bytes) (o : Nat) (ho : o ≤ buf.size) (flf flb : VmFlags)
    (hf0 : flf.wide = false) (hf1 : flf.backwards = false) (hf2 : flf.scan = false)
    (hb0 : flb.wide = false) (hb1 : flb.backwards = true) (hb2 : flb.scan = false) (hb3 : flb.exhaustive = true)
    (hsame : specFlags flf = specFlags flb) (fuel1 fuel2 : Nat) (m1 m2 : Int) (c1 c2 : List Nat)
    (hfw : exec { code := (emitCode false (c.fill x)).toArray, entry := holePos c 0, buf := buf, start := o, fl := flf, syncFuel := fuel1 } = .done m1 c1)
    (hbw : exec { code := (emitCode true (c.fill x)).toArray, entry := bwdPos x c 0, buf := buf, start := o, fl := flb, syncFuel := fuel2 } = .done m2 c2)
    (lb e1 lf : Nat) (hlb : lb ≤ 1024) (hlo : lb ≤ o) (hlf : lf ≤ 1024)
    (hbef : c.Before (specFlags flf) buf x (o - lb) o) (hm : Re.Matches (specFlags flf) buf x o (o + e1))
    (haf : c.After (specFlags flf) buf x (o + e1) (o + lf)) :
    0 ≤ m1 ∧ (flf.exhaustive = true → lf ∈ c1) ∧ lb ∈ c2 := by
  obtain ⟨k1, k2⟩ := vm_complete_from_atom_fwd c x hx hg hszf hidf buf o ho flf hf0 hf1 hf2 fuel1 m1 c1 hfw e1 lf hlf hm haf
  rw [hsame] at hbef
  exact ⟨k1, k2, (vm_complete_from_atom_bwd c x hx hgr hszb hidb buf o ho flb hb0 hb1 hb2 fuel2 m2 c2 hbw lb hlb hlo hbef).2 hb3⟩

open YaraModel.ReVm YaraModel.ReEmit in
/-- the hypotheses of `verify_from_atom_complete` are satisfiable together: `10 41 ?? 43` over `x 10 A b C`, the atom
    node `41` (forward entry 2, backward entry 5) at offset 2 — the non-exhaustive forward run returns `.done 3 []`, the
    exhaustive backward run `.done 1 [1]`; the match [1, 5) runs through the node, and the theorem yields 0 ≤ 3 and 1 ∈ [1] -/
example : (0 : Int) ≤ 3 ∧ (({} : VmFlags).exhaustive = true → 3 ∈ ([] : List Nat)) ∧ 1 ∈ [1] :=
  verify_from_atom_complete (.catR (.lit 0x10) (.catL .hole (.cat .any (.lit 0x43)))) (.lit 0x41) (.inl ⟨_, rfl⟩)
    (.seq (.byte _) (.seq (.byte _) (.seq .wild (.byte _)))) (.seq (.seq (.seq (.byte _) .wild) (.byte _)) (.byte _))
    (by decide) (by decide) (by decide) (by decide) #[0x78, 0x10, 0x41, 0x62, 0x43] 2 (by decide) {} { backwards := true, exhaustive := true }
    rfl rfl rfl rfl rfl rfl rfl rfl 1000 1000 3 1 [] [1] (by decide) (by decide) 1 1 3 (by decide) (by decide) (by decide)
    ⟨2, (Re.ends_iff_Matches _ _ _ _ _).1 (by decide), rfl⟩ ((Re.ends_iff_Matches _ _ _ _ _).1 (by decide))
    ⟨3, rfl, (Re.ends_iff_Matches _ _ _ _ _).1 (by decide)⟩

open YaraModel.ReVm YaraModel.ReEmit YaraModel.ReScan YaraModel.ReAtoms in
/-- `hex_scan_complete_partial`: COMPLETENESS of the scan of one hex string in one block, the converse of `hex_scan_sound`,
    over the model chain atoms → candidates → verification (non-exhaustive forward run from the atom node's instruction,
    exhaustive backward run from behind it) → match callback → match list (Model/ReAtoms.lean, Model/ReScan.lean).
    For ALL grammar-shaped hex patterns (`HexG r` and `HexG (rev r)`: the first branch of every alternative begins AND ends
    with a byte-like token — what the hex grammar produces), every quality function of the atom heuristic, all buffers
    and every match [p, q') of the pattern at most 1024 bytes long: the match list of the string contains an entry at
    offset p.  (Which length is recorded for the offset is the one the non-exhaustive forward run prefers; it is a match
    length by `hex_scan_sound`.)
    Hypotheses, precisely:
      * `hcands` — the AUTOMATON CONTRACT, not proved here: wherever the bytes of an atom handed to `yr_ac_add_string` occur
        literally in the buffer, the candidate list holds the entry with the atom's code positions at that offset
        (`fwdRef` / `bwdRef` of the atoms model, compared with the real automaton entries by the checks); for a string
        without atoms (zero-length atom) a candidate at every offset;
      * `hrun` — no verification run ends in an error (fiber limit / fuel: the model's `outOfFuel`);
      * at most 256 alternatives, code below 32000 bytes, byte mode, modifiers consistent with the flags.
    Proof chain: `reAtoms_cover` (an atom occurs literally inside the match, at the node where the pattern splits into
    before / node / after) → `verifyOne_complete` (`vm_complete_from_atom_fwd`: the forward run from the node's instruction
    ends with a result ≥ 0 — KILL_TAIL only drops fibers after a result is set; `vm_complete_from_atom_bwd`: the exhaustive
    backward run reports the length of the part before the node) → `scanHex_has` (the match list only grows and holds every
    offset handed to the callback).
    `_partial`: the automaton (hcands) is a hypothesis; masked atoms rely on it as well; matches longer than 1024 bytes on
    either side of the atom, the fast matcher `yr_re_fast_exec`, chained strings (pieces re-joined by `chain_sound`) and
    wide / nocase-wide variants are not covered; alternatives with a branch beginning or ending with `[0-0]` neither. -/
theorem hex_scan_complete_partial (q : Atom → Int) (m : Mods) (r : Re) (hg : HexG r) (hgr : HexG (rev r)) (hmk : MaskOK r)
    (hszf : (emit false r 0).1.length < 32000) (hidf : (emit false r 0).2 ≤ 256)
    (hszb : (emit true r 0).1.length < 32000) (hidb : (emit true r 0).2 ≤ 256)
    (buf : Bytes) (fl : VmFlags) (hw : fl.wide = false) (hw0 : m.wide = false ∨ m.ascii = true) (hn : m.nocase = fl.nocase)
    (fuel : Nat) (cands : List Cand)
    (hcands : ∀ x ∈ atomsOf q m r, ∀ s, s ≤ buf.size → BytesAt buf x.1 s →
      (x.1 = [] → (⟨0, none, s⟩ : Cand) ∈ cands) ∧
      (∀ f b, fwdRef r x.2 = some f → bwdRef r x.2 = some (b + ReAtoms.clen false r + 1) → (⟨f, some b, s⟩ : Cand) ∈ cands))
    (hrun : ∀ c ∈ cands,
      (∃ m1 c1, exec { code := (emitCode false r).toArray, entry := c.fwd, buf := buf, start := c.off, fl := fwdFlags fl, syncFuel := fuel } = .done m1 c1) ∧
      (∀ b, c.bwd = some b → ∃ m2 c2, exec { code := (emitCode true r).toArray, entry := b, buf := buf, start := c.off, fl := bwdFlags fl, syncFuel := fuel } = .done m2 c2))
    (p q' : Nat) (hp : p ≤ buf.size) (hm : Re.Matches (specFlags fl) buf r p q') (hwin : q' - p ≤ 1024) :
    ∃ len, (p, len) ∈ scanHex r buf fl fuel cands := by
  have hb := Matches.bounds hm
  obtain ⟨x, hx, s, h1, h2, h3, h4⟩ := reAtoms_cover q m (specFlags fl) buf (fun h => by cases h) (fun _ => hw0) hn r hg.hexAst hmk p q' hm
  rcases h4 with h0 | ⟨c, y, hy, hfill, hf, hbr, hbef, e, hmy, haf⟩
  · -- the zero-length atom: the candidate at p
    have hc := (hcands x hx p (by omega) (by rw [h0]; trivial)).1 h0
    obtain ⟨⟨m1, c1, hfw⟩, _⟩ := hrun _ hc
    obtain ⟨_, k⟩ := verifyOne_complete_zero r hg hszf hidf buf fl hw fuel p (by omega) m1 c1 hfw q' hm hwin
    exact scanHex_has r buf fl fuel cands _ hc _ k
  · have hs : s ≤ buf.size := by omega
    have hc := (hcands x hx s hs h3).2 _ _ hf hbr
    obtain ⟨⟨m1, c1, hfw⟩, hbw⟩ := hrun _ hc
    obtain ⟨m2, c2, hbw⟩ := hbw _ rfl
    subst hfill
    have b1 := before_le hbef
    have b2 := Matches.bounds hmy
    have b3 := after_le haf
    obtain ⟨_, k⟩ := verifyOne_complete c y hy hg hgr hszf hidf hszb hidb buf fl hw fuel s hs m1 c1 hfw m2 c2 hbw p e q' hbef hmy haf
      (by omega) (by omega)
    exact scanHex_has (c.fill y) buf fl fuel cands _ hc _ k

open YaraModel.ReScan in
/-- instance (the example of `hex_scan_sound`): `41 ?? 43` over `x A b C A - C` with the candidates of the atom `41` at offsets
    1 and 4 — both matches [1,4) and [4,7) have their offsets in the match list -/
example : (1, 3) ∈ scanHex (.cat (.lit 0x41) (.cat .any (.lit 0x43))) #[0x78, 0x41, 0x62, 0x43, 0x41, 0x2d, 0x43] {} 100000
    [⟨0, some 5, 1⟩, ⟨0, some 5, 4⟩] ∧
    (4, 3) ∈ scanHex (.cat (.lit 0x41) (.cat .any (.lit 0x43))) #[0x78, 0x41, 0x62, 0x43, 0x41, 0x2d, 0x43] {} 100000
    [⟨0, some 5, 1⟩, ⟨0, some 5, 4⟩] := by decide

open YaraModel.ReSplit in
/-- `chain_split_sem`: splitting a string at its chaining points preserves its language.  `chainSplit r` is the model of
    `yr_re_ast_split_at_chaining_point` applied until no chaining point is left: a chaining point is a top-level child of the
    root concatenation that is a non-greedy jump `[n-m]` with n > 200 or m > 200 (YR_STRING_CHAINING_THRESHOLD) — whatever its
    WIDTH m - n, fixed jumps `[n]` included — and that has a previous and a next sibling in the remaining concatenation.
    For ALL patterns, buffers and positions (byte mode, jumps match any byte): `r` matches [p, q) iff the head piece and the
    further pieces match one after the other with every gap s - e inside [gap_min, gap_max] of its jump — the re-joining
    rule `ending_offset + chain_gap_min ≤ match_offset ≤ ending_offset + chain_gap_max` of scan.c (`split_sem` for every
    chaining point of the decision function).  The pieces and gaps of the model are compared with the chain the real
    compiler builds (one YR_STRING per piece, chained_to, chain_gap_min / max) for every generated string. -/
theorem chain_split_sem (fl : Flags) (hd : fl.dotall = true) (hw : fl.wide = false) (buf : Bytes) (r : Re) (p q : Nat) :
    Re.Matches fl buf r p q ↔ ChainM fl buf (chainSplit r).1 (chainSplit r).2 p q :=
  chainSplit_sem hd hw r p q

open YaraModel.ReSplit in
/-- instances: `01 02 [1017] 03 04` and `01 02 [2000-2199] 03` are chains of two pieces (fixed and narrow large jumps),
    `01 02 [200] 03 04` is one piece -/
example : (chainSplit (.cat (.lit 1) (.cat (.lit 2) (.cat (.rangeAny 1017 1017 false) (.cat (.lit 3) (.lit 4)))))).2.map (fun gp => (gp.1.gmin, gp.1.gmax)) = [(1017, 1017)] ∧
    (chainSplit (.cat (.lit 1) (.cat (.lit 2) (.cat (.rangeAny 2000 2199 false) (.lit 3))))).2.map (fun gp => (gp.1.gmin, gp.1.gmax)) = [(2000, 2199)] ∧
    (chainSplit (.cat (.lit 1) (.cat (.lit 2) (.cat (.rangeAny 200 200 false) (.cat (.lit 3) (.lit 4)))))).2 = [] := by decide

end YaraModel.C02
