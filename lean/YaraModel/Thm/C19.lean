/-
  C19 — Compiled rules do not depend on how internal storage grew.
  Property theorems only (helpers: Lemmas/Arena*.lean).  The arena model is Model/Arena.lean
  (arena.c); `abs a` is the address-free content of an arena: every buffer's bytes with each
  registered pointer slot replaced by the (buffer, offset) it denotes, plus the relocation list.
  All statements hold for every arena satisfying the protocol `WF`, every buffer, every capacity
  and every address the allocator may return (`Fresh`).
-/
import YaraModel.Lemmas.ArenaExample
namespace YaraModel.Arena
open YaraModel.Gen.ArenaLayout

/-- **Relocation is invisible.** When buffer `b` grows to any capacity `nc` and realloc returns any
    admissible block `newBase` (the old block extended in place, or a block elsewhere: then the fix-up
    loop runs over the relocation list), the abstract arena is unchanged: no registered pointer is
    left stale, no other byte changes. -/
theorem grow_abs {a : Arena} (h : WF a) {b newBase nc : Nat} (hb : b < a.bufs.length)
    (hf : Fresh a b newBase nc) (zero : Bool) :
    abs (growBuf a b newBase nc zero) = abs a :=
  abs_growBuf h hb hf zero

/-- the hypotheses are satisfiable: a three-buffer arena with two registered pointers whose buffer 1
    (the target of one of them) is moved by realloc from 0x1000 to 0x10000 -/
example : abs (growBuf exArena 1 65536 64 false) = abs exArena :=
  grow_abs exArena_wf (by decide) exArena_fresh false

/-- … and the move really happened and really rewrote the pointer (the statement is not vacuous) -/
example : getSlot (growBuf exArena 1 65536 64 false) ⟨0, 0⟩ = 65538 ∧ getSlot exArena ⟨0, 0⟩ = 4098 := by decide

/-- The bytes written by `yr_arena_save_stream` are a function of the abstract arena alone
    (never of addresses or capacities). -/
theorem save_of_abs (a : Arena) : save a = saveOfAbs (abs a) := by
  unfold save saveOfAbs abs
  have hl : (bodies (toRefs a)).length = a.bufs.length := by
    rw [toRefs_eq]; simp [bodies]
  have hm : (bodies (toRefs a)).map (·.length) = (bodies a).map (·.length) := by
    rw [toRefs_eq]
    have := keys_mapSlots (fun v => encRef (ptrToRef a.bufs v).2) a.relocs a
    have h2 := congrArg (List.map Prod.snd) this
    simpa [bodies, key, List.map_map, Function.comp_def] using h2
  simp only [hl, hm]

/-- Two arenas with the same abstract content serialise to identical bytes. -/
theorem save_eq_of_abs_eq {a a' : Arena} (h : abs a = abs a') : save a = save a' := by
  rw [save_of_abs, save_of_abs, h]

/-- Hence a growth at any point, to any capacity, at any address, does not change what a later
    save writes. -/
theorem grow_save {a : Arena} (h : WF a) {b newBase nc : Nat} (hb : b < a.bufs.length)
    (hf : Fresh a b newBase nc) (zero : Bool) :
    save (growBuf a b newBase nc zero) = save a :=
  save_eq_of_abs_eq (grow_abs h hb hf zero)

end YaraModel.Arena
