/-
  C19 — Compiled rules do not depend on how internal storage grew.
  Property theorems only (helpers: Lemmas/Arena*.lean).  The arena model is Model/Arena.lean
  (arena.c); `abs a` is the address-free content of an arena: every buffer's bytes with each
  registered pointer slot replaced by the (buffer, offset) it denotes, plus the relocation list.
  All statements hold for every arena satisfying the protocol `WF`, every buffer, every capacity
  and every address the allocator may return (`Fresh`).
-/
import YaraModel.Lemmas.ArenaExample
import YaraModel.Lemmas.ArenaGrow
import YaraModel.Lemmas.ArenaSeq
namespace YaraModel.Arena
open YaraModel.Gen.ArenaLayout

/-- **Relocation is invisible.** When buffer `b` grows to any capacity `nc` and realloc returns any
    admissible block `newBase` (the old block extended in place, or a block elsewhere: then the fix-up
    loop runs over the relocation list), the abstract arena is unchanged: no registered pointer is
    left stale, no other byte changes. -/
theorem grow_abs {a : Arena} (h : WF a) {b newBase nc : Nat} (hb : b < a.bufs.length)
    (hf : Fresh a b newBase nc) (zero : Bool) :
    abs (growBuf a b newBase nc zero) = abs a :=
  abs_growBuf h hb hf zero

/-- the hypotheses are satisfiable: a three-buffer arena with two registered pointers whose buffer 1
    (the target of one of them) is moved by realloc from 0x1000 to 0x10000 -/
example : abs (growBuf exArena 1 65536 64 false) = abs exArena :=
  grow_abs exArena_wf (by decide) exArena_fresh false

/-- … and the move really happened and really rewrote the pointer (the statement is not vacuous) -/
example : getSlot (growBuf exArena 1 65536 64 false) ⟨0, 0⟩ = 65538 ∧ getSlot exArena ⟨0, 0⟩ = 4098 := by decide

/-- **No stale reference.** After the growth the protocol still holds: every registered slot holds null
    or a pointer into the used bytes of a buffer *at its new address*. -/
theorem grow_wf {a : Arena} (h : WF a) {b newBase nc : Nat} (hb : b < a.bufs.length)
    (hf : Fresh a b newBase nc) (zero : Bool) : WF (growBuf a b newBase nc zero) :=
  wf_growBuf h hb hf zero

/-- **One allocation is a function of the abstract arena.** Whatever the buffer's capacity, the
    always-move hook and the allocator's (admissible) answer: the bytes are appended to the body of
    buffer `b`, nothing else changes, the protocol is preserved. -/
theorem alloc_abs (cfg : Cfg) (nb : Nat) {a : Arena} (h : WF a) (hinit : 0 < a.init) {b : Nat} {zero : Bool} {fill : Bytes}
    {a' : Arena} {r : Ref} (hres : allocMem cfg nb a b zero fill = .ok (a', r))
    (hfresh : AllocFresh cfg nb a b fill.length) (hsz : (a.bufAt b).data.length + fill.length < 2 ^ 32) :
    WF a' ∧ abs a' = absAppend (abs a) b fill ∧ r = ⟨b, (a.bufAt b).data.length⟩ :=
  let ⟨h1, h2, h3, _⟩ := allocMem_spec cfg nb h hinit hres hfresh hsz
  ⟨h1, h2, h3⟩

/-- **Any allocation sequence, any initial capacity, any move schedule** (partial: the sequence
    consists of allocations — write_data / zeroed memory / the memory of a struct — into an arena that
    may already hold arbitrarily many registered pointers; operations that register new slots or
    store pointers are not part of the sequence).  Two runs of the same requests, started from arenas
    with the same abstract content but different initial sizes, capacities, addresses, hook settings
    and allocator answers, end in arenas with the same abstract content, hence (`save_eq_of_abs_eq`)
    the same saved bytes.
    Full statement (not proved): the same for sequences of all `Op`s (`run`). -/
theorem alloc_seq_abs_partial (cfg₁ cfg₂ : Cfg) (reqs : List Req) :
    ∀ (bases₁ bases₂ : List Nat) (a₁ a₂ a₁' a₂' : Arena), WF a₁ → WF a₂ → 0 < a₁.init → 0 < a₂.init → abs a₁ = abs a₂ →
      Admissible cfg₁ bases₁ a₁ reqs → Admissible cfg₂ bases₂ a₂ reqs →
      runAllocs cfg₁ bases₁ a₁ reqs = .ok a₁' → runAllocs cfg₂ bases₂ a₂ reqs = .ok a₂' →
      abs a₁' = abs a₂' ∧ WF a₁' ∧ WF a₂' := by
  induction reqs with
  | nil =>
    intro bases₁ bases₂ a₁ a₂ a₁' a₂' h₁ h₂ _ _ habs _ _ hr₁ hr₂
    rw [runAllocs_nil] at hr₁ hr₂
    simp only [Except.ok.injEq] at hr₁ hr₂
    subst hr₁; subst hr₂
    exact ⟨habs, h₁, h₂⟩
  | cons q qs ih =>
    intro bases₁ bases₂ a₁ a₂ a₁' a₂' h₁ h₂ hi₁ hi₂ habs had₁ had₂ hr₁ hr₂
    cases bases₁ with
    | nil => rw [runAllocs_short] at hr₁; cases hr₁
    | cons nb₁ nbs₁ =>
      cases bases₂ with
      | nil => rw [runAllocs_short] at hr₂; cases hr₂
      | cons nb₂ nbs₂ =>
        rw [runAllocs_cons] at hr₁ hr₂
        obtain ⟨hf₁, hz₁, hn₁⟩ := had₁
        obtain ⟨hf₂, hz₂, hn₂⟩ := had₂
        cases e₁ : allocMem cfg₁ nb₁ a₁ q.b q.zero q.fill with
        | error e => rw [e₁] at hr₁; cases hr₁
        | ok p₁ =>
          cases e₂ : allocMem cfg₂ nb₂ a₂ q.b q.zero q.fill with
          | error e => rw [e₂] at hr₂; cases hr₂
          | ok p₂ =>
            obtain ⟨b₁, r₁⟩ := p₁
            obtain ⟨b₂, r₂⟩ := p₂
            rw [e₁] at hr₁; rw [e₂] at hr₂
            have s₁ := allocMem_spec cfg₁ nb₁ h₁ hi₁ e₁ hf₁ hz₁
            have s₂ := allocMem_spec cfg₂ nb₂ h₂ hi₂ e₂ hf₂ hz₂
            exact ih nbs₁ nbs₂ b₁ b₂ a₁' a₂' s₁.1 s₂.1 (by rw [s₁.2.2.2]; exact hi₁) (by rw [s₂.2.2.2]; exact hi₂)
              (by rw [s₁.2.1, s₂.2.1, habs]) (hn₁ _ _ e₁) (hn₂ _ _ e₂) hr₁ hr₂

/-- the hypotheses of the sequence theorem are satisfiable: 9 bytes written to buffer 1 of the example arena
    (capacity 8, 4 used) make it grow; one run lets realloc move the block to 0x10000, the other run has the
    always-move hook on and gets 0x30000: both runs succeed and are admissible -/
example : ∃ a₁' a₂', runAllocs {} [65536] exArena [⟨1, false, [1, 2, 3, 4, 5, 6, 7, 8, 9]⟩] = .ok a₁' ∧
    runAllocs { alwaysMove := true } [196608] exArena [⟨1, false, [1, 2, 3, 4, 5, 6, 7, 8, 9]⟩] = .ok a₂' ∧
    Admissible {} [65536] exArena [⟨1, false, [1, 2, 3, 4, 5, 6, 7, 8, 9]⟩] ∧
    Admissible { alwaysMove := true } [196608] exArena [⟨1, false, [1, 2, 3, 4, 5, 6, 7, 8, 9]⟩] := by
  have fresh : ∀ nb nc, nb = 65536 ∨ nb = 196608 → nc = 16 → Fresh exArena 1 nb nc := by
    intro nb nc hnb hnc
    subst hnc
    refine ⟨by omega, ⟨by decide, by omega⟩, ?_, by rcases hnb with rfl | rfl <;> decide⟩
    intro j hj hne
    have : j = 0 ∨ j = 2 := by have : j < 3 := hj; omega
    rcases this with rfl | rfl <;> rcases hnb with rfl | rfl <;> decide
  refine ⟨_, _, rfl, rfl, ⟨fun _ => fresh _ _ (Or.inl rfl) (by decide), by decide, fun _ _ _ => trivial⟩,
    ⟨fun _ => fresh _ _ (Or.inr rfl) (by decide), by decide, fun _ _ _ => trivial⟩⟩

/-- The bytes written by `yr_arena_save_stream` are a function of the abstract arena alone
    (never of addresses or capacities). -/
theorem save_of_abs (a : Arena) : save a = saveOfAbs (abs a) := by
  unfold save saveOfAbs abs
  have hl : (bodies (toRefs a)).length = a.bufs.length := by
    rw [toRefs_eq]; simp [bodies]
  have hm : (bodies (toRefs a)).map (·.length) = (bodies a).map (·.length) := by
    rw [toRefs_eq]
    have := keys_mapSlots (fun v => encRef (ptrToRef a.bufs v).2) a.relocs a
    have h2 := congrArg (List.map Prod.snd) this
    simpa [bodies, key, List.map_map, Function.comp_def] using h2
  simp only [hl, hm]

/-- Two arenas with the same abstract content serialise to identical bytes. -/
theorem save_eq_of_abs_eq {a a' : Arena} (h : abs a = abs a') : save a = save a' := by
  rw [save_of_abs, save_of_abs, h]

/-- Hence a growth at any point, to any capacity, at any address, does not change what a later
    save writes. -/
theorem grow_save {a : Arena} (h : WF a) {b newBase nc : Nat} (hb : b < a.bufs.length)
    (hf : Fresh a b newBase nc) (zero : Bool) :
    save (growBuf a b newBase nc zero) = save a :=
  save_eq_of_abs_eq (grow_abs h hb hf zero)

end YaraModel.Arena
